package main

import (
	"fmt"
	"go/ast"
	"go/token"
	"go/types"
	"sort"
	"strings"

	"golang.org/x/tools/go/ssa"
)

func init() { properties["C10"] = propC10 }

// E10 gidsort: old/new glyph-id provenance in the subsetter.

type gidSort int

const (
	gsNone gidSort = iota // not a glyph id / constant
	gsOld
	gsNew
	gsMixed
)

func (s gidSort) String() string {
	return [...]string{"constant", "old numbering", "new numbering", "old or new numbering"}[s]
}

func isGlyphID(t types.Type) bool {
	n, ok := t.(*types.Named)
	return ok && n.Obj().Name() == "ID" && n.Obj().Pkg() != nil && strings.HasSuffix(n.Obj().Pkg().Path(), "/glyph")
}

func containsGlyphID(t types.Type) bool {
	if isGlyphID(t) {
		return true
	}
	if st, ok := t.Underlying().(*types.Struct); ok {
		for i := 0; i < st.NumFields(); i++ {
			if isGlyphID(st.Field(i).Type()) {
				return true
			}
		}
	}
	return false
}

type gidAnalysis struct {
	fn    *ssa.Function
	sorts map[ssa.Value]gidSort
}

// isNewSource: values that are new glyph ids by construction.
func (g *gidAnalysis) isNewSource(v ssa.Value) bool {
	switch x := v.(type) {
	case *ssa.Lookup:
		// s.newGid[old] / gidMap[old]: value of a map glyph.ID -> glyph.ID whose name says new
		if m, ok := x.X.Type().Underlying().(*types.Map); ok && isGlyphID(m.Key()) && isGlyphID(m.Elem()) {
			return true
		}
	case *ssa.Extract:
		if lk, ok := x.Tuple.(*ssa.Lookup); ok && x.Index == 0 {
			return g.isNewSource(lk)
		}
		// the value of an entry of a table that a subsetting method returned (already renumbered)
		if nx, ok := x.Tuple.(*ssa.Next); ok && x.Index == 2 {
			if rg, ok := nx.Iter.(*ssa.Range); ok {
				src := rg.X
				for n := 0; n < 8; n++ {
					switch y := src.(type) {
					case *ssa.Extract:
						if ta, ok := y.Tuple.(*ssa.TypeAssert); ok {
							src = ta
							continue
						}
					case *ssa.TypeAssert:
						src = y.X
						continue
					case *ssa.ChangeInterface:
						src = y.X
						continue
					case *ssa.MakeInterface:
						src = y.X
						continue
					case *ssa.ChangeType:
						src = y.X
						continue
					}
					break
				}
				if call, ok := src.(*ssa.Call); ok {
					if callee := call.Call.StaticCallee(); callee != nil && strings.HasPrefix(callee.Name(), "Subset") && callee.Signature.Recv() != nil && strings.HasSuffix(callee.Signature.Recv().Type().String(), ".subsetter") {
						return true
					}
				}
			}
		}
		// range over a []glyph.ID (list of old ids): the key is the new id, handled in Convert
	case *ssa.Call:
		if callee := x.Call.StaticCallee(); callee != nil && callee.Name() == "getNewGid" {
			return true
		}
	case *ssa.Convert:
		// glyph.ID(<int>) where the int is an index into / the length of the list of retained glyphs
		if isGlyphID(x.Type()) && isIntegerType(x.X.Type()) && !isGlyphID(x.X.Type()) {
			return g.intIsNewIndex(x.X)
		}
	}
	return false
}

// intIsNewIndex: the integer is a position in the retained-glyph list (range
// key over a []glyph.ID, len of it, or a counter compared with it).
func (g *gidAnalysis) intIsNewIndex(v ssa.Value) bool {
	for x := range backSlice(v) {
		switch y := x.(type) {
		case *ssa.Call:
			if bi, ok := y.Call.Value.(*ssa.Builtin); ok && bi.Name() == "len" {
				if sl, ok := y.Call.Args[0].Type().Underlying().(*types.Slice); ok && isGlyphID(sl.Elem()) {
					return true
				}
			}
		case *ssa.Phi:
			// a range index over a []glyph.ID: the phi feeds an IndexAddr on such a slice
			for _, ref := range *y.Referrers() {
				if bo, ok := ref.(*ssa.BinOp); ok && bo.Op == token.ADD {
					for _, r2 := range *bo.Referrers() {
						if ia, ok := r2.(*ssa.IndexAddr); ok {
							if sl, ok := ia.X.Type().Underlying().(*types.Slice); ok && isGlyphID(sl.Elem()) {
								return true
							}
						}
					}
				}
			}
		}
	}
	return false
}

func (g *gidAnalysis) sortOf(v ssa.Value) gidSort {
	if s, ok := g.sorts[v]; ok {
		return s
	}
	g.sorts[v] = gsNone // cycle guard
	res := gsNone
	join := func(a, b gidSort) gidSort {
		switch {
		case a == gsNone:
			return b
		case b == gsNone:
			return a
		case a == b:
			return a
		}
		return gsMixed
	}
	switch x := v.(type) {
	case *ssa.Const:
		res = gsNone
	default:
		if g.isNewSource(v) {
			res = gsNew
			break
		}
		switch y := x.(type) {
		case *ssa.Phi:
			for _, e := range y.Edges {
				res = join(res, g.sortOf(e))
			}
		case *ssa.BinOp:
			res = join(g.sortOf(y.X), g.sortOf(y.Y))
			if res == gsNone && containsGlyphID(y.Type()) {
				res = gsOld
			}
		case *ssa.Convert:
			res = g.sortOf(y.X)
			if res == gsNone && isGlyphID(y.Type()) {
				res = gsOld
			}
		case *ssa.ChangeType:
			res = g.sortOf(y.X)
		case *ssa.UnOp:
			// a struct value assembled in a local composite literal: join of its glyph-id fields
			if al, ok := y.X.(*ssa.Alloc); ok && y.Op == token.MUL {
				found := false
				for _, ref := range *al.Referrers() {
					if fa, ok := ref.(*ssa.FieldAddr); ok {
						for _, r2 := range *fa.Referrers() {
							if st, ok := r2.(*ssa.Store); ok && containsGlyphID(st.Val.Type()) {
								res = join(res, g.sortOf(st.Val))
								found = true
							}
						}
					}
				}
				if found {
					break
				}
			}
			if containsGlyphID(v.Type()) {
				res = gsOld
			}
		default:
			if containsGlyphID(v.Type()) {
				res = gsOld // read from an existing structure, a parameter, a range value …
			}
		}
	}
	g.sorts[v] = res
	return res
}

// outputContainer: the written container is part of the subset being built
// (a table type of the library), not a worklist of the subsetter.
func outputContainer(v ssa.Value) (bool, string) {
	t := v.Type()
	if p, ok := t.(*types.Pointer); ok {
		t = p.Elem()
	}
	name := types.TypeString(t, func(p *types.Package) string { return p.Name() })
	if n, ok := t.(*types.Named); ok && n.Obj().Pkg() != nil {
		pp := n.Obj().Pkg().Path()
		for _, suf := range []string{"/cmap", "/opentype/gtab", "/opentype/coverage", "/opentype/classdef", "/cff", "/glyf"} {
			if strings.HasSuffix(pp, suf) {
				return true, name
			}
		}
	}
	return false, name
}

// fieldOfOutput: addr is a field/element inside an output struct.
func fieldOfOutput(addr ssa.Value) (bool, string) {
	switch a := addr.(type) {
	case *ssa.FieldAddr:
		if ok, n := outputContainer(a.X); ok {
			return true, n + "." + fieldName(a)
		}
		return fieldOfOutput(a.X)
	case *ssa.IndexAddr:
		// element of a slice loaded from an output struct field, or of a fresh slice stored there later
		if u, ok := a.X.(*ssa.UnOp); ok {
			return fieldOfOutput(u.X)
		}
		if ok, n := outputContainer(a.X); ok {
			return true, n + "[…]"
		}
	}
	return false, ""
}

// C10: subsetting keeps every selected glyph intact and consistently re-indexed.
func propC10(w *World, r *Report) {
	e := NewEffects(w)
	r.Rule("gidsort: in the subsetting functions every glyph id stored into a table of the subset (map key or value, slice element, struct field, glyph.Pair) carries the NEW numbering — it comes from the old->new map, from getNewGid, is a position in the retained-glyph list, or is an entry of a table that a subsetter method returned — and every lookup of the old->new map is keyed by an OLD id || closurepair: when a glyph is appended to the retained list, the old->new map is updated for that same glyph || dropped: every subtable value constructed while rebuilding a lookup is appended to the new lookup's subtable list || pairedappend: per-font-dictionary arrays of the subset (Private, FontMatrices) are extended together, from the same old index || encodingpos: the subset's built-in encoding is filled position by position from the old encoding (all 256 codes are visited) || readonly: subsetting does not write the source font (effect analysis) || covorder: coverage indices of a rebuilt subtable are not handed out in map iteration order (a coverage table must number its glyphs in increasing glyph order, otherwise writing the subset panics)")
	var fns []*ssa.Function
	for _, fn := range w.LibFuncs() {
		file := w.Fset.Position(fn.Pos()).Filename
		if strings.HasSuffix(file, "/subset.go") && fn.Parent() == nil {
			fns = append(fns, fn)
		}
	}
	if len(fns) < 8 {
		r.Fatal("only %d subsetting functions found (subset.go, cff/subset.go)", len(fns))
		return
	}
	r.Scope["subsetting_functions"] = len(fns)
	for _, fn := range fns {
		checkGidSorts(w, r, fn)
	}
	checkClosurePair(w, r, fns)
	checkDropped(w, r, fns)
	checkPairedAppend(w, r, fns)
	checkEncodingPos(w, r)
	RunReadOnly(w, r, e, "readonly", []string{"(*sfnt.Font).Subset", "(*cff.Outlines).Subset", "(*glyf.Glyph).FixComponents"}, 0)
	checkCovOrder(w, r, fns)
	checkWorklist(w, r, e, fns)
	checkClosureFirst(w, r)
	RunCodeSpace(w, r)
	RunSegStep(w, r)
	// "yields a font ... the subset can be written and read back": no panic on the way
	r.Rule("panicreach: every explicit panic, unchecked type assertion and call of a function value taken from a map that is reachable from Font.Subset is the default of a type switch over a closed set (all implementers of the switched interface are cases), or a reviewed entry; the three layout subsetters SubsetGsub, SubsetGpos and SubsetGdef are left out: their panics are the explicit not-implemented cases for layout data the subsetter declares unsupported, which the property's domain excludes")
	pe := mustFuncs(w, r, "(*sfnt.Font).Subset")
	r.Conds["cmap-formats-agree"] = condFormatsAgree(w)
	var pfns []*ssa.Function
	for _, fn := range srcFuncsReachable(w, pe) {
		switch fnName(fn) {
		case "(*sfnt.subsetter).SubsetGsub", "(*sfnt.subsetter).SubsetGpos", "(*sfnt.subsetter).SubsetGdef":
			// their panics are the explicit "not implemented" cases: the layout data the subsetter declares unsupported, outside the domain
			continue
		}
		pfns = append(pfns, fn)
	}
	RunPanicReach(w, r, "panicreach", pe, pfns)
	r.Floor("panicreach", 5)
	RunControl(r, "worklist", "ctlClosure).close", func(cw *World, cr *Report, cf []*ssa.Function) { checkWorklist(cw, cr, nil, cf) })
	r.Floor("worklist", 15)
	r.Floor("gidsort", 12)
	checkNewGidOk(w, r, fns)
	checkFDIndex(w, r)
	checkFDEvery(w, r)
	checkFreshResult(w, r, fns)
	RunFullScan(w, r, fns)
	r.Floor("fullscan", 4)
	RunRangeCopy(w, r, w.LibFuncs())
	RunControl(r, "rangecopy", "ctlRangeCopyBad", RunRangeCopy)
	RunStaleCopy(w, r, w.LibFuncs())
	RunControl(r, "stalecopy", "ctlStaleCopy", RunStaleCopy)
	RunFlagReduce(w, r, w.LibFuncs(), "library")
	r.Floor("flagreduce", 25)
	RunControl(r, "flagreduce", "ctlFlagReduce", func(cw *World, cr *Report, cf []*ssa.Function) { RunFlagReduce(cw, cr, cf, "controls") })
}

// checkNewGidOk: the old->new glyph map of the subsetter has no entry for a
// glyph that is not part of the subset; a plain lookup then yields 0, the
// .notdef glyph, and a substitution or ligature silently points there.  Every
// read of a map[glyph.ID]glyph.ID in the subsetting functions therefore uses
// the two-value form and looks at the flag.
func checkNewGidOk(w *World, r *Report, fns []*ssa.Function) {
	r.Rule("newgidok: every lookup of the old->new glyph map (a map from glyph id to glyph id) in the subsetting functions is the two-value form whose flag is used: a glyph that is not in the subset must not be mistaken for new id 0 (.notdef)")
	n := 0
	for _, fn := range fns {
		all := append([]*ssa.Function{fn}, fn.AnonFuncs...)
		for _, f := range all {
			for _, b := range f.Blocks {
				for _, in := range b.Instrs {
					lk, ok := in.(*ssa.Lookup)
					if !ok {
						continue
					}
					mt, ok := lk.X.Type().Underlying().(*types.Map)
					if !ok || !strings.HasSuffix(mt.Key().String(), "glyph.ID") || !strings.HasSuffix(mt.Elem().String(), "glyph.ID") {
						continue
					}
					n++
					key := r.MkKey("newgidok", fnName(f), "lookup of the old->new map")
					flagUsed := false
					if lk.CommaOk && lk.Referrers() != nil {
						for _, ref := range *lk.Referrers() {
							if ex, ok := ref.(*ssa.Extract); ok && ex.Index == 1 && ex.Referrers() != nil && len(*ex.Referrers()) > 0 {
								flagUsed = true
							}
						}
					}
					if flagUsed {
						r.OK("newgidok", key, w.Pos(lk.Pos()), "two-value lookup, flag used")
					} else {
						r.Fail("newgidok", key, w.Pos(lk.Pos()), "the old->new glyph map is read without looking at the presence flag: for a glyph that is not part of the subset the result is 0, and the rebuilt rule points at .notdef instead of pulling the glyph into the subset (getNewGid) or being dropped", nil)
					}
				}
			}
		}
	}
	r.Floor("newgidok", 10)
	_ = n
}

func checkGidSorts(w *World, r *Report, fn *ssa.Function) {
	g := &gidAnalysis{fn: fn, sorts: map[ssa.Value]gidSort{}}
	name := fnName(fn)
	report := func(pos token.Pos, what string, s gidSort, where string) {
		key := r.MkKey("gidsort", name, what+" into "+where)
		if s == gsNew || s == gsNone {
			r.OK("gidsort", key, w.Pos(pos), what+" carries the "+s.String())
		} else {
			r.FailC("gidsort", key, []string{"oldid"}, w.Pos(pos), fmt.Sprintf("%s stored into %s carries the %s: a glyph reference of the subset is not re-indexed through the old->new map", what, where, s), nil)
		}
	}
	for _, b := range fn.Blocks {
		for _, ins := range b.Instrs {
			switch x := ins.(type) {
			case *ssa.MapUpdate:
				m, ok := x.Map.Type().Underlying().(*types.Map)
				if !ok {
					continue
				}
				isOut, cname := outputContainer(x.Map)
				if !isOut {
					// a map stored in an output struct field (e.g. sNew.Cov)
					if u, ok := x.Map.(*ssa.UnOp); ok {
						isOut, cname = fieldOfOutput(u.X)
					}
				}
				// the old->new map itself: key must be old
				if isGlyphID(m.Key()) && isGlyphID(m.Elem()) && !isOut {
					key := r.MkKey("gidsort", name, "key of the old->new map")
					ks := g.sortOf(x.Key)
					if ks == gsOld || ks == gsNone {
						r.OK("gidsort", key, w.Pos(x.Pos()), "keyed by an old id")
					} else {
						r.FailC("gidsort", key, []string{"newkey"}, w.Pos(x.Pos()), "the old->new map is updated under a key that carries the "+ks.String(), nil)
					}
					continue
				}
				if !isOut {
					continue
				}
				if containsGlyphID(m.Key()) {
					report(x.Pos(), "map key", g.sortOf(x.Key), cname)
				}
				if containsGlyphID(m.Elem()) {
					report(x.Pos(), "map value", g.sortOf(x.Value), cname)
				}
			case *ssa.Store:
				if isGidContainer(x.Val.Type()) {
					// a whole list or map of glyph ids stored into the output: it must be built
					// here (and filled element by element, which the cases above check), not be
					// the old table's value or a copy of it
					if isOut, where := fieldOfOutput(x.Addr); isOut {
						key := r.MkKey("gidsort", name, "glyph id table into "+where)
						if src := oldTableSource(x.Val, 0); src != nil {
							r.FailC("gidsort", key, []string{"oldtable"}, w.Pos(x.Pos()), fmt.Sprintf("%s of the subset is (a copy of) the source font's table loaded at %s: every glyph id in it still carries the old numbering, which is wrong as soon as a retained glyph changes position", where, w.Pos(src.Pos())), nil)
						} else {
							r.OK("gidsort", key, w.Pos(x.Pos()), "the table is built in this function")
						}
					}
					continue
				}
				if !containsGlyphID(x.Val.Type()) {
					continue
				}
				if isOut, where := fieldOfOutput(x.Addr); isOut {
					report(x.Pos(), "glyph id", g.sortOf(x.Val), where)
				}
			case *ssa.Call:
				// append(outputSlice, gid…)
				if bi, ok := x.Call.Value.(*ssa.Builtin); ok && bi.Name() == "append" && len(x.Call.Args) == 2 {
					sl, ok := x.Call.Args[0].Type().Underlying().(*types.Slice)
					if !ok || !isGlyphID(sl.Elem()) {
						continue
					}
					// is the result stored into an output struct field?
					for _, ref := range *x.Referrers() {
						if st, ok := ref.(*ssa.Store); ok {
							if isOut, where := fieldOfOutput(st.Addr); isOut {
								// elements: the variadic slice is built from an array literal
								for _, k := range appendedElems(x.Call.Args[1]) {
									report(x.Pos(), "appended glyph id", g.sortOf(k), where)
								}
							}
						}
					}
				}
			}
		}
	}
}

// appendedElems returns the element values of a variadic argument slice.
func appendedElems(v ssa.Value) []ssa.Value {
	sl, ok := v.(*ssa.Slice)
	if !ok {
		return nil
	}
	al, ok := sl.X.(*ssa.Alloc)
	if !ok {
		return nil
	}
	var res []ssa.Value
	for _, ref := range *al.Referrers() {
		if ia, ok := ref.(*ssa.IndexAddr); ok {
			for _, r2 := range *ia.Referrers() {
				if st, ok := r2.(*ssa.Store); ok {
					res = append(res, st.Val)
				}
			}
		}
	}
	return res
}

// checkClosurePair: s.glyphs = append(s.glyphs, x) and s.newGid[y] = … in the
// same block must use x == y.
func checkClosurePair(w *World, r *Report, fns []*ssa.Function) {
	for _, fn := range fns {
		name := fnName(fn)
		for _, b := range fn.Blocks {
			var appended []ssa.Value
			var apPos token.Pos
			var keys []ssa.Value
			for _, ins := range b.Instrs {
				switch x := ins.(type) {
				case *ssa.Call:
					if bi, ok := x.Call.Value.(*ssa.Builtin); ok && bi.Name() == "append" && len(x.Call.Args) == 2 {
						if u, ok := x.Call.Args[0].(*ssa.UnOp); ok && fieldName(u.X) == "glyphs" {
							appended = append(appended, appendedElems(x.Call.Args[1])...)
							apPos = x.Pos()
						}
					}
				case *ssa.MapUpdate:
					if u, ok := x.Map.(*ssa.UnOp); ok && fieldName(u.X) == "newGid" {
						keys = append(keys, x.Key)
					}
				}
			}
			if len(appended) == 0 {
				continue
			}
			key := r.MkKey("closurepair", name, "append to the retained-glyph list")
			ok := len(keys) > 0
			for _, k := range keys {
				match := false
				for _, a := range appended {
					if sameValue(a, k) {
						match = true
					}
				}
				if !match {
					ok = false
				}
			}
			if ok {
				r.OK("closurepair", key, w.Pos(apPos), "the old->new map is updated for the glyph that was appended")
			} else if len(keys) == 0 {
				r.FailC("closurepair", key, []string{"nomap"}, w.Pos(apPos), "a glyph is appended to the retained-glyph list without an entry in the old->new map", nil)
			} else {
				r.FailC("closurepair", key, []string{"wrongkey"}, w.Pos(apPos), "a glyph is appended to the retained-glyph list, but the old->new map is updated for a different glyph: references to the appended glyph cannot be re-pointed", nil)
			}
		}
	}
}

// checkDropped: composite literals of Subtable types built in the rebuild
// functions must flow into an append to a Subtables field.
func checkDropped(w *World, r *Report, fns []*ssa.Function) {
	for _, fn := range fns {
		name := fnName(fn)
		for _, b := range fn.Blocks {
			for _, ins := range b.Instrs {
				al, ok := ins.(*ssa.Alloc)
				if !ok {
					continue
				}
				t := al.Type().(*types.Pointer).Elem()
				n, ok := t.(*types.Named)
				if !ok || n.Obj().Pkg() == nil || !strings.HasSuffix(n.Obj().Pkg().Path(), "/opentype/gtab") {
					continue
				}
				if n.Obj().Name() == "LookupTable" {
					// a rebuilt lookup must end up in the new lookup list: the pointer is stored
					// (as an element of the list, or as an argument of the append that extends it)
					key := r.MkKey("dropped", name, "rebuilt LookupTable")
					stored := false
					if al.Referrers() != nil {
						for _, ref := range *al.Referrers() {
							if st, ok := ref.(*ssa.Store); ok && st.Val == ssa.Value(al) {
								stored = true
							}
						}
					}
					if stored && !storedAlways(fn, al) && !writesField(fn, "FeatureList") {
						r.FailC("dropped", key, []string{"conditional"}, w.Pos(al.Pos()), "the rebuilt lookup is stored into the new lookup list only under a condition, and the feature list is taken over as it is: when a lookup is left out, the lookups behind it move up and the features point at the wrong lookups (or at none)", nil)
					} else if stored {
						r.OK("dropped", key, w.Pos(al.Pos()), "stored into the new lookup list")
					} else {
						r.Fail("dropped", key, w.Pos(al.Pos()), "a lookup is rebuilt for the subset but never stored into the new lookup list: the subset silently loses the lookup (and the glyphs it would substitute or position stay as they are)", nil)
					}
					continue
				}
				if !(implementsSubtable(w, t) || implementsSubtable(w, types.NewPointer(t))) {
					continue
				}
				key := r.MkKey("dropped", name, "rebuilt "+n.Obj().Name())
				// does the value (or its address) reach a MakeInterface that is appended / stored?
				used := false
				seen := map[ssa.Value]bool{}
				var visit func(v ssa.Value)
				visit = func(v ssa.Value) {
					if seen[v] || v.Referrers() == nil {
						return
					}
					seen[v] = true
					for _, ref := range *v.Referrers() {
						switch x := ref.(type) {
						case *ssa.MakeInterface:
							used = true
						case *ssa.UnOp:
							if x.Op == token.MUL && types.Identical(x.Type(), t) {
								visit(x)
							}
						case *ssa.Phi:
							visit(x)
						}
					}
				}
				visit(al)
				if used {
					r.OK("dropped", key, w.Pos(al.Pos()), "the rebuilt subtable is handed on as a gtab.Subtable")
				} else {
					r.FailC("dropped", key, []string{"dropped"}, w.Pos(al.Pos()), "a "+n.Obj().Name()+" subtable is rebuilt for the subset but never added to the new lookup: the rules it carries are lost", nil)
				}
			}
		}
	}
}

// checkPairedAppend: Private and FontMatrices of the new outlines.
func checkPairedAppend(w *World, r *Report, fns []*ssa.Function) {
	for _, fn := range fns {
		name := fnName(fn)
		type ap struct {
			blk *ssa.BasicBlock
			idx ssa.Value
			pos token.Pos
		}
		aps := map[string][]ap{}
		for _, b := range fn.Blocks {
			for _, ins := range b.Instrs {
				c, ok := ins.(*ssa.Call)
				if !ok {
					continue
				}
				bi, ok := c.Call.Value.(*ssa.Builtin)
				if !ok || bi.Name() != "append" || len(c.Call.Args) != 2 {
					continue
				}
				u, ok := c.Call.Args[0].(*ssa.UnOp)
				if !ok {
					continue
				}
				f := fieldName(u.X)
				if f != "Private" && f != "FontMatrices" {
					continue
				}
				var idx ssa.Value
				for _, el := range appendedElems(c.Call.Args[1]) {
					if ld, ok := el.(*ssa.UnOp); ok {
						if ia, ok := ld.X.(*ssa.IndexAddr); ok {
							idx = ia.Index
						}
					}
				}
				aps[f] = append(aps[f], ap{b, idx, c.Pos()})
			}
		}
		if len(aps["FontMatrices"]) == 0 {
			continue
		}
		for _, fm := range aps["FontMatrices"] {
			key := r.MkKey("pairedappend", name, "FontMatrices")
			ok := false
			for _, pr := range aps["Private"] {
				if fm.idx != nil && pr.idx != nil && sameValue(fm.idx, pr.idx) && (pr.blk == fm.blk || pr.blk.Dominates(fm.blk)) {
					ok = true
				}
			}
			if ok {
				r.OK("pairedappend", key, w.Pos(fm.pos), "appended together with the private dictionary of the same old index")
			} else {
				r.Fail("pairedappend", key, w.Pos(fm.pos), "FontMatrices is not extended in step with Private (same old font-dictionary index, same place): the i-th matrix of the subset may belong to a different private dictionary", nil)
			}
		}
	}
}

// checkEncodingPos: the store into the subset's Encoding uses the range key
// of a loop over the old Encoding as its index.
func checkEncodingPos(w *World, r *Report) {
	for _, n := range []string{"(*cff.Outlines).Subset", "(*sfnt.subsetter).SubsetCFF"} {
		fn := w.Func(n)
		if fn == nil {
			r.Fatal("anchor %s does not resolve", n)
			continue
		}
		found := false
		for _, b := range fn.Blocks {
			for _, ins := range b.Instrs {
				st, ok := ins.(*ssa.Store)
				if !ok || !isGlyphID(st.Val.Type()) {
					continue
				}
				ia, ok := st.Addr.(*ssa.IndexAddr)
				if !ok {
					continue
				}
				u, ok := ia.X.(*ssa.UnOp)
				if !ok || fieldName(u.X) != "Encoding" {
					continue
				}
				found = true
				key := r.MkKey("encodingpos", fnName(fn), "store into the new Encoding")
				// the index must also index a load from the OLD encoding (same SSA value)
				same := false
				for _, ref := range *ia.Index.Referrers() {
					if ia2, ok := ref.(*ssa.IndexAddr); ok && ia2 != ia {
						if u2, ok := ia2.X.(*ssa.UnOp); ok && fieldName(u2.X) == "Encoding" {
							same = true
						}
					}
				}
				if same {
					r.OK("encodingpos", key, w.Pos(st.Pos()), "code i of the subset is derived from code i of the original encoding")
				} else {
					r.Fail("encodingpos", key, w.Pos(st.Pos()), "the subset's encoding is not filled code by code from the original encoding: codes that share a glyph (multiply-encoded glyphs) can be lost", nil)
				}
			}
		}
		if !found {
			r.FailC("encodingpos", r.MkKey("encodingpos", fnName(fn), "store into the new Encoding"), []string{"shape"}, w.Pos(fn.Pos()), "no store into the new Encoding found", nil)
		}
	}
	_ = sort.Strings
}

// checkCovOrder: cov[gid] = <running index> inside a range over a map.
func checkCovOrder(w *World, r *Report, fns []*ssa.Function) {
	for _, fn := range fns {
		body, _ := funcBody(fn)
		info := w.Info(fn)
		if body == nil {
			continue
		}
		name := fnName(fn)
		ast.Inspect(body, func(n ast.Node) bool {
			as, ok := n.(*ast.AssignStmt)
			if !ok || len(as.Lhs) != 1 {
				return true
			}
			ix, ok := as.Lhs[0].(*ast.IndexExpr)
			if !ok {
				return true
			}
			t := info.TypeOf(ix.X)
			nt, ok := t.(*types.Named)
			isCov := ok && nt.Obj().Name() == "Table" && nt.Obj().Pkg() != nil && strings.HasSuffix(nt.Obj().Pkg().Path(), "/coverage")
			if !isCov {
				// map[glyph.ID]int used as coverage (field Cov)
				if m, ok := t.Underlying().(*types.Map); ok && isGlyphID(m.Key()) && isIntegerType(m.Elem()) && strings.HasSuffix(types.ExprString(ix.X), ".Cov") {
					isCov = true
				}
			}
			if !isCov {
				return true
			}
			key := r.MkKey("covorder", name, "coverage index assigned to "+types.ExprString(ix.X))
			inMapLoop := false
			for _, p := range enclosing(body, as.Pos()) {
				if rs, ok := p.(*ast.RangeStmt); ok && isMapType(info.TypeOf(rs.X)) {
					inMapLoop = true
				}
			}
			if inMapLoop {
				r.FailC("covorder", key, []string{"maporder"}, w.Pos(as.Pos()), "coverage indices are assigned while iterating over a map: the resulting coverage table is in general not monotone in the glyph id and (*coverage.Table).Encode panics with \"invalid coverage table\" when the subset is written", nil)
			} else {
				r.OK("covorder", key, w.Pos(as.Pos()), "not assigned in map iteration order")
			}
			return true
		})
	}
}

// checkWorklist: closure computations.  A `for ... range xs` loop takes the
// length of xs once, before the first iteration; if its body (or a function
// it calls) appends to the very slice variable it ranges over, the appended
// elements are not visited.  Where the loop is meant to compute a closure
// (components of components, glyphs reachable through substitutions) it must
// be a work list: an index loop that re-reads len(xs), or a todo set.
func checkWorklist(w *World, r *Report, e *Effects, fns []*ssa.Function) {
	r.Rule("worklist: no range loop over a slice field appends to that same field in its body (directly or through a callee): the range length is fixed before the loop, so elements added on the way are not processed — a closure over glyph references must be an index loop that re-reads the length or a todo set")
	n := 0
	for _, fn := range fns {
		for _, l := range naturalLoops(fn) {
			// range-over-slice shape: the head compares an index phi with a length taken outside the loop
			if len(l.head.Instrs) == 0 {
				continue
			}
			ifi, ok := l.head.Instrs[len(l.head.Instrs)-1].(*ssa.If)
			if !ok {
				continue
			}
			cmp, ok := ifi.Cond.(*ssa.BinOp)
			if !ok || cmp.Op != token.LSS {
				continue
			}
			lenCall, ok := cmp.Y.(*ssa.Call)
			if !ok || l.body[lenCall.Block()] {
				continue
			}
			bi, ok := lenCall.Call.Value.(*ssa.Builtin)
			if !ok || bi.Name() != "len" {
				continue
			}
			// the slice must be a load of a field
			ld, ok := lenCall.Call.Args[0].(*ssa.UnOp)
			if !ok {
				continue
			}
			fa, ok := ld.X.(*ssa.FieldAddr)
			if !ok {
				continue
			}
			if _, isSlice := ld.Type().Underlying().(*types.Slice); !isSlice {
				continue
			}
			n++
			field := fieldKey(fa)
			key := r.MkKey("worklist", fnName(fn), "range over "+shortName(field))
			// stores to the same field inside the loop, directly or via callees
			bad := ""
			for b := range l.body {
				for _, in := range b.Instrs {
					switch x := in.(type) {
					case *ssa.Store:
						// the same field of the same object
						if fa2, ok := x.Addr.(*ssa.FieldAddr); ok && fieldKey(fa2) == field && fa2.X == fa.X {
							bad = "the loop body assigns " + shortName(field) + " at " + w.Pos(x.Pos())
						}
					case *ssa.Call:
						for _, callee := range w.Callees(x) {
							args := x.Call.Args
							if x.Call.IsInvoke() {
								args = append([]ssa.Value{x.Call.Value}, args...)
							}
							for i, a := range args {
								if a == fa.X && i < len(callee.Params) && storesFieldOf(callee, callee.Params[i], field, map[*ssa.Function]bool{}, 0, w) {
									bad = "the loop body calls " + fnName(callee) + " at " + w.Pos(x.Pos()) + ", which assigns " + shortName(field) + " of the same object"
								}
							}
						}
					}
				}
			}
			if bad == "" {
				r.OK("worklist", key, w.Pos(ifi.Cond.Pos()), "the slice is not extended inside the loop")
			} else {
				r.Fail("worklist", key, w.Pos(ifi.Cond.Pos()), bad+": the range length was fixed before the loop, so the elements added are never visited (glyphs referenced only by glyphs that are themselves added during the loop are missing from the subset)", nil)
			}
		}
	}
	r.Scope["range_loops_over_slice_fields"] = n
}

// storesFieldOf: fn assigns the field of the object its parameter par points to
// (directly or by handing par on to a callee).
func storesFieldOf(fn *ssa.Function, par *ssa.Parameter, field string, seen map[*ssa.Function]bool, depth int, w *World) bool {
	if fn == nil || seen[fn] || depth > 4 || fn.Blocks == nil {
		return false
	}
	seen[fn] = true
	for _, b := range fn.Blocks {
		for _, in := range b.Instrs {
			switch x := in.(type) {
			case *ssa.Store:
				if fa, ok := x.Addr.(*ssa.FieldAddr); ok && fieldKey(fa) == field && fa.X == ssa.Value(par) {
					return true
				}
			case *ssa.Call:
				for _, c := range w.Callees(x) {
					if !isLibPkg(fnPkgPath(c)) {
						continue
					}
					args := x.Call.Args
					if x.Call.IsInvoke() {
						args = append([]ssa.Value{x.Call.Value}, args...)
					}
					for i, a := range args {
						if a == ssa.Value(par) && i < len(c.Params) && storesFieldOf(c, c.Params[i], field, seen, depth+1, w) {
							return true
						}
					}
				}
			}
		}
	}
	return false
}

// checkClosureFirst: SubsetGsub is the step that adds glyphs to the subset
// (outputs of retained substitutions); the steps that only keep what refers
// to retained glyphs — SubsetGpos (kerning and attachment among retained
// glyphs) and SubsetGdef — must see the final list, so they come after it.
func checkClosureFirst(w *World, r *Report) {
	r.Rule("closurefirst: in (*Font).Subset the call of SubsetGsub (which extends the glyph list by the closure under substitutions) precedes the calls of SubsetGpos and SubsetGdef on every path (filtering before the closure drops pairs and classes of glyphs that are added later), and no call that extends the glyph list (SubsetGsub, SubsetGlyf) can follow the call of SubsetCMap, SubsetGpos or SubsetGdef")
	fn := w.Func("(*sfnt.Font).Subset")
	if fn == nil {
		r.Fatal("(*sfnt.Font).Subset does not resolve")
		return
	}
	calls := map[string]*ssa.Call{}
	for _, b := range fn.Blocks {
		for _, in := range b.Instrs {
			if c, ok := in.(*ssa.Call); ok {
				if callee := c.Call.StaticCallee(); callee != nil {
					calls[callee.Name()] = c
				}
			}
		}
	}
	before := func(a, b *ssa.Call) bool {
		if a.Block() == b.Block() {
			for _, in := range a.Block().Instrs {
				if in == ssa.Instruction(a) {
					return true
				}
				if in == ssa.Instruction(b) {
					return false
				}
			}
		}
		return a.Block().Dominates(b.Block())
	}
	gsub := calls["SubsetGsub"]
	for _, name := range []string{"SubsetGpos", "SubsetGdef"} {
		key := r.MkKey("closurefirst", fnName(fn), name+" after SubsetGsub")
		c := calls[name]
		switch {
		case gsub == nil || c == nil:
			r.Fail("closurefirst", key, w.Pos(fn.Pos()), "the calls of SubsetGsub / "+name+" were not found in Subset", nil)
		case before(gsub, c):
			r.OK("closurefirst", key, w.Pos(c.Pos()), "runs on the final glyph list")
		default:
			r.Fail("closurefirst", key, w.Pos(c.Pos()), name+" runs before SubsetGsub has added the glyphs produced by retained substitutions: positioning data and classes of those glyphs are dropped from the subset", nil)
		}
	}
	// the composite closure of SubsetGlyf extends the glyph list as well: a kerning pair or a class
	// of a component that is appended there belongs to a retained glyph
	if gl := calls["SubsetGlyf"]; gl != nil {
		for _, name := range []string{"SubsetGpos", "SubsetGdef"} {
			c := calls[name]
			if c == nil {
				continue
			}
			key := r.MkKey("closurefirst", fnName(fn), name+" after SubsetGlyf")
			after := false
			if c.Block() == gl.Block() {
				after = before(gl, c)
			} else {
				after = !reaches(c.Block(), gl.Block())
			}
			if after {
				r.OK("closurefirst", key, w.Pos(c.Pos()), "runs on the final glyph list")
			} else {
				r.FailC("closurefirst", key, []string{"glyf"}, w.Pos(c.Pos()), name+" runs before SubsetGlyf has appended the components of retained composite glyphs: kerning pairs and classes of those glyphs are dropped although the glyphs are in the subset", nil)
			}
		}
	}
	// the character map is filtered by the final glyph list too: a character of a glyph that the
	// closure appends (a ligature with its own code point) keeps its mapping
	if cm := calls["SubsetCMap"]; cm != nil {
		for _, name := range []string{"SubsetGsub", "SubsetGlyf"} {
			c := calls[name]
			if c == nil {
				continue
			}
			key := r.MkKey("closurefirst", fnName(fn), "SubsetCMap after "+name)
			after := false
			if cm.Block() == c.Block() {
				after = before(c, cm)
			} else {
				after = !reaches(cm.Block(), c.Block())
			}
			if after {
				r.OK("closurefirst", key, w.Pos(cm.Pos()), "the character map is filtered by the final glyph list")
			} else {
				r.FailC("closurefirst", key, []string{"cmap"}, w.Pos(cm.Pos()), "the character map is subsetted before "+name+" has appended the glyphs the closure needs: a character that maps to such a glyph (a ligature with its own code point, a component) loses its mapping although the glyph is in the subset", nil)
			}
		}
	}
	r.Floor("closurefirst", 2)
}

// RunFlagReduce: a boolean that summarises a loop ("does any element need
// work?") has to accumulate: `flag = flag || cond` or `if cond { flag = true }`.
// A plain assignment `flag = cond` in the loop body lets the last element
// alone decide.  Reported where a boolean loop-carried variable is
// overwritten on every iteration by a value that does not depend on its
// previous value and is then read after the loop and not inside it.
func RunFlagReduce(w *World, r *Report, fns []*ssa.Function, scopeName string) {
	r.Rule("flagreduce: no boolean variable that is read after a loop is overwritten in every iteration of that loop by a value independent of its previous value (the last element alone would decide); accumulating forms (flag = flag || c, if c { flag = true }) are what a summary of all elements needs")
	n := 0
	for _, fn := range fns {
		all := append([]*ssa.Function{fn}, fn.AnonFuncs...)
		for _, f := range all {
			loops := naturalLoops(f)
			for _, l := range loops {
				for _, in := range l.head.Instrs {
					ph, ok := in.(*ssa.Phi)
					if !ok {
						break
					}
					bt, ok := ph.Type().Underlying().(*types.Basic)
					if !ok || bt.Kind() != types.Bool {
						continue
					}
					n++
					key := r.MkKey("flagreduce", fnName(f), "boolean "+ph.Comment+" carried around a loop")
					overwritten := false
					for i, e := range ph.Edges {
						if !l.body[l.head.Preds[i]] {
							continue
						}
						if _, isC := e.(*ssa.Const); isC {
							continue
						}
						if e == ssa.Value(ph) {
							continue
						}
						if !backSlice(e)[ph] {
							overwritten = true
						}
					}
					usedInside, usedAfter := false, false
					if ph.Referrers() != nil {
						for _, ref := range *ph.Referrers() {
							if ref.Block() == nil {
								continue
							}
							if p2, isPhi := ref.(*ssa.Phi); isPhi && l.body[p2.Block()] {
								// merging it back is not a read
								continue
							}
							if l.body[ref.Block()] {
								usedInside = true
							} else {
								usedAfter = true
							}
						}
					}
					if overwritten && usedAfter && !usedInside {
						r.Fail("flagreduce", key, w.Pos(ph.Pos()), fmt.Sprintf("%s is assigned anew in every iteration and only read after the loop: the last element alone decides, whatever the earlier ones were", ph.Comment), nil)
					} else {
						r.OK("flagreduce", key, w.Pos(ph.Pos()), "accumulates, is constant-set, or is read inside the loop")
					}
				}
			}
		}
	}
	_ = scopeName
	_ = n
}


// checkFDIndex: SubsetCFF keeps one font dictionary of the subset for every
// font dictionary of the original that a retained glyph uses.  A font
// dictionary is a private dictionary *and* (for CID-keyed fonts) a font
// matrix; two old dictionaries may agree in one and differ in the other, so
// they must not be merged: the new index recorded for an old index is always
// the position at which that dictionary is appended.
func checkFDIndex(w *World, r *Report) {
	r.Rule("fdindex: in the two CFF subsetters ((*sfnt.subsetter).SubsetCFF and (*cff.Outlines).Subset) the map that renumbers font dictionaries is keyed by the old font-dictionary index itself (an integer that comes from the FDSelect function, not a projection such as the private dictionary, which two font dictionaries with different font matrices can share), and the new index recorded is the length of the subset's Private list at the moment that dictionary is appended")
	for _, name := range []string{"(*sfnt.subsetter).SubsetCFF", "(*cff.Outlines).Subset"} {
		fn := w.Func(name)
		if fn == nil {
			r.Fatal("%s does not resolve", name)
			continue
		}
		n := 0
		for _, b := range fn.Blocks {
			for _, in := range b.Instrs {
				mu, ok := in.(*ssa.MapUpdate)
				if !ok {
					continue
				}
				mt, ok := mu.Map.Type().Underlying().(*types.Map)
				if !ok || !isIntType(mt.Elem()) {
					continue
				}
				// the renumbering map: its values are positions in a Private list
				isLenPrivate := false
				if c, ok := mu.Value.(*ssa.Call); ok {
					if bi, ok := c.Call.Value.(*ssa.Builtin); ok && bi.Name() == "len" {
						if ld, ok := c.Call.Args[0].(*ssa.UnOp); ok && fieldName(ld.X) == "Private" {
							isLenPrivate = true
						}
					}
				}
				// ... and its keys are computed from what FDSelect returned
				keyFromSel := false
				for v := range backSlice(mu.Key) {
					if c, ok := v.(*ssa.Call); ok {
						if ld, ok := c.Call.Value.(*ssa.UnOp); ok && fieldName(ld.X) == "FDSelect" {
							keyFromSel = true
						}
					}
				}
				if !keyFromSel {
					continue
				}
				n++
				key := r.MkKey("fdindex", fnName(fn), "new index of a font dictionary")
				switch {
				case !isLenPrivate:
					r.Fail("fdindex", key, w.Pos(mu.Pos()), "the index recorded for an old font dictionary is not (only) the position where that dictionary is appended: two old dictionaries can end up sharing one new dictionary although they differ (e.g. in their font matrix)", nil)
				case !isIntType(mt.Key()):
					r.Fail("fdindex", key, w.Pos(mu.Pos()), "the renumbering map is keyed by "+mt.Key().String()+" instead of the old font-dictionary index: font dictionaries that share that object but differ otherwise (font matrix) are merged into one", nil)
				default:
					// the key comes from FDSelect, not from a field of the dictionary
					fromSel, viaPrivate := false, false
					for v := range backSlice(mu.Key) {
						if c, ok := v.(*ssa.Call); ok {
							if ld, ok := c.Call.Value.(*ssa.UnOp); ok && fieldName(ld.X) == "FDSelect" {
								fromSel = true
							}
						}
						if ia, ok := v.(*ssa.IndexAddr); ok {
							if ld, ok := ia.X.(*ssa.UnOp); ok && (fieldName(ld.X) == "Private" || fieldName(ld.X) == "FontMatrices") {
								viaPrivate = true
							}
						}
					}
					if fromSel && !viaPrivate {
						r.OK("fdindex", key, w.Pos(mu.Pos()), "keyed by the old index, valued by the position at which the dictionary is appended")
					} else {
						r.Fail("fdindex", key, w.Pos(mu.Pos()), "the key of the renumbering map is not the value the FDSelect function returned for the glyph: distinct font dictionaries may share a key", nil)
					}
				}
			}
		}
		if n == 0 {
			r.Fail("fdindex", r.MkKey("fdindex", fnName(fn), "new index of a font dictionary"), w.Pos(fn.Pos()), "no map from old to new font-dictionary indices found", nil)
		}
	}
	r.Floor("fdindex", 2)
}

// runFlagReduceIn: the flagreduce rule (with its control) on the library
// functions of the packages whose path ends in one of the suffixes.
func runFlagReduceIn(w *World, r *Report, suffixes ...string) {
	var fns []*ssa.Function
	for _, f := range w.LibFuncs() {
		p := fnPkgPath(f)
		for _, sfx := range suffixes {
			if strings.HasSuffix(p, sfx) {
				fns = append(fns, f)
				break
			}
		}
	}
	RunFlagReduce(w, r, fns, strings.Join(suffixes, ","))
	RunControl(r, "flagreduce", "ctlFlagReduce", func(cw *World, cr *Report, cf []*ssa.Function) { RunFlagReduce(cw, cr, cf, "controls") })
	RunStaleCopy(w, r, fns)
	RunControl(r, "stalecopy", "ctlStaleCopy", RunStaleCopy)
}

// RunStaleCopy: `for i, r := range rules { ...; rules[i].n--; ...; if r.n ==
// 0 {...} }` — r is a copy of the element taken when the iteration starts; a
// field that the body updates through the slice is stale in the copy.  The
// rule reports every read of a field from the range copy that can follow, in
// the same iteration, a store to the same field of the same element.
func RunStaleCopy(w *World, r *Report, fns []*ssa.Function) {
	r.Rule("stalecopy: inside a loop no field is read from a by-value copy of a slice element (the range variable) after the same iteration has stored to that field of the element through the slice: the copy still holds the value from the start of the iteration")
	for _, fn := range fns {
		all := append([]*ssa.Function{fn}, fn.AnonFuncs...)
		for _, f := range all {
			if f.Blocks == nil {
				continue
			}
			for _, l := range naturalLoops(f) {
				// stores to S[i].k inside the loop
				type site struct {
					base, idx ssa.Value
					field     int
					st        *ssa.Store
				}
				var stores []site
				for b := range l.body {
					for _, in := range b.Instrs {
						st, ok := in.(*ssa.Store)
						if !ok {
							continue
						}
						fa, ok := st.Addr.(*ssa.FieldAddr)
						if !ok {
							continue
						}
						ia, ok := fa.X.(*ssa.IndexAddr)
						if !ok {
							continue
						}
						stores = append(stores, site{ia.X, ia.Index, fa.Field, st})
					}
				}
				if len(stores) == 0 {
					continue
				}
				// copies kept in a local variable: *local = *(&S[i]); reads of local.k
				for b := range l.body {
					for _, in := range b.Instrs {
						cp, ok := in.(*ssa.Store)
						if !ok {
							continue
						}
						local, ok := cp.Addr.(*ssa.Alloc)
						if !ok {
							continue
						}
						ld, ok := cp.Val.(*ssa.UnOp)
						if !ok || ld.Op != token.MUL {
							continue
						}
						ia, ok := ld.X.(*ssa.IndexAddr)
						if !ok || local.Referrers() == nil {
							continue
						}
						for _, ref := range *local.Referrers() {
							fa, ok := ref.(*ssa.FieldAddr)
							if !ok || fa.Referrers() == nil {
								continue
							}
							for _, r2 := range *fa.Referrers() {
								rd, ok := r2.(*ssa.UnOp)
								if !ok || rd.Op != token.MUL || !l.body[rd.Block()] {
									continue
								}
								for _, s := range stores {
									if s.field != fa.Field || s.idx != ia.Index || !sameSliceValue(s.base, ia.X) {
										continue
									}
									if !instrReaches(cp, s.st, l) || !instrReaches(s.st, rd, l) {
										continue
									}
									fname := fieldName(fa)
									key := r.MkKey("stalecopy", fnName(f), "field "+fname+" of the range copy")
									r.Fail("stalecopy", key, w.Pos(rd.Pos()), "the field "+fname+" is read from the copy of the element made at "+w.Pos(cp.Pos())+" although the same iteration may have updated it through the slice at "+w.Pos(s.st.Pos())+": the test sees the old value", nil)
								}
							}
						}
					}
				}
				for b := range l.body {
					for _, in := range b.Instrs {
						fld, ok := in.(*ssa.Field)
						if !ok {
							continue
						}
						ld, ok := fld.X.(*ssa.UnOp)
						if !ok || ld.Op != token.MUL {
							continue
						}
						ia, ok := ld.X.(*ssa.IndexAddr)
						if !ok {
							continue
						}
						for _, s := range stores {
							if s.field != fld.Field || s.idx != ia.Index || !sameSliceValue(s.base, ia.X) {
								continue
							}
							// the copy was taken before the store, the read comes after it
							if !instrReaches(ld, s.st, l) || !instrReaches(s.st, fld, l) {
								continue
							}
							key := r.MkKey("stalecopy", fnName(f), "field "+fieldNameOfField(fld)+" of the range copy")
							r.Fail("stalecopy", key, w.Pos(fld.Pos()), "the field "+fieldNameOfField(fld)+" is read from the copy of the element made at "+w.Pos(ld.Pos())+" although the same iteration may have updated it through the slice at "+w.Pos(s.st.Pos())+": the test sees the old value", nil)
						}
					}
				}
			}
		}
	}
}

func fieldNameOfField(f *ssa.Field) string {
	if st, ok := f.X.Type().Underlying().(*types.Struct); ok && f.Field < st.NumFields() {
		return st.Field(f.Field).Name()
	}
	return fmt.Sprint(f.Field)
}

func sameSliceValue(a, b ssa.Value) bool {
	if a == b {
		return true
	}
	la, ok1 := a.(*ssa.UnOp)
	lb, ok2 := b.(*ssa.UnOp)
	return ok1 && ok2 && la.X == lb.X
}

// instrReaches: b can be executed after a within one iteration of l.
func instrReaches(a, b ssa.Instruction, l *natLoop) bool {
	if a.Block() == b.Block() {
		for _, in := range a.Block().Instrs {
			if in == a {
				return true
			}
			if in == b {
				break
			}
		}
	}
	seen := map[*ssa.BasicBlock]bool{}
	stack := append([]*ssa.BasicBlock{}, a.Block().Succs...)
	for len(stack) > 0 {
		x := stack[len(stack)-1]
		stack = stack[:len(stack)-1]
		if seen[x] || !l.body[x] || x == l.head {
			continue
		}
		seen[x] = true
		if x == b.Block() {
			return true
		}
		stack = append(stack, x.Succs...)
	}
	return false
}

// isGidContainer: a slice, array or map whose elements (or keys) are glyph ids.
func isGidContainer(t types.Type) bool {
	switch u := t.Underlying().(type) {
	case *types.Slice:
		return isGlyphID(u.Elem())
	case *types.Array:
		return isGlyphID(u.Elem())
	case *types.Map:
		return isGlyphID(u.Key()) || isGlyphID(u.Elem())
	}
	return false
}

// oldTableSource: the value is a table loaded from memory reachable from a
// parameter (the source font), possibly cloned, re-sliced or converted; the
// load is returned.
func oldTableSource(v ssa.Value, depth int) *ssa.UnOp {
	if depth > 6 {
		return nil
	}
	switch x := v.(type) {
	case *ssa.UnOp:
		if x.Op != token.MUL {
			return nil
		}
		for a := x.X; ; {
			switch y := a.(type) {
			case *ssa.FieldAddr:
				a = y.X
				continue
			case *ssa.IndexAddr:
				a = y.X
				continue
			case *ssa.UnOp:
				a = y.X
				continue
			case *ssa.Parameter:
				return x
			}
			return nil
		}
	case *ssa.ChangeType:
		return oldTableSource(x.X, depth+1)
	case *ssa.Slice:
		return oldTableSource(x.X, depth+1)
	case *ssa.Phi:
		for _, e := range x.Edges {
			if s := oldTableSource(e, depth+1); s != nil {
				return s
			}
		}
	case *ssa.Call:
		if callee := x.Call.StaticCallee(); callee != nil {
			n := callee.Name()
			pk := fnPkgPath(callee)
			if (strings.HasPrefix(n, "Clone") || strings.HasPrefix(n, "Compact") || strings.HasPrefix(n, "Clip")) && (strings.HasSuffix(pk, "slices") || strings.HasSuffix(pk, "maps")) && len(x.Call.Args) > 0 {
				return oldTableSource(x.Call.Args[0], depth+1)
			}
		}
		if bi, ok := x.Call.Value.(*ssa.Builtin); ok && bi.Name() == "append" && len(x.Call.Args) == 2 {
			// append(base, old...): the spread argument is the old table
			if s := oldTableSource(x.Call.Args[1], depth+1); s != nil {
				return s
			}
			return oldTableSource(x.Call.Args[0], depth+1)
		}
	}
	return nil
}

// storedAlways: some store of the allocated pointer is control-dependent on
// no condition that the allocation itself is not dependent on (every
// iteration that builds the value also stores it).
func storedAlways(fn *ssa.Function, al *ssa.Alloc) bool {
	cc := controlConds(fn)
	base := map[ssa.Value]bool{}
	for _, c := range cc[al.Block()] {
		base[c] = true
	}
	if al.Referrers() == nil {
		return false
	}
	for _, ref := range *al.Referrers() {
		st, ok := ref.(*ssa.Store)
		if !ok || st.Val != ssa.Value(al) {
			continue
		}
		extra := false
		for _, c := range cc[st.Block()] {
			if !base[c] {
				extra = true
			}
		}
		if !extra {
			return true
		}
	}
	return false
}

// writesField: the function stores into a field of that name.
func writesField(fn *ssa.Function, name string) bool {
	for _, b := range fn.Blocks {
		for _, in := range b.Instrs {
			if st, ok := in.(*ssa.Store); ok {
				if fa, ok := st.Addr.(*ssa.FieldAddr); ok && fieldName(fa) == name {
					return true
				}
			}
		}
	}
	return false
}
