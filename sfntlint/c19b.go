package main

// tokenprogress (C19): "parsing arbitrary text always terminates".  The
// parser's loops are token loops (`for { ...; if !p.optional(itemComma) {
// break } }`); a loop iteration that can return to the loop head without
// having consumed a token runs for ever on the input that takes that path.
// The rule computes, for every function of the package, the minimal net
// number of tokens consumed on a path to a normal return (channel receive
// and backlog pop: +1; push onto the backlog: -1; calls by summary, with
// separate summaries for `return true` and `return false` where the result
// is branched on; paths that end in a call that never returns are dropped),
// and requires every iteration path of every loop that touches tokens at all
// to have net consumption >= 1.  This is a necessary condition of
// termination, not a proof: that every loop also leaves at the end of the
// input is a statement about item types.

import (
	"fmt"
	"go/token"
	"go/types"
	"sort"
	"strings"

	"golang.org/x/tools/go/ssa"
)

const tpInf = 1 << 20

type tpSummary struct {
	any, whenTrue, whenFalse int // minimal net consumption; tpInf = no such return
	touches                  bool
}

type tokenProgress struct {
	w      *World
	pkg    string
	sums   map[*ssa.Function]*tpSummary
	busy   map[*ssa.Function]bool
	noRet  map[*ssa.Function]bool
	noRetK map[*ssa.Function]bool
}

func tpMin(a, b int) int {
	if a < b {
		return a
	}
	return b
}

func tpAdd(a, b int) int {
	if a >= tpInf || b >= tpInf {
		return tpInf
	}
	s := a + b
	if s > 4 {
		s = 4 // saturate: only "at least one" matters
	}
	if s < -4 {
		s = -4
	}
	return s
}

// neverReturns: every path of f ends in a panic (p.fatal).
func (tp *tokenProgress) neverReturns(f *ssa.Function) bool {
	if tp.noRetK[f] {
		return tp.noRet[f]
	}
	tp.noRetK[f] = true
	if f.Blocks == nil {
		return false
	}
	for _, b := range f.Blocks {
		if _, ok := b.Instrs[len(b.Instrs)-1].(*ssa.Return); ok {
			// reachable return? (blocks after a call of a never-returning function are still there)
			if tp.blockReachable(f, b) {
				return false
			}
		}
	}
	tp.noRet[f] = true
	return true
}

func (tp *tokenProgress) blockReachable(f *ssa.Function, target *ssa.BasicBlock) bool {
	seen := map[*ssa.BasicBlock]bool{}
	var walk func(b *ssa.BasicBlock) bool
	walk = func(b *ssa.BasicBlock) bool {
		if seen[b] {
			return false
		}
		seen[b] = true
		for _, in := range b.Instrs {
			if c, ok := in.(*ssa.Call); ok {
				if g := c.Call.StaticCallee(); g != nil && g != f && strings.HasSuffix(fnPkgPath(g), tp.pkg) && tp.neverReturns(g) {
					return false
				}
			}
			if _, ok := in.(*ssa.Panic); ok {
				return false
			}
		}
		if b == target {
			return true
		}
		for _, s := range b.Succs {
			if walk(s) {
				return true
			}
		}
		return false
	}
	return walk(f.Blocks[0])
}

// event: the net effect of one instruction that is not a branched-on call.
func (tp *tokenProgress) instrNet(in ssa.Instruction, skip map[ssa.Instruction]bool) (int, bool, bool) {
	// returns (net, touches, dead)
	switch x := in.(type) {
	case *ssa.UnOp:
		if x.Op == token.ARROW {
			return 1, true, false
		}
	case *ssa.Store:
		fa, ok := x.Addr.(*ssa.FieldAddr)
		if !ok || fieldName(fa) != "backlog" {
			return 0, false, false
		}
		switch v := x.Val.(type) {
		case *ssa.Slice:
			if v.High != nil { // backlog[:n]
				return 1, true, false
			}
		case *ssa.Call:
			if bi, ok := v.Call.Value.(*ssa.Builtin); ok && bi.Name() == "append" {
				return -1, true, false
			}
		}
		return 0, true, false
	case *ssa.Panic:
		return 0, false, true
	case *ssa.Call:
		if skip[in] {
			return 0, false, false
		}
		g := x.Call.StaticCallee()
		if g == nil || !strings.HasSuffix(fnPkgPath(g), tp.pkg) {
			return 0, false, false
		}
		if tp.neverReturns(g) {
			return 0, false, true
		}
		s := tp.summary(g)
		return s.any, s.touches, false
	}
	return 0, false, false
}

// branchedCall: the block's If tests (possibly negated) the boolean result
// of a package call made in this block.
func (tp *tokenProgress) branchedCall(b *ssa.BasicBlock) (*ssa.Call, bool) {
	ifi, ok := b.Instrs[len(b.Instrs)-1].(*ssa.If)
	if !ok {
		return nil, false
	}
	v, pos := boolCore(ifi.Cond)
	c, ok := v.(*ssa.Call)
	if !ok || c.Block() != b {
		return nil, false
	}
	g := c.Call.StaticCallee()
	if g == nil || !strings.HasSuffix(fnPkgPath(g), tp.pkg) {
		return nil, false
	}
	return c, pos
}

func (tp *tokenProgress) summary(f *ssa.Function) *tpSummary {
	if s, ok := tp.sums[f]; ok {
		return s
	}
	s := &tpSummary{any: 0, whenTrue: 0, whenFalse: 0}
	tp.sums[f] = s // recursion: assume nothing consumed
	if f.Blocks == nil {
		return s
	}
	res := &tpSummary{any: tpInf, whenTrue: tpInf, whenFalse: tpInf}
	tp.walkPaths(f, f.Blocks[0], nil, func(b *ssa.BasicBlock, net int, touches bool) {
		res.touches = res.touches || touches
		rt, ok := b.Instrs[len(b.Instrs)-1].(*ssa.Return)
		if !ok {
			return
		}
		res.any = tpMin(res.any, net)
		if len(rt.Results) == 1 {
			if k, ok := rt.Results[0].(*ssa.Const); ok && k.Value != nil && k.Value.String() == "true" {
				res.whenTrue = tpMin(res.whenTrue, net)
				return
			}
			if k, ok := rt.Results[0].(*ssa.Const); ok && k.Value != nil && k.Value.String() == "false" {
				res.whenFalse = tpMin(res.whenFalse, net)
				return
			}
		}
		res.whenTrue = tpMin(res.whenTrue, net)
		res.whenFalse = tpMin(res.whenFalse, net)
	})
	*s = *res
	if s.any >= tpInf {
		s.any = 0
	}
	return s
}

// walkPaths: minimal net consumption from `from` to every block, ignoring
// back edges (inner loops contribute at least 0); visit is called per block
// with the minimal net at its end.  stop: blocks not to enter (loop head).
func (tp *tokenProgress) walkPaths(f *ssa.Function, from *ssa.BasicBlock, stop *ssa.BasicBlock, visit func(b *ssa.BasicBlock, netAtEnd int, touches bool)) map[*ssa.BasicBlock]int {
	in := map[*ssa.BasicBlock]int{from: 0}
	touch := map[*ssa.BasicBlock]bool{}
	// process in reverse post order restricted to forward edges
	order := rpo(f)
	idx := map[*ssa.BasicBlock]int{}
	for i, b := range order {
		idx[b] = i
	}
	atHead := map[*ssa.BasicBlock]int{}
	for _, b := range order {
		netIn, ok := in[b]
		if !ok {
			continue
		}
		skip := map[ssa.Instruction]bool{}
		bc, pos := tp.branchedCall(b)
		if bc != nil {
			skip[bc] = true
		}
		net := netIn
		t := touch[b]
		dead := false
		for _, ins := range b.Instrs {
			n, tt, d := tp.instrNet(ins, skip)
			if d {
				dead = true
				break
			}
			net = tpAdd(net, n)
			t = t || tt
		}
		if dead {
			continue
		}
		if bc != nil {
			t = t || tp.summary(bc.Call.StaticCallee()).touches
		}
		visit(b, net, t)
		for si, s := range b.Succs {
			edgeNet := net
			if bc != nil {
				sm := tp.summary(bc.Call.StaticCallee())
				takenTrue := (si == 0) == pos
				if takenTrue {
					if sm.whenTrue >= tpInf {
						continue
					}
					edgeNet = tpAdd(net, sm.whenTrue)
				} else {
					if sm.whenFalse >= tpInf {
						continue
					}
					edgeNet = tpAdd(net, sm.whenFalse)
				}
			}
			if s == stop {
				if v, ok := atHead[s]; !ok || edgeNet < v {
					atHead[s] = edgeNet
				}
				touch[s] = touch[s] || t
				continue
			}
			if idx[s] <= idx[b] {
				continue // back edge of an inner loop
			}
			if v, ok := in[s]; !ok || edgeNet < v {
				in[s] = edgeNet
			}
			touch[s] = touch[s] || t
		}
	}
	return atHead
}

func rpo(f *ssa.Function) []*ssa.BasicBlock {
	seen := map[*ssa.BasicBlock]bool{}
	var post []*ssa.BasicBlock
	var dfs func(b *ssa.BasicBlock)
	dfs = func(b *ssa.BasicBlock) {
		if seen[b] {
			return
		}
		seen[b] = true
		for _, s := range b.Succs {
			dfs(s)
		}
		post = append(post, b)
	}
	dfs(f.Blocks[0])
	for i, j := 0, len(post)-1; i < j; i, j = i+1, j-1 {
		post[i], post[j] = post[j], post[i]
	}
	return post
}

func RunTokenProgress(w *World, r *Report, br *boundsRun, fns []*ssa.Function, pkgSuffix string) {
	r.Rule("tokenprogress: in the description parser every iteration path of a loop that reads or un-reads tokens consumes at least one token net (receive from the token channel or pop of the backlog +1, push onto the backlog -1, calls by per-result summaries, never-returning calls end a path): an iteration that can come back to the loop head with the same input position does not terminate on the input that takes it (necessary condition of termination)")
	tp := &tokenProgress{w: w, pkg: pkgSuffix, sums: map[*ssa.Function]*tpSummary{}, busy: map[*ssa.Function]bool{}, noRet: map[*ssa.Function]bool{}, noRetK: map[*ssa.Function]bool{}}
	sort.Slice(fns, func(i, j int) bool { return fnName(fns[i]) < fnName(fns[j]) })
	n := 0
	for _, fn := range fns {
		if fn.Blocks == nil {
			continue
		}
		var pr *bprover
		if br != nil {
			pr = br.prover(fn)
		}
		for _, l := range naturalLoops(fn) {
			if pr != nil {
				if arg, _ := pr.findLoopArg(l); arg.kind != "" {
					continue // ends by a counter, whatever the tokens do
				}
			}
			// paths head -> ... -> head
			touches := false
			atHead := tp.walkPathsLoop(fn, l, &touches)
			if !touches {
				continue
			}
			n++
			key := r.MkKey("tokenprogress", fnName(fn), "loop "+loopText(w, fn, l))
			pos := w.Pos(loopPos(w, l))
			if atHead >= tpInf {
				r.OK("tokenprogress", key, pos, "no iteration path returns to the loop head")
			} else if atHead >= 1 {
				r.OK("tokenprogress", key, pos, "every iteration consumes at least one token")
			} else {
				r.Fail("tokenprogress", key, pos, fmt.Sprintf("an iteration of this loop can return to the loop head with a net token consumption of %d: on the input that takes this path the parser does not advance and the loop does not end", atHead), nil)
			}
		}
	}
	r.Scope["tokenprogress_loops"] = n
}

func (tp *tokenProgress) walkPathsLoop(fn *ssa.Function, l *natLoop, touches *bool) int {
	// restrict the walk to the loop body: start at the head, stop when the head is reached again
	best := tpInf
	res := tp.walkPathsIn(fn, l, func(t bool) { *touches = *touches || t })
	if v, ok := res[l.head]; ok {
		best = v
	}
	return best
}

func (tp *tokenProgress) walkPathsIn(f *ssa.Function, l *natLoop, touched func(bool)) map[*ssa.BasicBlock]int {
	in := map[*ssa.BasicBlock]int{l.head: 0}
	order := rpo(f)
	idx := map[*ssa.BasicBlock]int{}
	for i, b := range order {
		idx[b] = i
	}
	atHead := map[*ssa.BasicBlock]int{}
	for _, b := range order {
		if !l.body[b] {
			continue
		}
		netIn, ok := in[b]
		if !ok {
			continue
		}
		skip := map[ssa.Instruction]bool{}
		bc, pos := tp.branchedCall(b)
		if bc != nil {
			skip[bc] = true
		}
		net := netIn
		dead := false
		for _, ins := range b.Instrs {
			n, tt, d := tp.instrNet(ins, skip)
			if d {
				dead = true
				break
			}
			net = tpAdd(net, n)
			if tt {
				touched(true)
			}
		}
		if dead {
			continue
		}
		if bc != nil && tp.summary(bc.Call.StaticCallee()).touches {
			touched(true)
		}
		for si, s := range b.Succs {
			if !l.body[s] {
				continue
			}
			if firstIterationEdge(b, si, l) {
				continue // taken in the first pass only: not part of the steady state
			}
			edgeNet := net
			if bc != nil {
				sm := tp.summary(bc.Call.StaticCallee())
				takenTrue := (si == 0) == pos
				v := sm.whenFalse
				if takenTrue {
					v = sm.whenTrue
				}
				if v >= tpInf {
					continue
				}
				edgeNet = tpAdd(net, v)
			}
			if s == l.head {
				if v, ok := atHead[s]; !ok || edgeNet < v {
					atHead[s] = edgeNet
				}
				continue
			}
			if idx[s] <= idx[b] {
				continue // back edge of an inner loop
			}
			if v, ok := in[s]; !ok || edgeNet < v {
				in[s] = edgeNet
			}
		}
	}
	return atHead
}

var _ = types.Typ

// firstIterationEdge: the edge b -> b.Succs[si] is taken only while a counter
// of the loop (0, +1 per pass) still has its initial value: `i > 0` false,
// `i == 0` true, `i != 0` false, `i >= 1` false, `i < 1` true.
func firstIterationEdge(b *ssa.BasicBlock, si int, l *natLoop) bool {
	ifi, ok := b.Instrs[len(b.Instrs)-1].(*ssa.If)
	if !ok {
		return false
	}
	cmp, ok := ifi.Cond.(*ssa.BinOp)
	if !ok {
		return false
	}
	ph, ok := cmp.X.(*ssa.Phi)
	if !ok || ph.Block() != l.head {
		return false
	}
	k, ok := bconstInt(cmp.Y)
	if !ok {
		return false
	}
	// counter: 0 on entry, +1 on every back edge
	for i, e := range ph.Edges {
		if l.body[l.head.Preds[i]] {
			bo, ok := e.(*ssa.BinOp)
			if !ok || bo.Op != token.ADD || bo.X != ssa.Value(ph) {
				return false
			}
			if c, ok := bconstInt(bo.Y); !ok || c != 1 {
				return false
			}
		} else if c, ok := bconstInt(e); !ok || c != 0 {
			return false
		}
	}
	onTrue := si == 0
	switch {
	case cmp.Op == token.GTR && k == 0, cmp.Op == token.NEQ && k == 0, cmp.Op == token.GEQ && k == 1:
		return !onTrue
	case cmp.Op == token.EQL && k == 0, cmp.Op == token.LSS && k == 1, cmp.Op == token.LEQ && k == 0:
		return onTrue
	}
	return false
}
