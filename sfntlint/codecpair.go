package main

// E9 codecpair: reader/writer layout agreement.
//   BE  – byte order of multi-byte reads and writes
//   FP  – field pairing between Info structs and wire structs / byte positions
//   TAB – agreement of literal tables

import (
	"fmt"
	"go/ast"
	"go/token"
	"go/types"
	"sort"
	"strings"
)

// ---------------------------------------------------------------------------
// BE rule

type beTerm struct {
	base  string // canonical text of the indexed value
	sym   string // symbolic part of the index
	off   int64  // constant part of the index
	shift int64
	width int // bit width of the converted operand (0 = unknown)
	pos   token.Pos
}

func typeBits(t types.Type) int {
	b, ok := t.Underlying().(*types.Basic)
	if !ok {
		return 0
	}
	switch b.Kind() {
	case types.Int8, types.Uint8:
		return 8
	case types.Int16, types.Uint16:
		return 16
	case types.Int32, types.Uint32:
		return 32
	case types.Int64, types.Uint64, types.Int, types.Uint, types.Uintptr:
		return 64
	}
	return 0
}

// splitIndex canonicalises an index expression into symbolic text + constant.
func splitIndex(info *types.Info, e ast.Expr) (string, int64) {
	// the index as a sum: constant part, and the other terms in a canonical order
	var c int64
	var terms []string
	var walk func(e ast.Expr, neg bool)
	walk = func(e ast.Expr, neg bool) {
		if v, ok := constInt(info, e); ok {
			if neg {
				c -= v
			} else {
				c += v
			}
			return
		}
		switch x := e.(type) {
		case *ast.ParenExpr:
			walk(x.X, neg)
			return
		case *ast.BinaryExpr:
			if x.Op == token.ADD {
				walk(x.X, neg)
				walk(x.Y, neg)
				return
			}
			if x.Op == token.SUB {
				walk(x.X, neg)
				walk(x.Y, !neg)
				return
			}
		}
		t := types.ExprString(e)
		if neg {
			t = "-" + t
		}
		terms = append(terms, t)
	}
	walk(e, false)
	sort.Strings(terms)
	return strings.Join(terms, "+"), c
}

// byteLoadTerm recognises conv(base[idx]) [<< s].
func byteLoadTerm(info *types.Info, e ast.Expr) (beTerm, bool) {
	var t beTerm
	t.pos = e.Pos()
	if p, ok := e.(*ast.ParenExpr); ok {
		return byteLoadTerm(info, p.X)
	}
	if be, ok := e.(*ast.BinaryExpr); ok && be.Op == token.SHL {
		s, ok := constInt(info, be.Y)
		if !ok {
			return t, false
		}
		inner, ok := byteLoadTerm(info, be.X)
		if !ok || inner.shift != 0 {
			return t, false
		}
		inner.shift = s
		inner.pos = e.Pos()
		return inner, true
	}
	x := e
	if call, ok := e.(*ast.CallExpr); ok && len(call.Args) == 1 {
		if tv, ok := info.Types[call.Fun]; ok && tv.IsType() {
			t.width = typeBits(tv.Type)
			x = call.Args[0]
		}
	}
	ix, ok := x.(*ast.IndexExpr)
	if !ok {
		return t, false
	}
	bt := info.TypeOf(ix)
	if bb, ok := bt.Underlying().(*types.Basic); !ok || bb.Kind() != types.Uint8 {
		return t, false
	}
	if t.width == 0 {
		t.width = 8
	}
	t.base = types.ExprString(ix.X)
	t.sym, t.off = splitIndex(info, ix.Index)
	return t, true
}

func flattenOr(e ast.Expr, out *[]ast.Expr) {
	if p, ok := e.(*ast.ParenExpr); ok {
		flattenOr(p.X, out)
		return
	}
	if be, ok := e.(*ast.BinaryExpr); ok && (be.Op == token.OR || be.Op == token.ADD) {
		flattenOr(be.X, out)
		flattenOr(be.Y, out)
		return
	}
	*out = append(*out, e)
}

// byteStoreTerm recognises byte(X >> s) / byte(X).
func byteStoreTerm(info *types.Info, e ast.Expr) (src string, shift int64, ok bool) {
	call, isCall := e.(*ast.CallExpr)
	if !isCall || len(call.Args) != 1 {
		return "", 0, false
	}
	tv, isT := info.Types[call.Fun]
	if !isT || !tv.IsType() {
		return "", 0, false
	}
	if b, isB := tv.Type.Underlying().(*types.Basic); !isB || b.Kind() != types.Uint8 {
		return "", 0, false
	}
	a := call.Args[0]
	if p, isP := a.(*ast.ParenExpr); isP {
		a = p.X
	}
	if be, isBE := a.(*ast.BinaryExpr); isBE && be.Op == token.SHR {
		if s, isC := constInt(info, be.Y); isC {
			x := be.X
			for {
				pe, isP := x.(*ast.ParenExpr)
				if !isP {
					break
				}
				x = pe.X
			}
			return types.ExprString(x), s, true
		}
		return "", 0, false
	}
	if _, isConst := constInt(info, a); isConst {
		return "", 0, false
	}
	return types.ExprString(a), 0, true
}

func RunBigEndian(w *World, r *Report, pkgFilter func(string) bool) {
	r.Rule("bigendian/read: every OR/ADD-chain of shifted byte loads base[i+k] at consecutive offsets k = 0..n-1 uses shift 8·(n-1-k) for offset k, and the converted operand is wide enough for its shift || bigendian/write: every run of consecutive elements byte(x>>s)… for one x (in byte literals, append arguments or consecutive indexed stores) has shifts descending by 8 and ending in 0")
	for _, fn := range w.LibFuncs() {
		p := fnPkgPath(fn)
		if pkgFilter != nil && !pkgFilter(p) {
			continue
		}
		if fn.Parent() != nil {
			continue // closures are visited with their parent
		}
		body, _ := funcBody(fn)
		info := w.Info(fn)
		if body == nil || info == nil {
			continue
		}
		name := fnName(fn)
		done := map[ast.Node]bool{}
		ast.Inspect(body, func(n ast.Node) bool {
			switch x := n.(type) {
			case *ast.BinaryExpr:
				if done[x] || (x.Op != token.OR && x.Op != token.ADD) {
					return true
				}
				var parts []ast.Expr
				flattenOr(x, &parts)
				// mark nested binary nodes as done
				ast.Inspect(x, func(m ast.Node) bool {
					if b, ok := m.(*ast.BinaryExpr); ok && (b.Op == token.OR || b.Op == token.ADD) {
						done[b] = true
					}
					return true
				})
				var terms []beTerm
				for _, pe := range parts {
					if t, ok := byteLoadTerm(info, pe); ok {
						terms = append(terms, t)
					}
				}
				if len(terms) < 2 || len(terms) != len(parts) {
					return true
				}
				same := true
				for _, t := range terms {
					if t.base != terms[0].base || t.sym != terms[0].sym {
						same = false
					}
				}
				if !same {
					return true
				}
				sort.Slice(terms, func(i, j int) bool { return terms[i].off < terms[j].off })
				key := r.MkKey("bigendian/read", name, fmt.Sprintf("%d-byte read of %s", len(terms), terms[0].base))
				bad := ""
				nT := int64(len(terms))
				for k, t := range terms {
					if t.off != terms[0].off+int64(k) {
						bad = "byte offsets are not consecutive"
						break
					}
					if t.shift != 8*(nT-1-int64(k)) {
						bad = fmt.Sprintf("byte at offset +%d is shifted by %d, big-endian order needs %d", k, t.shift, 8*(nT-1-int64(k)))
						break
					}
					if t.width != 0 && int64(t.width) < t.shift+8 {
						bad = fmt.Sprintf("byte at offset +%d is converted to a %d-bit type and then shifted by %d: the bits are lost", k, t.width, t.shift)
						break
					}
				}
				if bad == "" {
					r.OK("bigendian/read", key, w.Pos(x.Pos()), "big-endian")
				} else {
					r.FailC("bigendian/read", key, []string{"order"}, w.Pos(x.Pos()), bad+" in "+strings.TrimSpace(nodeText(w, x)), nil)
				}
				return true
			case *ast.CompositeLit:
				if !isByteSlice(info.TypeOf(x)) {
					return true
				}
				beWriteRuns(w, r, info, name, x.Elts)
			case *ast.CallExpr:
				if id, ok := x.Fun.(*ast.Ident); ok && id.Name == "append" && len(x.Args) > 2 && x.Ellipsis == token.NoPos {
					if isByteSlice(info.TypeOf(x.Args[0])) {
						beWriteRuns(w, r, info, name, x.Args[1:])
					}
				}
			case *ast.BlockStmt:
				beStoreRuns(w, r, info, name, x.List)
			case *ast.CaseClause:
				beStoreRuns(w, r, info, name, x.Body)
			}
			return true
		})
	}
}

func beWriteRuns(w *World, r *Report, info *types.Info, name string, elts []ast.Expr) {
	type el struct {
		src   string
		shift int64
		pos   token.Pos
	}
	var run []el
	flush := func() {
		if len(run) == 1 && run[0].shift > 0 && run[0].shift%8 == 0 {
			key := r.MkKey("bigendian/write", name, fmt.Sprintf("1-byte write of %s", run[0].src))
			r.FailC("bigendian/write", key, []string{"incomplete"}, w.Pos(run[0].pos), fmt.Sprintf("byte(%s >> %d) is written without the lower byte(s) of %s next to it: the field is incomplete", run[0].src, run[0].shift, run[0].src), nil)
		}
		if len(run) >= 2 {
			key := r.MkKey("bigendian/write", name, fmt.Sprintf("%d-byte write of %s", len(run), run[0].src))
			bad := ""
			n := int64(len(run))
			for k, e := range run {
				if e.shift != 8*(n-1-int64(k)) {
					bad = fmt.Sprintf("byte %d of %s is written with shift %d, big-endian order needs %d", k, e.src, e.shift, 8*(n-1-int64(k)))
					break
				}
			}
			if bad == "" {
				r.OK("bigendian/write", key, w.Pos(run[0].pos), "big-endian")
			} else {
				r.FailC("bigendian/write", key, []string{"order"}, w.Pos(run[0].pos), bad, nil)
			}
		}
		run = nil
	}
	for _, e := range elts {
		if kv, ok := e.(*ast.KeyValueExpr); ok {
			e = kv.Value
		}
		src, s, ok := byteStoreTerm(info, e)
		if !ok {
			flush()
			continue
		}
		if len(run) > 0 && (run[0].src != src || (s >= run[len(run)-1].shift && s != 0) || run[len(run)-1].shift == 0) {
			flush()
		}
		run = append(run, el{src, s, e.Pos()})
	}
	flush()
}

// beStoreRuns handles consecutive statements buf[i+k] = byte(x>>s).
func beStoreRuns(w *World, r *Report, info *types.Info, name string, list []ast.Stmt) {
	type st struct {
		base, sym string
		off       int64
		src       string
		shift     int64
		pos       token.Pos
	}
	var run []st
	flush := func() {
		if len(run) == 1 && run[0].shift > 0 && run[0].shift%8 == 0 {
			key := r.MkKey("bigendian/write", name, fmt.Sprintf("1-byte store of %s into %s", run[0].src, run[0].base))
			r.FailC("bigendian/write", key, []string{"incomplete"}, w.Pos(run[0].pos), fmt.Sprintf("byte(%s >> %d) is stored without the lower byte(s) of %s behind it: the field is incomplete (the missing byte stays 0)", run[0].src, run[0].shift, run[0].src), nil)
		}
		if len(run) >= 2 {
			sort.SliceStable(run, func(i, j int) bool { return run[i].off < run[j].off })
			key := r.MkKey("bigendian/write", name, fmt.Sprintf("%d-byte store of %s into %s", len(run), run[0].src, run[0].base))
			bad := ""
			n := int64(len(run))
			for k, e := range run {
				if e.off != run[0].off+int64(k) {
					bad = "store offsets are not consecutive"
					break
				}
				if e.shift != 8*(n-1-int64(k)) {
					bad = fmt.Sprintf("byte at offset +%d of %s is written with shift %d, big-endian order needs %d", k, e.src, e.shift, 8*(n-1-int64(k)))
					break
				}
			}
			if bad == "" {
				r.OK("bigendian/write", key, w.Pos(run[0].pos), "big-endian")
			} else {
				r.FailC("bigendian/write", key, []string{"order"}, w.Pos(run[0].pos), bad, nil)
			}
		}
		run = nil
	}
	for _, s := range list {
		as, ok := s.(*ast.AssignStmt)
		if !ok || as.Tok != token.ASSIGN || len(as.Lhs) != 1 || len(as.Rhs) != 1 {
			flush()
			continue
		}
		ix, ok := as.Lhs[0].(*ast.IndexExpr)
		if !ok || !isByteSlice(info.TypeOf(ix.X)) {
			flush()
			continue
		}
		src, sh, ok := byteStoreTerm(info, as.Rhs[0])
		if !ok {
			flush()
			continue
		}
		sym, off := splitIndex(info, ix.Index)
		base := types.ExprString(ix.X)
		if len(run) > 0 && (run[0].base != base || run[0].sym != sym || run[0].src != src) {
			flush()
		}
		run = append(run, st{base, sym, off, src, sh, as.Pos()})
	}
	flush()
}

// condHalvesAgree: in package os2 the 8-byte code page range is stored as two
// big-endian 32-bit halves, low half first. Reader and writer must use the
// same (byte offset -> shift) assignment.
func condHalvesAgree(w *World) func() (bool, string) {
	return func() (bool, string) {
		p := w.All[modPath+"/os2"]
		if p == nil {
			return false, "package os2 not loaded"
		}
		info := p.TypesInfo
		var readMap, writeMap map[int64]int64
		for _, f := range p.Syntax {
			ast.Inspect(f, func(n ast.Node) bool {
				switch x := n.(type) {
				case *ast.BinaryExpr:
					if x.Op != token.OR {
						return true
					}
					var parts []ast.Expr
					flattenOr(x, &parts)
					if len(parts) != 8 {
						return true
					}
					m := map[int64]int64{}
					for _, pe := range parts {
						t, ok := byteLoadTerm(info, pe)
						if !ok {
							return true
						}
						if int64(t.width) < t.shift+8 {
							return true
						}
						m[t.off] = t.shift
					}
					if len(m) == 8 {
						readMap = m
					}
				case *ast.CompositeLit:
					if !isByteSlice(info.TypeOf(x)) || len(x.Elts) != 8 {
						return true
					}
					m := map[int64]int64{}
					src := ""
					for k, e := range x.Elts {
						s, sh, ok := byteStoreTerm(info, e)
						if !ok || (src != "" && s != src) {
							return true
						}
						src = s
						m[int64(k)] = sh
					}
					if len(m) == 8 {
						writeMap = m
					}
				}
				return true
			})
		}
		if readMap == nil || writeMap == nil {
			return false, "cannot find the 8-byte code page range reader and writer"
		}
		for k, v := range readMap {
			if writeMap[k] != v {
				return false, fmt.Sprintf("byte %d is read with shift %d but written with shift %d", k, v, writeMap[k])
			}
		}
		seen := map[int64]bool{}
		for _, v := range readMap {
			seen[v] = true
		}
		for s := int64(0); s < 64; s += 8 {
			if !seen[s] {
				return false, fmt.Sprintf("no byte carries bits %d..%d", s, s+7)
			}
		}
		return true, ""
	}
}
