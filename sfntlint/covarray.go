package main

// Coverage/array pairing of lookup subtables: a subtable that looks a glyph
// up in one of its coverage tables and uses the coverage index to index one
// of its arrays relies on "every coverage index is a valid index of the
// array".  The pairs are discovered in the apply methods, the invariant is
// verified where the readers build the subtable (rule covarray) and assumed
// where apply uses it.

import (
	"fmt"
	"os"
	"go/types"
	"sort"
	"strings"

	"golang.org/x/tools/go/ssa"
)

const coverageTableType = modPath + "/opentype/coverage.Table"

type covPair struct {
	typ      string // struct type key
	cov, arr string // field names
}

// fieldLoad: v is (a load of) field f of base b.
func fieldLoadOf(p *bprover, v ssa.Value) (base ssa.Value, st string, field string, ok bool) {
	v = p.canonVal(v)
	var addr ssa.Value
	switch x := v.(type) {
	case *ssa.UnOp:
		addr = x.X
	case *memVal:
		addr = x.addr
	}
	fa, isF := addr.(*ssa.FieldAddr)
	if !isF {
		return nil, "", "", false
	}
	pt := fa.X.Type().Underlying().(*types.Pointer).Elem()
	stt := pt.Underlying().(*types.Struct)
	return p.canonVal(fa.X), typeKey(pt), stt.Field(fa.Field).Name(), true
}

// discoverCovPairs scans the given functions for  idx, ok := X.cov[g] ... X.arr[idx].
func discoverCovPairs(br *boundsRun, fns []*ssa.Function) []covPair {
	seen := map[covPair]bool{}
	for _, fn := range fns {
		p := br.prover(fn)
		for _, b := range fn.Blocks {
			for _, in := range b.Instrs {
				ia, ok := in.(*ssa.IndexAddr)
				if !ok {
					continue
				}
				ab, at, af, ok := fieldLoadOf(p, ia.X)
				if !ok {
					continue
				}
				for v := range backSlice(ia.Index) {
					ex, ok := v.(*ssa.Extract)
					if !ok || ex.Index != 0 {
						continue
					}
					lk, ok := ex.Tuple.(*ssa.Lookup)
					if !ok || !lk.CommaOk || typeKey(lk.X.Type()) != coverageTableType {
						continue
					}
					cb, ct, cf, ok := fieldLoadOf(p, lk.X)
					if !ok || cb != ab || ct != at {
						continue
					}
					seen[covPair{at, cf, af}] = true
				}
			}
		}
	}
	var res []covPair
	for c := range seen {
		res = append(res, c)
	}
	sort.Slice(res, func(i, j int) bool {
		if res[i].typ != res[j].typ {
			return res[i].typ < res[j].typ
		}
		return res[i].cov+res[i].arr < res[j].cov+res[j].arr
	})
	return res
}

// covPairFacts: for  v, ok := B.cov[g]  (ok true) add  0 <= v < len(B.arr)
// for every load of B.arr in the function.
func (p *bprover) covPairFacts(lk *ssa.Lookup, v ssa.Value, out *[]bfact) {
	if typeKey(lk.X.Type()) != coverageTableType {
		return
	}
	vl := p.linOf(v)
	*out = append(*out, bfact{e: vl, why: "coverage indices are non-negative (rule covvalue)"})
	if p.br == nil || len(p.br.covPairs) == 0 {
		return
	}
	cb, ct, cf, ok := fieldLoadOf(p, lk.X)
	if !ok {
		return
	}
	for _, cp := range p.br.covPairs {
		if cp.typ != ct || cp.cov != cf {
			continue
		}
		for _, b := range p.fn.Blocks {
			for _, in := range b.Instrs {
				ld, ok := in.(*ssa.UnOp)
				if !ok {
					continue
				}
				ab, at, af, ok := fieldLoadOf(p, ld)
				if !ok || ab != cb || at != ct || af != cp.arr {
					continue
				}
				if d, ok := p.lenOf(ld).sub(vl); ok {
					*out = append(*out, bfact{e: d.addc(-1), why: "coverage/array pairing of " + shortName(ct) + " (rule covarray)"})
				}
			}
		}
	}
}

// RunCovArray verifies the pairs where library code builds the subtables,
// and that coverage tables only ever receive non-negative indices.
func RunCovArray(w *World, r *Report, br *boundsRun, pairs []covPair) {
	r.Rule("covarray: for every (subtable type, coverage field, array field) that an apply method uses as 'index of the glyph in the coverage table selects the array element', every place in the library readers where a value of that type is built stores an array at least as long as the coverage table (which maps its glyphs to 0..n-1: coverage.Read numbers them consecutively, Prune(n) keeps the indices below n) || covvalue: every value stored into a coverage.Table in the library is non-negative")
	byType := map[string][]covPair{}
	for _, cp := range pairs {
		byType[cp.typ] = append(byType[cp.typ], cp)
	}
	for _, fn := range w.LibFuncs() {
		if fn.Blocks == nil {
			continue
		}
		var p *bprover
		for _, b := range fn.Blocks {
			for _, in := range b.Instrs {
				switch x := in.(type) {
				case *ssa.MapUpdate:
					if typeKey(x.Map.Type()) != coverageTableType {
						continue
					}
					if p == nil {
						p = br.prover(fn)
					}
					key := r.MkKey("covvalue", fnName(fn), "store into coverage.Table")
					if p.proveAt(b, p.linOf(x.Value)) {
						r.OK("covvalue", key, w.Pos(x.Pos()), "index >= 0")
					} else {
						r.Fail("covvalue", key, w.Pos(x.Pos()), "a coverage index that is not shown to be non-negative is stored", nil)
					}
				case *ssa.Alloc:
					tk := typeKey(x.Type().Underlying().(*types.Pointer).Elem())
					cps := byType[tk]
					if len(cps) == 0 || strings.Contains(fnPkgPath(fn), "/builder") {
						continue
					}
					if p == nil {
						p = br.prover(fn)
					}
					stores := map[string]*ssa.Store{}
					for _, ref := range *x.Referrers() {
						fa, ok := ref.(*ssa.FieldAddr)
						if !ok {
							continue
						}
						name := fa.X.Type().Underlying().(*types.Pointer).Elem().Underlying().(*types.Struct).Field(fa.Field).Name()
						for _, r2 := range *fa.Referrers() {
							if st, ok := r2.(*ssa.Store); ok && st.Addr == ssa.Value(fa) {
								stores[name] = st
							}
						}
					}
					for _, cp := range cps {
						cs, as := stores[cp.cov], stores[cp.arr]
						key := r.MkKey("covarray", fnName(fn), shortName(tk)+"{"+cp.cov+", "+cp.arr+"}")
						if cs == nil && as == nil {
							continue // zero value
						}
						if cs == nil {
							r.OK("covarray", key, w.Pos(x.Pos()), "no coverage table stored")
							continue
						}
						if as == nil {
							r.Fail("covarray", key, w.Pos(x.Pos()), "a coverage table is stored but no array", nil)
							continue
						}
						last := cs
						if as.Block() != cs.Block() && cs.Block().Dominates(as.Block()) || as.Block() == cs.Block() && as.Pos() > cs.Pos() {
							last = as
						}
						ml := p.memAt(last, cs.Val, "#maplen")
						if ml == nil {
							r.Fail("covarray", key, w.Pos(x.Pos()), "the length of the coverage table at this point cannot be identified", nil)
							continue
						}
						d, ok := p.lenOf(as.Val).sub(p.linOf(ml))
						if os.Getenv("SFNT_COVDEBUG") != "" && strings.Contains(fnName(fn), os.Getenv("SFNT_COVDEBUG")) {
							fmt.Println("covarray debug", fnName(fn), cp, "maplen value:", ml.Name(), "goal:", p.linStr(d))
							for a := range d.t {
								fmt.Printf("   atom %s = %s\n", p.atomStr(a), a.v.Name())
								if mv, ok := a.v.(*memVal); ok {
									for _, e := range mv.edges {
										fmt.Printf("       edge %s", e.Name())
										if me, ok := e.(*memVal); ok {
											fmt.Printf(" sites=%d ins=%d", len(me.sites), len(me.siteIns))
											for _, si := range me.siteIns {
												fmt.Printf(" [%s]", si.String())
											}
										}
										fmt.Println()
									}
								}
								for _, f := range p.atomFacts(a) {
									fmt.Println("       atomfact", p.linStr(f.e), f.why)
								}
							}
							if mv, ok := ml.(*memVal); ok {
								fmt.Println("   sites", len(mv.sites), "siteIns", len(mv.siteIns), "edges", len(mv.edges))
								for _, e := range mv.edges {
									fmt.Println("     edge", e.Name())
								}
							}
							p.trace = true
							p.proveAt(last.Block(), d)
							p.trace = false
						}
						if ok && p.proveAt(last.Block(), d) {
							r.OK("covarray", key, w.Pos(x.Pos()), "len("+cp.arr+") >= len("+cp.cov+") where the value is built")
						} else {
							r.Fail("covarray", key, w.Pos(x.Pos()), fmt.Sprintf("%s is built with an array %s that is not shown to be at least as long as its coverage table %s; %s.apply indexes the array with coverage indices", shortName(tk), cp.arr, cp.cov, shortName(tk)), nil)
						}
					}
				}
			}
		}
	}
}
