package main

import (
	"fmt"
	"os"
	"go/ast"
	"go/constant"
	"go/token"
	"go/types"
	"strings"

	"golang.org/x/tools/go/ssa"
)

func init() { properties["C04"] = propC04 }

// C04: compiling glyphs to Type 2 charstrings.  The statement as a whole is a
// relation between coordinate values and emitted bytes (value-level); what is
// decided here are its structural clauses: the emitted code always ends the
// glyph, never needs more than 48 operand-stack entries (stem chunks and
// every operator form the optimiser can choose), and the flex forms are
// emitted only under the preconditions the operators assume, with the
// operands in the specified order.
func propC04(w *World, r *Report) {
	for _, a := range boundsAssumptions {
		r.Assumes(a)
	}
	checkEndChar(w, r)
	checkStemChunks(w, r)
	checkEdgeStack(w, r)
	checkFlexGuards(w, r)
	checkWidthPrefix(w, r)
	checkMoveToForms(w, r)
	checkOperandSelection(w, r)
	checkRoundingBase(w, r)
	checkWidthDict(w, r)
	checkStemOpEmit(w, r)
	RunNumberExact(w, r)
	checkFloatRange(w, r)
	checkStemRef(w, r)
	checkStemOpVertical(w, r)
}

// ---- endchar

func checkEndChar(w *World, r *Report) {
	r.Rule("endchar: every return of cff.encodePaths is dominated by the append of t2endchar.Bytes() to the result and nothing is appended to the result afterwards; encodeCharString emits the result of encodePaths after the header (width, stems)")
	fn := w.Func("cff.encodePaths")
	if fn == nil {
		r.Fatal("cff.encodePaths does not resolve")
		return
	}
	endOp := int64(-1)
	if sp := w.SSAPkg[modPath+"/cff"]; sp != nil {
		if c, ok := sp.Members["t2endchar"].(*ssa.NamedConst); ok {
			endOp, _ = constant.Int64Val(c.Value.Value)
		}
	}
	// the append whose element is the result of (t2op).Bytes() on the endchar constant
	var endAppend *ssa.Call
	var appends []*ssa.Call
	for _, b := range fn.Blocks {
		for _, in := range b.Instrs {
			c, ok := in.(*ssa.Call)
			if !ok {
				continue
			}
			bi, ok := c.Call.Value.(*ssa.Builtin)
			if !ok || bi.Name() != "append" {
				continue
			}
			if _, is2d := c.Type().Underlying().(*types.Slice); !is2d {
				continue
			}
			if st, ok := c.Type().Underlying().(*types.Slice); !ok || st.Elem().String() != "[]byte" {
				continue
			}
			appends = append(appends, c)
			var elems []ssa.Value
			if sl, ok := c.Call.Args[len(c.Call.Args)-1].(*ssa.Slice); ok {
				if al, ok := sl.X.(*ssa.Alloc); ok && al.Referrers() != nil {
					for _, ref := range *al.Referrers() {
						if ia, ok := ref.(*ssa.IndexAddr); ok && ia.Referrers() != nil {
							for _, r2 := range *ia.Referrers() {
								if st, ok := r2.(*ssa.Store); ok {
									elems = append(elems, st.Val)
								}
							}
						}
					}
				}
			}
			sliceOf := map[ssa.Value]bool{}
			for _, e := range elems {
				for v := range backSlice(e) {
					sliceOf[v] = true
				}
			}
			for v := range sliceOf {
				if call, ok := v.(*ssa.Call); ok {
					if callee := call.Call.StaticCallee(); callee != nil && callee.Name() == "Bytes" && len(call.Call.Args) == 1 {
						if k, ok := bconstInt(call.Call.Args[0]); ok && k == endOp {
							endAppend = c
						}
					}
				}
			}
		}
	}
	n := 0
	for _, b := range fn.Blocks {
		if len(b.Instrs) == 0 {
			continue
		}
		ret, ok := b.Instrs[len(b.Instrs)-1].(*ssa.Return)
		if !ok {
			continue
		}
		n++
		key := r.MkKey("endchar", "cff.encodePaths", "return")
		switch {
		case endAppend == nil:
			r.Fail("endchar", key, w.Pos(ret.Pos()), "no append of t2endchar.Bytes() found in encodePaths", nil)
		case !(endAppend.Block() == b || endAppend.Block().Dominates(b)):
			r.Fail("endchar", key, w.Pos(ret.Pos()), "encodePaths can return without having appended endchar: the charstring does not end the glyph", nil)
		case len(ret.Results) != 1 || ret.Results[0] != ssa.Value(endAppend):
			// something was appended after endchar, or a different value is returned
			later := false
			for _, a := range appends {
				if a != endAppend && (endAppend.Block().Dominates(a.Block()) && a.Block() != endAppend.Block() || a.Block() == endAppend.Block() && a.Pos() > endAppend.Pos()) {
					later = true
				}
			}
			if later {
				r.Fail("endchar", key, w.Pos(ret.Pos()), "code is appended after endchar", nil)
			} else {
				r.OK("endchar", key, w.Pos(ret.Pos()), "endchar is the last element appended")
			}
		default:
			r.OK("endchar", key, w.Pos(ret.Pos()), "returns the result of append(res, t2endchar.Bytes())")
		}
	}
	// encodeCharString uses encodePaths and emits its result last
	ecs := w.Func("(*cff.Glyph).encodeCharString")
	key := r.MkKey("endchar", "encodeCharString", "path data emitted last")
	if ecs == nil {
		r.Fail("endchar", key, "-", "(*cff.Glyph).encodeCharString does not resolve", nil)
	} else {
		called := false
		for _, b := range ecs.Blocks {
			for _, in := range b.Instrs {
				if c, ok := in.(*ssa.Call); ok && c.Call.StaticCallee() == fn {
					called = true
				}
			}
		}
		if called {
			r.OK("endchar", key, w.Pos(ecs.Pos()), "encodeCharString calls encodePaths")
		} else {
			r.Fail("endchar", key, w.Pos(ecs.Pos()), "encodeCharString does not call encodePaths", nil)
		}
	}
	if n == 0 {
		r.Fatal("endchar: no return found in encodePaths")
	}
	r.Floor("endchar", 2)
}

// ---- stem chunks

func checkStemChunks(w *World, r *Report) {
	r.Rule("stemchunk: in encodeCharString the stem deltas are emitted in chunks stems[:2*k] with 2*k + (operands already on the stack: the width) <= maxStack (linear prover on the slice bound)")
	fn := w.Func("(*cff.Glyph).encodeCharString")
	if fn == nil {
		r.Fatal("(*cff.Glyph).encodeCharString does not resolve")
		return
	}
	maxStack := int64(48)
	if sp := w.SSAPkg[modPath+"/cff"]; sp != nil {
		if c, ok := sp.Members["maxStack"].(*ssa.NamedConst); ok {
			maxStack, _ = constant.Int64Val(c.Value.Value)
		}
	}
	br := newBoundsRun(w)
	p := br.prover(fn)
	n := 0
	for _, b := range fn.Blocks {
		for _, in := range b.Instrs {
			sl, ok := in.(*ssa.Slice)
			if !ok || sl.High == nil || sl.Low != nil {
				continue
			}
			if st, ok := sl.Type().Underlying().(*types.Slice); !ok || st.Elem().String() != "float64" {
				continue
			}
			n++
			key := r.MkKey("stemchunk", "encodeCharString", "chunk "+types.ExprString(ast.NewIdent("stems[:2*k]")))
			// 2k + extra <= maxStack, where extra is the phi that carries len(header) / 0
			hi := p.linOf(sl.High)
			neg, _ := hi.scale(-1)
			// find the int phi "extra": it is subtracted from maxStack in the computation of k
			var extra ssa.Value
			for v := range backSlice(sl.High) {
				if bo, ok := v.(*ssa.BinOp); ok && bo.Op == token.SUB {
					if c, ok := bconstInt(bo.X); ok && c == maxStack {
						extra = bo.Y
					}
				}
			}
			if extra == nil {
				r.Fail("stemchunk", key, w.Pos(sl.Pos()), "the chunk size is not derived from maxStack minus the operands already pushed", nil)
				continue
			}
			goal, ok := neg.sub(p.linOf(extra))
			// lemma: the operands already pushed are at most one (the width): every
			// value flowing into the phi is shown to be <= 1 where it is produced
			var lemma []bfact
			if ph, isPhi := extra.(*ssa.Phi); isPhi {
				all := true
				for i, e := range ph.Edges {
					pred := ph.Block().Preds[i]
					ne, _ := p.linOf(e).scale(-1)
					if !p.prove(p.edgeFacts(pred, ph.Block()), ne.addc(1), pred, 3) {
						all = false
					}
				}
				if all {
					ne, _ := blatom(atom{aVal, ph}).scale(-1)
					lemma = append(lemma, bfact{e: ne.addc(1), why: "every value flowing into " + ph.Comment + " is at most 1"})
				}
			}
			if os.Getenv("SFNT_BDEBUG") == "stemchunk" {
				fmt.Println("lemma facts:", len(lemma))
				p.trace = true
				p.prove(append(append([]bfact{}, p.factsAt(b)...), lemma...), goal.addc(maxStack), b, 3)
				p.trace = false
			}
			if ok && p.prove(append(append([]bfact{}, p.factsAt(b)...), lemma...), goal.addc(maxStack), b, 3) {
				r.OK("stemchunk", key, w.Pos(sl.Pos()), fmt.Sprintf("2k + extra <= %d", maxStack))
			} else {
				r.Fail("stemchunk", key, w.Pos(sl.Pos()), fmt.Sprintf("cannot show that the chunk of stem deltas plus the operands already pushed stays within %d stack entries", maxStack), nil)
			}
		}
	}
	if n == 0 {
		r.Fail("stemchunk", r.MkKey("stemchunk", "encodeCharString", "chunk"), w.Pos(fn.Pos()), "no chunking of the stem list found", nil)
	}
	r.Floor("stemchunk", 1)
	checkStemBase(w, r, fn)
}

// checkStemBase: every stem operator starts again at 0 (TN5177 4.3: the
// first value of hstem/vstem is relative to 0).  The deltas handed to
// encodeNumber are x - prev; in the loop over one chunk, prev must enter with
// the constant 0 — not with what the previous chunk left behind.
func checkStemBase(w *World, r *Report, fn *ssa.Function) {
	r.Rule("stembase: in encodeCharString the running edge that the stem deltas are taken against (the subtrahend of the value handed to encodeNumber in the chunk loop) enters the loop over each chunk as the constant 0: every hstem/vstem operator starts at 0 again")
	n := 0
	for _, b := range fn.Blocks {
		for _, in := range b.Instrs {
			c, ok := in.(*ssa.Call)
			if !ok {
				continue
			}
			cal := c.Call.StaticCallee()
			if cal == nil || cal.Name() != "encodeNumber" || len(c.Call.Args) != 1 {
				continue
			}
			sub, ok := c.Call.Args[0].(*ssa.BinOp)
			if !ok || sub.Op != token.SUB {
				continue
			}
			ph, ok := sub.Y.(*ssa.Phi)
			if !ok || !isLoopPhi(ph) {
				continue
			}
			n++
			key := r.MkKey("stembase", "encodeCharString", "base of the stem deltas")
			bad := ""
			for i, e := range ph.Edges {
				if ph.Block().Dominates(ph.Block().Preds[i]) {
					continue // back edge
				}
				cst, isC := e.(*ssa.Const)
				if !isC || cst.Value == nil || !(constant.Sign(cst.Value) == 0) {
					bad = "the base enters the chunk loop as " + e.Name() + ", not as 0"
				}
			}
			if bad == "" {
				r.OK("stembase", key, w.Pos(sub.Pos()), "the base is 0 at the start of every chunk")
			} else {
				r.Fail("stembase", key, w.Pos(sub.Pos()), bad+": the stems of the second and later operators of one direction are written relative to the last edge of the previous operator, but every stem operator counts from 0", nil)
			}
		}
	}
	if n == 0 {
		r.Fail("stembase", r.MkKey("stembase", "encodeCharString", "base of the stem deltas"), w.Pos(fn.Pos()), "no delta x - prev handed to encodeNumber in a loop found", nil)
	}
	r.Floor("stembase", 1)
}

// ---- operand counts of the path operators (AST interpreter)

// The local variables of AppendEdges are identified by their types, not by
// their names: the operand list is the [][]byte variable, the command list
// the []enCmd (encoder) variable, the result the []edge variable.
var c04Names = struct{ code, cmds, edges string }{"code", "cmds", "edges"}

func c04ResolveNames(info *types.Info, fd *ast.FuncDecl) {
	c04Names.code, c04Names.cmds, c04Names.edges = "code", "cmds", "edges"
	seen := map[string]string{}
	ast.Inspect(fd, func(n ast.Node) bool {
		id, ok := n.(*ast.Ident)
		if !ok {
			return true
		}
		obj := info.Defs[id]
		if obj == nil {
			return true
		}
		v, ok := obj.(*types.Var)
		if !ok {
			return true
		}
		switch t := v.Type().Underlying().(type) {
		case *types.Slice:
			es := t.Elem().String()
			switch {
			case es == "[]byte":
				if _, dup := seen["code"]; !dup {
					seen["code"] = id.Name
				}
			case strings.HasSuffix(es, "cff.enCmd"):
				if _, isParam := seen["cmds"]; !isParam && !v.IsField() {
					// the receiver (enc) has the same element type: prefer a variable defined in the body
					if id.Pos() > fd.Body.Pos() {
						seen["cmds"] = id.Name
					}
				}
			case strings.HasSuffix(es, "cff.edge"):
				if _, dup := seen["edges"]; !dup {
					seen["edges"] = id.Name
				}
			}
		}
		return true
	})
	if v, ok := seen["code"]; ok {
		c04Names.code = v
	}
	if v, ok := seen["cmds"]; ok {
		c04Names.cmds = v
	}
	if v, ok := seen["edges"]; ok {
		c04Names.edges = v
	}
}

type esState struct {
	a     int             // operands appended to code since the reference point
	cap   int             // operands that may be appended since the reference point
	env   map[string]bool // known boolean variables
	arity map[string]int  // arity of cmds[<expr>] by source text of the index
	dead  bool
}

func (s esState) clone() esState {
	n := esState{a: s.a, cap: s.cap, env: map[string]bool{}, arity: map[string]int{}}
	for k, v := range s.env {
		n.env[k] = v
	}
	for k, v := range s.arity {
		n.arity[k] = v
	}
	return n
}

type esInterp struct {
	w        *World
	r        *Report
	info     *types.Info
	fset     *token.FileSet
	maxStack int
	opArity  map[string]int // OpLineTo -> 2
	nEdges   int
	fnName   string
}

func checkEdgeStack(w *World, r *Report) {
	r.Rule("edgestack: in (encoder).AppendEdges every operator form offered to the shortest-path search has at most maxStack operands: along every path through a loop iteration the number of operands appended to the code list is covered by a test len(code)+K <= maxStack made earlier in that iteration (loop condition or inner test), counting appendArgs by the arity of the command kind (2 for lines, 6 for curves, taken from encodeArgs) — abstract interpretation of the function body over (operands appended, tested budget, known booleans)")
	pkg := w.All[modPath+"/cff"]
	if pkg == nil {
		r.Fatal("package cff not loaded")
		return
	}
	var appendEdges, encodeArgs *ast.FuncDecl
	for _, f := range pkg.Syntax {
		for _, d := range f.Decls {
			if fd, ok := d.(*ast.FuncDecl); ok {
				switch fd.Name.Name {
				case "AppendEdges":
					appendEdges = fd
				case "encodeArgs":
					encodeArgs = fd
				}
			}
		}
	}
	if appendEdges == nil || encodeArgs == nil {
		r.Fatal("AppendEdges / encodeArgs not found in package cff")
		return
	}
	c04ResolveNames(pkg.TypesInfo, appendEdges)
	in := &esInterp{w: w, r: r, info: pkg.TypesInfo, fset: w.Fset, maxStack: 48, opArity: map[string]int{}, fnName: "(cff.encoder).AppendEdges"}
	if c, ok := pkg.Types.Scope().Lookup("maxStack").(*types.Const); ok {
		if v, ok := constant.Int64Val(c.Val()); ok {
			in.maxStack = int(v)
		}
	}
	// arities from encodeArgs: case OpX, OpY: ... .Args = []encodedNumber{...}
	ast.Inspect(encodeArgs.Body, func(n ast.Node) bool {
		cc, ok := n.(*ast.CaseClause)
		if !ok {
			return true
		}
		ar := -1
		ast.Inspect(cc, func(m ast.Node) bool {
			as, ok := m.(*ast.AssignStmt)
			if !ok || len(as.Lhs) != 1 || len(as.Rhs) != 1 {
				return true
			}
			if sel, ok := as.Lhs[0].(*ast.SelectorExpr); ok && sel.Sel.Name == "Args" {
				if cl, ok := as.Rhs[0].(*ast.CompositeLit); ok {
					ar = len(cl.Elts)
				}
			}
			return true
		})
		if ar >= 0 {
			for _, e := range cc.List {
				in.opArity[types.ExprString(e)] = ar
			}
		}
		return true
	})
	if in.opArity["OpLineTo"] == 0 || in.opArity["OpCurveTo"] == 0 {
		r.Fail("edgestack", r.MkKey("edgestack", in.fnName, "arity table"), w.Pos(encodeArgs.Pos()), "the numbers of operands of line and curve commands could not be read from encodeArgs", nil)
		return
	}
	start := esState{cap: in.maxStack, env: map[string]bool{}, arity: map[string]int{}}
	in.block(appendEdges.Body.List, []esState{start}, nil)
	if in.nEdges < 8 {
		r.Fail("edgestack", r.MkKey("edgestack", in.fnName, "edges"), w.Pos(appendEdges.Pos()), fmt.Sprintf("only %d operator forms found in AppendEdges", in.nEdges), nil)
	}
	r.Floor("edgestack", 8)
}

type esLoop struct {
	breaks, continues *[]esState
}

// block interprets statements; it returns the states that fall through.
func (in *esInterp) block(stmts []ast.Stmt, states []esState, lp *esLoop) []esState {
	for _, st := range stmts {
		if len(states) == 0 {
			return nil
		}
		states = in.stmt(st, states, lp)
	}
	return states
}

func (in *esInterp) isCode(e ast.Expr) bool {
	id, ok := e.(*ast.Ident)
	return ok && id.Name == c04Names.code
}

func (in *esInterp) pos(n ast.Node) string {
	p := in.fset.Position(n.Pos())
	return fmt.Sprintf("%s:%d:%d", strings.TrimPrefix(p.Filename, in.w.Dir+"/"), p.Line, p.Column)
}

func (in *esInterp) operandCount(args []ast.Expr, ell bool, st esState) (int, bool) {
	n := 0
	for i, a := range args {
		if ell && i == len(args)-1 {
			// cmds[pos].Args...
			if sel, ok := a.(*ast.SelectorExpr); ok && sel.Sel.Name == "Args" {
				if ar, ok := st.arity[types.ExprString(sel.X)]; ok {
					n += ar
					continue
				}
			}
			return 0, false
		}
		// operator entries (X.Bytes()) are not operands
		if call, ok := a.(*ast.CallExpr); ok {
			if sel, ok := call.Fun.(*ast.SelectorExpr); ok && sel.Sel.Name == "Bytes" {
				continue
			}
		}
		n++
	}
	return n, true
}

func (in *esInterp) check(st esState, n ast.Node, what string, extra int) {
	in.nEdges++
	key := in.r.MkKey("edgestack", in.fnName, what)
	if st.a+extra <= st.cap {
		in.r.OK("edgestack", key, in.pos(n), fmt.Sprintf("at most %d operands appended under a tested budget of %d", st.a+extra, st.cap))
	} else {
		in.r.Fail("edgestack", key, in.pos(n), fmt.Sprintf("%s can carry %d operands beyond the point where len(code)+%d <= maxStack was tested: the operand stack limit of %d is not guaranteed", what, st.a+extra, st.cap, in.maxStack), nil)
	}
}

func (in *esInterp) stmt(s ast.Stmt, states []esState, lp *esLoop) []esState {
	switch x := s.(type) {
	case *ast.AssignStmt:
		if len(x.Lhs) == 1 && len(x.Rhs) == 1 {
			// code = append(code, ...)
			if call, ok := x.Rhs[0].(*ast.CallExpr); ok {
				if id, ok := call.Fun.(*ast.Ident); ok && id.Name == "append" && len(call.Args) > 0 {
					if in.isCode(x.Lhs[0]) && in.isCode(call.Args[0]) {
						var out []esState
						for _, st := range states {
							n, ok := in.operandCount(call.Args[1:], call.Ellipsis.IsValid(), st)
							if !ok {
								in.r.Fail("edgestack", in.r.MkKey("edgestack", in.fnName, "append of unknown size"), in.pos(x), "an append to the code list has a size this rule cannot determine", nil)
								continue
							}
							st.a += n
							out = append(out, st)
						}
						return out
					}
					// edges = append(edges, edge{code: ..., to: ...})
					if lid, ok := x.Lhs[0].(*ast.Ident); ok && lid.Name == c04Names.edges {
						for _, a := range call.Args[1:] {
							cl, ok := a.(*ast.CompositeLit)
							if !ok {
								continue
							}
							for _, el := range cl.Elts {
								kv, ok := el.(*ast.KeyValueExpr)
								if !ok {
									continue
								}
								// the field of edge that holds the operand list: by type
								if kid, isID := kv.Key.(*ast.Ident); isID {
									if obj := in.info.ObjectOf(kid); obj == nil || obj.Type().String() != "[][]byte" {
										continue
									}
								} else {
									continue
								}
								for _, st := range states {
									switch v := kv.Value.(type) {
									case *ast.Ident:
										in.check(st, x, "edge built from code", 0)
									case *ast.CallExpr: // copyOp(code, op, extra...)
										opName := "?"
										if len(v.Args) > 1 {
											opName = types.ExprString(v.Args[1])
										}
										extra, ok := 0, true
										if len(v.Args) > 2 {
											extra, ok = in.operandCount(v.Args[2:], v.Ellipsis.IsValid(), st)
										}
										if !ok {
											in.r.Fail("edgestack", in.r.MkKey("edgestack", in.fnName, "edge "+opName), in.pos(x), "the number of extra operands of this edge cannot be determined (command kind not tested)", nil)
										} else {
											in.check(st, x, "edge "+opName, extra)
										}
									}
								}
							}
						}
						return states
					}
				}
				// code = cmds[pos].appendArgs(code)
				if sel, ok := call.Fun.(*ast.SelectorExpr); ok && sel.Sel.Name == "appendArgs" && in.isCode(x.Lhs[0]) {
					var out []esState
					for _, st := range states {
						ar, ok := st.arity[types.ExprString(sel.X)]
						if !ok {
							in.r.Fail("edgestack", in.r.MkKey("edgestack", in.fnName, "appendArgs of "+types.ExprString(sel.X)), in.pos(x), "appendArgs is applied to a command whose kind was not tested on this path", nil)
							continue
						}
						st.a += ar
						out = append(out, st)
					}
					return out
				}
			}
			// code = code[:0]
			if in.isCode(x.Lhs[0]) {
				if sl, ok := x.Rhs[0].(*ast.SliceExpr); ok && in.isCode(sl.X) && sl.Low == nil && sl.High != nil {
					if tv, ok := in.info.Types[sl.High]; ok && tv.Value != nil && tv.Value.String() == "0" {
						var out []esState
						for _, st := range states {
							st.a, st.cap = 0, in.maxStack
							out = append(out, st)
						}
						return out
					}
				}
				// any other assignment to code: unknown length
				var out []esState
				for _, st := range states {
					st.a, st.cap = 0, 0
					out = append(out, st)
				}
				return out
			}
			// assignment to a tracked boolean or to the index of a tracked command: forget
			if id, ok := x.Lhs[0].(*ast.Ident); ok {
				var out []esState
				for _, st := range states {
					st = st.clone()
					delete(st.env, id.Name)
					for k := range st.arity {
						if strings.Contains(k, id.Name) {
							delete(st.arity, k)
						}
					}
					out = append(out, st)
				}
				return out
			}
		}
		return states
	case *ast.DeclStmt:
		// var code [][]byte : empty
		if gd, ok := x.Decl.(*ast.GenDecl); ok {
			for _, sp := range gd.Specs {
				if vs, ok := sp.(*ast.ValueSpec); ok {
					for _, nm := range vs.Names {
						if nm.Name == c04Names.code {
							var out []esState
							for _, st := range states {
								st.a, st.cap = 0, in.maxStack
								out = append(out, st)
							}
							return out
						}
					}
				}
			}
		}
		return states
	case *ast.IncDecStmt:
		if id, ok := x.X.(*ast.Ident); ok {
			var out []esState
			for _, st := range states {
				st = st.clone()
				for k := range st.arity {
					if strings.Contains(k, id.Name) {
						delete(st.arity, k)
					}
				}
				out = append(out, st)
			}
			return out
		}
		return states
	case *ast.IfStmt:
		if x.Init != nil {
			states = in.stmt(x.Init, states, lp)
		}
		var thenIn, elseIn []esState
		for _, st := range states {
			thenIn = append(thenIn, in.assume(x.Cond, true, st)...)
			elseIn = append(elseIn, in.assume(x.Cond, false, st)...)
		}
		out := in.block(x.Body.List, thenIn, lp)
		switch e := x.Else.(type) {
		case nil:
			out = append(out, elseIn...)
		case *ast.BlockStmt:
			out = append(out, in.block(e.List, elseIn, lp)...)
		case *ast.IfStmt:
			out = append(out, in.stmt(e, elseIn, lp)...)
		}
		return out
	case *ast.BranchStmt:
		if lp != nil {
			switch x.Tok {
			case token.BREAK:
				*lp.breaks = append(*lp.breaks, states...)
			case token.CONTINUE:
				*lp.continues = append(*lp.continues, states...)
			}
		}
		return nil
	case *ast.BlockStmt:
		return in.block(x.List, states, lp)
	case *ast.ForStmt:
		return in.loop(x.Cond, x.Body, x.Post, states)
	case *ast.RangeStmt:
		// ranges over small literal tables (ops): the body is interpreted once with unknown loop variables
		var brk, cont []esState
		out := in.block(x.Body.List, states, &esLoop{&brk, &cont})
		return append(append(out, brk...), cont...)
	case *ast.SwitchStmt:
		var out []esState
		for _, c := range x.Body.List {
			cc := c.(*ast.CaseClause)
			ins := states
			// switch cmds[0].Op { case OpLineTo: ... }
			if x.Tag != nil && len(cc.List) == 1 {
				if sel, ok := x.Tag.(*ast.SelectorExpr); ok && sel.Sel.Name == "Op" {
					if ar, ok := in.opArity[types.ExprString(cc.List[0])]; ok {
						ins = nil
						for _, st := range states {
							st = st.clone()
							st.arity[types.ExprString(sel.X)] = ar
							ins = append(ins, st)
						}
					}
				}
			}
			var brk, cont []esState
			res := in.block(cc.Body, ins, &esLoop{&brk, &cont})
			out = append(out, res...)
			out = append(out, brk...)
		}
		return out
	case *ast.ReturnStmt:
		return nil
	}
	return states
}

// loop: the body is interpreted for one iteration that starts with an
// unknown length L0 <= maxStack of code; the condition supplies the budget.
func (in *esInterp) loop(cond ast.Expr, body *ast.BlockStmt, post ast.Stmt, states []esState) []esState {
	var exit []esState
	var iter []esState
	for _, st := range states {
		// iteration start: nothing appended yet in this iteration, no budget known
		s0 := st.clone()
		s0.a, s0.cap = 0, 0
		if cond != nil {
			iter = append(iter, in.assume(cond, true, s0)...)
		} else {
			iter = append(iter, s0)
		}
		// after the loop: the length is whatever it was at the last test; it never exceeded maxStack
		e := st.clone()
		e.a, e.cap = 0, 0
		exit = append(exit, e)
	}
	var brk, cont []esState
	out := in.block(body.List, iter, &esLoop{&brk, &cont})
	// the end of an iteration must leave len(code) <= maxStack
	for _, st := range append(append([]esState{}, out...), cont...) {
		if st.a > st.cap {
			in.r.Fail("edgestack", in.r.MkKey("edgestack", in.fnName, "loop iteration"), in.pos(body), fmt.Sprintf("an iteration appends %d operands but only %d were covered by a test against maxStack", st.a, st.cap), nil)
		}
	}
	for _, st := range brk {
		e := st.clone()
		if st.a > st.cap {
			in.r.Fail("edgestack", in.r.MkKey("edgestack", in.fnName, "loop exit"), in.pos(body), fmt.Sprintf("the loop is left after appending %d operands with a tested budget of %d", st.a, st.cap), nil)
		}
		e.a, e.cap = 0, 0
		exit = append(exit, e)
	}
	// keep the facts that survive the loop: none about code's length except <= maxStack
	if len(exit) > 1 {
		exit = exit[:1]
	}
	return exit
}

// assume returns the states in which cond has the given truth value.
func (in *esInterp) assume(cond ast.Expr, truth bool, st esState) []esState {
	switch x := cond.(type) {
	case *ast.ParenExpr:
		return in.assume(x.X, truth, st)
	case *ast.UnaryExpr:
		if x.Op == token.NOT {
			return in.assume(x.X, !truth, st)
		}
	case *ast.Ident:
		if tv, ok := in.info.Types[x]; ok && tv.Type != nil && tv.Type.Underlying() == types.Typ[types.Bool] {
			if v, ok := st.env[x.Name]; ok {
				if v != truth {
					return nil
				}
				return []esState{st}
			}
			n := st.clone()
			n.env[x.Name] = truth
			return []esState{n}
		}
	case *ast.BinaryExpr:
		switch x.Op {
		case token.LAND:
			if truth {
				var out []esState
				for _, s1 := range in.assume(x.X, true, st) {
					out = append(out, in.assume(x.Y, true, s1)...)
				}
				return out
			}
			out := in.assume(x.X, false, st)
			for _, s1 := range in.assume(x.X, true, st) {
				out = append(out, in.assume(x.Y, false, s1)...)
			}
			return out
		case token.LOR:
			if truth {
				out := in.assume(x.X, true, st)
				for _, s1 := range in.assume(x.X, false, st) {
					out = append(out, in.assume(x.Y, true, s1)...)
				}
				return out
			}
			var out []esState
			for _, s1 := range in.assume(x.X, false, st) {
				out = append(out, in.assume(x.Y, false, s1)...)
			}
			return out
		case token.EQL, token.NEQ:
			// cmds[pos].Op == OpLineTo
			if sel, ok := x.X.(*ast.SelectorExpr); ok && sel.Sel.Name == "Op" {
				if ar, ok := in.opArity[types.ExprString(x.Y)]; ok && (x.Op == token.EQL) == truth {
					n := st.clone()
					n.arity[types.ExprString(sel.X)] = ar
					return []esState{n}
				}
			}
		case token.LEQ, token.LSS, token.GTR, token.GEQ:
			// len(code) + K  op  maxStack, or mirrored: maxStack  op'  len(code) + K
			lhs, rhs, cmpOp := x.X, x.Y, x.Op
			if _, _, ok := in.lenCodePlus(lhs); !ok {
				if _, _, ok := in.lenCodePlus(rhs); ok {
					lhs, rhs = rhs, lhs
					cmpOp = map[token.Token]token.Token{token.LEQ: token.GEQ, token.LSS: token.GTR, token.GTR: token.LSS, token.GEQ: token.LEQ}[cmpOp]
				}
			}
			if k, c, ok := in.lenCodePlus(lhs); ok {
				if tv, ok2 := in.info.Types[rhs]; ok2 && tv.Value != nil {
					if m, ok3 := constant.Int64Val(tv.Value); ok3 {
						_ = c
						op := cmpOp
						if !truth {
							op = map[token.Token]token.Token{token.LEQ: token.GTR, token.LSS: token.GEQ, token.GTR: token.LEQ, token.GEQ: token.LSS}[op]
						}
						// len + k <= m  (or < m): budget since the reference point
						var bound int64 = -1
						switch op {
						case token.LEQ:
							bound = m - k
						case token.LSS:
							bound = m - k - 1
						}
						if bound >= 0 {
							// len(code) <= bound means: (maxStack - bound) fewer than maxStack... expressed as budget:
							// operands that may still be appended = maxStack - len(code) >= maxStack - bound
							budget := in.maxStack - int(bound)
							n := st.clone()
							if st.a+budget > n.cap {
								n.cap = st.a + budget
							}
							return []esState{n}
						}
					}
				}
			}
		}
	}
	return []esState{st}
}

// lenCodePlus recognises len(code) + K (K constant, possibly absent).
func (in *esInterp) lenCodePlus(e ast.Expr) (int64, bool, bool) {
	isLenCode := func(e ast.Expr) bool {
		call, ok := e.(*ast.CallExpr)
		if !ok || len(call.Args) != 1 {
			return false
		}
		id, ok := call.Fun.(*ast.Ident)
		return ok && id.Name == "len" && in.isCode(call.Args[0])
	}
	if isLenCode(e) {
		return 0, true, true
	}
	if be, ok := e.(*ast.BinaryExpr); ok && be.Op == token.ADD {
		if isLenCode(be.X) {
			if tv, ok := in.info.Types[be.Y]; ok && tv.Value != nil {
				if k, ok := constant.Int64Val(tv.Value); ok {
					return k, true, true
				}
			}
		}
		if isLenCode(be.Y) {
			if tv, ok := in.info.Types[be.X]; ok && tv.Value != nil {
				if k, ok := constant.Int64Val(tv.Value); ok {
					return k, true, true
				}
			}
		}
	}
	return 0, false, false
}

// ---- flex preconditions (placeholder filled below)

type flexSpecEnc struct {
	op       string
	operands [][2]int // (command index, argument index)
	zeros    [][2]int
	sum      [][2]int // these delta components add up to zero
}

var flexEncSpecs = []flexSpecEnc{
	// dx1 dx2 dy2 dx3 dx4 dx5 dx6 hflex: both curves start and end horizontally, the joining point returns to the start height
	{"t2hflex", [][2]int{{0, 0}, {0, 2}, {0, 3}, {0, 4}, {1, 0}, {1, 2}, {1, 4}}, [][2]int{{0, 1}, {0, 5}, {1, 1}, {1, 5}}, [][2]int{{0, 3}, {1, 3}}},
	// dx1 dy1 dx2 dy2 dx3 dx4 dx5 dy5 dx6 hflex1: horizontal at the joining point, the end point returns to the start height
	{"t2hflex1", [][2]int{{0, 0}, {0, 1}, {0, 2}, {0, 3}, {0, 4}, {1, 0}, {1, 2}, {1, 3}, {1, 4}}, [][2]int{{0, 5}, {1, 1}}, [][2]int{{0, 1}, {0, 3}, {1, 3}, {1, 5}}},
}

// checkFlexGuards: TN5177 4.1: hflex and hflex1 leave out the vertical
// components that are zero by construction of the operator; the encoder may
// only offer these forms when the two curves really have those components
// zero (or summing to zero), and must pass the remaining ones in order.
func checkFlexGuards(w *World, r *Report) {
	r.Rule("flexguard: the hflex / hflex1 forms are offered only inside tests that establish the operator's assumptions — hflex: dy1 = dy3 = dy4 = dy6 = 0 and dy2 + dy5 = 0; hflex1: dy3 = dy4 = 0 and dy1 + dy2 + dy5 + dy6 = 0 (components of the two curves' relative deltas) — and the operands appended are exactly the remaining components in the order of TN5177")
	pkg := w.All[modPath+"/cff"]
	if pkg == nil {
		r.Fatal("package cff not loaded")
		return
	}
	var fd *ast.FuncDecl
	for _, f := range pkg.Syntax {
		for _, d := range f.Decls {
			if x, ok := d.(*ast.FuncDecl); ok && x.Name.Name == "AppendEdges" {
				fd = x
			}
		}
	}
	if fd == nil {
		r.Fatal("AppendEdges not found")
		return
	}
	c04ResolveNames(pkg.TypesInfo, fd)
	// cmdArg parses cmds[i].Args[j] (optionally followed by .Code / .Val / .IsZero())
	cmdArg := func(e ast.Expr) ([2]int, bool) {
		if call, ok := e.(*ast.CallExpr); ok {
			e = call.Fun
		}
		if sel, ok := e.(*ast.SelectorExpr); ok && (sel.Sel.Name == "Code" || sel.Sel.Name == "Val" || sel.Sel.Name == "IsZero") {
			e = sel.X
		}
		ix, ok := e.(*ast.IndexExpr)
		if !ok {
			return [2]int{}, false
		}
		sel, ok := ix.X.(*ast.SelectorExpr)
		if !ok || sel.Sel.Name != "Args" {
			return [2]int{}, false
		}
		ci, ok := sel.X.(*ast.IndexExpr)
		if !ok || types.ExprString(ci.X) != c04Names.cmds {
			return [2]int{}, false
		}
		cv, ok1 := pkg.TypesInfo.Types[ci.Index]
		av, ok2 := pkg.TypesInfo.Types[ix.Index]
		if !ok1 || !ok2 || cv.Value == nil || av.Value == nil {
			return [2]int{}, false
		}
		c, _ := constant.Int64Val(cv.Value)
		a, _ := constant.Int64Val(av.Value)
		return [2]int{int(c), int(a)}, true
	}
	// local definitions  name := expr  (for dy)
	defs := map[string]ast.Expr{}
	ast.Inspect(fd.Body, func(n ast.Node) bool {
		if as, ok := n.(*ast.AssignStmt); ok && as.Tok == token.DEFINE && len(as.Lhs) == 1 && len(as.Rhs) == 1 {
			if id, ok := as.Lhs[0].(*ast.Ident); ok {
				defs[id.Name] = as.Rhs[0]
			}
		}
		return true
	})
	var sumTerms func(e ast.Expr, out map[[2]int]int, depth int) bool
	sumTerms = func(e ast.Expr, out map[[2]int]int, depth int) bool {
		if depth > 6 {
			return false
		}
		switch x := e.(type) {
		case *ast.ParenExpr:
			return sumTerms(x.X, out, depth+1)
		case *ast.BinaryExpr:
			if x.Op == token.ADD {
				return sumTerms(x.X, out, depth+1) && sumTerms(x.Y, out, depth+1)
			}
			return false
		case *ast.Ident:
			if d, ok := defs[x.Name]; ok {
				return sumTerms(d, out, depth+1)
			}
			return false
		}
		if ca, ok := cmdArg(e); ok {
			out[ca]++
			return true
		}
		return false
	}
	type facts struct {
		zeros map[[2]int]bool
		sums  []map[[2]int]int
	}
	var collect func(cond ast.Expr, f *facts)
	collect = func(cond ast.Expr, f *facts) {
		switch x := cond.(type) {
		case *ast.ParenExpr:
			collect(x.X, f)
		case *ast.BinaryExpr:
			switch x.Op {
			case token.LAND:
				collect(x.X, f)
				collect(x.Y, f)
			case token.EQL:
				// sum == 0, or written the other way round
				for _, pair := range [][2]ast.Expr{{x.X, x.Y}, {x.Y, x.X}} {
					if tv, ok := pkg.TypesInfo.Types[pair[1]]; ok && tv.Value != nil && constant.Sign(tv.Value) == 0 {
						m := map[[2]int]int{}
						if sumTerms(pair[0], m, 0) {
							f.sums = append(f.sums, m)
						}
						break
					}
				}
			}
		case *ast.CallExpr:
			if sel, ok := x.Fun.(*ast.SelectorExpr); ok && sel.Sel.Name == "IsZero" {
				if ca, ok := cmdArg(x); ok {
					f.zeros[ca] = true
				}
			}
		}
	}
	found := map[string]bool{}
	var walk func(stmts []ast.Stmt, f facts)
	walk = func(stmts []ast.Stmt, f facts) {
		for _, s := range stmts {
			switch x := s.(type) {
			case *ast.IfStmt:
				nf := facts{zeros: map[[2]int]bool{}, sums: append([]map[[2]int]int{}, f.sums...)}
				for k := range f.zeros {
					nf.zeros[k] = true
				}
				collect(x.Cond, &nf)
				walk(x.Body.List, nf)
				switch e := x.Else.(type) {
				case *ast.BlockStmt:
					walk(e.List, f)
				case *ast.IfStmt:
					walk([]ast.Stmt{e}, f)
				}
			case *ast.BlockStmt:
				walk(x.List, f)
			case *ast.ForStmt:
				walk(x.Body.List, f)
			case *ast.RangeStmt:
				walk(x.Body.List, f)
			case *ast.SwitchStmt:
				for _, c := range x.Body.List {
					walk(c.(*ast.CaseClause).Body, f)
				}
			case *ast.AssignStmt:
				if len(x.Rhs) != 1 {
					continue
				}
				call, ok := x.Rhs[0].(*ast.CallExpr)
				if !ok || len(call.Args) < 2 {
					continue
				}
				if id, ok := call.Fun.(*ast.Ident); !ok || id.Name != "append" {
					continue
				}
				last := types.ExprString(call.Args[len(call.Args)-1])
				for _, spec := range flexEncSpecs {
					if last != spec.op+".Bytes()" {
						continue
					}
					found[spec.op] = true
					key := r.MkKey("flexguard", "(cff.encoder).AppendEdges", spec.op)
					pos := w.Pos(call.Pos())
					var problems []string
					// operands
					var got [][2]int
					okOps := true
					for _, a := range call.Args[1 : len(call.Args)-1] {
						ca, ok := cmdArg(a)
						if !ok {
							okOps = false
							break
						}
						got = append(got, ca)
					}
					if !okOps || fmt.Sprint(got) != fmt.Sprint(spec.operands) {
						problems = append(problems, fmt.Sprintf("the operands are %v (command, component), the operator takes %v", got, spec.operands))
					}
					for _, z := range spec.zeros {
						if !f.zeros[z] {
							problems = append(problems, fmt.Sprintf("component %d of curve %d is not tested to be zero", z[1], z[0]+1))
						}
					}
					want := map[[2]int]int{}
					for _, t := range spec.sum {
						want[t] = 1
					}
					sumOK := false
					for _, m := range f.sums {
						if fmt.Sprint(m) == fmt.Sprint(want) {
							sumOK = true
						}
					}
					// components known to be zero may be left out of the sum
					if !sumOK {
						for _, m := range f.sums {
							full := map[[2]int]int{}
							for k, v := range m {
								full[k] = v
							}
							for t := range want {
								if f.zeros[t] && full[t] == 0 {
									full[t] = 1
								}
							}
							if fmt.Sprint(full) == fmt.Sprint(want) {
								sumOK = true
							}
						}
					}
					if !sumOK {
						problems = append(problems, fmt.Sprintf("no test that the components %v add up to zero", spec.sum))
					}
					if len(problems) == 0 {
						r.OK("flexguard", key, pos, "offered under the operator's assumptions with the operands in order")
					} else {
						r.Fail("flexguard", key, pos, spec.op+" is offered although "+strings.Join(problems, "; ")+": the interpreter reconstructs the omitted components as zero (or as the negative sum), so the decoded curve differs from the glyph", nil)
					}
				}
			}
		}
	}
	walk(fd.Body.List, facts{zeros: map[[2]int]bool{}})
	for _, spec := range flexEncSpecs {
		if !found[spec.op] {
			r.OK("flexguard", r.MkKey("flexguard", "(cff.encoder).AppendEdges", spec.op), w.Pos(fd.Pos()), spec.op+" is not generated")
		}
	}
	r.Floor("flexguard", 2)
}

// checkWidthPrefix: TN5177 3.1/4.2: the first stack-clearing operator may be
// preceded by one extra operand, the difference between the glyph's width
// and nominalWidthX; when it is absent the width is defaultWidthX.  The
// encoder must therefore emit the operand exactly when width != default and
// its value must be width - nominal.
func checkWidthPrefix(w *World, r *Report) {
	r.Rule("widthprefix: in encodeCharString the width operand is appended under the test width != defaultWidth (first parameter) and its value is encodeNumber(width - nominalWidth) (second parameter); it is the first thing appended to the header")
	fn := w.Func("(*cff.Glyph).encodeCharString")
	if fn == nil || len(fn.Params) < 3 {
		r.Fatal("(*cff.Glyph).encodeCharString does not resolve")
		return
	}
	def, nom := fn.Params[1], fn.Params[2]
	key := r.MkKey("widthprefix", "encodeCharString", "width operand")
	var enc *ssa.Call
	for _, b := range fn.Blocks {
		for _, in := range b.Instrs {
			if c, ok := in.(*ssa.Call); ok {
				if callee := c.Call.StaticCallee(); callee != nil && callee.Name() == "encodeNumber" && len(c.Call.Args) == 1 {
					if bo, ok := c.Call.Args[0].(*ssa.BinOp); ok && bo.Op == token.SUB && (bo.Y == ssa.Value(nom) || bo.Y == ssa.Value(def)) {
						enc = c
					}
				}
			}
		}
	}
	if enc == nil {
		r.Fail("widthprefix", key, w.Pos(fn.Pos()), "no encodeNumber(width - nominalWidth) found", nil)
		return
	}
	sub := enc.Call.Args[0].(*ssa.BinOp)
	var problems []string
	if sub.Y != ssa.Value(nom) {
		problems = append(problems, "the operand is computed relative to "+sub.Y.Name()+" instead of nominalWidth")
	}
	// width: a load of g.Width
	isWidth := func(v ssa.Value) bool {
		u, ok := v.(*ssa.UnOp)
		if !ok {
			return false
		}
		fa, ok := u.X.(*ssa.FieldAddr)
		return ok && fieldName(fa) == "Width"
	}
	if !isWidth(sub.X) {
		problems = append(problems, "the minuend is not the glyph's Width")
	}
	guardOK := false
	for _, g := range guardsOf(enc.Block()) {
		if cmp, ok := g.cond.(*ssa.BinOp); ok && (isWidth(cmp.X) || isWidth(cmp.Y)) {
			other := cmp.Y
			if !isWidth(cmp.X) {
				other = cmp.X
			}
			if cmp.Op == token.NEQ && g.then && other == ssa.Value(def) || cmp.Op == token.EQL && !g.then && other == ssa.Value(def) {
				guardOK = true
			} else if other == ssa.Value(nom) {
				problems = append(problems, "the presence test compares the width with nominalWidth instead of defaultWidth")
			}
		}
	}
	if !guardOK {
		problems = append(problems, "the operand is not emitted under the test width != defaultWidth")
	}
	if len(problems) == 0 {
		r.OK("widthprefix", key, w.Pos(enc.Pos()), "emitted iff width != defaultWidth, value width - nominalWidth")
	} else {
		r.Fail("widthprefix", key, w.Pos(enc.Pos()), strings.Join(problems, "; ")+": the interpreter computes the width as nominalWidthX + operand, or defaultWidthX when the operand is absent", nil)
	}
	r.Floor("widthprefix", 1)
}

// checkMoveToForms: hmoveto takes dx and requires dy = 0, vmoveto takes dy
// and requires dx = 0, rmoveto takes both.
func checkMoveToForms(w *World, r *Report) {
	r.Rule("movetoform: in encodePaths a move is written as vmoveto with operand dy only under dx = 0, as hmoveto with operand dx only under dy = 0 (and dx != 0), and as rmoveto dx dy otherwise")
	pkg := w.All[modPath+"/cff"]
	if pkg == nil {
		r.Fatal("package cff not loaded")
		return
	}
	var fd *ast.FuncDecl
	for _, f := range pkg.Syntax {
		for _, d := range f.Decls {
			if x, ok := d.(*ast.FuncDecl); ok && x.Name.Name == "encodePaths" {
				fd = x
			}
		}
	}
	if fd == nil {
		r.Fatal("encodePaths not found")
		return
	}
	argIdx := func(e ast.Expr) (int, bool) { // X.Args[i](.Code | .IsZero())
		if call, ok := e.(*ast.CallExpr); ok {
			e = call.Fun
		}
		if sel, ok := e.(*ast.SelectorExpr); ok && (sel.Sel.Name == "Code" || sel.Sel.Name == "IsZero") {
			e = sel.X
		}
		ix, ok := e.(*ast.IndexExpr)
		if !ok {
			return 0, false
		}
		if sel, ok := ix.X.(*ast.SelectorExpr); !ok || sel.Sel.Name != "Args" {
			return 0, false
		}
		tv, ok := pkg.TypesInfo.Types[ix.Index]
		if !ok || tv.Value == nil {
			return 0, false
		}
		v, _ := constant.Int64Val(tv.Value)
		return int(v), true
	}
	want := map[string]struct {
		ops   []int
		zeros []int
	}{"t2vmoveto": {[]int{1}, []int{0}}, "t2hmoveto": {[]int{0}, []int{1}}, "t2rmoveto": {[]int{0, 1}, nil}}
	seen := map[string]bool{}
	var walk func(stmts []ast.Stmt, zeros map[int]bool)
	walk = func(stmts []ast.Stmt, zeros map[int]bool) {
		for _, s := range stmts {
			switch x := s.(type) {
			case *ast.IfStmt:
				nz := map[int]bool{}
				for k := range zeros {
					nz[k] = true
				}
				// X.IsZero() holds in the then-branch, !X.IsZero() makes it hold in the else-branch
				cond, negated := x.Cond, false
				for {
					if pe, ok := cond.(*ast.ParenExpr); ok {
						cond = pe.X
						continue
					}
					if ue, ok := cond.(*ast.UnaryExpr); ok && ue.Op == token.NOT {
						cond, negated = ue.X, !negated
						continue
					}
					break
				}
				if call, ok := cond.(*ast.CallExpr); ok {
					if sel, ok := call.Fun.(*ast.SelectorExpr); ok && sel.Sel.Name == "IsZero" {
						if i, ok := argIdx(cond); ok {
							nz[i] = true
						}
					}
				}
				thenZeros, elseZeros := nz, zeros
				if negated {
					thenZeros, elseZeros = zeros, nz
				}
				walk(x.Body.List, thenZeros)
				switch e := x.Else.(type) {
				case *ast.BlockStmt:
					walk(e.List, elseZeros)
				case *ast.IfStmt:
					walk([]ast.Stmt{e}, elseZeros)
				}
			case *ast.BlockStmt:
				walk(x.List, zeros)
			case *ast.ForStmt:
				walk(x.Body.List, zeros)
			case *ast.SwitchStmt:
				for _, c := range x.Body.List {
					walk(c.(*ast.CaseClause).Body, zeros)
				}
			case *ast.AssignStmt:
				if len(x.Rhs) != 1 {
					continue
				}
				call, ok := x.Rhs[0].(*ast.CallExpr)
				if !ok || len(call.Args) < 2 {
					continue
				}
				if id, ok := call.Fun.(*ast.Ident); !ok || id.Name != "append" {
					continue
				}
				last := strings.TrimSuffix(types.ExprString(call.Args[len(call.Args)-1]), ".Bytes()")
				spec, ok := want[last]
				if !ok {
					continue
				}
				seen[last] = true
				key := r.MkKey("movetoform", "cff.encodePaths", last)
				var got []int
				for _, a := range call.Args[1 : len(call.Args)-1] {
					if i, ok := argIdx(a); ok {
						got = append(got, i)
					} else {
						got = append(got, -1)
					}
				}
				var problems []string
				if fmt.Sprint(got) != fmt.Sprint(spec.ops) {
					problems = append(problems, fmt.Sprintf("operands are the components %v, the operator takes %v", got, spec.ops))
				}
				for _, z := range spec.zeros {
					if !zeros[z] {
						problems = append(problems, fmt.Sprintf("component %d is not tested to be zero", z))
					}
				}
				if len(problems) == 0 {
					r.OK("movetoform", key, w.Pos(call.Pos()), "operands and zero test agree with the operator")
				} else {
					r.Fail("movetoform", key, w.Pos(call.Pos()), last+": "+strings.Join(problems, "; "), nil)
				}
			}
		}
	}
	walk(fd.Body.List, map[int]bool{})
	for op := range want {
		if !seen[op] {
			r.Fail("movetoform", r.MkKey("movetoform", "cff.encodePaths", op), w.Pos(fd.Pos()), op+" is never emitted", nil)
		}
	}
	r.Floor("movetoform", 3)
}

// ---- operand selection of the alternating operator forms (bounded symbolic interpretation)
//
// The loops of AppendEdges that build hlineto/vlineto, hhcurveto/vvcurveto
// and hvcurveto/vhcurveto are interpreted with concrete values for the small
// index variables (the position in ops, offs/checkIdx, pos = 0, 1, 2, ...) and
// symbolic segment data: the interpreter records, for the path that keeps
// going, which components of which segment are required to be zero and which
// are appended, and compares every edge offered with the operator's
// definition in TN5177 4.1.

type osEvent struct {
	kind     string // "zero", "nonzero", "append"
	cmd, arg int
}

type osState struct {
	ints   map[string]int
	bools  map[string]*osEvent // boolean variable -> the zero test it stands for (kind "zero")
	bval   map[string]bool     // decided boolean variables
	events []osEvent
	broken bool // left the loop
}

func (s *osState) clone() *osState {
	n := &osState{ints: map[string]int{}, bools: map[string]*osEvent{}, bval: map[string]bool{}}
	for k, v := range s.ints {
		n.ints[k] = v
	}
	for k, v := range s.bools {
		n.bools[k] = v
	}
	for k, v := range s.bval {
		n.bval[k] = v
	}
	n.events = append([]osEvent{}, s.events...)
	return n
}

type osEdge struct {
	op     string
	n      int // segments consumed
	events []osEvent
	pos    token.Pos
}

type osInterp struct {
	info  *types.Info
	edges []osEdge
	fail  []string
	op    string
}

func (in *osInterp) evalInt(e ast.Expr, st *osState) (int, bool) {
	if tv, ok := in.info.Types[e]; ok && tv.Value != nil {
		if v, ok := constant.Int64Val(tv.Value); ok {
			return int(v), true
		}
	}
	switch x := e.(type) {
	case *ast.ParenExpr:
		return in.evalInt(x.X, st)
	case *ast.Ident:
		v, ok := st.ints[x.Name]
		return v, ok
	case *ast.BinaryExpr:
		a, ok1 := in.evalInt(x.X, st)
		b, ok2 := in.evalInt(x.Y, st)
		if !ok1 || !ok2 {
			return 0, false
		}
		switch x.Op {
		case token.ADD:
			return a + b, true
		case token.SUB:
			return a - b, true
		case token.MUL:
			return a * b, true
		}
	}
	return 0, false
}

// cmdArgOf parses cmds[E].Args[F] (with .Code / .IsZero()) under the state.
func (in *osInterp) cmdArgOf(e ast.Expr, st *osState) (int, int, bool) {
	if call, ok := e.(*ast.CallExpr); ok {
		e = call.Fun
	}
	if sel, ok := e.(*ast.SelectorExpr); ok && (sel.Sel.Name == "Code" || sel.Sel.Name == "IsZero") {
		e = sel.X
	}
	ix, ok := e.(*ast.IndexExpr)
	if !ok {
		return 0, 0, false
	}
	sel, ok := ix.X.(*ast.SelectorExpr)
	if !ok || sel.Sel.Name != "Args" {
		return 0, 0, false
	}
	ci, ok := sel.X.(*ast.IndexExpr)
	if !ok || types.ExprString(ci.X) != c04Names.cmds {
		return 0, 0, false
	}
	c, ok1 := in.evalInt(ci.Index, st)
	a, ok2 := in.evalInt(ix.Index, st)
	return c, a, ok1 && ok2
}

// assume: states in which cond has the given truth value (forking on unknown zero tests).
func (in *osInterp) assume(cond ast.Expr, truth bool, st *osState) []*osState {
	switch x := cond.(type) {
	case *ast.ParenExpr:
		return in.assume(x.X, truth, st)
	case *ast.UnaryExpr:
		if x.Op == token.NOT {
			return in.assume(x.X, !truth, st)
		}
	case *ast.Ident:
		if ev, ok := st.bools[x.Name]; ok {
			if v, decided := st.bval[x.Name]; decided {
				if v != truth {
					return nil
				}
				return []*osState{st}
			}
			n := st.clone()
			n.bval[x.Name] = truth
			k := "zero"
			if !truth {
				k = "nonzero"
			}
			n.events = append(n.events, osEvent{k, ev.cmd, ev.arg})
			return []*osState{n}
		}
	case *ast.CallExpr:
		if sel, ok := x.Fun.(*ast.SelectorExpr); ok && sel.Sel.Name == "IsZero" {
			if c, a, ok := in.cmdArgOf(x, st); ok {
				// consistent with earlier events?
				for _, e := range st.events {
					if e.cmd == c && e.arg == a && (e.kind == "zero" || e.kind == "nonzero") {
						if (e.kind == "zero") != truth {
							return nil
						}
						return []*osState{st}
					}
				}
				n := st.clone()
				k := "zero"
				if !truth {
					k = "nonzero"
				}
				n.events = append(n.events, osEvent{k, c, a})
				return []*osState{n}
			}
		}
	case *ast.BinaryExpr:
		switch x.Op {
		case token.LAND:
			if truth {
				var out []*osState
				for _, s1 := range in.assume(x.X, true, st) {
					out = append(out, in.assume(x.Y, true, s1)...)
				}
				return out
			}
			out := in.assume(x.X, false, st)
			for _, s1 := range in.assume(x.X, true, st) {
				out = append(out, in.assume(x.Y, false, s1)...)
			}
			return out
		case token.LOR:
			if truth {
				out := in.assume(x.X, true, st)
				for _, s1 := range in.assume(x.X, false, st) {
					out = append(out, in.assume(x.Y, true, s1)...)
				}
				return out
			}
			var out []*osState
			for _, s1 := range in.assume(x.X, false, st) {
				out = append(out, in.assume(x.Y, false, s1)...)
			}
			return out
		case token.EQL, token.NEQ, token.LSS, token.LEQ, token.GTR, token.GEQ:
			a, ok1 := in.evalInt(x.X, st)
			b, ok2 := in.evalInt(x.Y, st)
			if ok1 && ok2 {
				var v bool
				switch x.Op {
				case token.EQL:
					v = a == b
				case token.NEQ:
					v = a != b
				case token.LSS:
					v = a < b
				case token.LEQ:
					v = a <= b
				case token.GTR:
					v = a > b
				case token.GEQ:
					v = a >= b
				}
				if v != truth {
					return nil
				}
				return []*osState{st}
			}
			// stack-budget and length tests: the interesting path is the one where there is room
			s := types.ExprString(cond)
			if strings.Contains(s, "maxStack") || strings.Contains(s, "len(cmds)") || strings.Contains(s, ".Op") {
				want := !strings.Contains(s, "> maxStack")
				if x.Op == token.LSS || x.Op == token.LEQ || x.Op == token.EQL {
					want = true
				}
				// orientation: "room" means (what is used) < or <= (the limit), whichever side the limit is written on
				isLimit := func(e ast.Expr) bool {
					t := types.ExprString(e)
					return strings.Contains(t, "maxStack") || strings.Contains(t, "len(cmds)")
				}
				if x.Op != token.EQL && x.Op != token.NEQ && isLimit(x.X) != isLimit(x.Y) {
					less := x.Op == token.LSS || x.Op == token.LEQ
					want = less == isLimit(x.Y)
				}
				if want != truth {
					return nil
				}
				return []*osState{st}
			}
		}
	}
	return []*osState{st}
}

func (in *osInterp) block(stmts []ast.Stmt, states []*osState) (fall, cont []*osState) {
	cur := states
	for _, s := range stmts {
		var next []*osState
		for _, st := range cur {
			f, c := in.stmt(s, st)
			next = append(next, f...)
			cont = append(cont, c...)
		}
		cur = next
		if len(cur) == 0 {
			break
		}
	}
	return cur, cont
}

// stmt returns the states that fall through and the states that `continue`.
func (in *osInterp) stmt(s ast.Stmt, st *osState) (fall, cont []*osState) {
	switch x := s.(type) {
	case *ast.AssignStmt:
		if len(x.Lhs) == 1 && len(x.Rhs) == 1 {
			if id, ok := x.Lhs[0].(*ast.Ident); ok {
				// boolean standing for a zero test
				if call, ok := x.Rhs[0].(*ast.CallExpr); ok {
					if sel, ok := call.Fun.(*ast.SelectorExpr); ok && sel.Sel.Name == "IsZero" {
						if c, a, ok := in.cmdArgOf(call, st); ok {
							n := st.clone()
							n.bools[id.Name] = &osEvent{"zero", c, a}
							delete(n.bval, id.Name)
							return []*osState{n}, nil
						}
					}
					if f, ok := call.Fun.(*ast.Ident); ok && f.Name == "append" && id.Name == c04Names.code {
						n := st.clone()
						for _, a := range call.Args[1:] {
							if c, ai, ok := in.cmdArgOf(a, st); ok {
								n.events = append(n.events, osEvent{"append", c, ai})
							} else {
								in.fail = append(in.fail, "append of an operand this rule cannot identify: "+types.ExprString(a))
							}
						}
						return []*osState{n}, nil
					}
					if f, ok := call.Fun.(*ast.Ident); ok && f.Name == "append" && id.Name == c04Names.edges {
						in.edges = append(in.edges, osEdge{op: in.op, n: st.ints["pos"], events: append([]osEvent{}, st.events...), pos: x.Pos()})
						return []*osState{st}, nil
					}
				}
				if v, ok := in.evalInt(x.Rhs[0], st); ok {
					n := st.clone()
					n.ints[id.Name] = v
					return []*osState{n}, nil
				}
				if id.Name == c04Names.code { // code = code[:0]
					n := st.clone()
					n.events = nil
					return []*osState{n}, nil
				}
			}
		}
		return []*osState{st}, nil
	case *ast.IncDecStmt:
		if id, ok := x.X.(*ast.Ident); ok {
			if v, ok := st.ints[id.Name]; ok {
				n := st.clone()
				if x.Tok == token.INC {
					n.ints[id.Name] = v + 1
				} else {
					n.ints[id.Name] = v - 1
				}
				return []*osState{n}, nil
			}
		}
		return []*osState{st}, nil
	case *ast.IfStmt:
		var thenIn, elseIn []*osState
		thenIn = in.assume(x.Cond, true, st)
		elseIn = in.assume(x.Cond, false, st)
		f, c := in.block(x.Body.List, thenIn)
		switch e := x.Else.(type) {
		case nil:
			f = append(f, elseIn...)
		case *ast.BlockStmt:
			f2, c2 := in.block(e.List, elseIn)
			f = append(f, f2...)
			c = append(c, c2...)
		case *ast.IfStmt:
			for _, s2 := range elseIn {
				f2, c2 := in.stmt(e, s2)
				f = append(f, f2...)
				c = append(c, c2...)
			}
		}
		return f, c
	case *ast.BranchStmt:
		if x.Tok == token.CONTINUE {
			return nil, []*osState{st}
		}
		return nil, nil // break: this path stops offering edges
	case *ast.BlockStmt:
		return in.block(x.List, []*osState{st})
	}
	return []*osState{st}, nil
}

// runForms interprets one `for v, op := range ops { ... for cond { body } ... }` loop.
func (in *osInterp) runForms(rs *ast.RangeStmt, opsLit []string, iterations int) {
	keyVar := ""
	if id, ok := rs.Key.(*ast.Ident); ok {
		keyVar = id.Name
	}
	for idx, op := range opsLit {
		in.op = op
		st := &osState{ints: map[string]int{}, bools: map[string]*osEvent{}, bval: map[string]bool{}}
		if keyVar != "" {
			st.ints[keyVar] = idx
		}
		states := []*osState{st}
		for _, s := range rs.Body.List {
			fs, ok := s.(*ast.ForStmt)
			if !ok {
				var next []*osState
				for _, st := range states {
					f, _ := in.stmt(s, st)
					next = append(next, f...)
				}
				states = next
				continue
			}
			for it := 0; it < iterations; it++ {
				var entered []*osState
				for _, st := range states {
					entered = append(entered, in.assume(fs.Cond, true, st)...)
				}
				f, c := in.block(fs.Body.List, entered)
				states = append(f, c...)
				if len(states) == 0 {
					break
				}
			}
			// statements after the loop see the states of the last iteration
		}
	}
}

func checkOperandSelection(w *World, r *Report) {
	r.Rule("operands: for hlineto/vlineto, hhcurveto/vvcurveto and hvcurveto/vhcurveto the loops of AppendEdges are interpreted with concrete index variables for the first segments: every form offered appends exactly the components the operator takes, in its order, and every component the operator leaves out is tested to be zero on that path (TN5177 4.1)")
	pkg := w.All[modPath+"/cff"]
	if pkg == nil {
		r.Fatal("package cff not loaded")
		return
	}
	var fd *ast.FuncDecl
	for _, f := range pkg.Syntax {
		for _, d := range f.Decls {
			if x, ok := d.(*ast.FuncDecl); ok && x.Name.Name == "AppendEdges" {
				fd = x
			}
		}
	}
	if fd == nil {
		r.Fatal("AppendEdges not found")
		return
	}
	c04ResolveNames(pkg.TypesInfo, fd)
	in := &osInterp{info: pkg.TypesInfo}
	// ops := []t2op{...} assignments: remember the literal for the following range statement
	var lastOps []string
	ast.Inspect(fd.Body, func(n ast.Node) bool {
		switch x := n.(type) {
		case *ast.AssignStmt:
			if len(x.Lhs) == 1 && len(x.Rhs) == 1 && isT2opSlice(pkg.TypesInfo, x.Lhs[0]) {
				if cl, ok := x.Rhs[0].(*ast.CompositeLit); ok {
					lastOps = nil
					for _, e := range cl.Elts {
						lastOps = append(lastOps, types.ExprString(e))
					}
				}
			}
		case *ast.RangeStmt:
			if isT2opSlice(pkg.TypesInfo, x.X) && len(lastOps) > 0 {
				in.runForms(x, lastOps, 4)
				return false
			}
		case *ast.ForStmt:
			// the same loop written with an index: for k := 0; k < len(ops); k++ { op := ops[k]; … }
			if rs := indexLoopAsRange(pkg.TypesInfo, x); rs != nil && isT2opSlice(pkg.TypesInfo, rs.X) && len(lastOps) > 0 {
				in.runForms(rs, lastOps, 4)
				return false
			}
		}
		return true
	})
	for _, f := range in.fail {
		r.Fail("operands", r.MkKey("operands", "(cff.encoder).AppendEdges", "interpretation"), w.Pos(fd.Pos()), f, nil)
	}
	seenOps := map[string]int{}
	for _, e := range in.edges {
		seenOps[e.op]++
		key := r.MkKey("operands", "(cff.encoder).AppendEdges", fmt.Sprintf("%s with %d segment(s)", e.op, e.n))
		if why := operandSpec(e); why == "" {
			r.OK("operands", key, w.Pos(e.pos), "operands and zero tests agree with the operator")
		} else {
			r.Fail("operands", key, w.Pos(e.pos), e.op+" offered for "+fmt.Sprint(e.n)+" segment(s): "+why+": the interpreter reconstructs the omitted components as zero, so the decoded path differs from the glyph", nil)
		}
	}
	for _, op := range []string{"t2hlineto", "t2vlineto", "t2hhcurveto", "t2vvcurveto", "t2hvcurveto", "t2vhcurveto"} {
		if seenOps[op] == 0 {
			r.Fail("operands", r.MkKey("operands", "(cff.encoder).AppendEdges", op), w.Pos(fd.Pos()), "no edge for "+op+" was reached by the interpretation", nil)
		}
	}
	r.Floor("operands", 12)
}

// operandSpec compares the events of an offered edge with the operator definition.
func operandSpec(e osEdge) string {
	var appended [][2]int
	zero := map[[2]int]bool{}
	nonzero := map[[2]int]bool{}
	for _, ev := range e.events {
		switch ev.kind {
		case "append":
			appended = append(appended, [2]int{ev.cmd, ev.arg})
		case "zero":
			zero[[2]int{ev.cmd, ev.arg}] = true
		case "nonzero":
			nonzero[[2]int{ev.cmd, ev.arg}] = true
		}
	}
	var want [][2]int
	var needZero [][2]int
	n := e.n
	switch e.op {
	case "t2hlineto", "t2vlineto":
		// alternating lines; hlineto starts with a horizontal line (dx, dy = 0)
		start := 0
		if e.op == "t2vlineto" {
			start = 1
		}
		for k := 0; k < n; k++ {
			c := (start + k) % 2 // component appended: 0 = dx, 1 = dy
			want = append(want, [2]int{k, c})
			needZero = append(needZero, [2]int{k, 1 - c})
		}
	case "t2hhcurveto", "t2vvcurveto":
		// hh: dy1? {dxa dxb dyb dxc}+   vv: dx1? {dya dxb dyb dyc}+
		o := 0 // index of the "main" axis start component: hh -> dxa (0), vv -> dya (1)
		if e.op == "t2vvcurveto" {
			o = 1
		}
		for k := 0; k < n; k++ {
			if k == 0 && nonzero[[2]int{0, 1 - o}] {
				want = append(want, [2]int{0, 1 - o})
			} else {
				needZero = append(needZero, [2]int{k, 1 - o})
			}
			want = append(want, [2]int{k, o}, [2]int{k, 2}, [2]int{k, 3}, [2]int{k, 4 + o})
			needZero = append(needZero, [2]int{k, 5 - o})
		}
	case "t2hvcurveto", "t2vhcurveto":
		// curves alternate: one starting horizontal and ending vertical, then one starting vertical and ending horizontal;
		// the last curve may end with a non-aligned point, whose extra component comes last
		o := 0
		if e.op == "t2vhcurveto" {
			o = 1
		}
		for k := 0; k < n; k++ {
			h := (o + k) % 2 // 0: starts horizontal (dxa, dya = 0), ends vertical (dyc, dxc = 0)
			want = append(want, [2]int{k, h}, [2]int{k, 2}, [2]int{k, 3}, [2]int{k, 5 - h})
			needZero = append(needZero, [2]int{k, 1 - h})
			if k == n-1 && nonzero[[2]int{k, 4 + h}] {
				want = append(want, [2]int{k, 4 + h})
			} else {
				needZero = append(needZero, [2]int{k, 4 + h})
			}
		}
	default:
		return "unknown operator"
	}
	if fmt.Sprint(appended) != fmt.Sprint(want) {
		return fmt.Sprintf("the operands appended are %v (segment, component), the operator takes %v", appended, want)
	}
	for _, z := range needZero {
		if !zero[z] {
			return fmt.Sprintf("component %d of segment %d is left out without a test that it is zero", z[1], z[0]+1)
		}
	}
	return ""
}

// checkRoundingBase: "one rounding per coordinate that does not accumulate".
// encodeArgs keeps the current point as the interpreter will see it and
// computes every delta relative to it; that only works if the current point
// is advanced by the values actually encoded (the .Val of encodeNumber's
// results), not by the coordinates that were asked for.
func checkRoundingBase(w *World, r *Report) {
	r.Rule("roundingbase: in cff.encodeArgs the loop-carried current point (posX, posY) is advanced only by values that come out of encodeNumber (the rounded deltas), never by the requested coordinates cmd.Args[...] directly: otherwise the rounding error of each segment is not compensated by the next delta and accumulates along the path")
	fn := w.Func("cff.encodeArgs")
	if fn == nil {
		r.Fatal("cff.encodeArgs does not resolve")
		return
	}
	n := 0
	for _, b := range fn.Blocks {
		for _, in := range b.Instrs {
			ph, ok := in.(*ssa.Phi)
			if !ok {
				break
			}
			bt, ok := ph.Type().Underlying().(*types.Basic)
			if !ok || bt.Kind() != types.Float64 || !isLoopPhi(ph) {
				continue
			}
			n++
			key := r.MkKey("roundingbase", "cff.encodeArgs", "current point "+ph.Comment)
			bad := ""
			seen := map[ssa.Value]bool{}
			var visit func(v ssa.Value, depth int)
			visit = func(v ssa.Value, depth int) {
				if v == nil || seen[v] || depth > 40 || bad != "" {
					return
				}
				seen[v] = true
				switch x := v.(type) {
				case *ssa.Call:
					if c := x.Call.StaticCallee(); c != nil && c.Name() == "encodeNumber" {
						return // the encoded value: fine, do not look at what was asked for
					}
				case *ssa.UnOp:
					if x.Op == token.MUL {
						if ia, ok := x.X.(*ssa.IndexAddr); ok {
							if ld, ok := ia.X.(*ssa.UnOp); ok {
								if fa, ok := ld.X.(*ssa.FieldAddr); ok && fieldName(fa) == "Args" {
									bad = "it depends on the requested coordinate read at " + w.Pos(x.Pos())
									return
								}
							}
							if f, ok := ia.X.(*ssa.Field); ok && f.X.Type().String() != "" {
								st, ok2 := f.X.Type().Underlying().(*types.Struct)
								if ok2 && st.Field(f.Field).Name() == "Args" {
									bad = "it depends on the requested coordinate read at " + w.Pos(x.Pos())
									return
								}
							}
						}
					}
				}
				if ins, ok := v.(ssa.Instruction); ok {
					for _, op := range ins.Operands(nil) {
						if *op != nil {
							visit(*op, depth+1)
						}
					}
				}
			}
			for i, e := range ph.Edges {
				if ph.Block().Dominates(ph.Block().Preds[i]) && e != ssa.Value(ph) {
					visit(e, 0)
				}
			}
			if bad == "" {
				r.OK("roundingbase", key, w.Pos(ph.Pos()), "advanced by encoded values only")
			} else {
				r.Fail("roundingbase", key, w.Pos(ph.Pos()), "the current point "+ph.Comment+" is not advanced by the encoded deltas alone: "+bad+"; the interpreter adds the rounded deltas, so the two drift apart by one rounding error per segment", nil)
			}
		}
	}
	if n < 2 {
		r.Fail("roundingbase", r.MkKey("roundingbase", "cff.encodeArgs", "current point"), w.Pos(fn.Pos()), "the loop-carried current point was not found", nil)
	}
	r.Floor("roundingbase", 2)
}

// checkWidthDict: the charstrings are encoded relative to the exact
// defaultWidthX / nominalWidthX that selectWidths returned; the Private DICT
// must store those same numbers (as reals where they are fractional).
func checkWidthDict(w *World, r *Report) {
	r.Rule("widthdict: defaultWidthX and nominalWidthX are written to the Private DICT with a type that can carry a fractional value (not int32 cut from a float64): the interpreter adds nominalWidthX to the width operand, so a truncated DICT entry shifts every non-default width")
	sp := w.SSAPkg[modPath+"/cff"]
	if sp == nil {
		r.Fatal("package cff not loaded")
		return
	}
	opName := map[string]string{}
	for name, m := range sp.Members {
		if c, ok := m.(*ssa.NamedConst); ok && strings.HasPrefix(name, "op") && c.Type().String() == modPath+"/cff.dictOp" {
			opName[c.Value.Value.ExactString()] = name
		}
	}
	n := 0
	for _, fn := range w.LibFuncs() {
		if fnPkgPath(fn) != sp.Pkg.Path() {
			continue
		}
		for _, b := range fn.Blocks {
			for _, in := range b.Instrs {
				mu, ok := in.(*ssa.MapUpdate)
				if !ok || !strings.HasSuffix(mu.Map.Type().String(), "cff.cffDict") {
					continue
				}
				op := opName[constName(mu.Key)]
				if op != "opDefaultWidthX" && op != "opNominalWidthX" {
					continue
				}
				for _, k := range sliceElemKinds(mu.Value) {
					n++
					key := r.MkKey("widthdict", fnName(fn), op)
					if why := notTheParameter(mu.Value, fn); why != "" {
						r.Fail("widthdict", key, w.Pos(mu.Pos()), op+" is not stored as passed in: "+why+"; the charstrings were encoded against the exact value that selectWidths returned, so any change here shifts every non-default width", nil)
						continue
					}
					if other := foreignGuard(fn, b, mu.Value); other != "" {
						r.FailC("widthdict", key, []string{"guard"}, w.Pos(mu.Pos()), op+" is written only under a condition that involves "+other+": where that condition fails the DICT keeps the default 0 although the charstrings were encoded against the value that selectWidths returned", nil)
						continue
					}
					if k == "int<-float" || k == "int" {
						r.Fail("widthdict", key, w.Pos(mu.Pos()), op+" is stored as "+k+": a fractional width parameter is cut off in the DICT while the charstrings were encoded against the exact value", nil)
					} else {
						r.OK("widthdict", key, w.Pos(mu.Pos()), "stored as "+k)
					}
				}
			}
		}
	}
	if n < 2 {
		r.Fail("widthdict", r.MkKey("widthdict", "cff", "width operators"), "-", "the writes of defaultWidthX / nominalWidthX were not found", nil)
	}
	r.Floor("widthdict", 2)
}

func isT2opSlice(info *types.Info, e ast.Expr) bool {
	var t types.Type
	if id, ok := e.(*ast.Ident); ok {
		if obj := info.ObjectOf(id); obj != nil {
			t = obj.Type()
		}
	}
	if t == nil {
		if tv, ok := info.Types[e]; ok {
			t = tv.Type
		}
	}
	if t == nil {
		return false
	}
	sl, ok := t.Underlying().(*types.Slice)
	return ok && strings.HasSuffix(sl.Elem().String(), "cff.t2op")
}

// notTheParameter: the single element of the []interface{} literal is
// dictNumber(p) / p itself for a float64 parameter p of fn, with no
// arithmetic in between.
func notTheParameter(v ssa.Value, fn *ssa.Function) string {
	sl, ok := v.(*ssa.Slice)
	if !ok {
		return ""
	}
	al, ok := sl.X.(*ssa.Alloc)
	if !ok || al.Referrers() == nil {
		return ""
	}
	for _, ref := range *al.Referrers() {
		ia, ok := ref.(*ssa.IndexAddr)
		if !ok || ia.Referrers() == nil {
			continue
		}
		for _, r2 := range *ia.Referrers() {
			st, ok := r2.(*ssa.Store)
			if !ok {
				continue
			}
			val := st.Val
			for {
				switch x := val.(type) {
				case *ssa.MakeInterface:
					val = x.X
					continue
				case *ssa.Call:
					if c := x.Call.StaticCallee(); c != nil && c.Name() == "dictNumber" && len(x.Call.Args) == 1 {
						val = x.Call.Args[0]
						continue
					}
				}
				break
			}
			if _, isParam := val.(*ssa.Parameter); isParam {
				return ""
			}
			if c, ok := val.(*ssa.Convert); ok {
				if _, isParam := c.X.(*ssa.Parameter); isParam {
					return "" // the kind check reports lossy conversions
				}
			}
			return "the stored value is " + val.String() + ", not the parameter itself"
		}
	}
	return ""
}

// checkStemOpEmit: TN5177 allows the vstem(hm) operator to be left out only
// when a hintmask or cntrmask operator follows the stem declarations
// *directly* ("hstemhm ... hintmask": the remaining operands are taken as
// vertical stems).  In encodeCharString the stem operator of a chunk is
// therefore appended unconditionally, or skipped under a condition that looks
// at the first command of the glyph (Cmds[0]); a condition that only knows
// that some mask occurs somewhere is not enough — the operands would land on
// the next operator.
func checkStemOpEmit(w *World, r *Report) {
	r.Rule("stemopemit: in encodeCharString every condition under which the operator of a stem chunk is not emitted depends on the first command of the glyph (a load of Cmds[0]): the implicit vstem form is legal only when a mask operator follows the stem operands directly")
	fn := w.Func("(*cff.Glyph).encodeCharString")
	if fn == nil {
		r.Fatal("stemopemit: (*cff.Glyph).encodeCharString does not resolve")
		return
	}
	ci := ctrlDeps(fn)
	loops := naturalLoops(fn)
	n := 0
	for _, b := range fn.Blocks {
		for _, in := range b.Instrs {
			c, ok := in.(*ssa.Call)
			if !ok || c.Call.StaticCallee() == nil || c.Call.StaticCallee().Name() != "Bytes" {
				continue
			}
			// the operator comes from a stem record (a field named op) — not endchar etc.
			fromStem := false
			for v := range backSlice(c) {
				if fa, ok := v.(*ssa.FieldAddr); ok && fieldName(fa) == "op" {
					fromStem = true
				}
				if f, ok := v.(*ssa.Field); ok && fieldName(f) == "op" {
					fromStem = true
				}
			}
			if !fromStem {
				continue
			}
			n++
			key := r.MkKey("stemopemit", fnName(fn), "stem operator of a chunk")
			var loop *natLoop
			for _, l := range loops {
				if l.body[b] && (loop == nil || len(l.body) < len(loop.body)) {
					loop = l
				}
			}
			bad := token.NoPos
			for _, d := range ci.dep[b] {
				if loop != nil && (!loop.body[d] || d == loop.head) {
					continue
				}
				ifi, ok := d.Instrs[len(d.Instrs)-1].(*ssa.If)
				if !ok {
					continue
				}
				first := false
				for v := range backSlice(ifi.Cond) {
					if ia, ok := v.(*ssa.IndexAddr); ok {
						if k, isC := bconstInt(ia.Index); isC && k == 0 {
							for u := range backSlice(ia.X) {
								if fa, ok := u.(*ssa.FieldAddr); ok && fieldName(fa) == "Cmds" {
									first = true
								}
							}
						}
					}
				}
				if !first {
					// part of a chain that ends in the Cmds[0] test? then the final
					// decision still looks at the first command
					bad = ifi.Cond.Pos()
				}
			}
			// in an && chain every operand is an If of its own: accept when at
			// least one of the deciding conditions looks at Cmds[0]
			sawFirst := false
			for _, d := range ci.dep[b] {
				if loop != nil && (!loop.body[d] || d == loop.head) {
					continue
				}
				if ifi, ok := d.Instrs[len(d.Instrs)-1].(*ssa.If); ok {
					for v := range backSlice(ifi.Cond) {
						if ia, ok := v.(*ssa.IndexAddr); ok {
							if k, isC := bconstInt(ia.Index); isC && k == 0 {
								for u := range backSlice(ia.X) {
									if fa, ok := u.(*ssa.FieldAddr); ok && fieldName(fa) == "Cmds" {
										sawFirst = true
									}
								}
							}
						}
					}
				}
			}
			switch {
			case !bad.IsValid() || sawFirst:
				r.OK("stemopemit", key, w.Pos(c.Pos()), "emitted, or skipped only after a look at the first command")
			default:
				r.Fail("stemopemit", key, w.Pos(c.Pos()), "the stem operator is skipped under a condition (at "+w.Pos(bad)+") that never looks at the first command of the glyph: when the first mask does not follow the stems directly the stem operands are left on the stack for the next operator", nil)
			}
		}
	}
	if n == 0 {
		r.Fatal("stemopemit: no emission of a stem operator found in encodeCharString")
	}
}

// indexLoopAsRange recognises `for k := 0; k < len(xs); k++ { v := xs[k]; body }`
// (v optional) and returns the equivalent range statement, nil otherwise.
func indexLoopAsRange(info *types.Info, fs *ast.ForStmt) *ast.RangeStmt {
	init, ok := fs.Init.(*ast.AssignStmt)
	if !ok || init.Tok != token.DEFINE || len(init.Lhs) != 1 || len(init.Rhs) != 1 {
		return nil
	}
	k, ok := init.Lhs[0].(*ast.Ident)
	if !ok {
		return nil
	}
	if c, isC := constInt(info, init.Rhs[0]); !isC || c != 0 {
		return nil
	}
	post, ok := fs.Post.(*ast.IncDecStmt)
	if !ok || post.Tok != token.INC || types.ExprString(post.X) != k.Name {
		return nil
	}
	cond, ok := fs.Cond.(*ast.BinaryExpr)
	if !ok || cond.Op != token.LSS || types.ExprString(cond.X) != k.Name {
		return nil
	}
	call, ok := cond.Y.(*ast.CallExpr)
	if !ok || len(call.Args) != 1 {
		return nil
	}
	if id, ok := call.Fun.(*ast.Ident); !ok || id.Name != "len" {
		return nil
	}
	xs := call.Args[0]
	rs := &ast.RangeStmt{For: fs.For, Key: k, Tok: token.DEFINE, X: xs, Body: fs.Body}
	if len(fs.Body.List) > 0 {
		if as, ok := fs.Body.List[0].(*ast.AssignStmt); ok && as.Tok == token.DEFINE && len(as.Lhs) == 1 && len(as.Rhs) == 1 {
			if ix, ok := as.Rhs[0].(*ast.IndexExpr); ok && types.ExprString(ix.X) == types.ExprString(xs) && types.ExprString(ix.Index) == k.Name {
				rs.Value = as.Lhs[0]
				rs.Body = &ast.BlockStmt{Lbrace: fs.Body.Lbrace, List: fs.Body.List[1:], Rbrace: fs.Body.Rbrace}
			}
		}
	}
	return rs
}

// checkFloatRange: a Type 2 operand is a 16-bit integer or a 16.16
// fixed-point number, so only values of magnitude below 32768 can be written.
// cff.encodeNumber converts its float64 argument to int16 and to int32
// (16.16); a conversion of an out-of-range float does not fail in Go, it
// yields an arbitrary value, and encodeNumber reports that value back as
// "what was encoded". Every such conversion therefore has to sit behind a
// range test of the argument (or the function has to have a way to refuse).
func checkFloatRange(w *World, r *Report) {
	r.Rule("floatrange: in cff.encodeNumber every conversion of a float64 that derives from the argument to an integer type is control-dependent on a comparison of a value derived from the argument that is made before the conversion (a range test); an unguarded conversion of a coordinate difference beyond the 16.16 range produces an arbitrary operand")
	fn := w.Func("cff.encodeNumber")
	if fn == nil || len(fn.Params) != 1 {
		r.Fatal("cff.encodeNumber does not resolve")
		return
	}
	x := fn.Params[0]
	cc := controlConds(fn)
	n := 0
	for _, b := range fn.Blocks {
		for _, in := range b.Instrs {
			cv, ok := in.(*ssa.Convert)
			if !ok {
				continue
			}
			src, ok1 := cv.X.Type().Underlying().(*types.Basic)
			dst, ok2 := cv.Type().Underlying().(*types.Basic)
			if !ok1 || !ok2 || src.Info()&types.IsFloat == 0 || dst.Info()&types.IsInteger == 0 {
				continue
			}
			if !backSlice(cv.X)[x] {
				continue
			}
			n++
			key := r.MkKey("floatrange", "cff.encodeNumber", "conversion "+cv.Type().String()+"(float64)")
			guarded := false
			for _, c := range cc[b] {
				bs := backSlice(c)
				// a test that itself uses a converted value is not a range test of the argument
				usesConv := false
				for v := range bs {
					if c2, ok := v.(*ssa.Convert); ok {
						if s2, ok := c2.X.Type().Underlying().(*types.Basic); ok && s2.Info()&types.IsFloat != 0 {
							if d2, ok := c2.Type().Underlying().(*types.Basic); ok && d2.Info()&types.IsInteger != 0 {
								usesConv = true
							}
						}
					}
				}
				if bs[x] && !usesConv {
					guarded = true
				}
			}
			if guarded {
				r.OK("floatrange", key, w.Pos(cv.Pos()), "behind a test of the argument")
			} else {
				r.Fail("floatrange", key, w.Pos(cv.Pos()), "the float64 argument is converted to "+cv.Type().String()+" without a preceding range test: for a coordinate difference of magnitude 32768 or more (two points of a glyph further apart than that, inside the coordinate range the encoder accepts) the result is an arbitrary number, which is written and reported as the encoded value", nil)
			}
		}
	}
	if n == 0 {
		r.Fail("floatrange", r.MkKey("floatrange", "cff.encodeNumber", "conversions"), w.Pos(fn.Pos()), "no float-to-integer conversion of the argument found in cff.encodeNumber", nil)
	}
}

// checkStemRef: stem hints are written as deltas from the previous edge, and
// the interpreter adds up the deltas it reads — the rounded ones. The
// reference edge the encoder subtracts (`prev`) therefore has to be advanced
// by what encodeNumber says it encoded, like the current point of the path;
// set from the requested edge it lets the rounding error of every delta pile
// up along the stem list.
func checkStemRef(w *World, r *Report) {
	r.Rule("stemref: in (*cff.Glyph).encodeCharString the loop-carried reference edge that is subtracted from each stem edge before encodeNumber is advanced by a value that comes out of that encodeNumber call (the rounded delta), not set from the requested edge")
	fn := w.Func("(*cff.Glyph).encodeCharString")
	if fn == nil {
		r.Fatal("(*cff.Glyph).encodeCharString does not resolve")
		return
	}
	n := 0
	for _, b := range fn.Blocks {
		for _, in := range b.Instrs {
			call, ok := in.(*ssa.Call)
			if !ok {
				continue
			}
			callee := call.Common().StaticCallee()
			if callee == nil || callee.Name() != "encodeNumber" || len(call.Common().Args) != 1 {
				continue
			}
			sub, ok := call.Common().Args[0].(*ssa.BinOp)
			if !ok || sub.Op != token.SUB {
				continue
			}
			ph, ok := sub.Y.(*ssa.Phi)
			if !ok || !isLoopPhi(ph) {
				continue
			}
			n++
			key := r.MkKey("stemref", fnName(fn), "reference edge "+ph.Comment)
			good := false
			for i, e := range ph.Edges {
				if !ph.Block().Dominates(ph.Block().Preds[i]) {
					continue // entry edge
				}
				if backSliceLocal(fn, e)[call] {
					good = true
				} else {
					good = false
					break
				}
			}
			if good {
				r.OK("stemref", key, w.Pos(call.Pos()), "advanced by the encoded delta")
			} else {
				r.Fail("stemref", key, w.Pos(call.Pos()), "the reference edge is carried into the next iteration without the value encodeNumber encoded: it follows the requested edges while the interpreter adds the rounded deltas, so the rounding errors of fractional stem edges accumulate along the stem list instead of staying within one 16.16 step", nil)
			}
		}
	}
	if n == 0 {
		r.Fail("stemref", r.MkKey("stemref", fnName(fn), "reference edge"), w.Pos(fn.Pos()), "no encodeNumber(edge - previous) with a loop-carried previous edge found", nil)
	}
}

// checkStemOpVertical: only the operator of the last *vertical* stem chunk
// may be left out in front of a mask (the interpreter reads operands that
// precede a hintmask without operator as vertical stems). The decision to
// skip the operator must therefore imply that the chunk belongs to the
// vertical stems: assuming the comparison "stem list index == index of VStem"
// false, the skipping branch must be unreachable.
func checkStemOpVertical(w *World, r *Report) {
	r.Rule("stemopvertical: in encodeCharString the branch that skips the operator of a stem chunk cannot be taken when the comparison of the stem-list index with the position of VStem in the list of stem lists is false (evaluated over the short-circuit phis of the deciding condition, edges from blocks behind the true side of that comparison excluded): horizontal stem operands are never left without their operator")
	fn := w.Func("(*cff.Glyph).encodeCharString")
	if fn == nil {
		r.Fatal("(*cff.Glyph).encodeCharString does not resolve")
		return
	}
	key := r.MkKey("stemopvertical", fnName(fn), "operator of a stem chunk")
	// position of VStem in the literal of stem lists
	kV := int64(-1)
	for _, b := range fn.Blocks {
		for _, in := range b.Instrs {
			st, ok := in.(*ssa.Store)
			if !ok {
				continue
			}
			fa, ok := st.Addr.(*ssa.FieldAddr)
			if !ok || fieldName(fa) != "stems" {
				continue
			}
			ia, ok := fa.X.(*ssa.IndexAddr)
			if !ok {
				continue
			}
			k, ok := bconstInt(ia.Index)
			if !ok {
				continue
			}
			if ld, ok := st.Val.(*ssa.UnOp); ok && ld.Op == token.MUL && fieldName(ld.X) == "VStem" {
				kV = k
			}
		}
	}
	if kV < 0 {
		r.Fail("stemopvertical", key, w.Pos(fn.Pos()), "the list of stem lists with its VStem entry was not found", nil)
		return
	}
	isA := func(v ssa.Value) bool {
		bo, ok := v.(*ssa.BinOp)
		if !ok || bo.Op != token.EQL || !isIntegerType(bo.X.Type()) {
			return false
		}
		k, ok := bconstInt(bo.Y)
		return ok && k == kV
	}
	behindA := func(b *ssa.BasicBlock) bool {
		for _, g := range guardsOf(b) {
			if isA(g.cond) && g.then {
				return true
			}
		}
		return false
	}
	var possible func(v ssa.Value, want bool, seen map[ssa.Value]bool) bool
	possible = func(v ssa.Value, want bool, seen map[ssa.Value]bool) bool {
		if seen[v] {
			return false
		}
		seen[v] = true
		if c, ok := v.(*ssa.Const); ok && c.Value != nil && c.Value.Kind() == constant.Bool {
			return constant.BoolVal(c.Value) == want
		}
		if isA(v) {
			return !want
		}
		if u, ok := v.(*ssa.UnOp); ok && u.Op == token.NOT {
			return possible(u.X, !want, seen)
		}
		if ph, ok := v.(*ssa.Phi); ok {
			for i, e := range ph.Edges {
				if behindA(ph.Block().Preds[i]) {
					continue
				}
				if possible(e, want, seen) {
					return true
				}
			}
			return false
		}
		return true
	}
	n := 0
	for _, b := range fn.Blocks {
		for _, in := range b.Instrs {
			c, ok := in.(*ssa.Call)
			if !ok || c.Call.StaticCallee() == nil || c.Call.StaticCallee().Name() != "Bytes" {
				continue
			}
			fromStem := false
			for v := range backSlice(c) {
				if fa, ok := v.(*ssa.FieldAddr); ok && fieldName(fa) == "op" {
					fromStem = true
				}
				if f, ok := v.(*ssa.Field); ok && fieldName(f) == "op" {
					fromStem = true
				}
			}
			if !fromStem {
				continue
			}
			// the deciding branch: the immediate dominator ends in an If with b as one side
			d := b.Idom()
			if d == nil || len(d.Instrs) == 0 {
				continue
			}
			ifi, ok := d.Instrs[len(d.Instrs)-1].(*ssa.If)
			if !ok || (d.Succs[0] != b && d.Succs[1] != b) {
				continue
			}
			n++
			skipWhen := d.Succs[1] == b // the operator is skipped when the condition is true
			if behindA(d) {
				r.OK("stemopvertical", key, w.Pos(c.Pos()), "decided inside the branch for the vertical stems")
				continue
			}
			if possible(ifi.Cond, skipWhen, map[ssa.Value]bool{}) {
				r.Fail("stemopvertical", key, w.Pos(ifi.Cond.Pos()), "the operator of a stem chunk can be skipped although the chunk is not shown to belong to the vertical stems (the comparison of the stem-list index with the position of VStem can be false on the way): a glyph with horizontal stems only whose first command is a mask loses its hstemhm, and the interpreter reads the operands as vertical stems", nil)
			} else {
				r.OK("stemopvertical", key, w.Pos(c.Pos()), "skipping implies the vertical stem list")
			}
		}
	}
	if n == 0 {
		r.Fail("stemopvertical", key, w.Pos(fn.Pos()), "no conditional emission of a stem operator found", nil)
	}
}

// foreignGuard: a condition the store of a width operator is control-
// dependent on that is not a comparison of the stored parameter with a
// constant. Returns a description, or "".
func foreignGuard(fn *ssa.Function, b *ssa.BasicBlock, stored ssa.Value) string {
	params := map[ssa.Value]bool{}
	roots := []ssa.Value{stored}
	// the elements of a slice literal are stored into its backing array
	for v := range backSlice(stored) {
		al, ok := v.(*ssa.Alloc)
		if !ok || al.Referrers() == nil {
			continue
		}
		for _, ref := range *al.Referrers() {
			if ia, ok := ref.(*ssa.IndexAddr); ok && ia.Referrers() != nil {
				for _, r2 := range *ia.Referrers() {
					if st, ok := r2.(*ssa.Store); ok {
						roots = append(roots, st.Val)
					}
				}
			}
		}
	}
	for _, root := range roots {
		for v := range backSlice(root) {
			if p, ok := v.(*ssa.Parameter); ok {
				params[p] = true
			}
		}
	}
	for _, c := range controlConds(fn)[b] {
		cmp, ok := c.(*ssa.BinOp)
		if !ok {
			return "a value that is not a comparison"
		}
		for _, op := range []ssa.Value{cmp.X, cmp.Y} {
			switch x := op.(type) {
			case *ssa.Const:
			case *ssa.Parameter:
				if !params[x] {
					return "the parameter " + x.Name()
				}
			default:
				return "another value"
			}
		}
	}
	return ""
}
