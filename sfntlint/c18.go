package main

import (
	"go/token"
	"sort"

	"golang.org/x/tools/go/ssa"
)

func init() { properties["C18"] = propC18 }

// C18: I/O faults and truncation surface as errors with accurate byte counts.
func propC18(w *World, r *Report) {
	entries := mustFuncs(w, r,
		"(*sfnt.Font).Write", "(*sfnt.Font).WriteTrueTypePDF", "(*sfnt.Font).WriteOpenTypeCFFPDF", "(*cff.Font).Write", "header.Write",
		"sfnt.Read", "sfnt.ReadFile", "header.Read", "(*header.Info).TableReader", "(*header.Info).ReadTableBytes", "cff.Read",
		"opentype/gtab.Read", "opentype/gdef.Read", "head.Read", "maxp.Read", "os2.Read", "post.Read", "kern.Read", "parser.New")
	fns := srcFuncsReachable(w, entries)
	// restrict to the module itself (dependencies do no I/O on these paths)
	var mod []*ssaFn
	for _, f := range fns {
		if isLibPkg(fnPkgPath(f)) {
			mod = append(mod, f)
		}
	}
	r.Scope["entry_points"] = len(entries)
	r.Scope["reachable_library_functions"] = len(mod)
	ef := &errflow{w: w, r: r}
	ef.computeIOErr()
	n := 0
	for range ef.ioerr {
		n++
	}
	r.Scope["functions_that_can_return_an_io_error"] = n
	r.Conds["readbytes-nil-on-error"] = condNilOnError(w, "(*parser.Parser).ReadBytes")
	ef.RunErrDrop(mod)
	// errors that are not I/O errors (format errors of nested decoders and
	// encoders) must reach the caller as well: a truncated table shows up as
	// such an error in the decoder that runs out of bytes
	(&errflow{w: w, r: r, ioerr: ef.ioerr, anyErr: "errprop"}).RunErrDrop(mod)
	r.Floor("errprop", 75)
	RunErrControls(r)
	ef.RunByteCount(mod)
	RunSortedBeforeIndexed(w, r, mod)
	RunWriteTerm(w, r)
	RunEOFProbe(w, r)
	r.Floor("errdrop", 150)
	r.Floor("bytecount", 8)
	r.Floor("sortfirst", 5)
}

// RunWriteTerm: every loop on the writing side terminates.  "If the
// destination fails ... writing reports an error instead of succeeding or
// panicking" presupposes that the call returns: a retry loop around a Write
// that makes no progress, or an encoder loop without a decreasing measure,
// hangs instead.  Same termination engine as for the decoders (E2), without
// the work bound (the writers' work is bounded by the font value, which is
// trusted input).
func RunWriteTerm(w *World, r *Report) {
	r.Rule("loopterm (writers): every natural loop in the library functions reachable from (*Font).Write, WriteTrueTypePDF, WriteOpenTypeCFFPDF, (*cff.Font).Write and header.Write (including Write methods of wrappers handed to header.Write) has a recognised termination argument: a counter with steps of one sign against a loop-invariant bound (no wrap for narrow counters), a slice that is shown to get shorter, a range; anything else needs a reviewed argument")
	var entries []*ssa.Function
	for _, n := range []string{"(*sfnt.Font).Write", "(*sfnt.Font).WriteTrueTypePDF", "(*sfnt.Font).WriteOpenTypeCFFPDF", "(*cff.Font).Write", "header.Write"} {
		if fn := w.Func(n); fn != nil {
			entries = append(entries, fn)
		} else {
			r.Fatal("anchor function %q does not resolve", n)
		}
	}
	var fns []*ssa.Function
	for fn := range w.libReach(entries) {
		fns = append(fns, fn)
	}
	sort.Slice(fns, func(i, j int) bool { return fnName(fns[i]) < fnName(fns[j]) })
	for _, a := range boundsAssumptions {
		r.Assumes(a)
	}
	r.Scope["writer_functions"] = len(fns)
	r.Conds["encodefloat-digits"] = condDigitsFromFormatFloat(w, "cff.encodeFloat")
	runLoopTerm(w, r, newBoundsRun(w), fns, false)
	r.Floor("loopterm", 250)
}

// condDigitsFromFormatFloat: every loop of fn that divides an integer while it
// is divisible by ten starts from the result of strconv.Atoi applied to a
// piece of a strconv.FormatFloat result (a digit string of a finite positive
// number, hence not zero), not from floating-point scaling.
func condDigitsFromFormatFloat(w *World, name string) func() (bool, string) {
	return func() (bool, string) {
		fn := w.Func(name)
		if fn == nil {
			return false, name + " does not resolve"
		}
		found := false
		for _, l := range naturalLoops(fn) {
			for _, in := range l.head.Instrs {
				ph, ok := in.(*ssa.Phi)
				if !ok {
					break
				}
				if !isIntType(ph.Type()) || !usedInRem(ph) {
					continue
				}
				for i, e := range ph.Edges {
					if l.body[l.head.Preds[i]] {
						continue
					}
					found = true
					sl := backSlice(e)
					atoi, ff := false, false
					for v := range sl {
						if c, ok := v.(*ssa.Call); ok {
							switch staticCalleeName(c.Common()) {
							case "strconv.Atoi":
								atoi = true
							case "strconv.FormatFloat":
								ff = true
							}
						}
					}
					if !atoi || !ff {
						return false, "the value that enters the loop at " + w.Pos(l.head.Instrs[0].Pos()) + " is not strconv.Atoi of a piece of strconv.FormatFloat"
					}
				}
			}
		}
		if !found {
			return false, "no loop over an integer found in " + name
		}
		return true, ""
	}
}

func usedInRem(v ssa.Value) bool {
	if v.Referrers() == nil {
		return false
	}
	for _, ref := range *v.Referrers() {
		if bo, ok := ref.(*ssa.BinOp); ok && bo.Op == token.REM && bo.X == v {
			return true
		}
	}
	return false
}

// RunEOFProbe: header.Read accepts a directory only after it has probed the
// input at the largest table end.  The directory records are the only place
// where a truncated file is noticed before the tables are read lazily (and a
// table of length zero is never read at all), so the probe must lie on every
// path to the success return; it may not depend on the shape of the last
// table.
func RunEOFProbe(w *World, r *Report) {
	r.Rule("eofprobe: every path through header.Read to its success return passes a ReadAt on the input whose offset is computed from the table extents (End of an element of the sorted list): no condition on the tables lets the function accept the directory without the end-of-file probe")
	fn := w.Func("header.Read")
	if fn == nil || len(fn.Params) == 0 {
		r.Fatal("eofprobe: header.Read does not resolve")
		return
	}
	key := r.MkKey("eofprobe", "header.Read", "end-of-file probe")
	probe := map[*ssa.BasicBlock]bool{}
	var probePos token.Pos
	for _, b := range fn.Blocks {
		for _, in := range b.Instrs {
			c, ok := in.(*ssa.Call)
			if !ok || !c.Call.IsInvoke() || c.Call.Method.Name() != "ReadAt" || c.Call.Value != ssa.Value(fn.Params[0]) || len(c.Call.Args) < 2 {
				continue
			}
			fromExtent := false
			for v := range backSlice(c.Call.Args[1]) {
				if fa, ok := v.(*ssa.FieldAddr); ok && fieldName(fa) == "End" {
					fromExtent = true
				}
				if f, ok := v.(*ssa.Field); ok && fieldName(f) == "End" {
					fromExtent = true
				}
			}
			if fromExtent {
				probe[b] = true
				probePos = c.Pos()
			}
		}
	}
	if len(probe) == 0 {
		r.Fail("eofprobe", key, w.Pos(fn.Pos()), "header.Read makes no ReadAt at an offset computed from a table end: a file that is cut inside (or before) its last tables is accepted", nil)
		return
	}
	// success returns reachable from the entry without passing a probe block
	seen := map[*ssa.BasicBlock]bool{}
	var bad *ssa.Return
	var walk func(b *ssa.BasicBlock)
	walk = func(b *ssa.BasicBlock) {
		if seen[b] || probe[b] || bad != nil {
			return
		}
		seen[b] = true
		if rt, ok := b.Instrs[len(b.Instrs)-1].(*ssa.Return); ok && len(rt.Results) == 2 && isNilConst(rt.Results[1]) && !isNilConst(rt.Results[0]) {
			bad = rt
			return
		}
		for _, s := range b.Succs {
			walk(s)
		}
	}
	walk(fn.Blocks[0])
	if bad != nil {
		r.Fail("eofprobe", key, w.Pos(bad.Pos()), "the success return can be reached without the end-of-file probe at "+w.Pos(probePos)+": for some table layouts (an empty last table) a truncated file is accepted", nil)
		return
	}
	r.OK("eofprobe", key, w.Pos(probePos), "the probe lies on every path to the success return")
}
