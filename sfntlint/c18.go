package main

func init() { properties["C18"] = propC18 }

// C18: I/O faults and truncation surface as errors with accurate byte counts.
func propC18(w *World, r *Report) {
	entries := mustFuncs(w, r,
		"(*sfnt.Font).Write", "(*sfnt.Font).WriteTrueTypePDF", "(*sfnt.Font).WriteOpenTypeCFFPDF", "(*cff.Font).Write", "header.Write",
		"sfnt.Read", "sfnt.ReadFile", "header.Read", "(*header.Info).TableReader", "(*header.Info).ReadTableBytes", "cff.Read",
		"opentype/gtab.Read", "opentype/gdef.Read", "head.Read", "maxp.Read", "os2.Read", "post.Read", "kern.Read", "parser.New")
	fns := srcFuncsReachable(w, entries)
	// restrict to the module itself (dependencies do no I/O on these paths)
	var mod []*ssaFn
	for _, f := range fns {
		if isLibPkg(fnPkgPath(f)) {
			mod = append(mod, f)
		}
	}
	r.Scope["entry_points"] = len(entries)
	r.Scope["reachable_library_functions"] = len(mod)
	ef := &errflow{w: w, r: r}
	ef.computeIOErr()
	n := 0
	for range ef.ioerr {
		n++
	}
	r.Scope["functions_that_can_return_an_io_error"] = n
	r.Conds["readbytes-nil-on-error"] = condNilOnError(w, "(*parser.Parser).ReadBytes")
	ef.RunErrDrop(mod)
	RunErrControls(r)
	ef.RunByteCount(mod)
	RunSortedBeforeIndexed(w, r, mod)
	r.Floor("errdrop", 150)
	r.Floor("bytecount", 8)
	r.Floor("sortfirst", 5)
}
