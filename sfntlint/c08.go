package main

import "strings"

func init() {
	properties["C08"] = propC08
	properties["C11"] = propC11
}

// C08: GSUB/GPOS/GDEF binary encoding round-trips with consistent offsets and sizes.
func propC08(w *World, r *Report) {
	e := NewEffects(w)
	runDet(w, r, e, "C08")
	RunSizeAgree(w, r, func(p string) bool { return strings.Contains(p, "/opentype/") })
	RunTwinFormula(w, r, func(p string) bool { return strings.Contains(p, "/opentype/") })
	var enc []*ssaFn
	for _, f := range w.LibFuncs() {
		if strings.Contains(fnPkgPath(f), "/opentype/") {
			enc = append(enc, f)
		}
	}
	RunDeadGuard(w, r, enc)
	for _, a := range boundsAssumptions {
		r.Assumes(a)
	}
	RunLosslessFor(w, r, "C08", newBoundsRun(w))
	checkTagPad(w, r)
	r.Floor("deadguard", 10)
	r.Floor("twinformula", 1)
	r.Require("twinformula|opentype/gtab.LookupList|variable lookupHeaderLen|0", "the lookup header size is computed both in LookupList.encode and in LookupList.tryReorder and the two formulas must agree")
	r.Floor("sizeagree", 22)
	r.Floor("mapdet", 12)
}

// C11: TrueType glyph data round-trips.
func propC11(w *World, r *Report) {
	RunSizeAgree(w, r, func(p string) bool { return strings.HasSuffix(p, "/glyf") })
	RunLocaPair(w, r)
	r.Rule("readonly: Components, FixComponents, encodeLen, append and Glyphs.Encode do not write memory reachable from the glyph(s) they are called on (component lists are reported and rewritten without touching the source glyph; effect analysis E6)")
	RunReadOnly(w, r, NewEffects(w), "readonly", []string{"(*glyf.Glyph).Components", "(*glyf.Glyph).FixComponents", "(*glyf.Glyph).encodeLen", "(*glyf.Glyph).append", "(glyf.Glyphs).Encode"}, 0)
	r.Floor("sizeagree", 1)
	RunGlyfFlagSiblings(w, r)
	for _, a := range boundsAssumptions {
		r.Assumes(a)
	}
	RunLosslessFor(w, r, "C11", newBoundsRun(w))

}
