package main

import (
	"strings"

	"golang.org/x/tools/go/ssa"
)

func init() {
	properties["C08"] = propC08
	properties["C11"] = propC11
}

// C08: GSUB/GPOS/GDEF binary encoding round-trips with consistent offsets and sizes.
func propC08(w *World, r *Report) {
	defer func() {
		var fs []*ssa.Function
		for _, f := range w.LibFuncs() {
			p := fnPkgPath(f)
			if strings.HasSuffix(p, "/gtab") || strings.HasSuffix(p, "/gdef") || strings.HasSuffix(p, "/coverage") || strings.HasSuffix(p, "/classdef") || strings.HasSuffix(p, "/markarray") || strings.HasSuffix(p, "/anchor") {
				fs = append(fs, f)
			}
		}
		RunDeadAccumulator(w, r, fs)
	}()
	e := NewEffects(w)
	runDet(w, r, e, "C08")
	RunSizeAgree(w, r, func(p string) bool { return strings.Contains(p, "/opentype/") })
	RunSizeControls(r)
	RunRowWidth(w, r)
	RunAbsentList(w, r)
	RunTwinFormula(w, r, func(p string) bool { return strings.Contains(p, "/opentype/") })
	var enc []*ssaFn
	for _, f := range w.LibFuncs() {
		if strings.Contains(fnPkgPath(f), "/opentype/") {
			enc = append(enc, f)
		}
	}
	RunDeadGuard(w, r, enc)
	for _, a := range boundsAssumptions {
		r.Assumes(a)
	}
	br08 := newBoundsRun(w)
	RunLosslessFor(w, r, "C08", br08)
	var succ []*ssaFn
	for _, f := range enc {
		if !strings.Contains(fnPkgPath(f), "/builder") {
			succ = append(succ, f)
		}
	}
	RunNarrowSucc(w, r, succ, br08)
	RunNarrowSuccControl(r)
	r.Conds["classdef-format1-range"] = condFieldBoundedOrHuge(w, br08, "(opentype/classdef.Table).getEncInfo", "format1Size", 6+2*0xFFFF)
	RunNarrowBound(w, r, succ, br08)
	RunStrictChoice(w, r, succ, br08)
	r.Floor("strictchoice", 1)
	RunControl(r, "narrowbound", "ctlWrapBound|", func(cw *World, rr *Report, fns []*ssa.Function) { RunNarrowBound(cw, rr, fns, newBoundsRun(cw)) })
	RunBigEndian(w, r, func(p string) bool {
		for _, suf := range []string{"/opentype/gtab", "/opentype/coverage", "/opentype/classdef", "/opentype/gdef", "/opentype/markarray", "/opentype/anchor"} {
			if strings.HasSuffix(p, suf) {
				return true
			}
		}
		return false
	})
	RunStructCover(w, r, "opentype/gdef", "Table", []string{"opentype/gdef.Read"}, []string{"(*opentype/gdef.Table).Encode"})
	RunStructCover(w, r, "opentype/gtab", "Info", []string{"opentype/gtab.Read"}, []string{"(*opentype/gtab.Info).Encode"})
	RunStructCover(w, r, "opentype/gtab", "LookupMetaInfo", []string{"opentype/gtab.Read"}, []string{"(*opentype/gtab.Info).Encode"})
	RunStructCover(w, r, "opentype/gtab", "Feature", []string{"opentype/gtab.Read"}, []string{"(*opentype/gtab.Info).Encode"})
	RunStructCover(w, r, "opentype/gtab", "Features", []string{"opentype/gtab.Read"}, []string{"(*opentype/gtab.Info).Encode"})
	RunStructCover(w, r, "opentype/gtab", "LookupTable", []string{"opentype/gtab.Read"}, []string{"(*opentype/gtab.Info).Encode"})
	r.Floor("structcover", 12)
	RunFormatField(w, r)
	RunExtType(w, r)
	checkTagPad(w, r)
	RunPrevSentinel(w, r, enc)
	r.Floor("prevsentinel", 1)
	RunIterFresh(w, r, enc)
	runFlagReduceIn(w, r, "/opentype/gtab", "/opentype/coverage", "/opentype/classdef", "/opentype/gdef")
	RunIterFreshControl(r)
	r.Floor("deadguard", 10)
	r.Floor("twinformula", 1)
	RunTwinGuarded(w, r, "opentype/gtab", "LookupList", "encode", "tryReorder")
	r.Floor("sizeagree", 22)
	r.Floor("mapdet", 12)
}

// C11: TrueType glyph data round-trips.
func propC11(w *World, r *Report) {
	defer runDeadAccIn(w, r, "/glyf")
	RunSizeAgree(w, r, func(p string) bool { return strings.HasSuffix(p, "/glyf") })
	RunLocaPair(w, r)
	r.Rule("readonly: Components, FixComponents, encodeLen, append and Glyphs.Encode do not write memory reachable from the glyph(s) they are called on (component lists are reported and rewritten without touching the source glyph; effect analysis E6)")
	RunReadOnly(w, r, NewEffects(w), "readonly", []string{"(*glyf.Glyph).Components", "(*glyf.Glyph).FixComponents", "(*glyf.Glyph).encodeLen", "(*glyf.Glyph).append", "(glyf.Glyphs).Encode"}, 0)
	r.Floor("sizeagree", 1)
	RunGlyfFlagSiblings(w, r)
	RunXYTwins(w, r)
	RunComponentSize(w, r)
	RunBigEndian(w, r, func(p string) bool { return strings.HasSuffix(p, "/glyf") })
	RunPadStrip(w, r)
	for _, a := range boundsAssumptions {
		r.Assumes(a)
	}
	br11 := newBoundsRun(w)
	RunLosslessFor(w, r, "C11", br11)
	runNarrowBoundIn(w, r, br11, "/glyf")
	runFlagReduceIn(w, r, "/glyf")
	var gl []*ssa.Function
	for _, f := range w.LibFuncs() {
		if strings.HasSuffix(fnPkgPath(f), "/glyf") {
			gl = append(gl, f)
		}
	}
	RunNarrowArith(w, r, gl)
	RunControl(r, "narrowarith", "ctlNarrowArith", RunNarrowArith)
}

// RunPadStrip: glyf.Decode strips the padding that Encode added by calling
// (*SimpleGlyph).removePadding, whose whole effect is the assignment
// glyph.Encoded = buf[:pos] with pos the end of the coordinate data.  A
// successful return that bypasses the assignment leaves the pad byte in the
// glyph, which then differs from the one that was encoded.
func RunPadStrip(w *World, r *Report) {
	r.Rule("padstrip: every return of (*glyf.SimpleGlyph).removePadding with a nil error is dominated by the store to the glyph's Encoded field (the re-slicing to the exact length), and glyf.Decode calls removePadding for simple glyphs")
	fn := w.Func("(*glyf.SimpleGlyph).removePadding")
	if fn == nil {
		r.Fatal("(*glyf.SimpleGlyph).removePadding does not resolve")
		return
	}
	var stores []*ssa.Store
	for _, b := range fn.Blocks {
		for _, in := range b.Instrs {
			if st, ok := in.(*ssa.Store); ok {
				if fa, ok := st.Addr.(*ssa.FieldAddr); ok && fieldName(fa) == "Encoded" {
					if _, isSlice := st.Val.(*ssa.Slice); isSlice {
						stores = append(stores, st)
					}
				}
			}
		}
	}
	n := 0
	for _, b := range fn.Blocks {
		if len(b.Instrs) == 0 {
			continue
		}
		ret, ok := b.Instrs[len(b.Instrs)-1].(*ssa.Return)
		if !ok || len(ret.Results) != 1 {
			continue
		}
		c, isConst := ret.Results[0].(*ssa.Const)
		if !isConst || c.Value != nil {
			continue // an error is returned
		}
		n++
		key := r.MkKey("padstrip", fnName(fn), "successful return")
		dominated := false
		for _, st := range stores {
			if st.Block() == b || st.Block().Dominates(b) {
				dominated = true
			}
		}
		if dominated {
			r.OK("padstrip", key, w.Pos(ret.Pos()), "after glyph.Encoded = buf[:pos]")
		} else {
			r.Fail("padstrip", key, w.Pos(ret.Pos()), "removePadding can return successfully without re-slicing glyph.Encoded to the end of the glyph data: the pad byte added by Encode stays in the decoded glyph", nil)
		}
	}
	key := r.MkKey("padstrip", "glyf.Decode", "calls removePadding")
	called := false
	for _, f := range w.LibFuncs() {
		if !strings.HasSuffix(fnPkgPath(f), "/glyf") {
			continue
		}
		for _, b := range f.Blocks {
			for _, in := range b.Instrs {
				if c, ok := in.(*ssa.Call); ok && c.Call.StaticCallee() == fn {
					called = true
				}
			}
		}
	}
	if called {
		r.OK("padstrip", key, w.Pos(fn.Pos()), "removePadding is called by the decoder")
	} else {
		r.Fail("padstrip", key, w.Pos(fn.Pos()), "no call of removePadding in package glyf", nil)
	}
	if n == 0 {
		r.Fatal("padstrip: no successful return found")
	}
	r.Floor("padstrip", 2)
}
