package main

// C05 subrsource: callsubr runs a subroutine of the font's local INDEX,
// callgsubr one of the global INDEX. In the interpreter each getSubr call
// takes the INDEX that belongs to the operator it is reached under, and what
// it returns becomes the code the interpreter continues with.

import (
	"fmt"
	"go/constant"
	"go/token"
	"go/types"

	"golang.org/x/tools/go/ssa"
)

func checkSubrSource(w *World, r *Report, fn *ssa.Function) {
	r.Rule("subrsource: in decodeCharString every call that fetches a subroutine takes the local INDEX (decodeInfo.subr) where it is reached under operator callsubr and the global INDEX (decodeInfo.gsubr) where it is reached under callgsubr (nearest dominating comparison of the operator with the named constant), both operators have such a call, and the code the call returns flows into the variable the interpreter reads its next operator from (a phi or a store), not into the blank identifier")
	pkg := w.All[modPath+"/cff"]
	opConst := func(name string) (int64, bool) {
		c, ok := pkg.Types.Scope().Lookup(name).(*types.Const)
		if !ok {
			return 0, false
		}
		v, ok := constant.Int64Val(c.Val())
		return v, ok
	}
	local, ok1 := opConst("t2callsubr")
	global, ok2 := opConst("t2callgsubr")
	if !ok1 || !ok2 {
		r.Fail("subrsource", r.MkKey("subrsource", fnName(fn), "operator constants"), w.Pos(fn.Pos()), "constants t2callsubr / t2callgsubr not found in package cff", nil)
		return
	}
	seen := map[string]bool{}
	for _, b := range fn.Blocks {
		for _, in := range b.Instrs {
			call, ok := in.(*ssa.Call)
			if !ok {
				continue
			}
			callee := call.Common().StaticCallee()
			if callee == nil || callee.Name() != "getSubr" || len(call.Common().Args) < 1 {
				continue
			}
			field := ""
			if ld, ok := call.Common().Args[0].(*ssa.UnOp); ok && ld.Op == token.MUL {
				field = fieldName(ld.X)
			}
			key := r.MkKey("subrsource", fnName(fn), "getSubr from "+field)
			// nearest guard that compares a value with one of the two operator constants
			want := ""
			for _, g := range guardsOf(b) {
				bo, ok := g.cond.(*ssa.BinOp)
				if !ok || (bo.Op != token.EQL && bo.Op != token.NEQ) {
					continue
				}
				c, ok := bo.Y.(*ssa.Const)
				if !ok || c.Value == nil || c.Value.Kind() != constant.Int {
					continue
				}
				v := c.Int64()
				if v != local && v != global {
					continue
				}
				isEq := (bo.Op == token.EQL) == g.then
				switch {
				case v == local && isEq, v == global && !isEq:
					want = "subr"
				default:
					want = "gsubr"
				}
				break
			}
			flows := false
			if refs := call.Referrers(); refs != nil {
				for _, ref := range *refs {
					ex, ok := ref.(*ssa.Extract)
					if !ok || ex.Index != 0 || ex.Referrers() == nil {
						continue
					}
					for _, r2 := range *ex.Referrers() {
						switch r2.(type) {
						case *ssa.Phi, *ssa.Store:
							flows = true
						}
					}
				}
			}
			switch {
			case want == "":
				r.Fail("subrsource", key, w.Pos(call.Pos()), "the call is not reached under a comparison of the operator with t2callsubr or t2callgsubr", nil)
			case field != want:
				r.Fail("subrsource", key, w.Pos(call.Pos()), fmt.Sprintf("this call is reached under operator %s but fetches from decodeInfo.%s: the subroutine of the other INDEX is executed", map[string]string{"subr": "callsubr", "gsubr": "callgsubr"}[want], field), nil)
			case !flows:
				r.Fail("subrsource", key, w.Pos(call.Pos()), "the code returned by getSubr is not carried into the variable the interpreter continues with: the subroutine is looked up but not executed", nil)
			default:
				seen[field] = true
				r.OK("subrsource", key, w.Pos(call.Pos()), "fetched from the INDEX of its operator and executed")
			}
		}
	}
	for _, f := range []string{"subr", "gsubr"} {
		if !seen[f] {
			r.Fail("subrsource", r.MkKey("subrsource", fnName(fn), "operator for "+f), w.Pos(fn.Pos()), "no subroutine call that fetches from decodeInfo."+f+" and executes the result was found", nil)
		}
	}
}

