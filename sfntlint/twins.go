package main

import (
	"fmt"
	"go/ast"
	"go/constant"
	"go/token"
	"go/types"
	"regexp"
	"sort"
	"strings"

	"golang.org/x/tools/go/ssa"
)

// twinformula: methods of one type that each compute a local integer variable
// of the same name from the same kind of data must use the same formula (the
// second copy is a clone that has to be kept in step: "same name, same
// meaning").

var reIndex = regexp.MustCompile(`\[[^\[\]]*\]`)
var reTypeAtom = regexp.MustCompile(`<[^<>]*>`)

// fragmentForm evaluates, in the size algebra, the value of local variable
// `name` as defined by `name := e` and the statements directly following it
// that only update it. Other identifiers are abstracted by their type.
func fragmentForm(w *World, info *types.Info, body *ast.BlockStmt, name string) (string, token.Pos, bool) {
	var list []ast.Stmt
	var start int
	var obj types.Object
	found := false
	ast.Inspect(body, func(n ast.Node) bool {
		if found {
			return false
		}
		var stmts []ast.Stmt
		switch b := n.(type) {
		case *ast.BlockStmt:
			stmts = b.List
		case *ast.CaseClause:
			stmts = b.Body
		default:
			return true
		}
		for i, s := range stmts {
			if as, ok := s.(*ast.AssignStmt); ok && as.Tok == token.DEFINE && len(as.Lhs) == 1 {
				if id, ok := as.Lhs[0].(*ast.Ident); ok && id.Name == name && isIntLike(info.TypeOf(id)) {
					list, start, obj, found = stmts, i, info.ObjectOf(id), true
					return false
				}
			}
		}
		return true
	})
	if !found {
		return "", token.NoPos, false
	}
	x := &szExec{w: w, info: info, lens: map[string]lin{}, ctr: new(int), depth: 1}
	st := &szState{env: map[types.Object]sym{}}
	// abstract every other identifier by its type
	bind := func(n ast.Node) {
		ast.Inspect(n, func(m ast.Node) bool {
			if id, ok := m.(*ast.Ident); ok {
				o := info.ObjectOf(id)
				if v, isVar := o.(*types.Var); isVar && o != obj && !v.IsField() {
					if _, seen := st.env[o]; !seen {
						if isIntLike(o.Type()) {
							st.env[o] = sym{kind: symInt, n: linAtom("<" + shortName(o.Type().String()) + ">")}
						} else {
							st.env[o] = sym{kind: symPath, path: "<" + shortName(o.Type().String()) + ">"}
						}
					}
				}
			}
			return true
		})
	}
	onlyUpdates := func(s ast.Stmt) bool {
		ok := true
		any := false
		ast.Inspect(s, func(m ast.Node) bool {
			switch a := m.(type) {
			case *ast.AssignStmt:
				for _, l := range a.Lhs {
					if id, isId := l.(*ast.Ident); isId && info.ObjectOf(id) == obj {
						any = true
					} else {
						ok = false
					}
				}
			case *ast.IncDecStmt:
				if id, isId := a.X.(*ast.Ident); isId && info.ObjectOf(id) == obj {
					any = true
				} else {
					ok = false
				}
			case *ast.CallExpr:
				if id, isId := a.Fun.(*ast.Ident); isId && id.Name == "panic" {
					ok = false
				}
			case *ast.ReturnStmt, *ast.BranchStmt, *ast.ForStmt, *ast.RangeStmt:
				ok = false
			}
			return true
		})
		return ok && any
	}
	end := start + 1
	for end < len(list) && onlyUpdates(list[end]) {
		end++
	}
	for _, s := range list[start:end] {
		bind(s)
	}
	res := x.execList([]*szState{st}, list[start:end])
	if len(res) != 1 || res[0].bad != "" {
		return "", token.NoPos, false
	}
	v, ok := res[0].env[obj]
	if !ok || v.kind != symInt {
		return "", token.NoPos, false
	}
	return reIndex.ReplaceAllString(v.n.String(), "[*]"), list[start].Pos(), true
}

func RunTwinFormula(w *World, r *Report, pkgFilter func(string) bool) {
	r.Rule("twinformula: when two methods of the same type each define a local integer variable with the same name, the value computed for it (evaluated in the size algebra, other variables abstracted by their types) must be the same formula in both — duplicated size formulas (e.g. the lookup header length in LookupList.encode and LookupList.tryReorder) cannot drift apart")
	type fnInfo struct {
		fd   *ast.FuncDecl
		info *types.Info
	}
	byType := map[string][]fnInfo{}
	var order []string
	for path, p := range w.All {
		if !isLibPkg(path) || (pkgFilter != nil && !pkgFilter(path)) {
			continue
		}
		for _, f := range p.Syntax {
			for _, d := range f.Decls {
				fd, ok := d.(*ast.FuncDecl)
				if !ok || fd.Recv == nil || fd.Body == nil {
					continue
				}
				rt := fd.Recv.List[0].Type
				if st, ok := rt.(*ast.StarExpr); ok {
					rt = st.X
				}
				tn := shortName(path) + "." + types.ExprString(rt)
				if _, ok := byType[tn]; !ok {
					order = append(order, tn)
				}
				byType[tn] = append(byType[tn], fnInfo{fd, p.TypesInfo})
			}
		}
	}
	sort.Strings(order)
	for _, tn := range order {
		fns := byType[tn]
		sort.Slice(fns, func(i, j int) bool { return fns[i].fd.Name.Name < fns[j].fd.Name.Name })
		// names of int locals defined with := per function
		names := map[string][]int{}
		for i, f := range fns {
			seen := map[string]bool{}
			ast.Inspect(f.fd.Body, func(n ast.Node) bool {
				if as, ok := n.(*ast.AssignStmt); ok && as.Tok == token.DEFINE && len(as.Lhs) == 1 {
					if id, ok := as.Lhs[0].(*ast.Ident); ok && isIntLike(f.info.TypeOf(id)) && len(id.Name) >= 6 && !seen[id.Name] {
						seen[id.Name] = true
						names[id.Name] = append(names[id.Name], i)
					}
				}
				return true
			})
		}
		var ns []string
		for n, idx := range names {
			if len(idx) >= 2 {
				ns = append(ns, n)
			}
		}
		sort.Strings(ns)
		for _, n := range ns {
			idx := names[n]
			// skip encode/encodeLen pairs: covered by sizeagree
			byInputs := map[string][]string{}
			var first token.Pos
			for _, i := range idx {
				form, pos, ok := fragmentForm(w, fns[i].info, fns[i].fd.Body, n)
				if !ok {
					continue
				}
				// only formulas over data count: skip counters that start from a constant
				inputs := strings.Join(reTypeAtom.FindAllString(form, -1), ",")
				if inputs == "" {
					continue
				}
				if first == token.NoPos {
					first = pos
				}
				byInputs[inputs] = append(byInputs[inputs], form+"\x01"+fns[i].fd.Name.Name)
			}
			// formulas are comparable only when they are computed from the same kinds of inputs
			forms := map[string][]string{}
			var ins []string
			for k := range byInputs {
				ins = append(ins, k)
			}
			sort.Strings(ins)
			for _, k := range ins {
				if len(byInputs[k]) < 2 {
					continue
				}
				for _, ff := range byInputs[k] {
					parts := strings.SplitN(ff, "\x01", 2)
					forms[parts[0]] = append(forms[parts[0]], parts[1])
				}
			}
			total := 0
			for _, fs := range forms {
				total += len(fs)
			}
			if total < 2 {
				continue
			}
			key := r.MkKey("twinformula", tn, "variable "+n)
			if len(forms) == 1 {
				for form, fs := range forms {
					r.OK("twinformula", key, w.Pos(first), fmt.Sprintf("%s = %s in %s", n, form, strings.Join(fs, ", ")))
				}
			} else {
				var parts []string
				for form, fs := range forms {
					parts = append(parts, strings.Join(fs, ",")+": "+form)
				}
				sort.Strings(parts)
				r.Fail("twinformula", key, w.Pos(first), fmt.Sprintf("local %s is computed by different formulas in methods of %s: %s", n, tn, strings.Join(parts, " | ")), nil)
			}
		}
	}
}

// ---------------------------------------------------------------------------
// deadguard: a range check that can never fire because of the operand's type

// typeMax returns the maximal value of an unsigned basic type, or -1.
func unsignedMax(t types.Type) (int64, bool) {
	b, ok := t.Underlying().(*types.Basic)
	if !ok {
		return 0, false
	}
	switch b.Kind() {
	case types.Uint8:
		return 0xFF, true
	case types.Uint16:
		return 0xFFFF, true
	case types.Uint32:
		return 0xFFFFFFFF, true
	}
	return 0, false
}

func RunDeadGuard(w *World, r *Report, fns []*ssa.Function) {
	r.Rule("deadguard: a comparison x > C / x >= C that guards a panic or an error return must be able to fire: if x is (a widening conversion of) an unsigned 8/16/32-bit value whose type maximum is below the constant, the overflow check is dead and unrepresentable data is no longer refused")
	for _, fn := range fns {
		name := fnName(fn)
		for _, b := range fn.Blocks {
			if len(b.Instrs) == 0 {
				continue
			}
			ifi, ok := b.Instrs[len(b.Instrs)-1].(*ssa.If)
			if !ok {
				continue
			}
			// collect comparisons feeding the condition (through && / || lowering the cond is one BinOp per block)
			bo, ok := ifi.Cond.(*ssa.BinOp)
			if !ok || (bo.Op != token.GTR && bo.Op != token.GEQ) {
				continue
			}
			c, ok := bo.Y.(*ssa.Const)
			if !ok || c.Value == nil || c.Value.Kind() != constant.Int {
				continue
			}
			cv, ok := constant.Int64Val(c.Value)
			if !ok {
				continue
			}
			// does the true branch panic or return an error?
			t := b.Succs[0]
			refuses := false
			if len(t.Instrs) > 0 {
				switch last := t.Instrs[len(t.Instrs)-1].(type) {
				case *ssa.Panic:
					refuses = true
				case *ssa.Return:
					for _, rv := range last.Results {
						if isErrorType(rv.Type()) && !isNilConst(rv) {
							refuses = true
						}
					}
				}
			}
			if !refuses {
				continue
			}
			// provenance of x
			x := bo.X
			for {
				if cv, ok := x.(*ssa.Convert); ok {
					x = cv.X
					continue
				}
				if ct, ok := x.(*ssa.ChangeType); ok {
					x = ct.X
					continue
				}
				break
			}
			key := r.MkKey("deadguard", name, "range check against "+c.Value.ExactString())
			mx, isU := unsignedMax(x.Type())
			dead := isU && ((bo.Op == token.GTR && cv >= mx) || (bo.Op == token.GEQ && cv > mx))
			if dead {
				r.Fail("deadguard", key, w.Pos(bo.Pos()), fmt.Sprintf("the check `… %s %d` can never be true: the compared value was already truncated to %s (max %d) — overflow is no longer refused", bo.Op, cv, x.Type().String(), mx), nil)
			} else {
				r.OK("deadguard", key, w.Pos(bo.Pos()), "operand can exceed the bound")
			}
		}
	}
}

// RunTwinGuarded is the name-independent anchor of twinformula for one pair
// of methods: the set of *guarded* size formulas (formulas with a conditional
// contribution g{…}) that the integer locals of the two methods compute must
// be the same set.  A formula that is duplicated in both methods — whatever
// the locals are called — is then kept in step; a conditional term present in
// one method and missing in the other is reported.  Both sets empty (the
// formula moved into a shared helper) is agreement by construction.
func RunTwinGuarded(w *World, r *Report, pkgRel, typ, m1, m2 string) {
	r.Rule("twinguarded: the guarded size formulas (those with a conditional term) computed by integer locals of " + typ + "." + m1 + " and " + typ + "." + m2 + " form the same set, whatever the locals are called: the layout one method predicts is the layout the other writes")
	pkg := w.All[modPath+"/"+pkgRel]
	if pkg == nil {
		r.Fatal("package %s not loaded", pkgRel)
		return
	}
	forms := map[string]map[string]token.Pos{m1: {}, m2: {}}
	found := map[string]bool{}
	for _, f := range pkg.Syntax {
		for _, d := range f.Decls {
			fd, ok := d.(*ast.FuncDecl)
			if !ok || fd.Recv == nil || fd.Body == nil || (fd.Name.Name != m1 && fd.Name.Name != m2) {
				continue
			}
			rt := fd.Recv.List[0].Type
			if st, ok := rt.(*ast.StarExpr); ok {
				rt = st.X
			}
			if types.ExprString(rt) != typ {
				continue
			}
			found[fd.Name.Name] = true
			seen := map[string]bool{}
			ast.Inspect(fd.Body, func(n ast.Node) bool {
				as, ok := n.(*ast.AssignStmt)
				if !ok || as.Tok != token.DEFINE || len(as.Lhs) != 1 {
					return true
				}
				id, ok := as.Lhs[0].(*ast.Ident)
				if !ok || !isIntLike(pkg.TypesInfo.TypeOf(id)) || seen[id.Name] {
					return true
				}
				seen[id.Name] = true
				form, pos, ok := fragmentForm(w, pkg.TypesInfo, fd.Body, id.Name)
				if ok && strings.Contains(form, "g{") {
					forms[fd.Name.Name][form] = pos
				}
				return true
			})
		}
	}
	key := r.MkKey("twinguarded", shortName(modPath+"/"+pkgRel)+"."+typ, m1+"/"+m2)
	if !found[m1] || !found[m2] {
		r.Fail("twinguarded", key, "-", "one of the two methods does not exist", nil)
		return
	}
	var problems []string
	var pos token.Pos
	for _, pair := range [][2]string{{m1, m2}, {m2, m1}} {
		for form, p := range forms[pair[0]] {
			if _, ok := forms[pair[1]][form]; !ok {
				problems = append(problems, fmt.Sprintf("%s computes %s, %s has no local with that formula", pair[0], form, pair[1]))
				if !pos.IsValid() {
					pos = p
				}
			} else if !pos.IsValid() {
				pos = p
			}
		}
	}
	sort.Strings(problems)
	if len(problems) == 0 {
		r.OK("twinguarded", key, w.Pos(pos), fmt.Sprintf("%d guarded formula(s) in each method, identical", len(forms[m1])))
	} else {
		r.Fail("twinguarded", key, w.Pos(pos), strings.Join(problems, "; ")+": the two methods lay out the same data and must count the same bytes", nil)
	}
}
