package main

// fontcarry (C01): every field of the font value that the reader fills is
// carried through the file by the writer.
//
// The writer (functions of the root package reachable from (*Font).Write)
// puts the font's state into *carriers*: fields of the per-table structures it
// builds (os2.Info, head.Info, hmtx.Info, post.Info, name.Table, maxp.Info,
// type1.FontInfo, cff.Font ...) and whole tables (entries of the map handed to
// header.Write).  The reader (sfnt.Read) fills the state from carriers.  For
// each state field X the rule computes
//
//	W(X) = carriers whose stored value depends on X in the writer
//	R(X) = carriers the value of X depends on in the reader, on a file that
//	       contains every table the writer always emits (branches that test a
//	       decoded table against nil are resolved, so the fall-backs for
//	       missing tables do not count)
//
// and requires W(X) ∩ R(X) != {}.  If the intersection is empty, the value of
// X after Read(Write(F)) cannot depend on F.X, so two fonts that differ only
// in X read back equal and one of them fails the round trip.  Dependence is
// data dependence plus control dependence on structured branches (early
// error exits excluded), over-approximated through calls by callee summaries,
// so the rule errs towards silence, never towards an alarm.

import (
	"fmt"
	"go/constant"
	"go/token"
	"go/types"
	"os"
	"sort"
	"strings"

	"golang.org/x/tools/go/ssa"
)

type carryItems map[string]bool

func (c carryItems) add(o carryItems) {
	for k := range o {
		c[k] = true
	}
}

func (c carryItems) list() []string {
	var l []string
	for k := range c {
		l = append(l, k)
	}
	sort.Strings(l)
	return l
}

type carry struct {
	w        *World
	rootPkg  *types.Package
	state    map[*types.Named]bool // Font and the structures Read builds that Write takes apart
	carrier  map[*types.Named]bool
	wscope   map[*ssa.Function]bool
	sumCache map[*ssa.Function]carryItems
	ctrl     map[*ssa.Function]*ctrlInfo

	// reader side
	rd      *ssa.Function
	present map[ssa.Value]bool
	liveBlk map[*ssa.BasicBlock]bool
	deadEdg map[[2]int]bool
	always  map[string]bool
}

type ctrlInfo struct {
	dep      map[*ssa.BasicBlock][]*ssa.BasicBlock // transitive control dependence on If blocks
	realPdom map[*ssa.BasicBlock]bool              // the block has a post-dominator other than itself and the exit
}

// ctrlDeps computes post-dominators and control dependence (Ferrante,
// Ottenstein, Warren) and, for every branching block, whether the two arms
// meet again before the function ends.
func ctrlDeps(fn *ssa.Function) *ctrlInfo {
	n := len(fn.Blocks)
	exit := n
	succ := make([][]int, n+1)
	for _, b := range fn.Blocks {
		if len(b.Succs) == 0 {
			succ[b.Index] = []int{exit}
		}
		for _, s := range b.Succs {
			succ[b.Index] = append(succ[b.Index], s.Index)
		}
	}
	pdom := make([][]bool, n+1)
	for i := 0; i <= n; i++ {
		pdom[i] = make([]bool, n+1)
		for k := range pdom[i] {
			pdom[i][k] = i != exit || k == exit
		}
	}
	for changed := true; changed; {
		changed = false
		for i := n - 1; i >= 0; i-- {
			nw := make([]bool, n+1)
			for k := range nw {
				nw[k] = true
			}
			for _, s := range succ[i] {
				for k := range nw {
					nw[k] = nw[k] && pdom[s][k]
				}
			}
			nw[i] = true
			for k := range nw {
				if nw[k] != pdom[i][k] {
					changed = true
				}
			}
			pdom[i] = nw
		}
	}
	cd := make([]map[int]bool, n)
	for i := range cd {
		cd[i] = map[int]bool{}
	}
	for d := 0; d < n; d++ {
		if len(succ[d]) < 2 {
			continue
		}
		for _, s := range succ[d] {
			for b := 0; b < n; b++ {
				if (b == s || (s != exit && pdom[s][b])) && !(b != d && pdom[d][b]) {
					cd[b][d] = true
				}
			}
		}
	}
	for changed := true; changed; {
		changed = false
		for b := 0; b < n; b++ {
			for d := range cd[b] {
				for d2 := range cd[d] {
					if !cd[b][d2] {
						cd[b][d2] = true
						changed = true
					}
				}
			}
		}
	}
	ci := &ctrlInfo{dep: map[*ssa.BasicBlock][]*ssa.BasicBlock{}, realPdom: map[*ssa.BasicBlock]bool{}}
	for b := 0; b < n; b++ {
		var ds []int
		for d := range cd[b] {
			ds = append(ds, d)
		}
		sort.Ints(ds)
		for _, d := range ds {
			ci.dep[fn.Blocks[b]] = append(ci.dep[fn.Blocks[b]], fn.Blocks[d])
		}
		for k := 0; k < n; k++ {
			if k != b && pdom[b][k] {
				ci.realPdom[fn.Blocks[b]] = true
			}
		}
	}
	return ci
}

func (c *carry) ctrlOf(fn *ssa.Function) *ctrlInfo {
	if ci, ok := c.ctrl[fn]; ok {
		return ci
	}
	ci := ctrlDeps(fn)
	c.ctrl[fn] = ci
	return ci
}

func namedStruct(t types.Type) *types.Named {
	if p, ok := t.Underlying().(*types.Pointer); ok {
		t = p.Elem()
	}
	nt, ok := t.(*types.Named)
	if !ok {
		return nil
	}
	if _, ok := nt.Underlying().(*types.Struct); !ok {
		return nil
	}
	return nt
}

func fieldItem(kind string, nt *types.Named, idx int) string {
	st := nt.Underlying().(*types.Struct)
	p := ""
	if nt.Obj().Pkg() != nil {
		p = shortName(nt.Obj().Pkg().Path()) + "."
	}
	return kind + ":" + p + nt.Obj().Name() + "." + st.Field(idx).Name()
}

// condsOf: the conditions a block's execution depends on — structured
// branches only; a branch whose arms never meet again (an early error exit)
// decides whether the function goes on at all and is no dependence of value.
func (c *carry) condsOf(b *ssa.BasicBlock) []ssa.Value {
	ci := c.ctrlOf(b.Parent())
	var res []ssa.Value
	for _, d := range ci.dep[b] {
		if !ci.realPdom[d] {
			continue
		}
		if ifi, ok := d.Instrs[len(d.Instrs)-1].(*ssa.If); ok {
			if b.Parent() == c.rd {
				if _, known := c.condKnown(ifi.Cond); known {
					continue
				}
			}
			res = append(res, ifi.Cond)
		}
	}
	return res
}

// summary: state fields the results of fn may depend on (backward slice of
// the returned values, control dependence included, callees by their own
// summaries).  Parameters are the caller's business: it slices the arguments.
func (c *carry) summary(fn *ssa.Function) carryItems {
	if s, ok := c.sumCache[fn]; ok {
		return s
	}
	res := carryItems{}
	c.sumCache[fn] = res // recursion: the partial result
	if fn.Blocks == nil {
		return res
	}
	sl := &carrySlicer{c: c, seen: map[ssa.Value]bool{}, seenSt: map[ssa.Instruction]bool{}, out: carryItems{}, inSummary: true}
	for _, b := range fn.Blocks {
		for _, in := range b.Instrs {
			if rt, ok := in.(*ssa.Return); ok {
				for _, v := range rt.Results {
					sl.val(v)
				}
				// which return is taken decides the result: every branch
				// counts here, early exits included
				for _, d := range c.ctrlOf(fn).dep[b] {
					if ifi, ok := d.Instrs[len(d.Instrs)-1].(*ssa.If); ok {
						sl.val(ifi.Cond)
					}
				}
			}
		}
	}
	for k := range sl.out {
		if strings.HasPrefix(k, "S:") || strings.HasPrefix(k, "C:") {
			res[k] = true
		}
	}
	if os.Getenv("SFNT_DEBUG_CARRY") != "" && len(res) > 0 {
		fmt.Printf("SUMMARY %s: %v\n", fnName(fn), res.list())
	}
	return res
}

type carrySlicer struct {
	c      *carry
	read   bool
	seen   map[ssa.Value]bool
	seenSt map[ssa.Instruction]bool
	out    carryItems

	inSummary bool
}

func (c *carry) slice(read bool, vs ...ssa.Value) carryItems {
	s := &carrySlicer{c: c, read: read, seen: map[ssa.Value]bool{}, seenSt: map[ssa.Instruction]bool{}, out: carryItems{}}
	for _, v := range vs {
		s.val(v)
	}
	return s.out
}

// storesThrough: values stored through addr-rooted addresses in fn (the
// contents of a local object, flow-insensitively).
func rootAlloc(v ssa.Value) ssa.Value {
	for {
		switch x := v.(type) {
		case *ssa.FieldAddr:
			v = x.X
		case *ssa.IndexAddr:
			v = x.X
		case *ssa.Slice:
			v = x.X
		default:
			return v
		}
	}
}

func (s *carrySlicer) contents(root ssa.Value) {
	fn := root.Parent()
	if fn == nil {
		return
	}
	for _, b := range fn.Blocks {
		for _, in := range b.Instrs {
			switch x := in.(type) {
			case *ssa.Store:
				if rootAlloc(x.Addr) == root {
					s.val(x.Val)
					if ia, ok := x.Addr.(*ssa.IndexAddr); ok {
						s.val(ia.Index)
					}
					s.conds(b)
				}
			case *ssa.MapUpdate:
				if x.Map == root {
					s.val(x.Key)
					s.val(x.Value)
					s.conds(b)
				}
			}
		}
	}
}

func (s *carrySlicer) conds(b *ssa.BasicBlock) {
	for _, cv := range s.c.condsOf(b) {
		s.val(cv)
	}
}

func (s *carrySlicer) stateLoad(nt *types.Named, field int, base ssa.Value, at ssa.Instruction) {
	item := fieldItem("S", nt, field)
	if !s.read || s.inSummary {
		s.out[item] = true
		return
	}
	// reader: the value of a state field at this point is what the reaching
	// stores put there
	if at != nil && at.Parent() == s.c.rd {
		if root, ok := rootAlloc(base).(*ssa.Alloc); ok && root.Parent() == s.c.rd {
			for _, st := range s.c.reachingStores(root, nt, field, at) {
				if s.seenSt[st] {
					continue
				}
				s.seenSt[st] = true
				s.val(st.Val)
				s.conds(st.Block())
			}
			return
		}
	}
	s.out[item] = true
}

func (s *carrySlicer) val(v ssa.Value) {
	if v == nil || s.seen[v] {
		return
	}
	s.seen[v] = true
	c := s.c
	switch x := v.(type) {
	case *ssa.Const:
		if s.read && x.Value != nil && x.Value.Kind() == constant.String {
			if str := constant.StringVal(x.Value); len(str) == 4 {
				s.out["T:"+str] = true
			}
		}
	case *ssa.Parameter:
		fn := x.Parent()
		idx := -1
		for i, p := range fn.Params {
			if p == x {
				idx = i
			}
		}
		if idx < 0 || s.read || s.inSummary {
			return
		}
		for g := range c.wscope {
			for _, b := range g.Blocks {
				for _, in := range b.Instrs {
					ci, ok := in.(ssa.CallInstruction)
					if !ok || ci.Common().StaticCallee() != fn {
						continue
					}
					args := ci.Common().Args
					if idx < len(args) {
						s.val(args[idx])
					}
				}
			}
		}
	case *ssa.FreeVar:
		fn := x.Parent()
		for i, fv := range fn.FreeVars {
			if fv != x || fn.Parent() == nil {
				continue
			}
			for _, b := range fn.Parent().Blocks {
				for _, in := range b.Instrs {
					if mc, ok := in.(*ssa.MakeClosure); ok && mc.Fn == fn && i < len(mc.Bindings) {
						s.val(mc.Bindings[i])
					}
				}
			}
		}
	case *ssa.Alloc:
		if nt := namedStruct(x.Type()); nt != nil && c.state[nt] {
			// a state object handed on as a whole: its fields are obligations
			// of their own, and callees that read them are summarised
			return
		}
		if nt := namedStruct(x.Type()); nt != nil && c.carrier[nt] && !s.read {
			// a per-table structure handed on as a whole: each of its
			// fields is a carrier of its own
			return
		}
		s.contents(x)
	case *ssa.MakeMap:
		s.contents(x)
	case *ssa.MakeSlice:
		s.val(x.Len)
		s.contents(x)
	case *ssa.UnOp:
		if x.Op == token.MUL {
			if fa, ok := x.X.(*ssa.FieldAddr); ok {
				if nt := namedStruct(fa.X.Type()); nt != nil {
					if c.state[nt] {
						s.stateLoad(nt, fa.Field, fa.X, x)
						if _, isParam := fa.X.(*ssa.Parameter); !isParam && !s.read {
							s.val(fa.X)
						}
						return
					}
					if c.carrier[nt] && (s.read || s.inSummary) {
						// a value taken from a decoded table: this is the carrier
						s.out[fieldItem("C", nt, fa.Field)] = true
						return
					}
				}
			}
		}
		s.val(x.X)
	case *ssa.FieldAddr:
		s.val(x.X)
	case *ssa.Field:
		if nt := namedStruct(x.X.Type()); nt != nil {
			if c.state[nt] {
				s.stateLoad(nt, x.Field, x.X, nil)
			} else if c.carrier[nt] && (s.read || s.inSummary) {
				s.out[fieldItem("C", nt, x.Field)] = true
				return
			}
		}
		s.val(x.X)
	case *ssa.IndexAddr:
		s.val(x.X)
		s.val(x.Index)
	case *ssa.Index:
		s.val(x.X)
		s.val(x.Index)
	case *ssa.Lookup:
		s.val(x.X)
		s.val(x.Index)
	case *ssa.Slice:
		s.val(x.X)
		s.val(x.Low)
		s.val(x.High)
	case *ssa.Phi:
		for i, e := range x.Edges {
			if s.read && x.Parent() == c.rd {
				p := x.Block().Preds[i]
				if !c.liveBlk[p] || c.deadEdg[[2]int{p.Index, x.Block().Index}] {
					continue
				}
			}
			s.val(e)
		}
		// which edge is taken is decided by the branches between the
		// dominator and the join
		for _, p := range x.Block().Preds {
			s.conds(p)
		}
	case *ssa.BinOp:
		s.val(x.X)
		s.val(x.Y)
	case *ssa.Convert:
		s.val(x.X)
	case *ssa.ChangeType:
		s.val(x.X)
	case *ssa.ChangeInterface:
		s.val(x.X)
	case *ssa.MakeInterface:
		s.val(x.X)
	case *ssa.SliceToArrayPointer:
		s.val(x.X)
	case *ssa.TypeAssert:
		s.val(x.X)
	case *ssa.Extract:
		s.val(x.Tuple)
	case *ssa.Next:
		s.val(x.Iter)
	case *ssa.Range:
		s.val(x.X)
	case *ssa.MakeClosure:
		for _, b := range x.Bindings {
			s.val(b)
		}
		if g, ok := x.Fn.(*ssa.Function); ok {
			s.callee(g, x)
		}
	case *ssa.Call:
		cc := x.Common()
		for _, a := range cc.Args {
			s.val(a)
		}
		s.val(cc.Value)
		for _, g := range c.w.Callees(x) {
			s.callee(g, x)
		}
	case *ssa.Global, *ssa.Function, *ssa.Builtin:
	}
}

func (s *carrySlicer) callee(g *ssa.Function, at ssa.Instruction) {
	p := fnPkgPath(g)
	if !isModPkg(p) && !isDepPkg(p) {
		return
	}
	for item := range s.c.summary(g) {
		if strings.HasPrefix(item, "C:") {
			// the callee takes a value out of a decoded table
			if s.read || s.inSummary {
				s.out[item] = true
			}
			continue
		}
		if !s.read {
			s.out[item] = true
			continue
		}
		// reader: a callee that reads state reads what has been stored so far
		done := false
		if at.Parent() == s.c.rd {
			for _, root := range s.c.stateAllocs() {
				nt := namedStruct(root.Type())
				st := nt.Underlying().(*types.Struct)
				for i := 0; i < st.NumFields(); i++ {
					if fieldItem("S", nt, i) != item {
						continue
					}
					done = true
					for _, stI := range s.c.reachingStores(root, nt, i, at) {
						if s.seenSt[stI] {
							continue
						}
						s.seenSt[stI] = true
						s.val(stI.Val)
						s.conds(stI.Block())
					}
				}
			}
		}
		if !done {
			s.out[item] = true
		}
	}
}

func (c *carry) stateAllocs() []*ssa.Alloc {
	var res []*ssa.Alloc
	for _, b := range c.rd.Blocks {
		for _, in := range b.Instrs {
			if a, ok := in.(*ssa.Alloc); ok {
				if nt := namedStruct(a.Type()); nt != nil && c.state[nt] {
					res = append(res, a)
				}
			}
		}
	}
	return res
}

// ---- reader: presence of tables, pruned control flow, reaching stores ----

// condKnown: a comparison of a decoded table (or its raw bytes) with nil on
// a file that contains the table.
func (c *carry) condKnown(v ssa.Value) (bool, bool) {
	b, ok := v.(*ssa.BinOp)
	if !ok || (b.Op != token.EQL && b.Op != token.NEQ) {
		return false, false
	}
	var other ssa.Value
	switch {
	case isNilConst(b.X):
		other = b.Y
	case isNilConst(b.Y):
		other = b.X
	default:
		return false, false
	}
	if !c.present[other] {
		return false, false
	}
	return b.Op == token.NEQ, true
}

func (c *carry) computePresence() {
	fn := c.rd
	c.present = map[ssa.Value]bool{}
	for iter := 0; iter < 50; iter++ {
		// liveness under the current knowledge
		c.liveBlk = map[*ssa.BasicBlock]bool{}
		c.deadEdg = map[[2]int]bool{}
		var walk func(b *ssa.BasicBlock)
		walk = func(b *ssa.BasicBlock) {
			if c.liveBlk[b] {
				return
			}
			c.liveBlk[b] = true
			if ifi, ok := b.Instrs[len(b.Instrs)-1].(*ssa.If); ok {
				if val, known := c.condKnown(ifi.Cond); known {
					dead := b.Succs[0]
					alive := b.Succs[1]
					if val {
						dead, alive = alive, dead
					}
					c.deadEdg[[2]int{b.Index, dead.Index}] = true
					walk(alive)
					return
				}
			}
			for _, s := range b.Succs {
				walk(s)
			}
		}
		walk(fn.Blocks[0])
		changed := false
		mark := func(v ssa.Value) {
			if !c.present[v] {
				c.present[v] = true
				changed = true
			}
		}
		for _, b := range fn.Blocks {
			if !c.liveBlk[b] {
				continue
			}
			for _, in := range b.Instrs {
				v, ok := in.(ssa.Value)
				if !ok || c.present[v] {
					continue
				}
				switch x := in.(type) {
				case *ssa.Call:
					g := x.Common().StaticCallee()
					if g == nil || !isModPkg(fnPkgPath(g)) {
						continue
					}
					for _, a := range x.Common().Args {
						if k, ok := a.(*ssa.Const); ok && k.Value != nil && k.Value.Kind() == constant.String && c.always[constant.StringVal(k.Value)] {
							mark(v)
						}
						if c.present[a] {
							mark(v)
						}
					}
				case *ssa.Extract:
					if c.present[x.Tuple] && x.Index == 0 {
						mark(v)
					}
				case *ssa.Phi:
					all, any := true, false
					for i, e := range x.Edges {
						p := b.Preds[i]
						if !c.liveBlk[p] || c.deadEdg[[2]int{p.Index, b.Index}] {
							continue
						}
						any = true
						if !c.present[e] {
							all = false
						}
					}
					if all && any {
						mark(v)
					}
				case *ssa.MakeInterface:
					if c.present[x.X] {
						mark(v)
					}
				case *ssa.ChangeInterface:
					if c.present[x.X] {
						mark(v)
					}
				case *ssa.ChangeType:
					if c.present[x.X] {
						mark(v)
					}
				}
			}
		}
		if !changed {
			return
		}
	}
}

func (c *carry) liveEdge(p, b *ssa.BasicBlock) bool {
	return c.liveBlk[p] && !c.deadEdg[[2]int{p.Index, b.Index}]
}

func storeTarget(st *ssa.Store) (root ssa.Value, nt *types.Named, field int, ok bool) {
	fa, isFA := st.Addr.(*ssa.FieldAddr)
	if !isFA {
		return nil, nil, 0, false
	}
	nt = namedStruct(fa.X.Type())
	if nt == nil {
		return nil, nil, 0, false
	}
	return fa.X, nt, fa.Field, true
}

// reachingStores: the stores to root.field that may be the last one before
// `at`, along live edges.
func (c *carry) reachingStores(root *ssa.Alloc, nt *types.Named, field int, at ssa.Instruction) []*ssa.Store {
	var res []*ssa.Store
	seen := map[*ssa.BasicBlock]bool{}
	var scan func(b *ssa.BasicBlock, from int)
	scan = func(b *ssa.BasicBlock, from int) {
		for i := from; i >= 0; i-- {
			if st, ok := b.Instrs[i].(*ssa.Store); ok {
				if r, n2, f2, ok := storeTarget(st); ok && r == ssa.Value(root) && n2 == nt && f2 == field {
					res = append(res, st)
					return
				}
			}
		}
		for _, p := range b.Preds {
			if !c.liveEdge(p, b) || seen[p] {
				continue
			}
			seen[p] = true
			scan(p, len(p.Instrs)-1)
		}
	}
	b := at.Block()
	idx := len(b.Instrs) - 1
	for i, in := range b.Instrs {
		if in == at {
			idx = i - 1
		}
	}
	scan(b, idx)
	return res
}

// finalStores: the stores to root.field that can still be the last one when
// the reader returns a font.
func (c *carry) finalStores(root *ssa.Alloc, nt *types.Named, field int) []*ssa.Store {
	var res []*ssa.Store
	for _, b := range c.rd.Blocks {
		if !c.liveBlk[b] {
			continue
		}
		for _, in := range b.Instrs {
			rt, ok := in.(*ssa.Return)
			if !ok || len(rt.Results) == 0 || isNilConst(rt.Results[0]) {
				continue
			}
			for _, st := range c.reachingStores(root, nt, field, rt) {
				dup := false
				for _, o := range res {
					if o == st {
						dup = true
					}
				}
				if !dup {
					res = append(res, st)
				}
			}
		}
	}
	return res
}

// RunFontCarry is the rule.
func RunFontCarry(w *World, r *Report) {
	r.Rule("fontcarry: for every field X of the font value that sfnt.Read fills (fields of sfnt.Font and of the structures Read builds and Write takes apart, e.g. glyf.Outlines) the carriers whose stored value depends on X in (*Font).Write's root-package functions (fields of the per-table structures it fills, entries of the table map) and the carriers X's final value depends on in Read — on a file that holds every table Write always emits, i.e. with the nil tests of decoded tables resolved and the fall-back branches for missing tables pruned — have a common element; dependence = data dependence + control dependence on structured branches, over-approximated through calls by callee summaries")
	wr := w.Func("(*sfnt.Font).Write")
	rd := w.Func("sfnt.Read")
	if wr == nil || rd == nil {
		r.Fatal("fontcarry: (*sfnt.Font).Write or sfnt.Read does not resolve")
		return
	}
	c := &carry{w: w, state: map[*types.Named]bool{}, carrier: map[*types.Named]bool{}, wscope: map[*ssa.Function]bool{},
		sumCache: map[*ssa.Function]carryItems{}, ctrl: map[*ssa.Function]*ctrlInfo{}, rd: rd, always: map[string]bool{}}
	c.rootPkg = wr.Pkg.Pkg
	fontT := namedStruct(wr.Params[0].Type())
	if fontT == nil {
		r.Fatal("fontcarry: receiver of Write is not a named struct")
		return
	}
	// writer scope: root-package functions reachable from Write
	for fn := range w.Reachable([]*ssa.Function{wr}) {
		if fn.Pkg != nil && fn.Pkg.Pkg == c.rootPkg && fn.Blocks != nil {
			c.wscope[fn] = true
		} else if fn.Parent() != nil && fn.Parent().Pkg != nil && fn.Parent().Pkg.Pkg == c.rootPkg && fn.Blocks != nil {
			c.wscope[fn] = true
		}
	}
	// state types: Font, and structures allocated in Read whose fields the writer loads
	c.state[fontT] = true
	loadedInW := map[*types.Named]bool{}
	storedInW := map[*types.Named]bool{}
	for fn := range c.wscope {
		for _, b := range fn.Blocks {
			for _, in := range b.Instrs {
				switch x := in.(type) {
				case *ssa.UnOp:
					if fa, ok := x.X.(*ssa.FieldAddr); ok && x.Op == token.MUL {
						if nt := namedStruct(fa.X.Type()); nt != nil {
							loadedInW[nt] = true
						}
					}
				case *ssa.Store:
					if _, nt, _, ok := storeTarget(x); ok {
						storedInW[nt] = true
					}
				}
			}
		}
	}
	for _, b := range rd.Blocks {
		for _, in := range b.Instrs {
			if a, ok := in.(*ssa.Alloc); ok {
				if nt := namedStruct(a.Type()); nt != nil && loadedInW[nt] && !storedInW[nt] {
					c.state[nt] = true
				}
			}
		}
	}
	for nt := range storedInW {
		if !c.state[nt] {
			c.carrier[nt] = true
		}
	}
	// tables the writer always emits: constant-key updates of the table map
	// that dominate the call the map is handed to
	type wsite struct {
		items []string
		val   ssa.Value
		key   ssa.Value
		blk   *ssa.BasicBlock
		pos   token.Pos
	}
	var sinks []wsite
	for fn := range c.wscope {
		for _, b := range fn.Blocks {
			for _, in := range b.Instrs {
				switch x := in.(type) {
				case *ssa.MapUpdate:
					mt, ok := x.Map.Type().Underlying().(*types.Map)
					if !ok || !types.Identical(mt.Key(), types.Typ[types.String]) {
						continue
					}
					if sl, ok := mt.Elem().Underlying().(*types.Slice); !ok || !types.Identical(sl.Elem(), types.Typ[types.Byte]) {
						continue
					}
					var items []string
					if k, ok := x.Key.(*ssa.Const); ok && k.Value != nil && k.Value.Kind() == constant.String {
						tag := constant.StringVal(k.Value)
						items = []string{"T:" + tag}
						if fn == wr {
							for _, b2 := range fn.Blocks {
								for _, in2 := range b2.Instrs {
									if call, ok := in2.(*ssa.Call); ok {
										for _, a := range call.Common().Args {
											if a == x.Map && b.Dominates(b2) {
												c.always[tag] = true
											}
										}
									}
								}
							}
						}
					} else {
						items = []string{"T:*"}
					}
					sinks = append(sinks, wsite{items: items, val: x.Value, key: x.Key, blk: b, pos: x.Pos()})
				case *ssa.Store:
					if _, nt, f, ok := storeTarget(x); ok && c.carrier[nt] {
						sinks = append(sinks, wsite{items: []string{fieldItem("C", nt, f)}, val: x.Val, blk: b, pos: x.Pos()})
					}
				}
			}
		}
	}
	deps := map[string]carryItems{} // carrier -> state fields
	for _, sk := range sinks {
		sl := c.slice(false, sk.val)
		if sk.key != nil {
			sl.add(c.slice(false, sk.key))
		}
		for _, cv := range c.condsOf(sk.blk) {
			sl.add(c.slice(false, cv))
		}
		for _, it := range sk.items {
			if deps[it] == nil {
				deps[it] = carryItems{}
			}
			for k := range sl {
				if strings.HasPrefix(k, "S:") {
					deps[it][k] = true
				}
			}
		}
	}
	W := map[string]carryItems{} // state field -> carriers
	for cr, fs := range deps {
		for f := range fs {
			if W[f] == nil {
				W[f] = carryItems{}
			}
			W[f][cr] = true
		}
	}
	// reader
	c.computePresence()
	var alw []string
	for k := range c.always {
		alw = append(alw, k)
	}
	sort.Strings(alw)
	r.Note("fontcarry: tables the writer always emits: %s", strings.Join(alw, " "))
	var stNames, crNames []string
	for nt := range c.state {
		stNames = append(stNames, nt.Obj().Name())
	}
	for nt := range c.carrier {
		crNames = append(crNames, nt.Obj().Pkg().Name()+"."+nt.Obj().Name())
	}
	sort.Strings(stNames)
	sort.Strings(crNames)
	r.Note("fontcarry: state types %s; carrier types %s", strings.Join(stNames, ","), strings.Join(crNames, ","))
	n := 0
	for _, root := range c.stateAllocs() {
		nt := namedStruct(root.Type())
		st := nt.Underlying().(*types.Struct)
		for i := 0; i < st.NumFields(); i++ {
			item := fieldItem("S", nt, i)
			key := r.MkKey("fontcarry", strings.TrimPrefix(item[:strings.LastIndex(item, ".")], "S:"), "field "+st.Field(i).Name())
			fin := c.finalStores(root, nt, i)
			R := carryItems{}
			for _, fs := range fin {
				R.add(c.slice(true, fs.Val))
				for _, cv := range c.condsOf(fs.Block()) {
					R.add(c.slice(true, cv))
				}
			}
			for k := range R {
				if strings.HasPrefix(k, "S:") {
					delete(R, k)
				}
			}
			Wx := W[item]
			n++
			common := ""
			for k := range R {
				if Wx[k] || (strings.HasPrefix(k, "T:") && Wx["T:*"]) {
					if common == "" || k < common {
						common = k
					}
				}
			}
			pos := w.Pos(st.Field(i).Pos())
			if os.Getenv("SFNT_DEBUG_CARRY") != "" {
				fmt.Printf("CARRY %s finals=%d W=%v R=%v\n", item, len(fin), stripKinds(Wx.list()), stripKinds(R.list()))
			}
			switch {
			case common != "":
				r.OK("fontcarry", key, pos, "carried by "+common[2:])
			case len(fin) == 0 && len(Wx) == 0:
				r.FailC("fontcarry", key, []string{"unpersisted"}, pos, fmt.Sprintf("%s is neither written to the file by Write nor set by Read: the value does not survive a write/read cycle", item[2:]), nil)
			case len(fin) == 0 || len(R) == 0:
				r.FailC("fontcarry", key, []string{"written-not-read"}, pos, fmt.Sprintf("Write stores %s in %s, but on a file written by Write the reader sets it from nothing the writer stored (%d final stores)", item[2:], strings.Join(stripKinds(Wx.list()), ", "), len(fin)), nil)
			case len(Wx) == 0:
				r.FailC("fontcarry", key, []string{"read-not-written"}, pos, fmt.Sprintf("Read takes %s from %s, but nothing Write stores depends on it", item[2:], strings.Join(stripKinds(R.list()), ", ")), nil)
			default:
				r.FailC("fontcarry", key, []string{"disjoint"}, pos, fmt.Sprintf("Write carries %s in {%s} but Read, on a file with all tables Write emits, takes it from {%s}: the value read back does not depend on the value written", item[2:], strings.Join(stripKinds(Wx.list()), ", "), strings.Join(stripKinds(R.list()), ", ")), nil)
			}
		}
	}
	r.Scope["fontcarry_state_fields"] = n
	r.Scope["fontcarry_writer_sinks"] = len(sinks)
}

func stripKinds(l []string) []string {
	var res []string
	for _, s := range l {
		if len(s) > 2 && s[1] == ':' {
			s = s[2:]
		}
		res = append(res, s)
	}
	return res
}

// RunEmptyTableGate: (*header.Info).Has answers "present and not empty". The
// glyf table the library writes is empty when every glyph is blank, so the
// reader must not make "glyf is not empty" a condition for accepting a
// TrueType font, or it refuses a file the library itself wrote.
func RunEmptyTableGate(w *World, r *Report) {
	r.Rule("emptygate: sfnt.Read does not pass the table name \"glyf\" to (*header.Info).Has, whose answer is false for a table of length 0 (checked: Has compares the record's Length with 0): a font whose glyphs are all blank is written with an empty glyf table and has to be read back")
	has := w.Func("(*header.Info).Has")
	rd := w.Func("sfnt.Read")
	if has == nil || rd == nil {
		r.Fatal("(*header.Info).Has / sfnt.Read do not resolve")
		return
	}
	// does Has treat length 0 as absent?
	strict := false
	for _, b := range has.Blocks {
		for _, in := range b.Instrs {
			if bo, ok := in.(*ssa.BinOp); ok && (bo.Op == token.EQL || bo.Op == token.NEQ) {
				if c, ok := bo.Y.(*ssa.Const); ok && c.Value != nil && c.Value.Kind() == constant.Int && c.Int64() == 0 {
					if fieldName(loadAddr(bo.X)) == "Length" {
						strict = true
					}
					if f, ok := bo.X.(*ssa.Field); ok && fieldNameOfField(f) == "Length" {
						strict = true
					}
				}
			}
		}
	}
	key := r.MkKey("emptygate", "sfnt.Read", "presence test for glyf")
	if !strict {
		r.OK("emptygate", key, w.Pos(has.Pos()), "Has does not look at the length of a table")
		return
	}
	bad := ""
	for _, b := range rd.Blocks {
		for _, in := range b.Instrs {
			call, ok := in.(*ssa.Call)
			if !ok || call.Common().StaticCallee() != has {
				continue
			}
			// the variadic argument: a slice of a fresh array with constant stores
			for _, a := range call.Common().Args[1:] {
				sl, ok := a.(*ssa.Slice)
				if !ok {
					continue
				}
				al, ok := sl.X.(*ssa.Alloc)
				if !ok || al.Referrers() == nil {
					continue
				}
				for _, ref := range *al.Referrers() {
					ia, ok := ref.(*ssa.IndexAddr)
					if !ok || ia.Referrers() == nil {
						continue
					}
					for _, r2 := range *ia.Referrers() {
						if st, ok := r2.(*ssa.Store); ok {
							if c, ok := st.Val.(*ssa.Const); ok && c.Value != nil && c.Value.Kind() == constant.String && constant.StringVal(c.Value) == "glyf" {
								bad = w.Pos(call.Pos())
							}
						}
					}
				}
			}
		}
	}
	if bad != "" {
		r.Fail("emptygate", key, bad, "sfnt.Read asks (*header.Info).Has for \"glyf\", which is false for an empty table: a TrueType font whose glyphs are all blank is written with a glyf table of length 0 and then rejected (\"no TrueType/OpenType glyph data found\") by the reader", nil)
	} else {
		r.OK("emptygate", key, w.Pos(rd.Pos()), "the glyf table may be empty")
	}
}

// RunTimeCarry: the creation and modification time of a font are written as
// they are. Font.makeHead stores f.CreationTime and f.ModificationTime into
// the head table without looking at them; a "repair" of implausible values
// (modified before created) changes what is read back.
func RunTimeCarry(w *World, r *Report) {
	r.Rule("timecarry: in (*sfnt.Font).makeHead the values stored into the fields Created and Modified of head.Info are plain loads of the receiver's CreationTime and ModificationTime (no selection, no call): timestamps come back as they were given")
	fn := w.Func("(*sfnt.Font).makeHead")
	if fn == nil {
		r.Fatal("(*sfnt.Font).makeHead does not resolve")
		return
	}
	want := map[string]string{"Created": "CreationTime", "Modified": "ModificationTime"}
	seen := map[string]bool{}
	for _, b := range fn.Blocks {
		for _, in := range b.Instrs {
			st, ok := in.(*ssa.Store)
			if !ok {
				continue
			}
			f := fieldName(st.Addr)
			src, isT := want[f]
			if !isT {
				continue
			}
			seen[f] = true
			key := r.MkKey("timecarry", fnName(fn), "field "+f)
			ld, ok := st.Val.(*ssa.UnOp)
			if ok && ld.Op == token.MUL && fieldName(ld.X) == src {
				if fa, ok := ld.X.(*ssa.FieldAddr); ok && fa.X == ssa.Value(fn.Params[0]) {
					r.OK("timecarry", key, w.Pos(st.Pos()), "stored as given")
					continue
				}
			}
			r.Fail("timecarry", key, w.Pos(st.Pos()), "head."+f+" is not a plain copy of the font's "+src+": the writer adjusts the timestamp, so a font (or a file) with the original value does not come back unchanged", nil)
		}
	}
	for f := range want {
		if !seen[f] {
			r.Fail("timecarry", r.MkKey("timecarry", fnName(fn), "field "+f), w.Pos(fn.Pos()), "no store into head.Info."+f+" found in makeHead", nil)
		}
	}
}
