package main

// E6 base: interprocedural write-effect analysis over go/ssa.
//
// For every analysed function it computes a summary
//   - which memory the function may write, expressed relative to its
//     parameters / captured variables / package variables:
//       (Param i, f)      the object parameter i refers to directly (field or
//                         constant map key f, -1 = unknown part)
//       ParamVia(i, via)  anything reached from parameter i through >= 1 load,
//                         the first load through selector via (-1 = any)
//   - what each result may alias, and what fresh objects that escape through a
//     result or through a store into parameter memory may contain.
// Memory allocated inside a function ("fresh") is tracked flow-sensitively and
// field-sensitively (struct fields and constant map keys) with strong updates
// for singleton allocations, so that
//     res := *old; res.X = make(...); res.X[i] = v
//     m["head"] = fresh(); patch(m["head"])
// are recognised as writes to fresh memory only.

import (
	"fmt"
	"go/constant"
	"go/token"
	"go/types"
	"sort"
	"strings"

	"golang.org/x/tools/go/ssa"
)

type rootKind uint8

const (
	rkUnknown rootKind = iota
	rkFreshRet         // marker in summaries: a fresh object created by the callee
	rkParam            // shallow: the object the i-th parameter refers to
	rkParamVia         // memory reached from parameter i by >= 1 load, the first through selector via
	rkGlobal
	rkFresh // allocation site in the current function
)

type rootInfo struct {
	kind rootKind
	idx  int
	via  int // rkParamVia only: struct field index, constKeyBase+k for a constant map key, -1 = any
	g    *ssa.Global
	site ssa.Instruction
}

const constKeyBase = 1000

type rootID int32

const (
	rootUnknown  rootID = 0
	rootFreshRet rootID = 1
)

type loc uint64 // rootID<<16 | (field+1)

func mkLoc(r rootID, field int) loc { return loc(uint64(r)<<16 | uint64(field+1)) }
func (l loc) root() rootID         { return rootID(l >> 16) }
func (l loc) field() int           { return int(l&0xFFFF) - 1 }

type locSet []loc

func union(a, b locSet) locSet {
	if len(b) == 0 {
		return a
	}
	if len(a) == 0 {
		return b
	}
	res := make(locSet, 0, len(a)+len(b))
	i, j := 0, 0
	for i < len(a) && j < len(b) {
		switch {
		case a[i] < b[j]:
			res = append(res, a[i])
			i++
		case a[i] > b[j]:
			res = append(res, b[j])
			j++
		default:
			res = append(res, a[i])
			i++
			j++
		}
	}
	res = append(res, a[i:]...)
	res = append(res, b[j:]...)
	return res
}

func single(l loc) locSet { return locSet{l} }

func eqSet(a, b locSet) bool {
	if len(a) != len(b) {
		return false
	}
	for i := range a {
		if a[i] != b[i] {
			return false
		}
	}
	return true
}

func normalize(s locSet) locSet {
	sort.Slice(s, func(i, j int) bool { return s[i] < s[j] })
	out := s[:0]
	for i, l := range s {
		if i == 0 || l != s[i-1] {
			out = append(out, l)
		}
	}
	return out
}

// witness explains one write effect.
type witness struct {
	pos    token.Pos
	what   string
	callee *ssa.Function // non-nil: effect comes from a call
	cloc   loc           // location in the callee's summary
	fn     *ssa.Function
	ins    ssa.Instruction // the writing instruction (direct writes) or call
}

// exported describes a set of values leaving a function: the non-fresh roots,
// whether fresh objects are among them, and what those fresh objects contain.
type exported struct {
	roots locSet // Param, ParamVia, Global, Unknown, FreshRet marker
	cont  locSet // contents of the fresh objects (same vocabulary)
}

func (x *exported) merge(y exported) bool {
	r, c := union(x.roots, y.roots), union(x.cont, y.cont)
	ch := !eqSet(r, x.roots) || !eqSet(c, x.cont)
	x.roots, x.cont = r, c
	return ch
}

type summary struct {
	writes     map[loc]*witness
	ret        []exported
	storesInto map[loc]*exported // written location -> what may be stored there
}

func newSummary(nres int) *summary {
	return &summary{writes: map[loc]*witness{}, ret: make([]exported, nres), storesInto: map[loc]*exported{}}
}

// extSummary describes the effect of a function that is not analysed.
type extSummary struct {
	writes []int    // argument indices (receiver = 0 for methods) whose memory is written
	ret    string   // "fresh" (default), "argN", "args", "fresh+args"
	stores [][2]int // {dst arg, src arg}: src may be stored into dst's memory
}

type Effects struct {
	w       *World
	roots   []rootInfo
	rootIdx map[rootInfo]rootID
	sums    map[*ssa.Function]*summary
	fns     []*ssa.Function
	scope   map[*ssa.Function]bool
	ext     map[string]extSummary
	keys    map[string]int // constant map keys -> id
	keyStr  []string

	unknownExt map[string]token.Pos
	plCache    map[types.Type]bool
	callers    map[*ssa.Function][]*ssa.Function
}

func (e *Effects) root(ri rootInfo) rootID {
	if ri.kind != rkParamVia {
		ri.via = 0
	}
	if id, ok := e.rootIdx[ri]; ok {
		return id
	}
	id := rootID(len(e.roots))
	e.roots = append(e.roots, ri)
	e.rootIdx[ri] = id
	return id
}

func (e *Effects) keyID(s string) int {
	if id, ok := e.keys[s]; ok {
		return id
	}
	id := constKeyBase + len(e.keyStr)
	e.keys[s] = id
	e.keyStr = append(e.keyStr, s)
	return id
}

func (e *Effects) paramName(fn *ssa.Function, idx int) string {
	if fn != nil {
		if idx < len(fn.Params) {
			return fn.Params[idx].Name()
		} else if idx-len(fn.Params) < len(fn.FreeVars) {
			return "captured " + fn.FreeVars[idx-len(fn.Params)].Name()
		}
	}
	return fmt.Sprintf("#%d", idx)
}

// selName renders a selector (field index / constant key) of parameter idx.
func (e *Effects) selName(fn *ssa.Function, idx, sel int) string {
	if sel < 0 {
		return ""
	}
	if sel >= constKeyBase {
		return fmt.Sprintf("[%q]", e.keyStr[sel-constKeyBase])
	}
	if fn != nil {
		var t types.Type
		if idx < len(fn.Params) {
			t = fn.Params[idx].Type()
		} else if idx-len(fn.Params) < len(fn.FreeVars) {
			t = fn.FreeVars[idx-len(fn.Params)].Type()
		}
		if t != nil {
			if p, ok := t.Underlying().(*types.Pointer); ok {
				t = p.Elem()
			}
			if st, ok := t.Underlying().(*types.Struct); ok && sel < st.NumFields() {
				return "." + st.Field(sel).Name()
			}
		}
	}
	return fmt.Sprintf(".#%d", sel)
}

func (e *Effects) locStr(fn *ssa.Function, l loc) string {
	ri := e.roots[l.root()]
	switch ri.kind {
	case rkUnknown:
		return "unknown memory"
	case rkFreshRet:
		return "fresh"
	case rkParam:
		return "*" + e.paramName(fn, ri.idx) + e.selName(fn, ri.idx, l.field())
	case rkParamVia:
		return "memory reachable from " + e.paramName(fn, ri.idx) + e.selName(fn, ri.idx, ri.via)
	case rkGlobal:
		return "package variable " + shortName(ri.g.String())
	case rkFresh:
		return "fresh@" + e.w.Pos(ri.site.Pos())
	}
	return "?"
}

// pointerLike reports whether values of type t can refer to mutable memory.
func (e *Effects) pointerLike(t types.Type) bool {
	if t == nil {
		return false
	}
	if v, ok := e.plCache[t]; ok {
		return v
	}
	e.plCache[t] = false // cycle guard
	res := false
	switch u := t.Underlying().(type) {
	case *types.Basic:
		res = u.Kind() == types.UnsafePointer
	case *types.Pointer, *types.Slice, *types.Map, *types.Chan, *types.Signature, *types.Interface:
		res = true
	case *types.Struct:
		for i := 0; i < u.NumFields(); i++ {
			if e.pointerLike(u.Field(i).Type()) {
				res = true
				break
			}
		}
	case *types.Array:
		res = e.pointerLike(u.Elem())
	case *types.Tuple:
		for i := 0; i < u.Len(); i++ {
			if e.pointerLike(u.At(i).Type()) {
				res = true
				break
			}
		}
	default:
		res = true
	}
	e.plCache[t] = res
	return res
}

func isGenericOrigin(fn *ssa.Function) bool {
	for f := fn; f != nil; f = f.Parent() {
		if f.TypeParams().Len() > 0 && len(f.TypeArgs()) == 0 {
			return true
		}
	}
	return false
}

// ---------------------------------------------------------------------------

// NewEffects analyses all functions with bodies in module and dependency
// packages.
func NewEffects(w *World) *Effects {
	e := &Effects{w: w, rootIdx: map[rootInfo]rootID{}, sums: map[*ssa.Function]*summary{},
		scope: map[*ssa.Function]bool{}, unknownExt: map[string]token.Pos{}, plCache: map[types.Type]bool{},
		callers: map[*ssa.Function][]*ssa.Function{}, keys: map[string]int{}}
	e.root(rootInfo{kind: rkUnknown})
	e.root(rootInfo{kind: rkFreshRet})
	e.ext = externalSummaries()
	for fn := range w.allFns {
		if isGenericOrigin(fn) {
			continue // uninstantiated generic body: analysed through its instances
		}
		p := fnPkgPath(fn)
		if (isModPkg(p) || isDepPkg(p)) && len(fn.Blocks) > 0 {
			e.scope[fn] = true
			e.fns = append(e.fns, fn)
		}
	}
	sort.Slice(e.fns, func(i, j int) bool { return fnName(e.fns[i]) < fnName(e.fns[j]) })
	for _, fn := range e.fns {
		e.sums[fn] = newSummary(fn.Signature.Results().Len())
	}
	for _, fn := range e.fns {
		if n := w.CG.Nodes[fn]; n != nil {
			for _, out := range n.Out {
				if e.scope[out.Callee.Func] {
					e.callers[out.Callee.Func] = append(e.callers[out.Callee.Func], fn)
				}
			}
		}
		for _, af := range fn.AnonFuncs {
			e.callers[af] = append(e.callers[af], fn) // closure effects are applied where it is created
		}
	}
	inWork := map[*ssa.Function]bool{}
	var work []*ssa.Function
	for _, fn := range e.fns {
		work = append(work, fn)
		inWork[fn] = true
	}
	iter := 0
	for len(work) > 0 {
		fn := work[0]
		work = work[1:]
		inWork[fn] = false
		iter++
		if iter > 400000 {
			panic("effects: no fixed point")
		}
		if e.analyse(fn) {
			for _, c := range e.callers[fn] {
				if !inWork[c] {
					inWork[c] = true
					work = append(work, c)
				}
			}
		}
	}
	return e
}

// fa is the per-function flow-sensitive analysis state.
type fa struct {
	e         *Effects
	fn        *ssa.Function
	sum       *summary
	val       map[ssa.Value]locSet
	tuple     map[ssa.Value][]locSet // per-result sets of multi-value calls
	in        []memState
	weakSites map[rootID]bool // fresh sites that may not be strongly updated
	changed   bool
	nParams   int

	collect  bool
	events   []wevent
	curArgs  []locSet
	curCall  ssa.Instruction
	retCells []retInfo
}

// wevent is one write to non-fresh memory observed in collect mode.
type wevent struct {
	target loc
	w      witness
	args   []locSet        // argument sets when the write comes from a call
	site   ssa.Instruction // the call instruction, if any
}

// retInfo captures the state of returned fresh objects at a return.
type retInfo struct {
	ins  *ssa.Return
	vals []locSet
	st   memState
}

type cell struct {
	all    locSet
	fields map[int]locSet
}

type memState map[rootID]*cell

func (c *cell) clone() *cell {
	nc := &cell{all: c.all}
	if len(c.fields) > 0 {
		nc.fields = make(map[int]locSet, len(c.fields))
		for f, s := range c.fields {
			nc.fields[f] = s
		}
	}
	return nc
}

func (m memState) clone() memState {
	r := make(memState, len(m))
	for k, c := range m {
		r[k] = c.clone()
	}
	return r
}

// join merges o into m; reports change. A site missing on one side has not
// been allocated on that path (its cells are empty there).
func (m memState) join(o memState) bool {
	ch := false
	for k, oc := range o {
		mc, ok := m[k]
		if !ok {
			m[k] = oc.clone()
			ch = true
			continue
		}
		for f, s := range oc.fields {
			cur, ok := mc.fields[f]
			if !ok {
				cur = mc.all
			}
			u := union(cur, s)
			if !ok || !eqSet(u, cur) {
				if mc.fields == nil {
					mc.fields = map[int]locSet{}
				}
				mc.fields[f] = u
				ch = true
			}
		}
		for f, cur := range mc.fields {
			if _, ok := oc.fields[f]; !ok {
				u := union(cur, oc.all)
				if !eqSet(u, cur) {
					mc.fields[f] = u
					ch = true
				}
			}
		}
		u := union(mc.all, oc.all)
		if !eqSet(u, mc.all) {
			mc.all = u
			ch = true
		}
	}
	return ch
}

func (c *cell) load(f int) locSet {
	if f >= 0 {
		if s, ok := c.fields[f]; ok {
			return s
		}
		return c.all
	}
	r := c.all
	for _, s := range c.fields {
		r = union(r, s)
	}
	return r
}

func (e *Effects) analyse(fn *ssa.Function) bool {
	return e.run(fn, false).changed
}

// Collect re-analyses fn at the fixed point and returns every write to
// non-fresh memory together with the state at each return.
func (e *Effects) Collect(fn *ssa.Function) *fa {
	return e.run(fn, true)
}

func (e *Effects) run(fn *ssa.Function, collect bool) *fa {
	a := &fa{e: e, fn: fn, sum: e.sums[fn], val: map[ssa.Value]locSet{}, tuple: map[ssa.Value][]locSet{},
		weakSites: map[rootID]bool{}, nParams: len(fn.Params), collect: collect}
	inLoop := loopBlocks(fn)
	for _, b := range fn.Blocks {
		for _, ins := range b.Instrs {
			if mc, ok := ins.(*ssa.MakeClosure); ok {
				for _, bnd := range mc.Bindings {
					if al, ok := bnd.(*ssa.Alloc); ok {
						a.weakSites[e.root(rootInfo{kind: rkFresh, site: al})] = true
					}
				}
			}
			if inLoop[b.Index] {
				if _, ok := ins.(ssa.Value); ok {
					a.weakSites[e.root(rootInfo{kind: rkFresh, site: ins})] = true
				}
			}
		}
	}
	for i, p := range fn.Params {
		if e.pointerLike(p.Type()) {
			a.val[p] = single(mkLoc(e.root(rootInfo{kind: rkParam, idx: i}), -1))
		}
	}
	for i, fv := range fn.FreeVars {
		a.val[fv] = single(mkLoc(e.root(rootInfo{kind: rkParam, idx: a.nParams + i}), -1))
	}
	a.in = make([]memState, len(fn.Blocks))
	a.in[0] = memState{}
	work := []int{0}
	inWork := map[int]bool{0: true}
	rounds := 0
	for len(work) > 0 {
		bi := work[0]
		work = work[1:]
		inWork[bi] = false
		rounds++
		if rounds > 50000 {
			panic("effects: block fixed point not reached in " + fn.String())
		}
		b := fn.Blocks[bi]
		st := a.in[bi].clone()
		valChanged := a.block(b, st)
		for _, s := range b.Succs {
			ch := false
			if a.in[s.Index] == nil {
				a.in[s.Index] = st.clone()
				ch = true
			} else {
				ch = a.in[s.Index].join(st)
			}
			if (ch || valChanged) && !inWork[s.Index] {
				inWork[s.Index] = true
				work = append(work, s.Index)
			}
		}
	}
	return a
}

func loopBlocks(fn *ssa.Function) map[int]bool {
	n := len(fn.Blocks)
	res := map[int]bool{}
	for _, b := range fn.Blocks {
		seen := make([]bool, n)
		stack := append([]*ssa.BasicBlock{}, b.Succs...)
		for len(stack) > 0 {
			x := stack[len(stack)-1]
			stack = stack[:len(stack)-1]
			if seen[x.Index] {
				continue
			}
			seen[x.Index] = true
			if x == b {
				res[b.Index] = true
				break
			}
			stack = append(stack, x.Succs...)
		}
	}
	return res
}

func (a *fa) get(v ssa.Value) locSet {
	switch v := v.(type) {
	case *ssa.Global:
		return single(mkLoc(a.e.root(rootInfo{kind: rkGlobal, g: v}), -1))
	case *ssa.Const, *ssa.Function, *ssa.Builtin:
		return nil
	}
	return a.val[v]
}

func (a *fa) set(v ssa.Value, s locSet) bool {
	if !a.e.pointerLike(v.Type()) {
		return false
	}
	old := a.val[v]
	u := union(old, s)
	if eqSet(u, old) {
		return false
	}
	a.val[v] = u
	return true
}

func (a *fa) via(idx, via int) loc {
	return mkLoc(a.e.root(rootInfo{kind: rkParamVia, idx: idx, via: via}), -1)
}

// load returns what a load through the addresses in s may yield.
func (a *fa) load(st memState, s locSet) locSet {
	var res locSet
	for _, l := range s {
		r := l.root()
		ri := a.e.roots[r]
		switch ri.kind {
		case rkFresh:
			if c := st[r]; c != nil {
				res = union(res, c.load(l.field()))
			}
		case rkParam:
			res = union(res, single(a.via(ri.idx, l.field())))
		default:
			res = union(res, single(mkLoc(r, -1)))
		}
	}
	return res
}

// closure returns s plus everything reachable from s through loads.
func (a *fa) closure(st memState, s locSet) locSet {
	var res locSet
	seen := map[rootID]bool{}
	var visit func(l loc)
	visit = func(l loc) {
		r := l.root()
		ri := a.e.roots[r]
		switch ri.kind {
		case rkParam:
			res = append(res, l, a.via(ri.idx, l.field()))
		case rkFresh:
			res = append(res, l)
			if seen[r] {
				return
			}
			seen[r] = true
			if c := st[r]; c != nil {
				for _, x := range c.load(-1) {
					visit(x)
				}
			}
		default:
			res = append(res, mkLoc(r, -1))
		}
	}
	for _, l := range s {
		visit(l)
	}
	return normalize(res)
}

// deepVia: memory reached from the addresses in s by >= 1 load, the first
// through selector via.
func (a *fa) deepVia(st memState, s locSet, via int) locSet {
	var first locSet
	for _, l := range s {
		f := l.field()
		if f < 0 {
			f = via
		}
		first = union(first, a.load(st, single(mkLoc(l.root(), f))))
	}
	return a.closure(st, first)
}

func (a *fa) noteWrite(l loc, w *witness) {
	if _, ok := a.sum.writes[l]; !ok {
		w.fn = a.fn
		a.sum.writes[l] = w
		a.changed = true
	}
}

// export converts a loc set of the current function into summary vocabulary.
func (a *fa) export(st memState, s locSet) exported {
	var ex exported
	seen := map[rootID]bool{}
	var visit func(l loc, top bool)
	visit = func(l loc, top bool) {
		r := l.root()
		add := func(x loc) {
			if top {
				ex.roots = append(ex.roots, x)
			} else {
				ex.cont = append(ex.cont, x)
			}
		}
		if a.e.roots[r].kind == rkFresh {
			add(mkLoc(rootFreshRet, -1))
			if seen[r] {
				return
			}
			seen[r] = true
			if c := st[r]; c != nil {
				for _, x := range c.load(-1) {
					visit(x, false)
				}
			}
			return
		}
		if a.e.roots[r].kind == rkParam {
			add(l)
		} else {
			add(mkLoc(r, -1))
		}
	}
	for _, l := range s {
		visit(l, true)
	}
	ex.roots = normalize(ex.roots)
	ex.cont = normalize(ex.cont)
	return ex
}

// write applies a store of value set vs through address set addr.
func (a *fa) write(st memState, addr locSet, vs locSet, strongOK bool, w witness) {
	for _, l := range addr {
		r := l.root()
		ri := a.e.roots[r]
		if ri.kind == rkFresh {
			c := st[r]
			if c == nil {
				c = &cell{}
				st[r] = c
			}
			f := l.field()
			strong := strongOK && len(addr) == 1 && !a.weakSites[r]
			if f < 0 {
				if strong {
					c.all = vs
					c.fields = nil
				} else {
					c.all = union(c.all, vs)
					for k, s := range c.fields {
						c.fields[k] = union(s, vs)
					}
				}
			} else {
				if c.fields == nil {
					c.fields = map[int]locSet{}
				}
				if strong {
					c.fields[f] = vs
				} else {
					cur, ok := c.fields[f]
					if !ok {
						cur = c.all
					}
					c.fields[f] = union(cur, vs)
				}
			}
			continue
		}
		wl := l
		if ri.kind != rkParam {
			wl = mkLoc(r, -1)
		}
		ww := w
		a.noteWrite(wl, &ww)
		if a.collect {
			w2 := w
			w2.fn = a.fn
			a.events = append(a.events, wevent{target: wl, w: w2, args: a.curArgs, site: a.curCall})
		}
		if ri.kind == rkParam || ri.kind == rkParamVia {
			if len(vs) > 0 {
				ex := a.export(st, vs)
				cur := a.sum.storesInto[wl]
				if cur == nil {
					cur = &exported{}
					a.sum.storesInto[wl] = cur
				}
				if cur.merge(ex) {
					a.changed = true
				}
			}
		}
	}
}

func (a *fa) freshSite(st memState, ins ssa.Instruction) (rootID, *cell) {
	return a.freshSiteRole(st, ins, 0)
}

// freshSiteRole distinguishes several fresh objects created by one call
// instruction (one per result, one per store into argument memory).
func (a *fa) freshSiteRole(st memState, ins ssa.Instruction, role int) (rootID, *cell) {
	r := a.e.root(rootInfo{kind: rkFresh, site: ins, idx: role})
	if role != 0 && a.weakSites[a.e.root(rootInfo{kind: rkFresh, site: ins})] {
		a.weakSites[r] = true
	}
	c := st[r]
	if c == nil {
		c = &cell{}
		st[r] = c
	}
	return r, c
}

func (a *fa) withField(s locSet, f int) locSet {
	var res locSet
	for _, l := range s {
		if l.field() < 0 {
			res = append(res, mkLoc(l.root(), f))
		} else {
			res = append(res, l) // nested: keep the outermost selector
		}
	}
	return normalize(res)
}

func (a *fa) stripField(s locSet) locSet {
	if len(s) == 0 {
		return s
	}
	res := make(locSet, 0, len(s))
	for _, l := range s {
		res = append(res, mkLoc(l.root(), -1))
	}
	return normalize(res)
}

// mapKeyField returns the selector id for a constant string map key, or -1.
func (a *fa) mapKeyField(k ssa.Value) int {
	if c, ok := k.(*ssa.Const); ok && c.Value != nil && c.Value.Kind() == constant.String {
		return a.e.keyID(constant.StringVal(c.Value))
	}
	return -1
}

func (a *fa) block(b *ssa.BasicBlock, st memState) bool {
	ch := false
	e := a.e
	upd := func(v ssa.Value, s locSet) {
		if a.set(v, s) {
			ch = true
		}
	}
	for _, ins := range b.Instrs {
		switch ins := ins.(type) {
		case *ssa.Alloc:
			r, c := a.freshSite(st, ins)
			if !a.weakSites[r] {
				c.all, c.fields = nil, nil
			}
			upd(ins, single(mkLoc(r, -1)))
		case *ssa.MakeSlice:
			r, _ := a.freshSite(st, ins)
			upd(ins, single(mkLoc(r, -1)))
		case *ssa.MakeMap:
			r, _ := a.freshSite(st, ins)
			upd(ins, single(mkLoc(r, -1)))
		case *ssa.MakeChan:
			r, _ := a.freshSite(st, ins)
			upd(ins, single(mkLoc(r, -1)))
		case *ssa.MakeClosure:
			r, c := a.freshSite(st, ins)
			var cont locSet
			for _, bnd := range ins.Bindings {
				cont = union(cont, a.get(bnd))
			}
			c.all = union(c.all, cont)
			upd(ins, single(mkLoc(r, -1)))
			if af, ok := ins.Fn.(*ssa.Function); ok {
				if s := e.sums[af]; s != nil {
					args := make([]locSet, len(af.Params)+len(ins.Bindings))
					for i, bnd := range ins.Bindings {
						args[len(af.Params)+i] = a.get(bnd)
					}
					a.applySummary(st, ins, af, s, args, true)
				}
			}
		case *ssa.MakeInterface:
			if e.pointerLike(ins.X.Type()) {
				upd(ins, a.get(ins.X))
			}
		case *ssa.FieldAddr:
			upd(ins, a.withField(a.get(ins.X), ins.Field))
		case *ssa.IndexAddr:
			upd(ins, a.get(ins.X))
		case *ssa.Slice:
			if _, isStr := ins.X.Type().Underlying().(*types.Basic); isStr {
				break
			}
			upd(ins, a.get(ins.X))
		case *ssa.Field:
			upd(ins, a.stripField(a.get(ins.X)))
		case *ssa.Index:
			upd(ins, a.stripField(a.get(ins.X)))
		case *ssa.Lookup:
			if _, isMap := ins.X.Type().Underlying().(*types.Map); isMap {
				f := a.mapKeyField(ins.Index)
				v := a.load(st, a.withField(a.stripField(a.get(ins.X)), f))
				if ins.CommaOk {
					a.tuple[ins] = []locSet{v, nil}
				}
				upd(ins, v)
			}
		case *ssa.Range:
			upd(ins, a.get(ins.X))
		case *ssa.Next:
			if rg, ok := ins.Iter.(*ssa.Range); ok {
				if _, isMap := rg.X.Type().Underlying().(*types.Map); isMap {
					upd(ins, a.load(st, a.stripField(a.get(rg.X))))
				}
			}
		case *ssa.Extract:
			if t, ok := a.tuple[ins.Tuple]; ok && ins.Index < len(t) {
				upd(ins, t[ins.Index])
			} else {
				upd(ins, a.get(ins.Tuple))
			}
		case *ssa.Phi:
			var res locSet
			for _, x := range ins.Edges {
				res = union(res, a.get(x))
			}
			upd(ins, res)
		case *ssa.ChangeType:
			upd(ins, a.get(ins.X))
		case *ssa.ChangeInterface:
			upd(ins, a.get(ins.X))
		case *ssa.SliceToArrayPointer:
			upd(ins, a.get(ins.X))
		case *ssa.TypeAssert:
			if ins.CommaOk {
				a.tuple[ins] = []locSet{a.get(ins.X), nil}
			}
			upd(ins, a.get(ins.X))
		case *ssa.Convert:
			_, fromSlice := ins.X.Type().Underlying().(*types.Slice)
			_, toSlice := ins.Type().Underlying().(*types.Slice)
			if toSlice && !fromSlice {
				r, _ := a.freshSite(st, ins)
				upd(ins, single(mkLoc(r, -1)))
			} else {
				upd(ins, a.get(ins.X))
			}
		case *ssa.MultiConvert:
			upd(ins, a.get(ins.X))
		case *ssa.UnOp:
			switch ins.Op {
			case token.MUL:
				if e.pointerLike(ins.Type()) {
					upd(ins, a.load(st, a.get(ins.X)))
				}
			case token.ARROW:
				if e.pointerLike(ins.Type()) {
					upd(ins, a.load(st, a.stripField(a.get(ins.X))))
				}
			}
		case *ssa.Select:
			for _, s := range ins.States {
				if s.Dir == types.SendOnly {
					a.write(st, a.stripField(a.get(s.Chan)), a.valueSet(s.Send), false, witness{pos: ins.Pos(), what: "channel send"})
				}
			}
			var res locSet
			for _, s := range ins.States {
				if s.Dir == types.RecvOnly {
					res = union(res, a.load(st, a.stripField(a.get(s.Chan))))
				}
			}
			upd(ins, res)
		case *ssa.Store:
			_, direct := ins.Addr.(*ssa.FieldAddr)
			_, isAlloc := ins.Addr.(*ssa.Alloc)
			a.write(st, a.get(ins.Addr), a.valueSet(ins.Val), direct || isAlloc, witness{pos: ins.Pos(), what: "store to " + describeAddr(ins.Addr), ins: ins})
		case *ssa.MapUpdate:
			vs := union(a.valueSet(ins.Value), a.valueSet(ins.Key))
			f := a.mapKeyField(ins.Key)
			a.write(st, a.withField(a.stripField(a.get(ins.Map)), f), vs, f >= 0, witness{pos: ins.Pos(), what: "map update of " + describeAddr(ins.Map), ins: ins})
		case *ssa.Send:
			a.write(st, a.stripField(a.get(ins.Chan)), a.valueSet(ins.X), false, witness{pos: ins.Pos(), what: "channel send"})
		case *ssa.Call:
			if a.call(st, ins, ins.Common(), ins) {
				ch = true
			}
		case *ssa.Go:
			a.call(st, ins, ins.Common(), nil)
		case *ssa.Defer:
			a.call(st, ins, ins.Common(), nil)
		case *ssa.Return:
			if a.collect {
				ri := retInfo{ins: ins, st: st.clone()}
				for _, r := range ins.Results {
					ri.vals = append(ri.vals, a.valueSet(r))
				}
				a.retCells = append(a.retCells, ri)
			}
			for i, r := range ins.Results {
				if i >= len(a.sum.ret) || !e.pointerLike(r.Type()) {
					continue
				}
				if a.sum.ret[i].merge(a.export(st, a.get(r))) {
					a.changed = true
				}
			}
		}
	}
	return ch
}

func (a *fa) valueSet(v ssa.Value) locSet {
	if !a.e.pointerLike(v.Type()) {
		return nil
	}
	return a.get(v)
}

func describeAddr(v ssa.Value) string {
	switch v := v.(type) {
	case *ssa.FieldAddr:
		st := v.X.Type().Underlying().(*types.Pointer).Elem().Underlying().(*types.Struct)
		return describeAddr(v.X) + "." + st.Field(v.Field).Name()
	case *ssa.Field:
		st := v.X.Type().Underlying().(*types.Struct)
		return describeAddr(v.X) + "." + st.Field(v.Field).Name()
	case *ssa.IndexAddr:
		return describeAddr(v.X) + "[…]"
	case *ssa.UnOp:
		if v.Op == token.MUL {
			return describeAddr(v.X)
		}
	case *ssa.Parameter:
		return v.Name()
	case *ssa.FreeVar:
		return v.Name()
	case *ssa.Global:
		return shortName(v.String())
	case *ssa.Alloc:
		if v.Comment != "" {
			return v.Comment
		}
	case *ssa.Slice:
		return describeAddr(v.X) + "[:]"
	case *ssa.Call:
		if c := v.Common().StaticCallee(); c != nil {
			return fnName(c) + "(…)"
		}
	case *ssa.Lookup:
		if c, ok := v.Index.(*ssa.Const); ok && c.Value != nil {
			return describeAddr(v.X) + "[" + c.Value.ExactString() + "]"
		}
		return describeAddr(v.X) + "[key]"
	case *ssa.TypeAssert:
		return describeAddr(v.X)
	case *ssa.Phi:
		if len(v.Edges) > 0 {
			return describeAddr(v.Edges[0])
		}
	case *ssa.Extract:
		return describeAddr(v.Tuple)
	case *ssa.ChangeType:
		return describeAddr(v.X)
	case *ssa.MakeInterface:
		return describeAddr(v.X)
	}
	return v.Name()
}

func (a *fa) elemPointerLike(t types.Type) bool {
	if s, ok := t.Underlying().(*types.Slice); ok {
		return a.e.pointerLike(s.Elem())
	}
	return true
}

// call handles a call/go/defer. res receives the result (nil for go/defer).
func (a *fa) call(st memState, ins ssa.Instruction, c *ssa.CallCommon, res *ssa.Call) bool {
	e := a.e
	ch := false
	if bi, ok := c.Value.(*ssa.Builtin); ok {
		switch bi.Name() {
		case "append":
			base := a.get(c.Args[0])
			ptrElems := a.elemPointerLike(c.Args[0].Type())
			var vs locSet
			if len(c.Args) > 1 && ptrElems {
				if _, isStr := c.Args[1].Type().Underlying().(*types.Basic); !isStr {
					vs = a.load(st, a.stripField(a.get(c.Args[1])))
				}
			}
			r, cl := a.freshSite(st, ins)
			if ptrElems {
				cl.all = union(cl.all, union(a.load(st, a.stripField(base)), vs))
			}
			// spare capacity of a non-fresh base may be written
			a.write(st, a.stripField(base), vs, false, witness{pos: ins.Pos(), what: "append to " + describeAddr(c.Args[0]) + " (may write into spare capacity of the existing array)"})
			if res != nil && a.set(res, union(a.stripField(base), single(mkLoc(r, -1)))) {
				ch = true
			}
		case "copy":
			var vs locSet
			if _, isStr := c.Args[1].Type().Underlying().(*types.Basic); !isStr && a.elemPointerLike(c.Args[0].Type()) {
				vs = a.load(st, a.stripField(a.get(c.Args[1])))
			}
			a.write(st, a.stripField(a.get(c.Args[0])), vs, false, witness{pos: ins.Pos(), what: "copy into " + describeAddr(c.Args[0])})
		case "delete":
			a.write(st, a.stripField(a.get(c.Args[0])), nil, false, witness{pos: ins.Pos(), what: "delete from " + describeAddr(c.Args[0])})
		case "clear":
			a.write(st, a.stripField(a.get(c.Args[0])), nil, false, witness{pos: ins.Pos(), what: "clear " + describeAddr(c.Args[0])})
		case "close":
			a.write(st, a.stripField(a.get(c.Args[0])), nil, false, witness{pos: ins.Pos(), what: "close channel"})
		}
		return ch
	}
	var args []ssa.Value
	if c.IsInvoke() {
		args = append(args, c.Value)
	}
	args = append(args, c.Args...)
	argSets := make([]locSet, len(args))
	for i, x := range args {
		argSets[i] = a.valueSet(x)
	}
	nres := c.Signature().Results().Len()
	resSets := make([]locSet, nres)
	merge := func(rs []locSet) {
		for i := range rs {
			if i < nres {
				resSets[i] = union(resSets[i], rs[i])
			}
		}
	}
	callees := e.w.Callees(ins.(ssa.CallInstruction))
	handled := false
	for _, callee := range callees {
		if isGenericOrigin(callee) {
			handled = true // never executed: only instances run
			continue
		}
		if s := e.sums[callee]; s != nil {
			as := argSets
			if len(callee.FreeVars) > 0 {
				as = append(append([]locSet{}, argSets...), make([]locSet, len(callee.FreeVars))...)
			}
			merge(a.applySummary(st, ins, callee, s, as, false))
			handled = true
			continue
		}
		merge(a.applyExternal(st, ins, callee.String(), args, argSets, nres, c.Signature()))
		handled = true
	}
	if !handled {
		name := ""
		if c.IsInvoke() {
			name = "(" + c.Value.Type().String() + ")." + c.Method.Name()
		} else if f, ok := c.Value.(*ssa.Function); ok {
			name = f.String()
		} else {
			name = "dynamic call " + c.Value.Type().String()
		}
		merge(a.applyExternal(st, ins, name, args, argSets, nres, c.Signature()))
	}
	if res != nil {
		if nres > 1 {
			old := a.tuple[res]
			if old == nil {
				old = make([]locSet, nres)
			}
			var all locSet
			for i := range resSets {
				u := union(old[i], resSets[i])
				if !eqSet(u, old[i]) {
					ch = true
				}
				old[i] = u
				all = union(all, u)
			}
			a.tuple[res] = old
			if a.set(res, all) {
				ch = true
			}
		} else if nres == 1 {
			if a.set(res, resSets[0]) {
				ch = true
			}
		}
	}
	return ch
}

// mapLoc translates one summary location of a callee into caller locations.
func (a *fa) mapLoc(st memState, ins ssa.Instruction, l loc, args []locSet, cont locSet, depth int, role int) locSet {
	ri := a.e.roots[l.root()]
	switch ri.kind {
	case rkParam:
		if ri.idx < len(args) {
			if f := l.field(); f >= 0 {
				return a.withField(args[ri.idx], f)
			}
			return a.stripField(args[ri.idx])
		}
	case rkParamVia:
		if ri.idx < len(args) {
			return a.deepVia(st, args[ri.idx], ri.via)
		}
	case rkFreshRet:
		r, c := a.freshSiteRole(st, ins, role)
		if depth == 0 && len(cont) > 0 {
			var cs locSet
			for _, x := range cont {
				cs = union(cs, a.mapLoc(st, ins, x, args, nil, 1, role))
			}
			c.all = union(c.all, cs)
			for k, s := range c.fields {
				c.fields[k] = union(s, cs)
			}
		}
		return single(mkLoc(r, -1))
	case rkFresh:
		return nil
	default:
		return single(mkLoc(l.root(), -1))
	}
	return nil
}

func (a *fa) mapExported(st memState, ins ssa.Instruction, ex exported, args []locSet, role int) locSet {
	var res locSet
	for _, l := range ex.roots {
		res = union(res, a.mapLoc(st, ins, l, args, ex.cont, 0, role))
	}
	return res
}

func (a *fa) applySummary(st memState, ins ssa.Instruction, callee *ssa.Function, s *summary, args []locSet, atCreation bool) []locSet {
	e := a.e
	keys := make([]loc, 0, len(s.writes))
	for l := range s.writes {
		keys = append(keys, l)
	}
	sort.Slice(keys, func(i, j int) bool { return keys[i] < keys[j] })
	np := len(callee.Params)
	for wi, l := range keys {
		ri := e.roots[l.root()]
		isParam := ri.kind == rkParam || ri.kind == rkParamVia
		isFree := isParam && ri.idx >= np
		if atCreation {
			if !isFree {
				continue
			}
		} else if isFree {
			continue // applied where the closure was created
		}
		target := a.mapLoc(st, ins, l, args, nil, 1, 0)
		a.curArgs, a.curCall = args, ins
		var stored locSet
		if ex := s.storesInto[l]; ex != nil {
			stored = a.mapExported(st, ins, *ex, args, 100+wi)
		}
		a.write(st, target, stored, false, witness{pos: ins.Pos(), what: "call of " + fnName(callee), callee: callee, cloc: l})
		a.curArgs, a.curCall = nil, nil
	}
	if atCreation {
		return nil
	}
	res := make([]locSet, len(s.ret))
	for i, ex := range s.ret {
		res[i] = a.mapExported(st, ins, ex, args, i)
	}
	return res
}

// applyExternal applies the table summary for a function outside the analysed
// scope. Unknown functions receiving tracked memory are recorded as undecided.
func (a *fa) applyExternal(st memState, ins ssa.Instruction, name string, args []ssa.Value, argSets []locSet, nres int, sig *types.Signature) []locSet {
	e := a.e
	res := make([]locSet, nres)
	es, ok := e.ext[name]
	if !ok {
		if i := strings.Index(name, "["); i >= 0 {
			es, ok = e.ext[name[:i]]
		}
	}
	freshRes := func(extra locSet) {
		for i := 0; i < nres; i++ {
			if e.pointerLike(sig.Results().At(i).Type()) {
				r, c := a.freshSite(st, ins)
				c.all = union(c.all, extra)
				res[i] = single(mkLoc(r, -1))
			}
		}
	}
	if !ok {
		anyPtr := false
		for i := range args {
			if len(argSets[i]) > 0 {
				anyPtr = true
			}
		}
		if !anyPtr {
			freshRes(nil) // no tracked memory is passed: the callee cannot write any
			return res
		}
		if _, seen := e.unknownExt[name]; !seen {
			e.unknownExt[name] = ins.Pos()
		}
		for i := range args {
			a.write(st, a.closure(st, argSets[i]), nil, false, witness{pos: ins.Pos(), what: "call of unsummarised external " + name})
		}
		a.noteWrite(mkLoc(rootUnknown, -1), &witness{pos: ins.Pos(), what: "call of unsummarised external " + name})
		for i := range res {
			res[i] = single(mkLoc(rootUnknown, -1))
		}
		return res
	}
	for _, i := range es.writes {
		if i < len(argSets) {
			a.write(st, a.stripField(argSets[i]), nil, false, witness{pos: ins.Pos(), what: fmt.Sprintf("call of %s (mutates its argument %d: %s)", name, i, describeAddr(args[i]))})
		}
	}
	for _, p := range es.stores {
		if p[0] < len(argSets) && p[1] < len(argSets) {
			a.write(st, a.stripField(argSets[p[0]]), a.closure(st, argSets[p[1]]), false, witness{pos: ins.Pos(), what: "call of " + name})
		}
	}
	allArgs := func() locSet {
		var rs locSet
		for i := range argSets {
			rs = union(rs, a.closure(st, argSets[i]))
		}
		return rs
	}
	switch {
	case es.ret == "" || es.ret == "fresh":
		freshRes(nil)
	case es.ret == "fresh+args":
		freshRes(allArgs())
	case es.ret == "args":
		rs := allArgs()
		freshRes(rs)
		for i := range res {
			if len(res[i]) > 0 {
				res[i] = union(res[i], rs)
			}
		}
	case strings.HasPrefix(es.ret, "arg"):
		var i int
		fmt.Sscanf(es.ret, "arg%d", &i)
		if i < len(argSets) {
			for k := range res {
				if e.pointerLike(sig.Results().At(k).Type()) {
					res[k] = a.closure(st, argSets[i])
				}
			}
		}
	}
	return res
}

// ---------------------------------------------------------------------------
// queries

// Explain expands a write witness into the chain of calls down to the store.
func (e *Effects) Explain(fn *ssa.Function, l loc) []string {
	var out []string
	seen := map[*ssa.Function]bool{}
	for fn != nil && !seen[fn] {
		seen[fn] = true
		s := e.sums[fn]
		if s == nil {
			break
		}
		w := s.writes[l]
		if w == nil {
			break
		}
		out = append(out, fmt.Sprintf("%s: %s: %s writes %s", e.w.Pos(w.pos), fnName(fn), w.what, e.locStr(fn, l)))
		if w.callee == nil {
			break
		}
		fn, l = w.callee, w.cloc
	}
	return out
}

// FinalWrite follows the witness chain to the innermost write.
func (e *Effects) FinalWrite(fn *ssa.Function, l loc) (*ssa.Function, *witness, []string) {
	seen := map[*ssa.Function]bool{}
	var last *witness
	lastFn := fn
	var path []string
	for fn != nil && !seen[fn] {
		seen[fn] = true
		s := e.sums[fn]
		if s == nil {
			break
		}
		w := s.writes[l]
		if w == nil {
			break
		}
		path = append(path, fnName(fn))
		last, lastFn = w, fn
		if w.callee == nil {
			break
		}
		fn, l = w.callee, w.cloc
	}
	return lastFn, last, path
}

// Pure reports whether fn writes nothing but memory it allocated itself.
func (e *Effects) Pure(fn *ssa.Function) (bool, string) {
	s := e.sums[fn]
	if s == nil {
		return false, "not analysed"
	}
	if len(s.writes) == 0 {
		return true, ""
	}
	keys := e.sortedWrites(fn)
	return false, "writes " + e.locStr(fn, keys[0])
}

// sortedWrites returns the written locations of fn in a stable order.
func (e *Effects) sortedWrites(fn *ssa.Function) []loc {
	s := e.sums[fn]
	if s == nil {
		return nil
	}
	keys := make([]loc, 0, len(s.writes))
	for l := range s.writes {
		keys = append(keys, l)
	}
	sort.Slice(keys, func(i, j int) bool { return keys[i] < keys[j] })
	return keys
}
