package main

import (
	"fmt"
	"go/ast"
	"go/constant"
	"go/token"
	"go/types"
	"strings"
)

// decodesem: the path operators of the Type 2 interpreter, decided by a
// bounded interpretation of their case clauses in decodeCharString: the
// operand stack has a concrete length n and symbolic entries s0..s(n-1);
// control (loop conditions on len, the horizontal/vertical toggle, the
// operator comparison) is evaluated concretely, data symbolically.  The
// sequence of rLineTo/rCurveTo calls is compared with the operator's
// definition in TN5177 4.1 for every legal n up to a bound.

type dsWin struct{ off, n int } // a window of the operand stack

type dsState struct {
	ints   map[string]int
	bools  map[string]bool
	nums   map[string]string // float variables: symbolic value
	wins   map[string]dsWin
	calls  []string
	op     string
	n      int
	base   int // operands consumed from the bottom of the stack (the width)
	broken bool
}

type dsInterp struct {
	info *types.Info
	err  string
	st   *dsState
	fuel int
}

func (in *dsInterp) fail(f string, a ...interface{}) {
	if in.err == "" {
		in.err = fmt.Sprintf(f, a...)
	}
}

func (in *dsInterp) win(e ast.Expr) (dsWin, bool) {
	switch x := e.(type) {
	case *ast.Ident:
		if x.Name == "stack" {
			return dsWin{in.st.base, in.st.n - in.st.base}, true
		}
		w, ok := in.st.wins[x.Name]
		return w, ok
	case *ast.SliceExpr:
		w, ok := in.win(x.X)
		if !ok {
			return dsWin{}, false
		}
		lo, hi := 0, w.n
		if x.Low != nil {
			v, ok := in.intv(x.Low)
			if !ok {
				return dsWin{}, false
			}
			lo = v
		}
		if x.High != nil {
			v, ok := in.intv(x.High)
			if !ok {
				return dsWin{}, false
			}
			hi = v
		}
		if lo < 0 || hi > w.n || lo > hi {
			in.fail("slice %s out of range for a stack of %d operands", types.ExprString(e), in.st.n)
			return dsWin{}, false
		}
		return dsWin{w.off + lo, hi - lo}, true
	}
	return dsWin{}, false
}

func (in *dsInterp) intv(e ast.Expr) (int, bool) {
	if tv, ok := in.info.Types[e]; ok && tv.Value != nil && tv.Value.Kind() == constant.Int {
		v, ok := constant.Int64Val(tv.Value)
		return int(v), ok
	}
	switch x := e.(type) {
	case *ast.ParenExpr:
		return in.intv(x.X)
	case *ast.Ident:
		v, ok := in.st.ints[x.Name]
		return v, ok
	case *ast.CallExpr:
		if id, ok := x.Fun.(*ast.Ident); ok && id.Name == "len" && len(x.Args) == 1 {
			if w, ok := in.win(x.Args[0]); ok {
				return w.n, true
			}
		}
	case *ast.BinaryExpr:
		a, ok1 := in.intv(x.X)
		b, ok2 := in.intv(x.Y)
		if !ok1 || !ok2 {
			return 0, false
		}
		switch x.Op {
		case token.ADD:
			return a + b, true
		case token.SUB:
			return a - b, true
		case token.MUL:
			return a * b, true
		case token.REM:
			if b != 0 {
				return a % b, true
			}
		case token.QUO:
			if b != 0 {
				return a / b, true
			}
		}
	}
	return 0, false
}

func (in *dsInterp) boolv(e ast.Expr) (bool, bool) {
	switch x := e.(type) {
	case *ast.ParenExpr:
		return in.boolv(x.X)
	case *ast.Ident:
		v, ok := in.st.bools[x.Name]
		return v, ok
	case *ast.UnaryExpr:
		if x.Op == token.NOT {
			v, ok := in.boolv(x.X)
			return !v, ok
		}
	case *ast.BinaryExpr:
		switch x.Op {
		case token.LAND:
			a, ok := in.boolv(x.X)
			if !ok {
				return false, false
			}
			if !a {
				return false, true
			}
			return in.boolv(x.Y)
		case token.LOR:
			a, ok := in.boolv(x.X)
			if !ok {
				return false, false
			}
			if a {
				return true, true
			}
			return in.boolv(x.Y)
		case token.EQL, token.NEQ:
			// op == t2xxx
			if id, ok := x.X.(*ast.Ident); ok && id.Name == "op" {
				eq := types.ExprString(x.Y) == in.st.op
				return eq == (x.Op == token.EQL), true
			}
			fallthrough
		case token.LSS, token.LEQ, token.GTR, token.GEQ:
			a, ok1 := in.intv(x.X)
			b, ok2 := in.intv(x.Y)
			if !ok1 || !ok2 {
				return false, false
			}
			switch x.Op {
			case token.EQL:
				return a == b, true
			case token.NEQ:
				return a != b, true
			case token.LSS:
				return a < b, true
			case token.LEQ:
				return a <= b, true
			case token.GTR:
				return a > b, true
			case token.GEQ:
				return a >= b, true
			}
		}
	}
	return false, false
}

func (in *dsInterp) numv(e ast.Expr) (string, bool) {
	if tv, ok := in.info.Types[e]; ok && tv.Value != nil {
		if constant.Sign(tv.Value) == 0 {
			return "0", true
		}
		return tv.Value.String(), true
	}
	switch x := e.(type) {
	case *ast.ParenExpr:
		return in.numv(x.X)
	case *ast.Ident:
		v, ok := in.st.nums[x.Name]
		return v, ok
	case *ast.UnaryExpr:
		if x.Op == token.SUB {
			v, ok := in.numv(x.X)
			if !ok {
				return "", false
			}
			if v == "0" {
				return "0", true
			}
			if strings.HasPrefix(v, "-") {
				return v[1:], true
			}
			return "-" + v, true
		}
	case *ast.IndexExpr:
		w, ok := in.win(x.X)
		i, ok2 := in.intv(x.Index)
		if !ok || !ok2 {
			return "", false
		}
		if i < 0 || i >= w.n {
			in.fail("operand index %s out of range for a stack of %d operands", types.ExprString(e), in.st.n)
			return "", false
		}
		return fmt.Sprintf("s%d", w.off+i), true
	}
	return "", false
}

func (in *dsInterp) assign(lhs ast.Expr, rhs ast.Expr, define bool) {
	id, ok := lhs.(*ast.Ident)
	if !ok {
		in.fail("assignment to %s is not understood", types.ExprString(lhs))
		return
	}
	if w, ok := in.win(rhs); ok {
		in.st.wins[id.Name] = w
		return
	}
	if v, ok := in.boolv(rhs); ok {
		if _, isInt := in.intv(rhs); !isInt {
			in.st.bools[id.Name] = v
			return
		}
	}
	if v, ok := in.intv(rhs); ok {
		if tv, ok2 := in.info.Types[rhs]; ok2 && tv.Type != nil {
			if b, ok3 := tv.Type.Underlying().(*types.Basic); ok3 && b.Info()&types.IsFloat != 0 {
				goto num
			}
		}
		in.st.ints[id.Name] = v
		return
	}
num:
	if v, ok := in.numv(rhs); ok {
		in.st.nums[id.Name] = v
		return
	}
	in.fail("value of %s is not understood", types.ExprString(rhs))
}

func (in *dsInterp) block(stmts []ast.Stmt) {
	for _, s := range stmts {
		if in.err != "" || in.st.broken {
			return
		}
		in.stmt(s)
	}
}

func (in *dsInterp) stmt(s ast.Stmt) {
	in.fuel--
	if in.fuel < 0 {
		in.fail("interpretation does not finish")
		return
	}
	switch x := s.(type) {
	case *ast.AssignStmt:
		switch {
		case len(x.Lhs) == len(x.Rhs) && (x.Tok == token.ASSIGN || x.Tok == token.DEFINE):
			// tuple assignment: evaluate right-hand sides first
			if len(x.Lhs) == 2 {
				v0, ok0 := in.numv(x.Rhs[0])
				w1, ok1 := in.win(x.Rhs[1])
				if ok0 && ok1 {
					in.st.nums[x.Lhs[0].(*ast.Ident).Name] = v0
					in.st.wins[x.Lhs[1].(*ast.Ident).Name] = w1
					return
				}
				in.fail("tuple assignment %s is not understood", types.ExprString(x.Lhs[0]))
				return
			}
			in.assign(x.Lhs[0], x.Rhs[0], x.Tok == token.DEFINE)
		case len(x.Lhs) == 1 && len(x.Rhs) == 1 && (x.Tok == token.ADD_ASSIGN || x.Tok == token.SUB_ASSIGN):
			id, ok := x.Lhs[0].(*ast.Ident)
			a, ok1 := in.st.ints[types.ExprString(x.Lhs[0])]
			b, ok2 := in.intv(x.Rhs[0])
			if !ok || !ok1 || !ok2 {
				in.fail("compound assignment to %s is not understood", types.ExprString(x.Lhs[0]))
				return
			}
			if x.Tok == token.ADD_ASSIGN {
				in.st.ints[id.Name] = a + b
			} else {
				in.st.ints[id.Name] = a - b
			}
		default:
			in.fail("assignment form not understood")
		}
	case *ast.DeclStmt:
		if gd, ok := x.Decl.(*ast.GenDecl); ok {
			for _, sp := range gd.Specs {
				if vs, ok := sp.(*ast.ValueSpec); ok {
					for i, nm := range vs.Names {
						if len(vs.Values) > i {
							in.assign(nm, vs.Values[i], true)
						} else {
							in.st.nums[nm.Name] = "0"
						}
					}
				}
			}
		}
	case *ast.ExprStmt:
		call, ok := x.X.(*ast.CallExpr)
		if !ok {
			return
		}
		id, ok := call.Fun.(*ast.Ident)
		if !ok {
			return
		}
		switch id.Name {
		case "rLineTo", "rCurveTo", "rMoveTo":
			var args []string
			for _, a := range call.Args {
				v, ok := in.numv(a)
				if !ok {
					in.fail("argument %s of %s is not understood", types.ExprString(a), id.Name)
					return
				}
				args = append(args, v)
			}
			in.st.calls = append(in.st.calls, id.Name+"("+strings.Join(args, ",")+")")
		case "clearStack":
			in.st.broken = true
		case "setGlyphWidth":
			// the first stack-clearing operator: an extra bottom operand is the width
			if len(call.Args) == 1 {
				c, ok := in.boolv(call.Args[0])
				if !ok {
					in.fail("argument of setGlyphWidth is not understood")
					return
				}
				if c {
					in.st.calls = append(in.st.calls, fmt.Sprintf("width(s%d)", in.st.base))
					in.st.base++
				}
			}
		}
	case *ast.IfStmt:
		c, ok := in.boolv(x.Cond)
		if !ok {
			in.fail("condition %s is not understood", types.ExprString(x.Cond))
			return
		}
		if c {
			in.block(x.Body.List)
		} else if x.Else != nil {
			switch e := x.Else.(type) {
			case *ast.BlockStmt:
				in.block(e.List)
			case *ast.IfStmt:
				in.stmt(e)
			}
		}
	case *ast.ForStmt:
		for {
			if x.Cond != nil {
				c, ok := in.boolv(x.Cond)
				if !ok {
					in.fail("loop condition %s is not understood", types.ExprString(x.Cond))
					return
				}
				if !c {
					return
				}
			}
			in.block(x.Body.List)
			if in.err != "" || in.st.broken {
				return
			}
			if x.Post != nil {
				in.stmt(x.Post)
			}
			in.fuel--
			if in.fuel < 0 {
				in.fail("interpretation does not finish")
				return
			}
		}
	case *ast.RangeStmt:
		w, ok := in.win(x.X)
		if !ok {
			in.fail("range over %s is not understood", types.ExprString(x.X))
			return
		}
		for i := 0; i < w.n; i++ {
			if id, ok := x.Key.(*ast.Ident); ok && id.Name != "_" {
				in.st.ints[id.Name] = i
			}
			if id, ok := x.Value.(*ast.Ident); ok && id.Name != "_" {
				in.st.nums[id.Name] = fmt.Sprintf("s%d", w.off+i)
			}
			in.block(x.Body.List)
			if in.err != "" || in.st.broken {
				return
			}
		}
	case *ast.IncDecStmt:
		if id, ok := x.X.(*ast.Ident); ok {
			if v, ok := in.st.ints[id.Name]; ok {
				if x.Tok == token.INC {
					in.st.ints[id.Name] = v + 1
				} else {
					in.st.ints[id.Name] = v - 1
				}
			}
		}
	case *ast.BlockStmt:
		in.block(x.List)
	default:
		in.fail("statement at %v is not understood", s.Pos())
	}
}

// pathSpec: the drawing calls TN5177 4.1 prescribes for operator op with n operands (nil: n is not a legal count).
func pathSpec(op string, n int) ([]string, bool) {
	s := func(i int) string { return fmt.Sprintf("s%d", i) }
	var out []string
	line := func(a, b string) { out = append(out, "rLineTo("+a+","+b+")") }
	curve := func(a ...string) { out = append(out, "rCurveTo("+strings.Join(a, ",")+")") }
	switch op {
	case "t2rmoveto", "t2hmoveto", "t2vmoveto":
		k := 2
		if op != "t2rmoveto" {
			k = 1
		}
		if n != k && n != k+1 {
			return nil, false
		}
		b := 0
		if n == k+1 {
			out = append(out, "width(s0)")
			b = 1
		}
		switch op {
		case "t2rmoveto":
			out = append(out, "rMoveTo("+s(b)+","+s(b+1)+")")
		case "t2hmoveto":
			out = append(out, "rMoveTo("+s(b)+",0)")
		default:
			out = append(out, "rMoveTo(0,"+s(b)+")")
		}
	case "t2rlineto":
		if n < 2 || n%2 != 0 {
			return nil, false
		}
		for i := 0; i < n; i += 2 {
			line(s(i), s(i+1))
		}
	case "t2hlineto", "t2vlineto":
		if n < 1 {
			return nil, false
		}
		h := op == "t2hlineto"
		for i := 0; i < n; i++ {
			if h {
				line(s(i), "0")
			} else {
				line("0", s(i))
			}
			h = !h
		}
	case "t2rrcurveto":
		if n < 6 || n%6 != 0 {
			return nil, false
		}
		for i := 0; i < n; i += 6 {
			curve(s(i), s(i+1), s(i+2), s(i+3), s(i+4), s(i+5))
		}
	case "t2rcurveline":
		if n < 8 || (n-2)%6 != 0 {
			return nil, false
		}
		i := 0
		for ; i+6 <= n-2; i += 6 {
			curve(s(i), s(i+1), s(i+2), s(i+3), s(i+4), s(i+5))
		}
		line(s(n-2), s(n-1))
	case "t2rlinecurve":
		if n < 8 || (n-6)%2 != 0 {
			return nil, false
		}
		i := 0
		for ; i+2 <= n-6; i += 2 {
			line(s(i), s(i+1))
		}
		curve(s(i), s(i+1), s(i+2), s(i+3), s(i+4), s(i+5))
	case "t2hhcurveto", "t2vvcurveto":
		if n < 4 || n%4 > 1 {
			return nil, false
		}
		first := "0"
		i := 0
		if n%4 == 1 {
			first, i = s(0), 1
		}
		for ; i+4 <= n; i += 4 {
			if op == "t2hhcurveto" {
				curve(s(i), first, s(i+1), s(i+2), s(i+3), "0")
			} else {
				curve(first, s(i), s(i+1), s(i+2), "0", s(i+3))
			}
			first = "0"
		}
	case "t2hvcurveto", "t2vhcurveto":
		if n < 4 || n%4 > 1 {
			return nil, false
		}
		h := op == "t2hvcurveto"
		k := n / 4
		for c := 0; c < k; c++ {
			i := 4 * c
			extra := "0"
			if c == k-1 && n%4 == 1 {
				extra = s(n - 1)
			}
			if h {
				curve(s(i), "0", s(i+1), s(i+2), extra, s(i+3))
			} else {
				curve("0", s(i), s(i+1), s(i+2), s(i+3), extra)
			}
			h = !h
		}
	default:
		return nil, false
	}
	return out, true
}

func checkDecodeSem(w *World, r *Report) {
	r.Rule("decodesem: for rmoveto, hmoveto, vmoveto (with and without the leading width operand), rlineto, hlineto, vlineto, rrcurveto, rcurveline, rlinecurve, hhcurveto, vvcurveto, hvcurveto, vhcurveto the case clause of decodeCharString, interpreted with a concrete operand count n (every legal n up to 17) and symbolic operands, issues exactly the rLineTo/rCurveTo calls that TN5177 4.1 defines for that operator and count — which operand becomes which delta, the horizontal/vertical alternation, the optional leading operand of hh/vvcurveto and the trailing one of hv/vhcurveto")
	pkg := w.All[modPath+"/cff"]
	if pkg == nil {
		r.Fatal("package cff not loaded")
		return
	}
	var fd *ast.FuncDecl
	for _, f := range pkg.Syntax {
		for _, d := range f.Decls {
			if x, ok := d.(*ast.FuncDecl); ok && x.Name.Name == "decodeCharString" {
				fd = x
			}
		}
	}
	if fd == nil {
		r.Fatal("decodeCharString not found")
		return
	}
	clauses := map[string]*ast.CaseClause{}
	ast.Inspect(fd.Body, func(n ast.Node) bool {
		if cc, ok := n.(*ast.CaseClause); ok {
			for _, e := range cc.List {
				clauses[types.ExprString(e)] = cc
			}
		}
		return true
	})
	ops := []string{"t2rmoveto", "t2hmoveto", "t2vmoveto", "t2rlineto", "t2hlineto", "t2vlineto", "t2rrcurveto", "t2rcurveline", "t2rlinecurve", "t2hhcurveto", "t2vvcurveto", "t2hvcurveto", "t2vhcurveto"}
	for _, op := range ops {
		cc := clauses[op]
		key := r.MkKey("decodesem", "decodeCharString", "operator "+strings.TrimPrefix(op, "t2"))
		if cc == nil {
			r.Fail("decodesem", key, w.Pos(fd.Pos()), "no case for "+op, nil)
			continue
		}
		bad := ""
		checked := 0
		for n := 1; n <= 17 && bad == ""; n++ {
			want, legal := pathSpec(op, n)
			if !legal {
				continue
			}
			in := &dsInterp{info: pkg.TypesInfo, fuel: 2000, st: &dsState{ints: map[string]int{}, bools: map[string]bool{}, nums: map[string]string{}, wins: map[string]dsWin{}, op: op, n: n}}
			in.block(cc.Body)
			checked++
			if in.err != "" {
				bad = fmt.Sprintf("with %d operands: %s", n, in.err)
				break
			}
			if fmt.Sprint(in.st.calls) != fmt.Sprint(want) {
				bad = fmt.Sprintf("with %d operands the interpreter draws %v, the operator is defined as %v", n, in.st.calls, want)
			}
		}
		if bad == "" {
			r.OK("decodesem", key, w.Pos(cc.Pos()), fmt.Sprintf("agrees with TN5177 for %d operand counts", checked))
		} else {
			r.Fail("decodesem", key, w.Pos(cc.Pos()), strings.TrimPrefix(op, "t2")+" "+bad, nil)
		}
	}
	r.Floor("decodesem", 13)
}

// ---- stacksem: arithmetic, logical and stack operators
//
// The case clauses of abs, add, sub, div, neg, eq, drop, ifelse, mul, sqrt,
// dup, exch, and, or, not are interpreted with a symbolic operand stack
// s0..s(n-1): arithmetic builds expression trees, comparisons of symbolic
// values fork the path.  The decision tree obtained (conditions -> resulting
// stack) is then compared with the operator's definition (TN5177 4.5) on a
// finite grid of operand values: what is evaluated are the extracted
// expression trees, not the library.

type ssExpr struct {
	op   string // "sym", "const", "+", "-", "*", "/", "neg", "abs", "sqrt"
	idx  int
	val  float64
	a, b *ssExpr
}

func (e *ssExpr) eval(v []float64) float64 {
	switch e.op {
	case "sym":
		return v[e.idx]
	case "const":
		return e.val
	case "+":
		return e.a.eval(v) + e.b.eval(v)
	case "-":
		return e.a.eval(v) - e.b.eval(v)
	case "*":
		return e.a.eval(v) * e.b.eval(v)
	case "/":
		return e.a.eval(v) / e.b.eval(v)
	case "neg":
		return -e.a.eval(v)
	case "abs":
		x := e.a.eval(v)
		if x < 0 {
			return -x
		}
		return x
	case "sqrt":
		x := e.a.eval(v)
		// Newton iteration is not needed: the grid only contains perfect squares and non-squares are compared through x*x
		return sqrtApprox(x)
	}
	return 0
}

func sqrtApprox(x float64) float64 {
	if x <= 0 {
		return 0
	}
	r := x
	for i := 0; i < 60; i++ {
		r = (r + x/r) / 2
	}
	return r
}

type ssCond struct {
	op   string // "<", "<=", "==", "!=", ">", ">="
	a, b *ssExpr
	want bool
}

func (c ssCond) holds(v []float64) bool {
	x, y := c.a.eval(v), c.b.eval(v)
	var r bool
	switch c.op {
	case "<":
		r = x < y
	case "<=":
		r = x <= y
	case "==":
		r = x == y
	case "!=":
		r = x != y
	case ">":
		r = x > y
	case ">=":
		r = x >= y
	}
	return r == c.want
}

type ssPath struct {
	conds []ssCond
	stack []*ssExpr
	nums  map[string]*ssExpr
	ints  map[string]int
	err   bool // the path returns an error
	done  bool
}

func (p *ssPath) clone() *ssPath {
	n := &ssPath{conds: append([]ssCond{}, p.conds...), stack: append([]*ssExpr{}, p.stack...), nums: map[string]*ssExpr{}, ints: map[string]int{}, err: p.err, done: p.done}
	for k, v := range p.nums {
		n.nums[k] = v
	}
	for k, v := range p.ints {
		n.ints[k] = v
	}
	return n
}

type ssInterp struct {
	info *types.Info
	err  string
}

func (in *ssInterp) fail(f string, a ...interface{}) {
	if in.err == "" {
		in.err = fmt.Sprintf(f, a...)
	}
}

func (in *ssInterp) intv(e ast.Expr, p *ssPath) (int, bool) {
	if tv, ok := in.info.Types[e]; ok && tv.Value != nil && tv.Value.Kind() == constant.Int {
		v, ok := constant.Int64Val(tv.Value)
		return int(v), ok
	}
	switch x := e.(type) {
	case *ast.ParenExpr:
		return in.intv(x.X, p)
	case *ast.Ident:
		v, ok := p.ints[x.Name]
		return v, ok
	case *ast.CallExpr:
		if id, ok := x.Fun.(*ast.Ident); ok && id.Name == "len" && len(x.Args) == 1 && types.ExprString(x.Args[0]) == "stack" {
			return len(p.stack), true
		}
	case *ast.BinaryExpr:
		a, ok1 := in.intv(x.X, p)
		b, ok2 := in.intv(x.Y, p)
		if ok1 && ok2 {
			switch x.Op {
			case token.ADD:
				return a + b, true
			case token.SUB:
				return a - b, true
			}
		}
	}
	return 0, false
}

func (in *ssInterp) numv(e ast.Expr, p *ssPath) (*ssExpr, bool) {
	if tv, ok := in.info.Types[e]; ok && tv.Value != nil {
		f, _ := constant.Float64Val(constant.ToFloat(tv.Value))
		return &ssExpr{op: "const", val: f}, true
	}
	switch x := e.(type) {
	case *ast.ParenExpr:
		return in.numv(x.X, p)
	case *ast.Ident:
		v, ok := p.nums[x.Name]
		return v, ok
	case *ast.IndexExpr:
		if types.ExprString(x.X) == "stack" {
			i, ok := in.intv(x.Index, p)
			if !ok || i < 0 || i >= len(p.stack) {
				in.fail("stack index %s not understood or out of range", types.ExprString(x.Index))
				return nil, false
			}
			return p.stack[i], true
		}
	case *ast.UnaryExpr:
		if x.Op == token.SUB {
			a, ok := in.numv(x.X, p)
			if !ok {
				return nil, false
			}
			return &ssExpr{op: "neg", a: a}, true
		}
	case *ast.BinaryExpr:
		a, ok1 := in.numv(x.X, p)
		b, ok2 := in.numv(x.Y, p)
		if !ok1 || !ok2 {
			return nil, false
		}
		switch x.Op {
		case token.ADD:
			return &ssExpr{op: "+", a: a, b: b}, true
		case token.SUB:
			return &ssExpr{op: "-", a: a, b: b}, true
		case token.MUL:
			return &ssExpr{op: "*", a: a, b: b}, true
		case token.QUO:
			return &ssExpr{op: "/", a: a, b: b}, true
		}
	case *ast.CallExpr:
		name := types.ExprString(x.Fun)
		if len(x.Args) == 1 {
			a, ok := in.numv(x.Args[0], p)
			if !ok {
				return nil, false
			}
			switch name {
			case "fix", "float64":
				return a, true
			case "math.Abs":
				return &ssExpr{op: "abs", a: a}, true
			case "math.Sqrt":
				return &ssExpr{op: "sqrt", a: a}, true
			}
		}
	}
	return nil, false
}

// cond forks p on a (possibly compound) condition.
func (in *ssInterp) cond(e ast.Expr, truth bool, p *ssPath) []*ssPath {
	switch x := e.(type) {
	case *ast.ParenExpr:
		return in.cond(x.X, truth, p)
	case *ast.UnaryExpr:
		if x.Op == token.NOT {
			return in.cond(x.X, !truth, p)
		}
	case *ast.BinaryExpr:
		switch x.Op {
		case token.LAND:
			if truth {
				var out []*ssPath
				for _, q := range in.cond(x.X, true, p) {
					out = append(out, in.cond(x.Y, true, q)...)
				}
				return out
			}
			out := in.cond(x.X, false, p)
			for _, q := range in.cond(x.X, true, p) {
				out = append(out, in.cond(x.Y, false, q)...)
			}
			return out
		case token.LOR:
			if truth {
				out := in.cond(x.X, true, p)
				for _, q := range in.cond(x.X, false, p) {
					out = append(out, in.cond(x.Y, true, q)...)
				}
				return out
			}
			var out []*ssPath
			for _, q := range in.cond(x.X, false, p) {
				out = append(out, in.cond(x.Y, false, q)...)
			}
			return out
		case token.LSS, token.LEQ, token.EQL, token.NEQ, token.GTR, token.GEQ:
			// integer comparison (k < 0): concrete
			if a, ok := in.intv(x.X, p); ok {
				if b, ok := in.intv(x.Y, p); ok {
					var v bool
					switch x.Op {
					case token.LSS:
						v = a < b
					case token.LEQ:
						v = a <= b
					case token.EQL:
						v = a == b
					case token.NEQ:
						v = a != b
					case token.GTR:
						v = a > b
					case token.GEQ:
						v = a >= b
					}
					if v == truth {
						return []*ssPath{p}
					}
					return nil
				}
			}
			a, ok1 := in.numv(x.X, p)
			b, ok2 := in.numv(x.Y, p)
			if ok1 && ok2 {
				q := p.clone()
				q.conds = append(q.conds, ssCond{op: x.Op.String(), a: a, b: b, want: truth})
				return []*ssPath{q}
			}
		}
	}
	in.fail("condition %s is not understood", types.ExprString(e))
	return nil
}

func (in *ssInterp) block(stmts []ast.Stmt, paths []*ssPath) []*ssPath {
	for _, s := range stmts {
		var next []*ssPath
		for _, p := range paths {
			if p.done || p.err {
				next = append(next, p)
				continue
			}
			next = append(next, in.stmt(s, p)...)
		}
		paths = next
		if in.err != "" {
			return nil
		}
	}
	return paths
}

func (in *ssInterp) setStack(lhs ast.Expr, v *ssExpr, p *ssPath) bool {
	ix, ok := lhs.(*ast.IndexExpr)
	if !ok || types.ExprString(ix.X) != "stack" {
		return false
	}
	i, ok := in.intv(ix.Index, p)
	if !ok || i < 0 || i >= len(p.stack) {
		in.fail("store to %s not understood", types.ExprString(lhs))
		return false
	}
	p.stack[i] = v
	return true
}

func (in *ssInterp) stmt(s ast.Stmt, p *ssPath) []*ssPath {
	switch x := s.(type) {
	case *ast.AssignStmt:
		p = p.clone()
		if len(x.Lhs) == 2 && len(x.Rhs) == 2 { // exchange
			a, ok1 := in.numv(x.Rhs[0], p)
			b, ok2 := in.numv(x.Rhs[1], p)
			if ok1 && ok2 && in.setStack(x.Lhs[0], a, p) && in.setStack(x.Lhs[1], b, p) {
				return []*ssPath{p}
			}
			in.fail("tuple assignment not understood")
			return nil
		}
		if len(x.Lhs) != 1 || len(x.Rhs) != 1 {
			in.fail("assignment form not understood")
			return nil
		}
		lhs, rhs := x.Lhs[0], x.Rhs[0]
		// stack = stack[:E]  /  stack = append(stack[:E], v...)  /  stack = append(stack, v)
		if types.ExprString(lhs) == "stack" {
			switch r := rhs.(type) {
			case *ast.SliceExpr:
				if types.ExprString(r.X) == "stack" && r.Low == nil && r.High != nil {
					if n, ok := in.intv(r.High, p); ok && n >= 0 && n <= len(p.stack) {
						p.stack = p.stack[:n]
						return []*ssPath{p}
					}
				}
			case *ast.CallExpr:
				if id, ok := r.Fun.(*ast.Ident); ok && id.Name == "append" && len(r.Args) >= 1 {
					base := p.stack
					if sl, ok := r.Args[0].(*ast.SliceExpr); ok && types.ExprString(sl.X) == "stack" && sl.Low == nil && sl.High != nil {
						n, ok := in.intv(sl.High, p)
						if !ok || n < 0 || n > len(p.stack) {
							in.fail("append base not understood")
							return nil
						}
						base = append([]*ssExpr{}, p.stack[:n]...)
					} else if types.ExprString(r.Args[0]) != "stack" {
						in.fail("append base not understood")
						return nil
					}
					for _, a := range r.Args[1:] {
						v, ok := in.numv(a, p)
						if !ok {
							in.fail("appended value %s not understood", types.ExprString(a))
							return nil
						}
						base = append(base, v)
					}
					p.stack = base
					return []*ssPath{p}
				}
			}
			in.fail("assignment to stack not understood: %s", types.ExprString(rhs))
			return nil
		}
		if _, isIdx := lhs.(*ast.IndexExpr); isIdx {
			var v *ssExpr
			var ok bool
			switch x.Tok {
			case token.ASSIGN:
				v, ok = in.numv(rhs, p)
			case token.ADD_ASSIGN, token.SUB_ASSIGN, token.MUL_ASSIGN, token.QUO_ASSIGN:
				var a, b *ssExpr
				var ok1, ok2 bool
				a, ok1 = in.numv(lhs, p)
				b, ok2 = in.numv(rhs, p)
				ok = ok1 && ok2
				if ok {
					op := map[token.Token]string{token.ADD_ASSIGN: "+", token.SUB_ASSIGN: "-", token.MUL_ASSIGN: "*", token.QUO_ASSIGN: "/"}[x.Tok]
					v = &ssExpr{op: op, a: a, b: b}
				}
			}
			if ok && in.setStack(lhs, v, p) {
				return []*ssPath{p}
			}
			in.fail("store %s not understood", types.ExprString(lhs))
			return nil
		}
		if id, ok := lhs.(*ast.Ident); ok {
			if n, ok := in.intv(rhs, p); ok {
				if tv, ok2 := in.info.Types[rhs]; ok2 && tv.Type != nil {
					if b, ok3 := tv.Type.Underlying().(*types.Basic); ok3 && b.Info()&types.IsInteger != 0 {
						p.ints[id.Name] = n
						return []*ssPath{p}
					}
				}
			}
			if v, ok := in.numv(rhs, p); ok {
				p.nums[id.Name] = v
				return []*ssPath{p}
			}
		}
		in.fail("assignment %s not understood", types.ExprString(lhs))
		return nil
	case *ast.DeclStmt:
		p = p.clone()
		if gd, ok := x.Decl.(*ast.GenDecl); ok {
			for _, sp := range gd.Specs {
				if vs, ok := sp.(*ast.ValueSpec); ok {
					for i, nm := range vs.Names {
						if len(vs.Values) > i {
							if v, ok := in.numv(vs.Values[i], p); ok {
								p.nums[nm.Name] = v
							}
						} else {
							p.nums[nm.Name] = &ssExpr{op: "const", val: 0}
						}
					}
				}
			}
		}
		return []*ssPath{p}
	case *ast.IfStmt:
		var out []*ssPath
		for _, q := range in.cond(x.Cond, true, p) {
			out = append(out, in.block(x.Body.List, []*ssPath{q})...)
		}
		for _, q := range in.cond(x.Cond, false, p) {
			switch e := x.Else.(type) {
			case nil:
				out = append(out, q)
			case *ast.BlockStmt:
				out = append(out, in.block(e.List, []*ssPath{q})...)
			case *ast.IfStmt:
				out = append(out, in.stmt(e, q)...)
			}
		}
		return out
	case *ast.ReturnStmt:
		p = p.clone()
		p.err = true
		return []*ssPath{p}
	case *ast.BlockStmt:
		return in.block(x.List, []*ssPath{p})
	}
	in.fail("statement not understood")
	return nil
}

// stackSpec: the definition of the operator on concrete operand values
// (top of stack last); ok=false when the result is undefined for these values.
func stackSpec(op string, v []float64) ([]float64, bool) {
	n := len(v)
	keep := func(k int) []float64 { return append([]float64{}, v[:n-k]...) }
	b2f := func(b bool) float64 {
		if b {
			return 1
		}
		return 0
	}
	switch op {
	case "t2abs":
		x := v[n-1]
		if x < 0 {
			x = -x
		}
		return append(keep(1), x), true
	case "t2add":
		return append(keep(2), v[n-2]+v[n-1]), true
	case "t2sub":
		return append(keep(2), v[n-2]-v[n-1]), true
	case "t2mul":
		return append(keep(2), v[n-2]*v[n-1]), true
	case "t2div":
		if v[n-1] == 0 {
			return nil, false
		}
		return append(keep(2), v[n-2]/v[n-1]), true
	case "t2neg":
		return append(keep(1), -v[n-1]), true
	case "t2sqrt":
		if v[n-1] < 0 {
			return nil, false
		}
		return append(keep(1), sqrtApprox(v[n-1])), true
	case "t2drop":
		return keep(1), true
	case "t2dup":
		return append(keep(0), v[n-1]), true
	case "t2exch":
		return append(keep(2), v[n-1], v[n-2]), true
	case "t2eq":
		return append(keep(2), b2f(v[n-2] == v[n-1])), true
	case "t2and":
		return append(keep(2), b2f(v[n-2] != 0 && v[n-1] != 0)), true
	case "t2or":
		return append(keep(2), b2f(v[n-2] != 0 || v[n-1] != 0)), true
	case "t2not":
		return append(keep(1), b2f(v[n-1] == 0)), true
	case "t2ifelse":
		// s1 s2 v1 v2 ifelse: s1 if v1 <= v2, else s2
		r := v[n-3]
		if v[n-2] <= v[n-1] {
			r = v[n-4]
		}
		return append(keep(4), r), true
	}
	return nil, false
}

func checkStackSem(w *World, r *Report) {
	r.Rule("stacksem: for abs, add, sub, mul, div, neg, sqrt, drop, dup, exch, eq, and, or, not, ifelse the case clause of decodeCharString is interpreted with a symbolic operand stack (arithmetic builds expression trees, comparisons of operands fork the path); on every point of a grid of operand values the path taken yields the stack TN5177 4.5 defines (operands below the arguments untouched, results in order, the comparison of ifelse is v1 <= v2)")
	pkg := w.All[modPath+"/cff"]
	if pkg == nil {
		r.Fatal("package cff not loaded")
		return
	}
	var fd *ast.FuncDecl
	for _, f := range pkg.Syntax {
		for _, d := range f.Decls {
			if x, ok := d.(*ast.FuncDecl); ok && x.Name.Name == "decodeCharString" {
				fd = x
			}
		}
	}
	if fd == nil {
		r.Fatal("decodeCharString not found")
		return
	}
	clauses := map[string]*ast.CaseClause{}
	ast.Inspect(fd.Body, func(n ast.Node) bool {
		if cc, ok := n.(*ast.CaseClause); ok {
			for _, e := range cc.List {
				clauses[types.ExprString(e)] = cc
			}
		}
		return true
	})
	arity := map[string]int{"t2abs": 1, "t2add": 2, "t2sub": 2, "t2mul": 2, "t2div": 2, "t2neg": 1, "t2sqrt": 1, "t2drop": 1, "t2dup": 1, "t2exch": 2, "t2eq": 2, "t2and": 2, "t2or": 2, "t2not": 1, "t2ifelse": 4}
	var ops []string
	for op := range arity {
		ops = append(ops, op)
	}
	sortStrings(ops)
	grid := []float64{-2, -1, 0, 1, 2, 4, 0.25}
	for _, op := range ops {
		key := r.MkKey("stacksem", "decodeCharString", "operator "+strings.TrimPrefix(op, "t2"))
		cc := clauses[op]
		if cc == nil {
			r.Fail("stacksem", key, w.Pos(fd.Pos()), "no case for "+op, nil)
			continue
		}
		n := arity[op] + 1 // one operand below the arguments must stay
		in := &ssInterp{info: pkg.TypesInfo}
		start := &ssPath{nums: map[string]*ssExpr{}, ints: map[string]int{}}
		for i := 0; i < n; i++ {
			start.stack = append(start.stack, &ssExpr{op: "sym", idx: i})
		}
		paths := in.block(cc.Body, []*ssPath{start})
		if in.err != "" {
			r.Fail("stacksem", key, w.Pos(cc.Pos()), strings.TrimPrefix(op, "t2")+": "+in.err, nil)
			continue
		}
		bad := ""
		vals := make([]float64, n)
		var rec func(i int)
		rec = func(i int) {
			if bad != "" {
				return
			}
			if i == n {
				want, defined := stackSpec(op, vals)
				if !defined {
					return
				}
				var taken *ssPath
				cnt := 0
				for _, p := range paths {
					ok := true
					for _, c := range p.conds {
						if !c.holds(vals) {
							ok = false
						}
					}
					if ok {
						taken = p
						cnt++
					}
				}
				if cnt != 1 {
					bad = fmt.Sprintf("for operands %v the case has %d applicable paths", vals, cnt)
					return
				}
				if taken.err {
					bad = fmt.Sprintf("for operands %v the case returns an error", vals)
					return
				}
				var got []float64
				for _, e := range taken.stack {
					got = append(got, e.eval(vals))
				}
				if len(got) != len(want) {
					bad = fmt.Sprintf("for operands %v the stack becomes %v, the operator is defined to leave %v", vals, got, want)
					return
				}
				for j := range got {
					d := got[j] - want[j]
					if d < -1e-9 || d > 1e-9 {
						bad = fmt.Sprintf("for operands %v the stack becomes %v, the operator is defined to leave %v", vals, got, want)
						return
					}
				}
				return
			}
			for _, g := range grid {
				vals[i] = g
				rec(i + 1)
			}
		}
		rec(0)
		if bad == "" {
			r.OK("stacksem", key, w.Pos(cc.Pos()), fmt.Sprintf("agrees with TN5177 on the operand grid (%d paths)", len(paths)))
		} else {
			r.Fail("stacksem", key, w.Pos(cc.Pos()), strings.TrimPrefix(op, "t2")+": "+bad, nil)
		}
	}
	r.Floor("stacksem", 15)
}

func sortStrings(s []string) {
	for i := 1; i < len(s); i++ {
		for j := i; j > 0 && s[j] < s[j-1]; j-- {
			s[j], s[j-1] = s[j-1], s[j]
		}
	}
}
