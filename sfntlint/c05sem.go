package main

import (
	"fmt"
	"go/ast"
	"go/constant"
	"go/token"
	"go/types"
	"strings"
)

// decodesem: the path operators of the Type 2 interpreter, decided by a
// bounded interpretation of their case clauses in decodeCharString: the
// operand stack has a concrete length n and symbolic entries s0..s(n-1);
// control (loop conditions on len, the horizontal/vertical toggle, the
// operator comparison) is evaluated concretely, data symbolically.  The
// sequence of rLineTo/rCurveTo calls is compared with the operator's
// definition in TN5177 4.1 for every legal n up to a bound.

type dsWin struct{ off, n int } // a window of the operand stack

type dsState struct {
	ints   map[string]int
	bools  map[string]bool
	nums   map[string]string // float variables: symbolic value
	wins   map[string]dsWin
	calls  []string
	op     string
	n      int
	base   int // operands consumed from the bottom of the stack (the width)
	broken bool
}

type dsInterp struct {
	info *types.Info
	err  string
	st   *dsState
	fuel int
}

func (in *dsInterp) fail(f string, a ...interface{}) {
	if in.err == "" {
		in.err = fmt.Sprintf(f, a...)
	}
}

func (in *dsInterp) win(e ast.Expr) (dsWin, bool) {
	switch x := e.(type) {
	case *ast.Ident:
		if x.Name == "stack" {
			return dsWin{in.st.base, in.st.n - in.st.base}, true
		}
		w, ok := in.st.wins[x.Name]
		return w, ok
	case *ast.SliceExpr:
		w, ok := in.win(x.X)
		if !ok {
			return dsWin{}, false
		}
		lo, hi := 0, w.n
		if x.Low != nil {
			v, ok := in.intv(x.Low)
			if !ok {
				return dsWin{}, false
			}
			lo = v
		}
		if x.High != nil {
			v, ok := in.intv(x.High)
			if !ok {
				return dsWin{}, false
			}
			hi = v
		}
		if lo < 0 || hi > w.n || lo > hi {
			in.fail("slice %s out of range for a stack of %d operands", types.ExprString(e), in.st.n)
			return dsWin{}, false
		}
		return dsWin{w.off + lo, hi - lo}, true
	}
	return dsWin{}, false
}

func (in *dsInterp) intv(e ast.Expr) (int, bool) {
	if tv, ok := in.info.Types[e]; ok && tv.Value != nil && tv.Value.Kind() == constant.Int {
		v, ok := constant.Int64Val(tv.Value)
		return int(v), ok
	}
	switch x := e.(type) {
	case *ast.ParenExpr:
		return in.intv(x.X)
	case *ast.Ident:
		v, ok := in.st.ints[x.Name]
		return v, ok
	case *ast.CallExpr:
		if id, ok := x.Fun.(*ast.Ident); ok && id.Name == "len" && len(x.Args) == 1 {
			if w, ok := in.win(x.Args[0]); ok {
				return w.n, true
			}
		}
	case *ast.BinaryExpr:
		a, ok1 := in.intv(x.X)
		b, ok2 := in.intv(x.Y)
		if !ok1 || !ok2 {
			return 0, false
		}
		switch x.Op {
		case token.ADD:
			return a + b, true
		case token.SUB:
			return a - b, true
		case token.MUL:
			return a * b, true
		case token.REM:
			if b != 0 {
				return a % b, true
			}
		case token.QUO:
			if b != 0 {
				return a / b, true
			}
		}
	}
	return 0, false
}

func (in *dsInterp) boolv(e ast.Expr) (bool, bool) {
	switch x := e.(type) {
	case *ast.ParenExpr:
		return in.boolv(x.X)
	case *ast.Ident:
		v, ok := in.st.bools[x.Name]
		return v, ok
	case *ast.UnaryExpr:
		if x.Op == token.NOT {
			v, ok := in.boolv(x.X)
			return !v, ok
		}
	case *ast.BinaryExpr:
		switch x.Op {
		case token.LAND:
			a, ok := in.boolv(x.X)
			if !ok {
				return false, false
			}
			if !a {
				return false, true
			}
			return in.boolv(x.Y)
		case token.LOR:
			a, ok := in.boolv(x.X)
			if !ok {
				return false, false
			}
			if a {
				return true, true
			}
			return in.boolv(x.Y)
		case token.EQL, token.NEQ:
			// op == t2xxx
			if id, ok := x.X.(*ast.Ident); ok && id.Name == "op" {
				eq := types.ExprString(x.Y) == in.st.op
				return eq == (x.Op == token.EQL), true
			}
			fallthrough
		case token.LSS, token.LEQ, token.GTR, token.GEQ:
			a, ok1 := in.intv(x.X)
			b, ok2 := in.intv(x.Y)
			if !ok1 || !ok2 {
				return false, false
			}
			switch x.Op {
			case token.EQL:
				return a == b, true
			case token.NEQ:
				return a != b, true
			case token.LSS:
				return a < b, true
			case token.LEQ:
				return a <= b, true
			case token.GTR:
				return a > b, true
			case token.GEQ:
				return a >= b, true
			}
		}
	}
	return false, false
}

func (in *dsInterp) numv(e ast.Expr) (string, bool) {
	if tv, ok := in.info.Types[e]; ok && tv.Value != nil {
		if constant.Sign(tv.Value) == 0 {
			return "0", true
		}
		return tv.Value.String(), true
	}
	switch x := e.(type) {
	case *ast.ParenExpr:
		return in.numv(x.X)
	case *ast.Ident:
		v, ok := in.st.nums[x.Name]
		return v, ok
	case *ast.UnaryExpr:
		if x.Op == token.SUB {
			v, ok := in.numv(x.X)
			if !ok {
				return "", false
			}
			if v == "0" {
				return "0", true
			}
			if strings.HasPrefix(v, "-") {
				return v[1:], true
			}
			return "-" + v, true
		}
	case *ast.IndexExpr:
		w, ok := in.win(x.X)
		i, ok2 := in.intv(x.Index)
		if !ok || !ok2 {
			return "", false
		}
		if i < 0 || i >= w.n {
			in.fail("operand index %s out of range for a stack of %d operands", types.ExprString(e), in.st.n)
			return "", false
		}
		return fmt.Sprintf("s%d", w.off+i), true
	}
	return "", false
}

func (in *dsInterp) assign(lhs ast.Expr, rhs ast.Expr, define bool) {
	id, ok := lhs.(*ast.Ident)
	if !ok {
		in.fail("assignment to %s is not understood", types.ExprString(lhs))
		return
	}
	if w, ok := in.win(rhs); ok {
		in.st.wins[id.Name] = w
		return
	}
	if v, ok := in.boolv(rhs); ok {
		if _, isInt := in.intv(rhs); !isInt {
			in.st.bools[id.Name] = v
			return
		}
	}
	if v, ok := in.intv(rhs); ok {
		if tv, ok2 := in.info.Types[rhs]; ok2 && tv.Type != nil {
			if b, ok3 := tv.Type.Underlying().(*types.Basic); ok3 && b.Info()&types.IsFloat != 0 {
				goto num
			}
		}
		in.st.ints[id.Name] = v
		return
	}
num:
	if v, ok := in.numv(rhs); ok {
		in.st.nums[id.Name] = v
		return
	}
	in.fail("value of %s is not understood", types.ExprString(rhs))
}

func (in *dsInterp) block(stmts []ast.Stmt) {
	for _, s := range stmts {
		if in.err != "" || in.st.broken {
			return
		}
		in.stmt(s)
	}
}

func (in *dsInterp) stmt(s ast.Stmt) {
	in.fuel--
	if in.fuel < 0 {
		in.fail("interpretation does not finish")
		return
	}
	switch x := s.(type) {
	case *ast.AssignStmt:
		switch {
		case len(x.Lhs) == len(x.Rhs) && (x.Tok == token.ASSIGN || x.Tok == token.DEFINE):
			// tuple assignment: evaluate right-hand sides first
			if len(x.Lhs) == 2 {
				v0, ok0 := in.numv(x.Rhs[0])
				w1, ok1 := in.win(x.Rhs[1])
				if ok0 && ok1 {
					in.st.nums[x.Lhs[0].(*ast.Ident).Name] = v0
					in.st.wins[x.Lhs[1].(*ast.Ident).Name] = w1
					return
				}
				in.fail("tuple assignment %s is not understood", types.ExprString(x.Lhs[0]))
				return
			}
			in.assign(x.Lhs[0], x.Rhs[0], x.Tok == token.DEFINE)
		case len(x.Lhs) == 1 && len(x.Rhs) == 1 && (x.Tok == token.ADD_ASSIGN || x.Tok == token.SUB_ASSIGN):
			id, ok := x.Lhs[0].(*ast.Ident)
			a, ok1 := in.st.ints[types.ExprString(x.Lhs[0])]
			b, ok2 := in.intv(x.Rhs[0])
			if !ok || !ok1 || !ok2 {
				in.fail("compound assignment to %s is not understood", types.ExprString(x.Lhs[0]))
				return
			}
			if x.Tok == token.ADD_ASSIGN {
				in.st.ints[id.Name] = a + b
			} else {
				in.st.ints[id.Name] = a - b
			}
		default:
			in.fail("assignment form not understood")
		}
	case *ast.DeclStmt:
		if gd, ok := x.Decl.(*ast.GenDecl); ok {
			for _, sp := range gd.Specs {
				if vs, ok := sp.(*ast.ValueSpec); ok {
					for i, nm := range vs.Names {
						if len(vs.Values) > i {
							in.assign(nm, vs.Values[i], true)
						} else {
							in.st.nums[nm.Name] = "0"
						}
					}
				}
			}
		}
	case *ast.ExprStmt:
		call, ok := x.X.(*ast.CallExpr)
		if !ok {
			return
		}
		id, ok := call.Fun.(*ast.Ident)
		if !ok {
			return
		}
		switch id.Name {
		case "rLineTo", "rCurveTo", "rMoveTo":
			var args []string
			for _, a := range call.Args {
				v, ok := in.numv(a)
				if !ok {
					in.fail("argument %s of %s is not understood", types.ExprString(a), id.Name)
					return
				}
				args = append(args, v)
			}
			in.st.calls = append(in.st.calls, id.Name+"("+strings.Join(args, ",")+")")
		case "clearStack":
			in.st.broken = true
		case "setGlyphWidth":
			// the first stack-clearing operator: an extra bottom operand is the width
			if len(call.Args) == 1 {
				c, ok := in.boolv(call.Args[0])
				if !ok {
					in.fail("argument of setGlyphWidth is not understood")
					return
				}
				if c {
					in.st.calls = append(in.st.calls, fmt.Sprintf("width(s%d)", in.st.base))
					in.st.base++
				}
			}
		}
	case *ast.IfStmt:
		c, ok := in.boolv(x.Cond)
		if !ok {
			in.fail("condition %s is not understood", types.ExprString(x.Cond))
			return
		}
		if c {
			in.block(x.Body.List)
		} else if x.Else != nil {
			switch e := x.Else.(type) {
			case *ast.BlockStmt:
				in.block(e.List)
			case *ast.IfStmt:
				in.stmt(e)
			}
		}
	case *ast.ForStmt:
		for {
			if x.Cond != nil {
				c, ok := in.boolv(x.Cond)
				if !ok {
					in.fail("loop condition %s is not understood", types.ExprString(x.Cond))
					return
				}
				if !c {
					return
				}
			}
			in.block(x.Body.List)
			if in.err != "" || in.st.broken {
				return
			}
			if x.Post != nil {
				in.stmt(x.Post)
			}
			in.fuel--
			if in.fuel < 0 {
				in.fail("interpretation does not finish")
				return
			}
		}
	case *ast.RangeStmt:
		w, ok := in.win(x.X)
		if !ok {
			in.fail("range over %s is not understood", types.ExprString(x.X))
			return
		}
		for i := 0; i < w.n; i++ {
			if id, ok := x.Key.(*ast.Ident); ok && id.Name != "_" {
				in.st.ints[id.Name] = i
			}
			if id, ok := x.Value.(*ast.Ident); ok && id.Name != "_" {
				in.st.nums[id.Name] = fmt.Sprintf("s%d", w.off+i)
			}
			in.block(x.Body.List)
			if in.err != "" || in.st.broken {
				return
			}
		}
	case *ast.IncDecStmt:
		if id, ok := x.X.(*ast.Ident); ok {
			if v, ok := in.st.ints[id.Name]; ok {
				if x.Tok == token.INC {
					in.st.ints[id.Name] = v + 1
				} else {
					in.st.ints[id.Name] = v - 1
				}
			}
		}
	case *ast.BlockStmt:
		in.block(x.List)
	default:
		in.fail("statement at %v is not understood", s.Pos())
	}
}

// pathSpec: the drawing calls TN5177 4.1 prescribes for operator op with n operands (nil: n is not a legal count).
func pathSpec(op string, n int) ([]string, bool) {
	s := func(i int) string { return fmt.Sprintf("s%d", i) }
	var out []string
	line := func(a, b string) { out = append(out, "rLineTo("+a+","+b+")") }
	curve := func(a ...string) { out = append(out, "rCurveTo("+strings.Join(a, ",")+")") }
	switch op {
	case "t2rmoveto", "t2hmoveto", "t2vmoveto":
		k := 2
		if op != "t2rmoveto" {
			k = 1
		}
		if n != k && n != k+1 {
			return nil, false
		}
		b := 0
		if n == k+1 {
			out = append(out, "width(s0)")
			b = 1
		}
		switch op {
		case "t2rmoveto":
			out = append(out, "rMoveTo("+s(b)+","+s(b+1)+")")
		case "t2hmoveto":
			out = append(out, "rMoveTo("+s(b)+",0)")
		default:
			out = append(out, "rMoveTo(0,"+s(b)+")")
		}
	case "t2rlineto":
		if n < 2 || n%2 != 0 {
			return nil, false
		}
		for i := 0; i < n; i += 2 {
			line(s(i), s(i+1))
		}
	case "t2hlineto", "t2vlineto":
		if n < 1 {
			return nil, false
		}
		h := op == "t2hlineto"
		for i := 0; i < n; i++ {
			if h {
				line(s(i), "0")
			} else {
				line("0", s(i))
			}
			h = !h
		}
	case "t2rrcurveto":
		if n < 6 || n%6 != 0 {
			return nil, false
		}
		for i := 0; i < n; i += 6 {
			curve(s(i), s(i+1), s(i+2), s(i+3), s(i+4), s(i+5))
		}
	case "t2rcurveline":
		if n < 8 || (n-2)%6 != 0 {
			return nil, false
		}
		i := 0
		for ; i+6 <= n-2; i += 6 {
			curve(s(i), s(i+1), s(i+2), s(i+3), s(i+4), s(i+5))
		}
		line(s(n-2), s(n-1))
	case "t2rlinecurve":
		if n < 8 || (n-6)%2 != 0 {
			return nil, false
		}
		i := 0
		for ; i+2 <= n-6; i += 2 {
			line(s(i), s(i+1))
		}
		curve(s(i), s(i+1), s(i+2), s(i+3), s(i+4), s(i+5))
	case "t2hhcurveto", "t2vvcurveto":
		if n < 4 || n%4 > 1 {
			return nil, false
		}
		first := "0"
		i := 0
		if n%4 == 1 {
			first, i = s(0), 1
		}
		for ; i+4 <= n; i += 4 {
			if op == "t2hhcurveto" {
				curve(s(i), first, s(i+1), s(i+2), s(i+3), "0")
			} else {
				curve(first, s(i), s(i+1), s(i+2), "0", s(i+3))
			}
			first = "0"
		}
	case "t2hvcurveto", "t2vhcurveto":
		if n < 4 || n%4 > 1 {
			return nil, false
		}
		h := op == "t2hvcurveto"
		k := n / 4
		for c := 0; c < k; c++ {
			i := 4 * c
			extra := "0"
			if c == k-1 && n%4 == 1 {
				extra = s(n - 1)
			}
			if h {
				curve(s(i), "0", s(i+1), s(i+2), extra, s(i+3))
			} else {
				curve("0", s(i), s(i+1), s(i+2), s(i+3), extra)
			}
			h = !h
		}
	default:
		return nil, false
	}
	return out, true
}

func checkDecodeSem(w *World, r *Report) {
	r.Rule("decodesem: for rmoveto, hmoveto, vmoveto (with and without the leading width operand), rlineto, hlineto, vlineto, rrcurveto, rcurveline, rlinecurve, hhcurveto, vvcurveto, hvcurveto, vhcurveto the case clause of decodeCharString, interpreted with a concrete operand count n (every legal n up to 17) and symbolic operands, issues exactly the rLineTo/rCurveTo calls that TN5177 4.1 defines for that operator and count — which operand becomes which delta, the horizontal/vertical alternation, the optional leading operand of hh/vvcurveto and the trailing one of hv/vhcurveto")
	pkg := w.All[modPath+"/cff"]
	if pkg == nil {
		r.Fatal("package cff not loaded")
		return
	}
	var fd *ast.FuncDecl
	for _, f := range pkg.Syntax {
		for _, d := range f.Decls {
			if x, ok := d.(*ast.FuncDecl); ok && x.Name.Name == "decodeCharString" {
				fd = x
			}
		}
	}
	if fd == nil {
		r.Fatal("decodeCharString not found")
		return
	}
	clauses := map[string]*ast.CaseClause{}
	ast.Inspect(fd.Body, func(n ast.Node) bool {
		if cc, ok := n.(*ast.CaseClause); ok {
			for _, e := range cc.List {
				clauses[types.ExprString(e)] = cc
			}
		}
		return true
	})
	ops := []string{"t2rmoveto", "t2hmoveto", "t2vmoveto", "t2rlineto", "t2hlineto", "t2vlineto", "t2rrcurveto", "t2rcurveline", "t2rlinecurve", "t2hhcurveto", "t2vvcurveto", "t2hvcurveto", "t2vhcurveto"}
	for _, op := range ops {
		cc := clauses[op]
		key := r.MkKey("decodesem", "decodeCharString", "operator "+strings.TrimPrefix(op, "t2"))
		if cc == nil {
			r.Fail("decodesem", key, w.Pos(fd.Pos()), "no case for "+op, nil)
			continue
		}
		bad := ""
		checked := 0
		for n := 1; n <= 17 && bad == ""; n++ {
			want, legal := pathSpec(op, n)
			if !legal {
				continue
			}
			in := &dsInterp{info: pkg.TypesInfo, fuel: 2000, st: &dsState{ints: map[string]int{}, bools: map[string]bool{}, nums: map[string]string{}, wins: map[string]dsWin{}, op: op, n: n}}
			in.block(cc.Body)
			checked++
			if in.err != "" {
				bad = fmt.Sprintf("with %d operands: %s", n, in.err)
				break
			}
			if fmt.Sprint(in.st.calls) != fmt.Sprint(want) {
				bad = fmt.Sprintf("with %d operands the interpreter draws %v, the operator is defined as %v", n, in.st.calls, want)
			}
		}
		if bad == "" {
			r.OK("decodesem", key, w.Pos(cc.Pos()), fmt.Sprintf("agrees with TN5177 for %d operand counts", checked))
		} else {
			r.Fail("decodesem", key, w.Pos(cc.Pos()), strings.TrimPrefix(op, "t2")+" "+bad, nil)
		}
	}
	r.Floor("decodesem", 13)
}
