package main

// nohistory: what an encoder or decoder returns is a function of its
// arguments. A package-level variable that is written after initialisation
// (a cache, a "last result") makes the result depend on earlier calls — with
// a lock it is free of data races and still wrong when the cached answer
// belongs to a slightly different question.

import (
	"go/token"

	"golang.org/x/tools/go/ssa"
)

func RunNoHistory(w *World, r *Report, suffixes ...string) {
	r.Rule("nohistory: in the listed packages no function other than the package initialiser stores into a package-level variable (directly, into a field or element of it, or through a map update): results do not depend on what was encoded or decoded before")
	in := map[string]bool{}
	for _, s := range suffixes {
		in[modPath+s] = true
	}
	n := 0
	var fns []*ssa.Function
	for _, fn := range w.LibFuncs() {
		if in[fnPkgPath(fn)] {
			fns = append(fns, fn)
		}
	}
	n = noHistoryIn(w, r, fns)
	RunControl(r, "nohistory", "ctlNoHistoryBad", func(cw *World, cr *Report, cf []*ssa.Function) { noHistoryIn(cw, cr, cf) })
	r.OK("nohistory", r.MkKey("nohistory", "scope", "packages examined"), "-", itoa(len(suffixes))+" packages, "+itoa(n)+" stores into package variables outside init")
}

func noHistoryIn(w *World, r *Report, fns []*ssa.Function) int {
	n := 0
	rootGlobal := func(v ssa.Value) *ssa.Global {
		for i := 0; i < 8; i++ {
			switch x := v.(type) {
			case *ssa.Global:
				return x
			case *ssa.FieldAddr:
				v = x.X
			case *ssa.IndexAddr:
				v = x.X
			case *ssa.UnOp:
				if x.Op == token.MUL {
					v = x.X
					continue
				}
				return nil
			default:
				return nil
			}
		}
		return nil
	}
	for _, fn := range fns {
		if fn.Name() == "init" || (fn.Parent() != nil && fn.Parent().Name() == "init") {
			continue
		}
		for _, b := range fn.Blocks {
			for _, ins := range b.Instrs {
				var g *ssa.Global
				switch x := ins.(type) {
				case *ssa.Store:
					g = rootGlobal(x.Addr)
				case *ssa.MapUpdate:
					g = rootGlobal(x.Map)
				}
				if g == nil || g.Pkg == nil || g.Pkg != fn.Pkg {
					continue
				}
				n++
				key := r.MkKey("nohistory", fnName(fn), "store into package variable "+g.Name())
				r.Fail("nohistory", key, w.Pos(ins.Pos()), "the package-level variable "+g.Name()+" is written here, outside package initialisation: what this package returns later depends on this call (a cached result is handed out for a question that is only nearly the same, or a table is edited for everyone)", nil)
			}
		}
	}
	return n
}
