package main

import (
	"fmt"
	"go/ast"
	"go/token"
	"go/types"
	"regexp"
	"sort"
	"strings"

	"golang.org/x/tools/go/ssa"
)

// boundsRun holds the provers of one analysis run.
type lenContract struct {
	param int  // index into the callee's parameters (receiver first)
	ofLen bool // the length of that parameter rather than its value
}

type boundsRun struct {
	covPairs []covPair
	riMemo  map[*ssa.Function]bool
	lcMemo  map[*ssa.Function]*lenContract
	lcBusy  map[*ssa.Function]bool
	nnMemo  map[nnKey]int // 0 unknown, 1 result shown >= 0, 2 not shown, 3 in progress
	nnrMemo map[nnrKey]int
	capMemo map[*ssa.FreeVar]int
	fieldMemo map[string]int
	liftDepth int
	nilMode bool // rule nilderef: assumption A5 becomes an entry fact
	w       *World
	mem     *memInfo
	provers map[*ssa.Function]*bprover
	scope   map[*ssa.Function]bool
}

func newBoundsRun(w *World) *boundsRun {
	return &boundsRun{w: w, mem: newMemInfo(w), provers: map[*ssa.Function]*bprover{}}
}

func (br *boundsRun) prover(fn *ssa.Function) *bprover {
	if p, ok := br.provers[fn]; ok {
		return p
	}
	p := newProver(br.w, fn, br.mem)
	p.br = br
	br.provers[fn] = p
	p.entryFacts = append(p.entryFacts, br.callbackFacts(p)...)
	p.entryFacts = append(p.entryFacts, p.contractEntryFacts()...)
	p.entryFacts = append(p.entryFacts, p.parserEntryFacts()...)
	if br.nilMode {
		p.entryFacts = append(p.entryFacts, p.nilEntryFacts()...)
	}
	return p
}

// libReach: library functions reachable from the entries through calls
// between library functions; package sort/slices are traversed (their
// callbacks run library code), other external code is not (Stringers and
// error formatting reached through fmt are not part of decoding).
func (w *World) libReach(entries []*ssa.Function) map[*ssa.Function]bool {
	seen := map[*ssa.Function]bool{}
	var work []*ssa.Function
	push := func(f *ssa.Function) {
		if f == nil || seen[f] {
			return
		}
		pp := fnPkgPath(f)
		if !(isLibPkg(pp) || strings.HasPrefix(pp, "seehuhn.de/go/postscript")) {
			return
		}
		seen[f] = true
		work = append(work, f)
	}
	for _, e := range entries {
		push(e)
	}
	for len(work) > 0 {
		f := work[len(work)-1]
		work = work[:len(work)-1]
		if n := w.CG.Nodes[f]; n != nil {
			for _, e := range n.Out {
				push(e.Callee.Func)
			}
		}
		for _, af := range f.AnonFuncs {
			push(af)
		}
		// values handed to package sort as sort.Interface: their methods run
		for _, b := range f.Blocks {
			for _, in := range b.Instrs {
				mi, ok := in.(*ssa.MakeInterface)
				if !ok {
					continue
				}
				if nt, ok := mi.Type().(*types.Named); !ok || nt.Obj().Pkg() == nil || nt.Obj().Pkg().Path() != "sort" {
					continue
				}
				ms := w.Prog.MethodSets.MethodSet(mi.X.Type())
				for i := 0; i < ms.Len(); i++ {
					push(w.Prog.MethodValue(ms.At(i)))
				}
			}
		}
	}
	res := map[*ssa.Function]bool{}
	for f := range seen {
		if isLibPkg(fnPkgPath(f)) && f.Blocks != nil {
			res[f] = true
		}
	}
	return res
}

// callbackFacts: contracts of callbacks handed to package sort, and of
// sort.Interface methods.
func (br *boundsRun) callbackFacts(p *bprover) []bfact {
	fn := p.fn
	var res []bfact
	idxFacts := func(param *ssa.Parameter, slice ssa.Value, why string) {
		i := p.linOf(param)
		res = append(res, bfact{e: i, why: why})
		if e, ok := p.lenOf(slice).sub(i); ok {
			res = append(res, bfact{e: e.addc(-1), why: why})
		}
	}
	// sort.Interface methods on slice types
	if fn.Signature.Recv() != nil && (fn.Name() == "Less" || fn.Name() == "Swap") && len(fn.Params) == 3 {
		if _, ok := fn.Params[0].Type().Underlying().(*types.Slice); ok && br.onlyCalledFrom(fn, "sort") && br.lenMethodIsLen(fn) {
			idxFacts(fn.Params[1], fn.Params[0], "sort.Interface contract")
			idxFacts(fn.Params[2], fn.Params[0], "sort.Interface contract")
		}
		return res
	}
	parent := fn.Parent()
	if parent == nil {
		return nil
	}
	// find the MakeClosure
	var mc *ssa.MakeClosure
	for _, b := range parent.Blocks {
		for _, in := range b.Instrs {
			if m, ok := in.(*ssa.MakeClosure); ok && m.Fn == fn {
				if mc != nil {
					return nil
				}
				mc = m
			}
		}
	}
	if mc == nil {
		return nil
	}
	refs := *mc.Referrers()
	if len(refs) != 1 {
		return nil
	}
	call, ok := refs[0].(*ssa.Call)
	if !ok {
		return nil
	}
	callee := call.Call.StaticCallee()
	if callee == nil || callee.Pkg == nil || callee.Pkg.Pkg.Path() != "sort" {
		return nil
	}
	// the slice (or its length) at the call must be a load of a captured cell
	var cell ssa.Value
	nIdx := 0
	switch callee.Name() {
	case "Slice", "SliceStable", "SliceIsSorted":
		a := call.Call.Args[0]
		if mi, ok := a.(*ssa.MakeInterface); ok {
			a = mi.X
		}
		if ld, ok := a.(*ssa.UnOp); ok && ld.Op == token.MUL {
			cell = ld.X
		}
		nIdx = 2
	case "Search":
		a := call.Call.Args[0]
		if c, ok := a.(*ssa.Call); ok {
			if b, ok := c.Call.Value.(*ssa.Builtin); ok && b.Name() == "len" {
				if ld, ok := c.Call.Args[0].(*ssa.UnOp); ok && ld.Op == token.MUL {
					cell = ld.X
				}
			}
		}
		nIdx = 1
	}
	if cell == nil || len(fn.Params) < nIdx {
		return nil
	}
	var fv *ssa.FreeVar
	for i, b := range mc.Bindings {
		if b == cell {
			fv = fn.FreeVars[i]
		}
	}
	if fv == nil {
		return nil
	}
	// the callback must not assign the captured slice variable
	var hasStore func(f *ssa.Function, v ssa.Value) bool
	hasStore = func(f *ssa.Function, v ssa.Value) bool {
		for _, b := range f.Blocks {
			for _, in := range b.Instrs {
				switch x := in.(type) {
				case *ssa.Store:
					if x.Addr == v {
						return true
					}
				case *ssa.MakeClosure:
					for i, bd := range x.Bindings {
						if bd == v && hasStore(x.Fn.(*ssa.Function), x.Fn.(*ssa.Function).FreeVars[i]) {
							return true
						}
					}
				}
			}
		}
		return false
	}
	if hasStore(fn, fv) {
		return nil
	}
	for _, b := range fn.Blocks {
		for _, in := range b.Instrs {
			if ld, ok := in.(*ssa.UnOp); ok && ld.Op == token.MUL && ld.X == ssa.Value(fv) {
				for k := 0; k < nIdx; k++ {
					idxFacts(fn.Params[k], ld, "sort."+callee.Name()+" callback contract")
				}
			}
		}
	}
	return res
}

func (br *boundsRun) onlyCalledFrom(fn *ssa.Function, pkg string) bool {
	n := br.w.CG.Nodes[fn]
	if n == nil {
		return true
	}
	for _, e := range n.In {
		if fnPkgPath(e.Caller.Func) != pkg {
			return false
		}
	}
	return true
}

// lenMethodIsLen: the receiver type's Len method returns len(receiver).
func (br *boundsRun) lenMethodIsLen(fn *ssa.Function) bool {
	recv := fn.Signature.Recv().Type()
	m := br.w.Prog.LookupMethod(recv, fn.Pkg.Pkg, "Len")
	if m == nil || len(m.Blocks) != 1 {
		return false
	}
	for _, in := range m.Blocks[0].Instrs {
		if ret, ok := in.(*ssa.Return); ok && len(ret.Results) == 1 {
			if c, ok := ret.Results[0].(*ssa.Call); ok {
				if b, ok := c.Call.Value.(*ssa.Builtin); ok && b.Name() == "len" && c.Call.Args[0] == ssa.Value(m.Params[0]) {
					return true
				}
			}
		}
	}
	return false
}

var tempName = regexp.MustCompile(`\bt[0-9]+\b|0x[0-9a-f]+`)

// siteText renders the source expression of a site for stable keys.
func (br *boundsRun) siteText(s boundSite) string {
	pos := s.ins.Pos()
	fn := s.fn
	for fn.Parent() != nil && fn.Syntax() == nil {
		fn = fn.Parent()
	}
	if pos.IsValid() {
		if pkg := br.w.PkgOf(s.fn); pkg != nil {
			for _, f := range pkg.Syntax {
				if f.Pos() <= pos && pos <= f.End() {
					path := pathEnclosing(f, pos, pos)
					for _, n := range path {
						switch x := n.(type) {
						case *ast.IndexExpr:
							if s.kind == "index" || s.kind == "nilderef" {
								return types.ExprString(x)
							}
						case *ast.SliceExpr:
							if s.kind == "slice" {
								return types.ExprString(x)
							}
						case *ast.BinaryExpr:
							if s.kind == "div" {
								return types.ExprString(x)
							}
						case *ast.CallExpr:
							if s.kind == "makeslice" {
								return types.ExprString(x)
							}
							if s.kind == "nilderef" {
								return types.ExprString(x.Fun) + "(…)"
							}
						case *ast.SelectorExpr:
							if s.kind == "nilderef" {
								return types.ExprString(x)
							}
						case *ast.StarExpr:
							if s.kind == "nilderef" {
								return types.ExprString(x)
							}
						case *ast.RangeStmt:
							return "range " + types.ExprString(x.X)
						case *ast.AssignStmt:
							if len(x.Lhs) == 1 {
								return types.ExprString(x.Lhs[0]) + " " + x.Tok.String() + " …"
							}
						}
					}
				}
			}
		}
	}
	return tempName.ReplaceAllString(s.descr, "_")
}

type siteResult struct {
	site   boundSite
	ok     bool
	failed string
	how    string
}

// analyse decides all sites of the functions in scope, lifting
// parameter-only obligations of internal functions to their call sites.
func (br *boundsRun) analyse(fns []*ssa.Function) map[*ssa.Function][]siteResult {
	br.scope = map[*ssa.Function]bool{}
	for _, f := range fns {
		br.scope[f] = true
	}
	results := map[*ssa.Function][]siteResult{}
	decideAll := func(fn *ssa.Function) {
		p := br.prover(fn)
		sites := p.sitesOf()
		sort.SliceStable(sites, func(i, j int) bool { return siteLess(br.w, sites[i], sites[j]) })
		var rs []siteResult
		for _, s := range sites {
			ok, why := p.decide(s)
			rs = append(rs, siteResult{site: s, ok: ok, failed: why})
		}
		results[fn] = rs
	}
	for _, fn := range fns {
		decideAll(fn)
	}
	// lifting rounds
	for round := 0; round < 4; round++ {
		progress := false
		for _, fn := range fns {
			if !br.liftable(fn) {
				continue
			}
			p := br.prover(fn)
			newFacts := 0
			for _, r := range results[fn] {
				if r.ok {
					continue
				}
				for _, g := range r.site.goals {
					if p.proveAt(r.site.ins.Block(), g) {
						continue
					}
					if !br.paramOnly(fn, g) {
						continue
					}
					if br.provenAtCallers(fn, g) {
						p.entryFacts = append(p.entryFacts, bfact{e: g, why: "precondition established at every call site"})
						newFacts++
					}
				}
			}
			if newFacts > 0 {
				// reset caches that depend on facts
				p.gcache = map[*ssa.BasicBlock][]bfact{}
				p.linMemo = map[ssa.Value]blin{}
				p.lenMemo = map[ssa.Value]blin{}
				p.rngMemo = map[atom]irange{}
				p.afMemo = map[atom][]bfact{}
				decideAll(fn)
				progress = true
			}
		}
		if !progress {
			break
		}
	}
	return results
}

// liftable: all callers are known (unexported function or method of an
// unexported type, or a function literal is excluded), static calls from
// library functions.
func (br *boundsRun) liftable(fn *ssa.Function) bool {
	if fn.Parent() != nil {
		return false
	}
	if ast.IsExported(fn.Name()) {
		if fn.Signature.Recv() == nil {
			return false
		}
		t := fn.Signature.Recv().Type()
		if pt, ok := t.(*types.Pointer); ok {
			t = pt.Elem()
		}
		if nt, ok := t.(*types.Named); !ok || nt.Obj().Exported() {
			return false
		}
	}
	n := br.w.CG.Nodes[fn]
	if n == nil || len(n.In) == 0 {
		return false
	}
	real := 0
	for _, e := range n.In {
		// a compiler-generated wrapper that nothing calls is not a caller
		if e.Caller.Func.Synthetic != "" && len(e.Caller.In) == 0 {
			continue
		}
		if e.Site == nil || e.Site.Common().StaticCallee() != fn {
			return false
		}
		if !isLibPkg(fnPkgPath(e.Caller.Func)) {
			return false
		}
		real++
	}
	return real > 0
}

func (br *boundsRun) paramOnly(fn *ssa.Function, g blin) bool {
	for a := range g.t {
		if _, ok := a.v.(*ssa.Parameter); !ok || a.k == aCap {
			return false
		}
	}
	return len(g.t) > 0
}

func (br *boundsRun) provenAtCallers(fn *ssa.Function, g blin) bool {
	n := br.w.CG.Nodes[fn]
	for _, e := range n.In {
		caller := e.Caller.Func
		if caller.Synthetic != "" && len(e.Caller.In) == 0 {
			continue
		}
		pc := br.prover(caller)
		args := e.Site.Common().Args
		lifted := blconst(g.k)
		for a, c := range g.t {
			par := a.v.(*ssa.Parameter)
			idx := -1
			for i, q := range fn.Params {
				if q == par {
					idx = i
				}
			}
			if idx < 0 || idx >= len(args) {
				return false
			}
			var by blin
			switch a.k {
			case aLen:
				by = pc.lenOf(args[idx])
			case aNonNil:
				by = pc.nonNilOf(args[idx])
			default:
				by = pc.linOf(args[idx])
			}
			sc, ok := by.scale(c)
			if !ok {
				return false
			}
			lifted, ok = lifted.add(sc)
			if !ok {
				return false
			}
		}
		if !pc.proveAt(e.Site.Block(), lifted) {
			// the caller only passes its own parameter on: ask its callers
			if br.liftDepth < 4 && caller != fn && br.liftable(caller) && br.paramOnly(caller, lifted) {
				br.liftDepth++
				ok := br.provenAtCallers(caller, lifted)
				br.liftDepth--
				if ok {
					pc.entryFacts = append(pc.entryFacts, bfact{e: lifted, why: "precondition established at every call site"})
					pc.gcache = map[*ssa.BasicBlock][]bfact{}
					pc.afMemo = map[atom][]bfact{}
					continue
				}
			}
			return false
		}
	}
	return true
}

// RunBounds reports one obligation per site.
func RunBounds(w *World, r *Report, rule string, br *boundsRun, fns []*ssa.Function) (total, proved int) {
	sort.Slice(fns, func(i, j int) bool { return fnName(fns[i]) < fnName(fns[j]) })
	results := br.analyse(fns)
	for _, fn := range fns {
		for _, res := range results[fn] {
			total++
			s := res.site
			key := r.MkKey(rule, fnName(fn), s.kind+" "+br.siteText(s))
			if res.ok {
				proved++
				r.OK(rule, key, w.Pos(s.ins.Pos()), "in bounds by linear facts")
				continue
			}
			r.Fail(rule, key, w.Pos(s.ins.Pos()),
				fmt.Sprintf("cannot show %q for %s from the dominating checks, type ranges, helper contracts and loop induction", res.failed, s.descr), nil)
		}
	}
	return
}


// lenContract: "when the error result is nil, len(result 0) equals
// parameter P (or len(P)), provided P >= 0" — shown on every such return of
// the callee by the callee's own prover.
func (br *boundsRun) lenContract(f *ssa.Function) (lenContract, bool) {
	if br.lcMemo == nil {
		br.lcMemo = map[*ssa.Function]*lenContract{}
		br.lcBusy = map[*ssa.Function]bool{}
	}
	if c, ok := br.lcMemo[f]; ok {
		if c == nil {
			return lenContract{}, false
		}
		return *c, true
	}
	br.lcMemo[f] = nil
	if f.Blocks == nil || !isLibPkg(fnPkgPath(f)) || br.lcBusy[f] {
		return lenContract{}, false
	}
	res := f.Signature.Results()
	if res.Len() == 0 {
		return lenContract{}, false
	}
	if _, ok := res.At(0).Type().Underlying().(*types.Slice); !ok {
		return lenContract{}, false
	}
	errIdx := -1
	if res.Len() > 1 {
		if types.TypeString(res.At(res.Len()-1).Type(), nil) != "error" {
			return lenContract{}, false
		}
		errIdx = res.Len() - 1
	}
	br.lcBusy[f] = true
	defer delete(br.lcBusy, f)
	p := br.prover(f)
	var rets []*ssa.Return
	for _, b := range f.Blocks {
		if len(b.Instrs) == 0 {
			continue
		}
		ret, ok := b.Instrs[len(b.Instrs)-1].(*ssa.Return)
		if !ok {
			continue
		}
		if errIdx >= 0 {
			if c, ok := ret.Results[errIdx].(*ssa.Const); !ok || c.Value != nil {
				continue // error return (or unknown error value: not a success path we can use)
			}
		}
		rets = append(rets, ret)
	}
	if len(rets) == 0 {
		return lenContract{}, false
	}
	for i, par := range f.Params {
		var cands []lenContract
		if isIntType(par.Type()) {
			cands = append(cands, lenContract{i, false})
		} else if _, ok := par.Type().Underlying().(*types.Slice); ok {
			cands = append(cands, lenContract{i, true})
		}
		for _, c := range cands {
			var n blin
			if c.ofLen {
				n = p.lenOf(par)
			} else {
				n = p.linOf(par)
			}
			all := true
			for _, ret := range rets {
				l := p.lenOf(ret.Results[0])
				d, ok := l.sub(n)
				if !ok {
					all = false
					break
				}
				nd, _ := d.scale(-1)
				facts := append(append([]bfact{}, p.factsAt(ret.Block())...), bfact{e: n, why: "assumed: argument >= 0"})
				if !p.prove(facts, d, ret.Block(), 2) || !p.prove(facts, nd, ret.Block(), 2) {
					all = false
					break
				}
			}
			if all {
				cc := c
				br.lcMemo[f] = &cc
				return c, true
			}
		}
	}
	return lenContract{}, false
}

// nonNegResult: integer result number idx of a library function is shown
// to be non-negative at every return by the function's own prover; for an
// interface call every callee in the call graph must have the property.
type nnKey struct {
	f   *ssa.Function
	idx int
}

func (br *boundsRun) nonNegResult(f *ssa.Function, idx int) bool {
	if br.nnMemo == nil {
		br.nnMemo = map[nnKey]int{}
	}
	k := nnKey{f, idx}
	switch br.nnMemo[k] {
	case 1:
		return true
	case 2, 3:
		return false
	}
	br.nnMemo[k] = 3
	ok := func() bool {
		if f.Blocks == nil || !isLibPkg(fnPkgPath(f)) {
			return false
		}
		res := f.Signature.Results()
		if idx >= res.Len() || !isIntType(res.At(idx).Type()) {
			return false
		}
		p := br.prover(f)
		n := 0
		for _, b := range f.Blocks {
			if len(b.Instrs) == 0 {
				continue
			}
			ret, isRet := b.Instrs[len(b.Instrs)-1].(*ssa.Return)
			if !isRet {
				continue
			}
			n++
			if !p.proveAt(b, p.linOf(ret.Results[idx])) {
				return false
			}
		}
		return n > 0
	}()
	if ok {
		br.nnMemo[k] = 1
	} else {
		br.nnMemo[k] = 2
	}
	return ok
}

func (br *boundsRun) nonNegCall(call *ssa.Call, idx int) bool {
	if c := call.Call.StaticCallee(); c != nil {
		return br.nonNegResult(c, idx)
	}
	callees := br.w.Callees(call)
	if len(callees) == 0 {
		return false
	}
	for _, c := range callees {
		if !br.nonNegResult(c, idx) {
			return false
		}
	}
	return true
}
