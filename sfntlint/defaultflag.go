package main

import (
	"fmt"
	"sort"
	"strings"

	"golang.org/x/tools/go/ssa"
)

// RunDefaultFlag: a DICT entry that equals its default is left out by the
// writer and filled in by the reader. For the font matrix the default depends
// on a flag (identity for the top DICT of a CID-keyed font, 0.001 otherwise),
// which both sides pass at every call. The writer's calls of setFontMatrix and
// the reader's calls of getFontMatrix therefore pass the flag in the same way
// (the constant false for the font dictionaries, the CID flag for the top
// DICT): a side that passes another flag leaves out one matrix and fills in a
// different one.
func RunDefaultFlag(w *World, r *Report) {
	r.Rule("defaultflag: the calls of cffDict.getFontMatrix in the CFF reader and of cffDict.setFontMatrix in the writer pass the flag that selects the default matrix in the same way: as many calls with the constant false, with the constant true and with a computed flag on either side (a matrix equal to the writer's default is left out and has to be filled in by the same default)")
	count := func(name string) (map[string]int, []string, int) {
		res := map[string]int{}
		var where []string
		n := 0
		for _, fn := range w.LibFuncs() {
			if !strings.HasSuffix(fnPkgPath(fn), "/cff") {
				continue
			}
			for _, b := range fn.Blocks {
				for _, in := range b.Instrs {
					c, ok := in.(*ssa.Call)
					if !ok {
						continue
					}
					callee := c.Call.StaticCallee()
					if callee == nil || callee.Name() != name || !strings.HasSuffix(fnPkgPath(callee), "/cff") || len(c.Call.Args) == 0 {
						continue
					}
					n++
					last := c.Call.Args[len(c.Call.Args)-1]
					kind := "computed"
					if k, ok := last.(*ssa.Const); ok {
						kind = k.Value.String()
					}
					res[kind]++
					where = append(where, fmt.Sprintf("%s: %s", w.Pos(c.Pos()), kind))
				}
			}
		}
		sort.Strings(where)
		return res, where, n
	}
	get, gw, gn := count("getFontMatrix")
	set, sw, sn := count("setFontMatrix")
	key := r.MkKey("defaultflag", "cff", "getFontMatrix/setFontMatrix")
	if gn == 0 || sn == 0 {
		r.Fatal("getFontMatrix / setFontMatrix calls not found in package cff")
		return
	}
	same := len(get) == len(set)
	for k, v := range get {
		if set[k] != v {
			same = false
		}
	}
	if same {
		r.OK("defaultflag", key, "cff", fmt.Sprintf("reader %v, writer %v", gw, sw))
	} else {
		r.Fail("defaultflag", key, strings.SplitN(gw[0], ": ", 2)[0], fmt.Sprintf("the reader selects the default font matrix with the flags %v, the writer leaves a matrix out according to the flags %v: a font dictionary (or top DICT) matrix equal to the writer's default comes back as the reader's different default", gw, sw), nil)
	}
	r.Floor("defaultflag", 1)
}
