package main

import (
	"go/ast"
	"go/token"
	"go/types"

)

func enclosingLoopText(f *ast.File, pos token.Pos) string {
	path := pathEnclosing(f, pos, pos)
	for _, n := range path {
		switch x := n.(type) {
		case *ast.ForStmt:
			s := "for "
			if x.Init != nil {
				if as, ok := x.Init.(*ast.AssignStmt); ok && len(as.Lhs) > 0 {
					s += types.ExprString(as.Lhs[0]) + " := …; "
				}
			}
			if x.Cond != nil {
				s += types.ExprString(x.Cond)
			}
			return s
		case *ast.RangeStmt:
			return "range " + types.ExprString(x.X)
		}
	}
	return ""
}

// pathEnclosing is astutil.PathEnclosingInterval for syntax trees whose
// children are not in source order any more (normalizeComparisons exchanges
// the operands of a comparison, after which the comparison's own Pos/End
// interval is inverted and containment-guided descent misses what lies below
// it).  It returns the innermost node whose own interval contains [lo,hi]
// followed by all its ancestors.
func pathEnclosing(f *ast.File, lo, hi token.Pos) []ast.Node {
	idx := fileIndexOf(f)
	if hi == lo {
		hi = lo + 1 // as astutil does: the one-character interval following lo
	}
	var best ast.Node
	var bestLen token.Pos = -1
	for _, n := range idx.nodes {
		p, e := n.Pos(), n.End()
		if p <= lo && hi <= e && p <= e {
			if l := e - p; bestLen < 0 || l < bestLen || l == bestLen && idx.depth[n] > idx.depth[best] {
				best, bestLen = n, l
			}
		}
	}
	var path []ast.Node
	for n := best; n != nil; n = idx.parent[n] {
		path = append(path, n)
	}
	return path
}

type fileIndex struct {
	nodes  []ast.Node
	parent map[ast.Node]ast.Node
	depth  map[ast.Node]int
}

var fileIndexCache = map[*ast.File]*fileIndex{}

func fileIndexOf(f *ast.File) *fileIndex {
	if idx, ok := fileIndexCache[f]; ok {
		return idx
	}
	idx := &fileIndex{parent: map[ast.Node]ast.Node{}, depth: map[ast.Node]int{}}
	var stack []ast.Node
	ast.Inspect(f, func(n ast.Node) bool {
		if n == nil {
			stack = stack[:len(stack)-1]
			return true
		}
		if len(stack) > 0 {
			idx.parent[n] = stack[len(stack)-1]
		}
		idx.depth[n] = len(stack)
		idx.nodes = append(idx.nodes, n)
		stack = append(stack, n)
		return true
	})
	fileIndexCache[f] = idx
	return idx
}
