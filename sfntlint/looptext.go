package main

import (
	"go/ast"
	"go/token"
	"go/types"

	"golang.org/x/tools/go/ast/astutil"
)

func enclosingLoopText(f *ast.File, pos token.Pos) string {
	path, _ := astutil.PathEnclosingInterval(f, pos, pos)
	for _, n := range path {
		switch x := n.(type) {
		case *ast.ForStmt:
			s := "for "
			if x.Init != nil {
				if as, ok := x.Init.(*ast.AssignStmt); ok && len(as.Lhs) > 0 {
					s += types.ExprString(as.Lhs[0]) + " := …; "
				}
			}
			if x.Cond != nil {
				s += types.ExprString(x.Cond)
			}
			return s
		case *ast.RangeStmt:
			return "range " + types.ExprString(x.X)
		}
	}
	return ""
}
