package main

// rangeorder: a reader of range records (start, end, value) that rejects
// overlapping ranges by comparing each start with the end of the previous
// range relies on end >= start: a record whose end lies before its start
// moves the remembered end backwards, the next range may cover the same
// glyphs again, and a few hundred bytes expand into millions of entries.

import (
	"go/token"

	"golang.org/x/tools/go/ssa"
)

func RunRangeOrder(w *World, r *Report, suffixes ...string) {
	r.Rule("rangeorder: in the listed packages, where a loop compares a value read from the input with a loop-carried variable and then carries another value read in the same iteration forward in that variable (start <= prevEnd … prevEnd = end), a branch condition of the loop also compares those two values with each other (end < start is rejected): the remembered end never moves backwards")
	in := map[string]bool{}
	for _, s := range suffixes {
		in[modPath+s] = true
	}
	strip := func(v ssa.Value) ssa.Value {
		for {
			switch x := v.(type) {
			case *ssa.Convert:
				v = x.X
			case *ssa.ChangeType:
				v = x.X
			default:
				return v
			}
		}
	}
	n := 0
	for _, fn := range w.LibFuncs() {
		if !in[fnPkgPath(fn)] || len(fn.Blocks) == 0 {
			continue
		}
		for _, l := range naturalLoops(fn) {
			for _, hin := range l.head.Instrs {
				ph, ok := hin.(*ssa.Phi)
				if !ok {
					break
				}
				if !isIntegerType(ph.Type()) {
					continue
				}
				// the value carried forward: not derived from the phi itself (no counter)
				var carried ssa.Value
				for i, e := range ph.Edges {
					if !l.head.Dominates(l.head.Preds[i]) {
						continue
					}
					if backSlice(e)[ph] {
						carried = nil
						break
					}
					carried = strip(e)
				}
				if carried == nil {
					continue
				}
				if _, isC := carried.(*ssa.Const); isC {
					continue
				}
				// a comparison of the phi with another value computed in the loop
				var start ssa.Value
				for b := range l.body {
					for _, in := range b.Instrs {
						cmp, ok := in.(*ssa.BinOp)
						if !ok {
							continue
						}
						switch cmp.Op {
						case token.LSS, token.LEQ, token.GTR, token.GEQ:
						default:
							continue
						}
						x, y := strip(cmp.X), strip(cmp.Y)
						if x == ssa.Value(ph) && y != carried {
							if _, isC := y.(*ssa.Const); !isC {
								start = y
							}
						}
						if y == ssa.Value(ph) && x != carried {
							if _, isC := x.(*ssa.Const); !isC {
								start = x
							}
						}
					}
				}
				if start == nil {
					continue
				}
				n++
				key := r.MkKey("rangeorder", fnName(fn), "ranges checked against "+ph.Comment)
				ordered := false
				for b := range l.body {
					for _, in := range b.Instrs {
						cmp, ok := in.(*ssa.BinOp)
						if !ok {
							continue
						}
						x, y := strip(cmp.X), strip(cmp.Y)
						if (x == carried && y == start) || (x == start && y == carried) {
							ordered = true
						}
					}
				}
				if ordered {
					r.OK("rangeorder", key, w.Pos(ph.Pos()), "the end of a range is compared with its start")
				} else {
					r.Fail("rangeorder", key, w.Pos(ph.Pos()), "each range's start is compared with "+ph.Comment+", which is then set from the range's end, but the end is never compared with the start: a record whose end lies before its start moves "+ph.Comment+" backwards, the following ranges may cover the same glyphs again, and the work and memory spent no longer depend on the size of the input in any reasonable proportion", nil)
				}
			}
		}
	}
	r.Floor("rangeorder", 2)
}
