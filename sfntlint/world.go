package main

import (
	"fmt"
	"go/ast"
	"go/token"
	"go/types"
	"os"
	"path/filepath"
	"sort"
	"strconv"
	"strings"

	"golang.org/x/tools/go/callgraph"
	"golang.org/x/tools/go/callgraph/cha"
	"golang.org/x/tools/go/callgraph/vta"
	"golang.org/x/tools/go/packages"
	"golang.org/x/tools/go/ssa"
	"golang.org/x/tools/go/ssa/ssautil"
)

const modPath = "seehuhn.de/go/sfnt"

// World is the resolved program: type-checked syntax, SSA and call graph of
// the working tree under analysis.
type World struct {
	glens map[*ssa.Global]int64
	gvals map[*ssa.Global]ssa.Value
	Dir    string
	Pkgs   []*packages.Package // module packages (roots of the load)
	All    map[string]*packages.Package
	Fset   *token.FileSet
	Prog   *ssa.Program
	SSAPkg map[string]*ssa.Package
	CG     *callgraph.Graph
	CGKind string

	funcs   map[string]*ssa.Function // short name -> function
	allFns  map[*ssa.Function]bool
	libFns  []*ssa.Function // functions (incl. anonymous) of library packages, sorted
	pkgOfFn map[*ssa.Function]*packages.Package
}

// isLibPkg reports whether a package path belongs to the library scope.
func isLibPkg(path string) bool {
	if path != modPath && !strings.HasPrefix(path, modPath+"/") {
		return false
	}
	rel := strings.TrimPrefix(path, modPath)
	if strings.HasPrefix(rel, "/examples") ||
		strings.HasPrefix(rel, "/opentype/gtab/testcases") ||
		strings.HasPrefix(rel, "/internal/debug") {
		return false
	}
	return true
}

func isModPkg(path string) bool {
	return path == modPath || strings.HasPrefix(path, modPath+"/")
}

// isDepPkg: dependencies by the same author that are analysed where reached.
func isDepPkg(path string) bool {
	return strings.HasPrefix(path, "seehuhn.de/go/postscript") ||
		strings.HasPrefix(path, "seehuhn.de/go/geom") ||
		strings.HasPrefix(path, "seehuhn.de/go/dijkstra")
}

func shortName(s string) string {
	s = strings.ReplaceAll(s, modPath+"/", "")
	s = strings.ReplaceAll(s, modPath+".", "sfnt.")
	s = strings.ReplaceAll(s, "seehuhn.de/go/", "")
	return s
}

func fnName(fn *ssa.Function) string {
	if fn == nil {
		return "<nil>"
	}
	return shortName(fn.String())
}

// Load type-checks the tree at dir and builds SSA and the call graph.
func Load(dir string, goarch string, useCHA bool) (*World, error) {
	return LoadDir(dir, goarch, useCHA, 22)
}

// LoadDir is Load with an explicit minimum number of library packages.
func LoadDir(dir string, goarch string, useCHA bool, minLib int) (*World, error) {
	env := os.Environ()
	env = append(env, "GOFLAGS=-mod=mod", "GOPROXY=off", "GOSUMDB=off", "GOTOOLCHAIN=local", "GOWORK=off")
	if goarch != "" {
		env = append(env, "GOARCH="+goarch)
	}
	cfg := &packages.Config{Mode: packages.LoadAllSyntax, Dir: dir, Tests: false, Env: env}
	pkgs, err := packages.Load(cfg, "./...")
	if err != nil {
		return nil, err
	}
	if len(pkgs) == 0 {
		return nil, fmt.Errorf("no packages loaded from %s", dir)
	}
	var errs []string
	packages.Visit(pkgs, nil, func(p *packages.Package) {
		for _, e := range p.Errors {
			errs = append(errs, e.Error())
		}
	})
	if len(errs) > 0 {
		return nil, fmt.Errorf("load/type errors (%d): %s", len(errs), strings.Join(errs[:min(len(errs), 5)], "; "))
	}
	w := &World{Dir: dir, Pkgs: pkgs, All: map[string]*packages.Package{}, Fset: pkgs[0].Fset,
		SSAPkg: map[string]*ssa.Package{}, funcs: map[string]*ssa.Function{},
		pkgOfFn: map[*ssa.Function]*packages.Package{}}
	packages.Visit(pkgs, nil, func(p *packages.Package) { w.All[p.PkgPath] = p })
	for _, p := range pkgs {
		normalizeComparisons(p)
	}
	prog, _ := ssautil.AllPackages(pkgs, ssa.InstantiateGenerics)
	prog.Build()
	w.Prog = prog
	for _, sp := range prog.AllPackages() {
		w.SSAPkg[sp.Pkg.Path()] = sp
	}
	w.allFns = ssautil.AllFunctions(prog)
	if useCHA {
		w.CG = cha.CallGraph(prog)
		w.CGKind = "cha"
	} else {
		w.CG = vta.CallGraph(w.allFns, cha.CallGraph(prog))
		w.CGKind = "vta"
	}
	for fn := range w.allFns {
		if fn.Pkg == nil && fn.Parent() == nil {
			// synthetic wrappers, instantiations: register by name if they have an origin in module
			if fn.Origin() == nil {
				continue
			}
		}
		p := fnPkgPath(fn)
		if p == "" {
			continue
		}
		if isModPkg(p) || isDepPkg(p) {
			name := fnName(fn)
			if old, ok := w.funcs[name]; !ok || (old.Synthetic != "" && fn.Synthetic == "") {
				w.funcs[name] = fn
			}
		}
		if isLibPkg(p) && fn.Synthetic == "" && fn.Syntax() != nil {
			w.libFns = append(w.libFns, fn)
			w.pkgOfFn[fn] = w.All[p]
		}
	}
	sort.Slice(w.libFns, func(i, j int) bool {
		pi, pj := w.Fset.Position(w.libFns[i].Pos()), w.Fset.Position(w.libFns[j].Pos())
		if pi.Filename != pj.Filename {
			return pi.Filename < pj.Filename
		}
		if pi.Offset != pj.Offset {
			return pi.Offset < pj.Offset
		}
		return fnName(w.libFns[i]) < fnName(w.libFns[j])
	})
	nlib := 0
	for p := range w.All {
		if isLibPkg(p) {
			nlib++
		}
	}
	if nlib < minLib {
		return nil, fmt.Errorf("only %d library packages loaded (expected >= %d)", nlib, minLib)
	}
	return w, nil
}

func fnPkgPath(fn *ssa.Function) string {
	for f := fn; f != nil; f = f.Parent() {
		if f.Pkg != nil {
			return f.Pkg.Pkg.Path()
		}
		if o := f.Origin(); o != nil && o.Pkg != nil {
			return o.Pkg.Pkg.Path()
		}
		if f.Object() != nil && f.Object().Pkg() != nil {
			return f.Object().Pkg().Path()
		}
	}
	return ""
}

// Func resolves a function by its short name, e.g. "(*sfnt.Font).Write",
// "cmap.Decode", "(opentype/gtab.ScriptListInfo).encode".
func (w *World) Func(name string) *ssa.Function {
	return w.funcs[name]
}

func (w *World) LibFuncs() []*ssa.Function { return w.libFns }

func (w *World) PkgOf(fn *ssa.Function) *packages.Package {
	for f := fn; f != nil; f = f.Parent() {
		if p, ok := w.pkgOfFn[f]; ok {
			return p
		}
	}
	return w.All[fnPkgPath(fn)]
}

// Pos renders a position relative to the repo root.
func (w *World) Pos(p token.Pos) string {
	if !p.IsValid() {
		return "-"
	}
	pos := w.Fset.Position(p)
	f := strings.TrimPrefix(pos.Filename, w.Dir+"/")
	return fmt.Sprintf("%s:%d:%d", f, pos.Line, pos.Column)
}

// Reachable returns the module/dependency functions reachable from the given
// entry functions through the call graph (including anonymous functions
// created by reachable functions).
func (w *World) Reachable(entries []*ssa.Function) map[*ssa.Function]bool {
	seen := map[*ssa.Function]bool{}
	var work []*ssa.Function
	push := func(f *ssa.Function) {
		if f == nil || seen[f] {
			return
		}
		seen[f] = true
		work = append(work, f)
	}
	for _, e := range entries {
		push(e)
	}
	for len(work) > 0 {
		f := work[len(work)-1]
		work = work[:len(work)-1]
		if n := w.CG.Nodes[f]; n != nil {
			for _, e := range n.Out {
				push(e.Callee.Func)
			}
		}
		for _, af := range f.AnonFuncs {
			push(af)
		}
	}
	return seen
}

// PathTo returns a shortest call path entry -> ... -> target as function names.
func (w *World) PathTo(entries []*ssa.Function, target *ssa.Function) []string {
	prev := map[*ssa.Function]*ssa.Function{}
	seen := map[*ssa.Function]bool{}
	var q []*ssa.Function
	for _, e := range entries {
		if e != nil && !seen[e] {
			seen[e] = true
			q = append(q, e)
		}
	}
	found := false
	for len(q) > 0 && !found {
		f := q[0]
		q = q[1:]
		if f == target {
			found = true
			break
		}
		var next []*ssa.Function
		if n := w.CG.Nodes[f]; n != nil {
			for _, e := range n.Out {
				next = append(next, e.Callee.Func)
			}
		}
		next = append(next, f.AnonFuncs...)
		for _, g := range next {
			if g != nil && !seen[g] {
				seen[g] = true
				prev[g] = f
				q = append(q, g)
			}
		}
	}
	if !seen[target] {
		return nil
	}
	var path []string
	for f := target; f != nil; f = prev[f] {
		path = append([]string{fnName(f)}, path...)
	}
	return path
}

// Callees returns the call-graph callees of a call instruction.
func (w *World) Callees(site ssa.CallInstruction) []*ssa.Function {
	if c := site.Common().StaticCallee(); c != nil {
		return []*ssa.Function{c}
	}
	var res []*ssa.Function
	n := w.CG.Nodes[site.Parent()]
	if n == nil {
		return nil
	}
	for _, e := range n.Out {
		if e.Site == site {
			res = append(res, e.Callee.Func)
		}
	}
	return res
}

// funcBody returns the syntax body and type of an ssa function.
func funcBody(fn *ssa.Function) (*ast.BlockStmt, *ast.FuncType) {
	switch n := fn.Syntax().(type) {
	case *ast.FuncDecl:
		return n.Body, n.Type
	case *ast.FuncLit:
		return n.Body, n.Type
	}
	return nil, nil
}

func (w *World) Info(fn *ssa.Function) *types.Info {
	if p := w.PkgOf(fn); p != nil {
		return p.TypesInfo
	}
	return nil
}

// PkgVar resolves a package-level variable "pkg/path.Name" (short form).
func (w *World) PkgVar(pkgRel, name string) *types.Var {
	path := modPath
	if pkgRel != "" {
		path += "/" + pkgRel
	}
	p := w.All[path]
	if p == nil {
		return nil
	}
	v, _ := p.Types.Scope().Lookup(name).(*types.Var)
	return v
}

var fileCache = map[string][]byte{}

func readFileCached(name string) ([]byte, error) {
	if b, ok := fileCache[name]; ok {
		return b, nil
	}
	b, err := os.ReadFile(name)
	if err == nil {
		fileCache[name] = b
	}
	return b, err
}


// localInScope reports whether name resolves, at the position pos (as rendered
// by Pos), to an object declared inside a function (not a package-level or
// universe name).
func (w *World) localInScope(pos, name string) bool {
	parts := strings.Split(pos, ":")
	if len(parts) < 3 {
		return false
	}
	line, err1 := strconv.Atoi(parts[len(parts)-2])
	col, err2 := strconv.Atoi(parts[len(parts)-1])
	if err1 != nil || err2 != nil {
		return false
	}
	fname := filepath.Join(w.Dir, strings.Join(parts[:len(parts)-2], ":"))
	var tf *token.File
	w.Fset.Iterate(func(f *token.File) bool {
		if f.Name() == fname {
			tf = f
			return false
		}
		return true
	})
	if tf == nil || line < 1 || line > tf.LineCount() {
		return false
	}
	p := tf.LineStart(line) + token.Pos(col-1)
	for _, pkg := range w.All {
		for _, f := range pkg.Syntax {
			if f.Pos() <= p && p < f.End() && w.Fset.File(f.Pos()) == tf {
				sc := pkg.Types.Scope().Innermost(p)
				if sc == nil {
					return false
				}
				_, obj := sc.LookupParent(name, p)
				if obj == nil {
					return false
				}
				return isFuncLocal(obj, pkg.Types)
			}
		}
	}
	return false
}

// sameTypeInScope: both names resolve at pos and denote objects of identical type.
func (w *World) sameTypeInScope(pos, a, b string) bool {
	oa, ob := w.objectAt(pos, a), w.objectAt(pos, b)
	if oa == nil || ob == nil {
		return oa == ob
	}
	return types.Identical(oa.Type(), ob.Type())
}

func (w *World) objectAt(pos, name string) types.Object {
	parts := strings.Split(pos, ":")
	if len(parts) < 3 {
		return nil
	}
	line, err1 := strconv.Atoi(parts[len(parts)-2])
	col, err2 := strconv.Atoi(parts[len(parts)-1])
	if err1 != nil || err2 != nil {
		return nil
	}
	fname := filepath.Join(w.Dir, strings.Join(parts[:len(parts)-2], ":"))
	var tf *token.File
	w.Fset.Iterate(func(f *token.File) bool {
		if f.Name() == fname {
			tf = f
			return false
		}
		return true
	})
	if tf == nil || line < 1 || line > tf.LineCount() {
		return nil
	}
	p := tf.LineStart(line) + token.Pos(col-1)
	for _, pkg := range w.All {
		for _, f := range pkg.Syntax {
			if f.Pos() <= p && p < f.End() && w.Fset.File(f.Pos()) == tf {
				sc := pkg.Types.Scope().Innermost(p)
				if sc == nil {
					return nil
				}
				_, obj := sc.LookupParent(name, p)
				return obj
			}
		}
	}
	return nil
}

func isFuncLocal(obj types.Object, pkg *types.Package) bool {
	par := obj.Parent()
	if par == nil || par == types.Universe || par == pkg.Scope() {
		return false
	}
	// file scopes hold imports only; anything deeper is inside a function
	if par.Parent() == pkg.Scope() {
		_, isPkgName := obj.(*types.PkgName)
		return !isPkgName
	}
	return true
}


// normalizeComparisons rewrites, in the syntax trees of the packages under
// analysis (before SSA is built from them), every comparison into one
// canonical orientation: a constant (or nil) operand stands on the right
// (`12 <= len(x)` becomes `len(x) >= 12`), and a comparison of two
// non-constant operands uses < or <= (`a > b` becomes `b < a`).  The
// orientation of a comparison carries no meaning, and the rules — which
// match the shapes of guards, loop conditions and bit tests — then see one
// form whichever way the source spells it.  Only operand order and the
// operator are changed; type information (keyed by node) stays valid.
func normalizeComparisons(p *packages.Package) {
	info := p.TypesInfo
	if info == nil {
		return
	}
	normalizeNegations(p)
	isConst := func(e ast.Expr) bool {
		tv, ok := info.Types[e]
		return ok && (tv.Value != nil || tv.IsNil())
	}
	mirror := map[token.Token]token.Token{token.LSS: token.GTR, token.GTR: token.LSS, token.LEQ: token.GEQ, token.GEQ: token.LEQ, token.EQL: token.EQL, token.NEQ: token.NEQ}
	for _, f := range p.Syntax {
		ast.Inspect(f, func(n ast.Node) bool {
			be, ok := n.(*ast.BinaryExpr)
			if !ok {
				return true
			}
			m, isCmp := mirror[be.Op]
			if !isCmp {
				return true
			}
			cx, cy := isConst(be.X), isConst(be.Y)
			switch {
			case cx && cy:
			case cx && !cy:
				be.X, be.Y, be.Op = be.Y, be.X, m
			case !cx && !cy && (be.Op == token.GTR || be.Op == token.GEQ):
				be.X, be.Y, be.Op = be.Y, be.X, m
			}
			return true
		})
	}
}


// normalizeNegations brings boolean conditions into one form before the
// comparisons are oriented: negations are pushed inwards (!(a && b) becomes
// !a || !b, !(a < b) becomes a >= b for integers, !!a becomes a; evaluation
// order and short-circuiting are unchanged).  The branches of an if
// statement are left where they are (exchanging them would put the syntax
// tree out of source order, which position-based lookups rely on); rules
// that interpret conditions handle both polarities.
func normalizeNegations(p *packages.Package) {
	info := p.TypesInfo
	isBool := func(e ast.Expr) bool {
		tv, ok := info.Types[e]
		if !ok {
			return false
		}
		b, ok := tv.Type.Underlying().(*types.Basic)
		return ok && b.Info()&types.IsBoolean != 0 && tv.Value == nil
	}
	negOp := map[token.Token]token.Token{token.LSS: token.GEQ, token.GEQ: token.LSS, token.GTR: token.LEQ, token.LEQ: token.GTR, token.EQL: token.NEQ, token.NEQ: token.EQL}
	isFloat := func(e ast.Expr) bool {
		tv, ok := info.Types[e]
		if !ok {
			return true
		}
		b, ok := tv.Type.Underlying().(*types.Basic)
		return !ok || b.Info()&types.IsFloat != 0 || b.Info()&types.IsComplex != 0
	}
	boolType := types.Typ[types.Bool]
	record := func(e ast.Expr) ast.Expr {
		if _, ok := info.Types[e]; !ok {
			info.Types[e] = types.TypeAndValue{Type: boolType}
		}
		return e
	}
	var nnf func(e ast.Expr) ast.Expr
	var neg func(e ast.Expr) ast.Expr
	// neg returns an expression equivalent to !e with the negation pushed inwards
	neg = func(e ast.Expr) ast.Expr {
		switch x := e.(type) {
		case *ast.ParenExpr:
			return neg(x.X)
		case *ast.UnaryExpr:
			if x.Op == token.NOT {
				return nnf(x.X)
			}
		case *ast.BinaryExpr:
			switch x.Op {
			case token.LAND, token.LOR:
				op := token.LOR
				if x.Op == token.LOR {
					op = token.LAND
				}
				return record(&ast.BinaryExpr{X: neg(x.X), OpPos: x.OpPos, Op: op, Y: neg(x.Y)})
			case token.EQL, token.NEQ:
				return record(&ast.BinaryExpr{X: x.X, OpPos: x.OpPos, Op: negOp[x.Op], Y: x.Y})
			case token.LSS, token.LEQ, token.GTR, token.GEQ:
				// not for floating point: !(a < b) is not a >= b when a or b is NaN
				if !isFloat(x.X) && !isFloat(x.Y) {
					return record(&ast.BinaryExpr{X: x.X, OpPos: x.OpPos, Op: negOp[x.Op], Y: x.Y})
				}
			}
		}
		return record(&ast.UnaryExpr{OpPos: e.Pos(), Op: token.NOT, X: e})
	}
	nnf = func(e ast.Expr) ast.Expr {
		switch x := e.(type) {
		case *ast.ParenExpr:
			// parentheses carry no meaning in the tree
			if isBool(x.X) {
				return nnf(x.X)
			}
			return x
		case *ast.UnaryExpr:
			if x.Op == token.NOT {
				inner := x.X
				for {
					pe, ok := inner.(*ast.ParenExpr)
					if !ok {
						break
					}
					inner = pe.X
				}
				switch y := inner.(type) {
				case *ast.UnaryExpr:
					if y.Op == token.NOT {
						return nnf(y.X)
					}
				case *ast.BinaryExpr:
					switch y.Op {
					case token.LAND, token.LOR, token.EQL, token.NEQ:
						return neg(y)
					case token.LSS, token.LEQ, token.GTR, token.GEQ:
						if !isFloat(y.X) && !isFloat(y.Y) {
							return neg(y)
						}
					}
				}
			}
			return x
		case *ast.BinaryExpr:
			if x.Op == token.LAND || x.Op == token.LOR {
				x.X = nnf(x.X)
				x.Y = nnf(x.Y)
			}
			return x
		}
		return e
	}
	for _, f := range p.Syntax {
		ast.Inspect(f, func(n ast.Node) bool {
			switch x := n.(type) {
			case *ast.IfStmt:
				x.Cond = nnf(x.Cond)
			case *ast.ForStmt:
				if x.Cond != nil {
					x.Cond = nnf(x.Cond)
				}
			}
			return true
		})
	}
}
