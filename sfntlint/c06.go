package main

import (
	"sort"
	"strings"

	"golang.org/x/tools/go/ssa"
)

func init() {
	properties["C06"] = propC06
	properties["C07"] = propC07
}

// C06: lookup application follows OpenType semantics. Only structural
// clauses are decided (see DESIGN.md): no aliasing between the matcher's
// position lists, first-match rule, lookup order, scratch-space protocol.
func propC06(w *World, r *Report) {
	RunSliceAlias(w, r, w.LibFuncs())
	RunFirstMatch(w, r)
	RunScratchDiscipline(w, r)
	RunTextAppend(w, r)
	RunFreshSlot(w, r, w.LibFuncs())
	RunFlagPrecedence(w, r)
	RunFlagClass(w, r)
	RunLookaheadBound(w, r)
	RunMarkAdvance(w, r)
	var gt []*ssa.Function
	for _, f := range w.LibFuncs() {
		if strings.HasSuffix(fnPkgPath(f), "/opentype/gtab") {
			gt = append(gt, f)
		}
	}
	RunActionProgress(w, r)
	RunInputPosLen(w, r, newBoundsRun(w), gt)
	r.Floor("inputposlen", 6)
	RunMergeTails(w, r, gt)
	r.Floor("mergetails", 2)
	RunMemoKey(w, r, gt)
	RunReuseKey(w, r, gt)
	RunControl(r, "reusekey", "ctlContext).reuse", RunReuseKey)
	var applyFns []*ssa.Function
	for f := range w.libReach(mustFuncs(w, r, "(*opentype/gtab.Context).Apply")) {
		applyFns = append(applyFns, f)
	}
	sort.Slice(applyFns, func(i, j int) bool { return fnName(applyFns[i]) < fnName(applyFns[j]) })
	RunMapMiss(w, r, applyFns)
	RunCovGate(w, r, applyFns)
	RunEmptyRecord(w, r, applyFns)
	RunKernPairFirst(w, r)
	RunPairTarget(w, r, gt)
	r.Floor("pairtarget", 5)
	RunSkipMove(w, r)
	RunKeepPerLookup(w, r, gt)
	RunSkipExit(w, r, newBoundsRun(w), gt)
	RunLookaheadSkip(w, r, gt)
	RunReverseScan(w, r)
	r.Floor("skipexit", 15)
	r.Floor("emptyrecord", 2)
	r.Floor("covgate", 15)
	r.Floor("mapmiss", 10)
	RunIterFresh(w, r, gt)
	RunIterFreshControl(r)
	runFlagReduceIn(w, r, "/opentype/gtab")
	r.Floor("iterfresh", 3)
	RunControl(r, "memokey", "ctlContext).filter", RunMemoKey)
	RunControl(r, "slicealias", "ctlSliceAlias", RunSliceAlias)
	r.Scope["library_functions_scanned"] = len(w.LibFuncs())
}

// C07: shaping is safe, terminating, text-conserving and history-independent.
func propC07(w *World, r *Report) {
	e := NewEffects(w)
	runDet(w, r, e, "C07")
	// the determinism clause also covers the choice of lookups (NewLayouter, FindLookups); safety and termination are about applying them
	entries := mustFuncs(w, r, "(*opentype/gtab.Context).Apply", "(*sfnt.Layouter).Layout", "opentype/gtab.NewContext")
	r.Rule("panicreach: every explicit panic, unchecked type assertion and call of a function value taken from a map that is reachable from Context.Apply / Layouter.Layout is the default of a type switch over a closed set (all implementers, or all types ever stored into the switched field), or a reviewed entry whose side condition is re-checked (extension subtables are resolved by the reader; unimplemented positioning data is outside the property's domain)")
	r.Conds["extension-resolved"] = condExtensionResolved(w)
	RunPanicReach(w, r, "panicreach", entries, srcFuncsReachable(w, entries))
	r.Floor("panicreach", 2)
	RunStackTypestate(w, r, e)
	RunScratchDiscipline(w, r)
	RunTextAppend(w, r)
	RunFreshSlot(w, r, w.LibFuncs())
	checkBufReset(w, r)

	// index safety and termination of the shaping engine (prover, E1/E2)
	for _, a := range boundsAssumptions {
		r.Assumes(a)
	}
	reach := w.libReach(entries)
	var fns []*ssa.Function
	for f := range reach {
		fns = append(fns, f)
	}
	sort.Slice(fns, func(i, j int) bool { return fnName(fns[i]) < fnName(fns[j]) })
	pairs := discoverCovPairs(newBoundsRun(w), fns)
	br := newBoundsRun(w)
	br.covPairs = pairs
	r.Note("coverage/array pairs used by apply methods: %d", len(pairs))
	r.Conds["gpos4-markcov-reconciled"] = condGpos4Reconciled(w)
	RunCovArray(w, r, br, pairs)
	// the truncation branch of the pairing (array = array[:len(cov)]) is
	// only sound for dense tables: distinct glyph ids, indices 0..len-1
	RunCovMono(w, r, br)
	RunPosContracts(w, r, br, fns)
	RunBounds(w, r, "bounds", br, fns)
	runLoopTerm(w, r, br, fns, false)
	r.Floor("bounds", 200)
	r.Floor("loopterm", 50)
	RunMapMiss(w, r, fns)
	r.Floor("mapmiss", 10)

	// history independence of what the Context keeps between calls, and of
	// per-iteration buffers (text conservation): the cache and buffer rules of C06
	var gt []*ssa.Function
	for _, f := range w.LibFuncs() {
		if strings.HasSuffix(fnPkgPath(f), "/opentype/gtab") {
			gt = append(gt, f)
		}
	}
	RunMemoKey(w, r, gt)
	RunReuseKey(w, r, gt)
	RunIterFresh(w, r, gt)
	RunIterFreshControl(r)
	runFlagReduceIn(w, r, "/opentype/gtab")
	r.Floor("iterfresh", 3)
	RunControl(r, "reusekey", "ctlContext).reuse", RunReuseKey)
	RunControl(r, "memokey", "ctlContext).filter", RunMemoKey)
}
