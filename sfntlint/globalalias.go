package main

// globalalias: a package-level slice or map is shared by everything the
// package does. A function that hands it out — stores it into a field of the
// value it returns, or returns it — lets a caller who edits "his" value edit
// the package's table as well: the next value built from the table is wrong,
// and a comparison of the edited value with the table finds no difference.

import (
	"go/token"
	"go/types"

	"golang.org/x/tools/go/ssa"
)

func RunGlobalAlias(w *World, r *Report, suffixes ...string) {
	r.Rule("globalalias: in the listed packages no function stores the value of a package-level slice or map variable (the header that shares its elements) into a field or element of another object, and no exported function returns it: a decoded value never shares storage with a table of the package")
	in := map[string]bool{}
	for _, s := range suffixes {
		in[modPath+s] = true
	}
	n := 0
	for _, fn := range w.LibFuncs() {
		if !in[fnPkgPath(fn)] {
			continue
		}
		if fn.Name() == "init" {
			continue
		}
		for _, b := range fn.Blocks {
			for _, ins := range b.Instrs {
				ld, ok := ins.(*ssa.UnOp)
				if !ok || ld.Op != token.MUL {
					continue
				}
				g, ok := ld.X.(*ssa.Global)
				if !ok || g.Pkg == nil || !in[g.Pkg.Pkg.Path()] {
					continue
				}
				switch ld.Type().Underlying().(type) {
				case *types.Slice, *types.Map:
				default:
					continue
				}
				if ld.Referrers() == nil {
					continue
				}
				// the header itself and re-slicings of it share the elements
				derived := []ssa.Value{ld}
				for i := 0; i < len(derived); i++ {
					if refs := derived[i].Referrers(); refs != nil {
						for _, ref := range *refs {
							if sl, ok := ref.(*ssa.Slice); ok && sl.X == derived[i] {
								derived = append(derived, sl)
							}
						}
					}
				}
				var allRefs []ssa.Instruction
				isDerived := map[ssa.Value]bool{}
				for _, d := range derived {
					isDerived[d] = true
					if refs := d.Referrers(); refs != nil {
						allRefs = append(allRefs, *refs...)
					}
				}
				for _, ref := range allRefs {
					bad := ""
					switch x := ref.(type) {
					case *ssa.Store:
						if isDerived[x.Val] {
							switch x.Addr.(type) {
							case *ssa.FieldAddr, *ssa.IndexAddr:
								bad = "stored into a field of another object"
							}
						}
					case *ssa.Return:
						if fn.Object() != nil && fn.Object().Exported() {
							bad = "returned to the caller"
						}
					case *ssa.MapUpdate:
						if isDerived[x.Value] {
							bad = "stored into a map"
						}
					}
					if bad == "" {
						continue
					}
					n++
					key := r.MkKey("globalalias", fnName(fn), "package variable "+g.Name())
					r.Fail("globalalias", key, w.Pos(ref.Pos()), "the package-level "+ld.Type().String()+" "+g.Name()+" is "+bad+" without a copy: whoever edits the value he received edits the package's table too (later values built from the table are wrong, and a comparison of the edited value with the table sees no difference)", nil)
				}
			}
		}
	}
	r.OK("globalalias", r.MkKey("globalalias", "scope", "packages examined"), "-", itoa(len(suffixes))+" packages, "+itoa(n)+" aliasing sites")
}
