package main

import (
	"go/token"
	"go/types"

	"golang.org/x/tools/go/ssa"
)

// RunInstallAll: EnsureGlyphNames installs the list MakeGlyphNames computed —
// for every glyph, so that GlyphName(gid) is that list's entry gid afterwards
// (MakeGlyphNames may have replaced a duplicate or invalid name that the font
// carried).  In the loop over the CFF glyphs the store into a glyph's Name may
// therefore be skipped only for a nil glyph: every condition the store is
// control-dependent on inside the loop is a nil test of a pointer.
func RunInstallAll(w *World, r *Report) {
	r.Rule("installall: in (*Font).EnsureGlyphNames the store of the computed name into a CFF glyph is control-dependent, inside the loop over the glyphs, only on nil tests: a glyph that already has a name is overwritten as well (the computed list replaces duplicates and invalid names, and glyph 0 is .notdef)")
	fn := w.Func("(*sfnt.Font).EnsureGlyphNames")
	if fn == nil {
		r.Fatal("(*sfnt.Font).EnsureGlyphNames does not resolve")
		return
	}
	loops := naturalLoops(fn)
	n := 0
	for _, b := range fn.Blocks {
		for _, in := range b.Instrs {
			st, ok := in.(*ssa.Store)
			if !ok || fieldName(st.Addr) != "Name" {
				continue
			}
			var loop *natLoop
			for _, l := range loops {
				if l.body[b] && (loop == nil || len(l.body) < len(loop.body)) {
					loop = l
				}
			}
			if loop == nil {
				continue
			}
			n++
			key := r.MkKey("installall", fnName(fn), "store of the computed glyph name")
			bad := ""
			for _, g := range guardsOf(b) {
				if !loop.body[g.ifb] || g.ifb == loop.head {
					continue
				}
				if !isNilTest(g.cond) {
					bad = w.Pos(g.ifb.Instrs[len(g.ifb.Instrs)-1].Pos())
					if ci, ok := g.cond.(ssa.Instruction); ok && ci.Pos().IsValid() {
						bad = w.Pos(ci.Pos())
					}
				}
			}
			if bad == "" {
				r.OK("installall", key, w.Pos(st.Pos()), "skipped for nil glyphs only")
			} else {
				r.Fail("installall", key, w.Pos(st.Pos()), "the computed name is installed only under the condition at "+bad+", which is not a nil test: glyphs for which it fails keep a name that MakeGlyphNames replaced (a duplicate, an invalid name, or something other than .notdef for glyph 0), so GlyphName differs from the computed list and names are no longer distinct", nil)
			}
		}
	}
	if n == 0 {
		r.Fail("installall", r.MkKey("installall", fnName(fn), "store of the computed glyph name"), w.Pos(fn.Pos()), "no store into a glyph's Name inside a loop found", nil)
	}
	r.Floor("installall", 1)
}

// isNilTest: x == nil or x != nil for a pointer, interface, slice or map x.
func isNilTest(v ssa.Value) bool {
	b, ok := v.(*ssa.BinOp)
	if !ok || (b.Op != token.EQL && b.Op != token.NEQ) {
		return false
	}
	for _, pair := range [][2]ssa.Value{{b.X, b.Y}, {b.Y, b.X}} {
		c, ok := pair[1].(*ssa.Const)
		if !ok || !c.IsNil() {
			continue
		}
		switch pair[0].Type().Underlying().(type) {
		case *types.Pointer, *types.Interface, *types.Slice, *types.Map:
			return true
		}
	}
	return false
}
