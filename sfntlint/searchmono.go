package main

// searchmonotone: sort.Search finds the smallest index for which its
// predicate holds and is correct only for a predicate that is false on a
// prefix and true on the rest. A predicate whose result is decided by
// equality tests alone ("element == wanted") is monotone only for data the
// code cannot guarantee; the rule requires that the result of every
// predicate handed to sort.Search depends on at least one order comparison.

import (
	"fmt"
	"go/token"
	"go/types"

	"golang.org/x/tools/go/ssa"
)

func RunSearchMonotone(w *World, r *Report, pkgRels ...string) {
	r.Rule("searchmonotone: the result of every predicate handed to sort.Search in the package depends on at least one order comparison (<, <=, >, >=) of non-boolean operands; a predicate decided by equality tests alone is not monotone for arbitrary data, and the binary search then returns an index that is not the first match")
	in := map[string]bool{}
	for _, p := range pkgRels {
		in[modPath+p] = true
	}
	var fns []*ssa.Function
	for _, fn := range w.LibFuncs() {
		if in[fnPkgPath(fn)] {
			fns = append(fns, fn)
		}
	}
	searchMonotoneIn(w, r, fns)
	RunControl(r, "searchmonotone", "ctlSearchEqBad", searchMonotoneIn)
}

func searchMonotoneIn(w *World, r *Report, fns []*ssa.Function) {
	for _, fn := range fns {
		for _, b := range fn.Blocks {
			for _, ins := range b.Instrs {
				call, ok := ins.(*ssa.Call)
				if !ok {
					continue
				}
				callee := call.Common().StaticCallee()
				if callee == nil || callee.Pkg == nil || callee.Pkg.Pkg.Path() != "sort" || callee.Name() != "Search" || len(call.Common().Args) != 2 {
					continue
				}
				var pred *ssa.Function
				switch x := call.Common().Args[1].(type) {
				case *ssa.MakeClosure:
					pred, _ = x.Fn.(*ssa.Function)
				case *ssa.Function:
					pred = x
				}
				key := r.MkKey("searchmonotone", fnName(fn), "sort.Search")
				if pred == nil || len(pred.Blocks) == 0 {
					r.OK("searchmonotone", key, w.Pos(call.Pos()), "predicate is not a function literal (not followed)")
					continue
				}
				order, equal := 0, 0
				var eqPos token.Pos
				seen := map[ssa.Value]bool{}
				var visit func(v ssa.Value)
				visit = func(v ssa.Value) {
					if seen[v] {
						return
					}
					seen[v] = true
					switch x := v.(type) {
					case *ssa.BinOp:
						if _, isBool := x.X.Type().Underlying().(*types.Basic); isBool && x.X.Type().Underlying().(*types.Basic).Kind() == types.Bool {
							visit(x.X)
							visit(x.Y)
							return
						}
						switch x.Op {
						case token.LSS, token.LEQ, token.GTR, token.GEQ:
							order++
						case token.EQL, token.NEQ:
							equal++
							eqPos = x.Pos()
						}
					case *ssa.Phi:
						for _, e := range x.Edges {
							visit(e)
						}
					case *ssa.UnOp:
						if x.Op == token.NOT {
							visit(x.X)
						}
					case *ssa.Call:
						order++ // a helper decides: not followed
					}
				}
				for _, pb := range pred.Blocks {
					for _, pi := range pb.Instrs {
						switch x := pi.(type) {
						case *ssa.Return:
							for _, res := range x.Results {
								visit(res)
							}
						case *ssa.If:
							visit(x.Cond)
						}
					}
				}
				if order == 0 && equal > 0 {
					r.Fail("searchmonotone", key, w.Pos(call.Pos()), fmt.Sprintf("the predicate is decided by the equality test at %s alone: it is not monotone unless the data happens to be, and sort.Search then returns an index that is not the first match", w.Pos(eqPos)), nil)
				} else {
					r.OK("searchmonotone", key, w.Pos(call.Pos()), fmt.Sprintf("%d order comparison(s) decide the predicate", order))
				}
			}
		}
	}
}
