package main

// C05, last sentence: "Malformed programs (stack under/overflow, missing
// endchar, bad subroutine index, drawing before the first move) are rejected
// with an error rather than mis-decoded."  Underflow and subroutine indices
// are index expressions and belong to the bounds rule.  The other three are
// rejections that no index expression enforces (the operand stack is a Go
// slice that simply grows; a glyph without endchar or with a stray lineto
// decodes to *something*), so each gets a structural obligation here.

import (
	"fmt"
	"go/token"
	"go/types"

	"golang.org/x/tools/go/ssa"
)

func checkMalformed(w *World, r *Report, br *boundsRun, fn *ssa.Function) {
	r.Rule("stacklimit: at every append onto the interpreter's operand stack (the []float64 made with a constant capacity) the prover shows that the stack holds at most that many operands before the push, so a 50th operand is never accepted || endcharonly: every return of decodeCharString that hands out a glyph without an error is control-dependent on the operator being endchar (14) || moveerr: after every call of a path-building closure that can record 'drawing before moveto', no success return is reachable without passing the test of the recorded error")
	checkStackLimit(w, r, br, fn)
	checkEndcharOnly(w, r, fn)
	checkMoveErr(w, r, fn)
}

func checkStackLimit(w *World, r *Report, br *boundsRun, fn *ssa.Function) {
	// the stack cell: an Alloc of *[]float64 whose first store is a MakeSlice with constant capacity
	var cell *ssa.Alloc
	var capC int64
	for _, b := range fn.Blocks {
		for _, in := range b.Instrs {
			st, ok := in.(*ssa.Store)
			if !ok {
				continue
			}
			al, ok := st.Addr.(*ssa.Alloc)
			if !ok {
				continue
			}
			sl, ok := st.Val.Type().Underlying().(*types.Slice)
			if !ok {
				continue
			}
			if bt, ok := sl.Elem().Underlying().(*types.Basic); !ok || bt.Kind() != types.Float64 {
				continue
			}
			switch ms := st.Val.(type) {
			case *ssa.MakeSlice:
				if c, ok := bconstInt(ms.Cap); ok && c > 0 && cell == nil {
					cell, capC = al, c
				}
			case *ssa.Slice:
				// make([]T, 0, N) with constant N: a slice of a new [N]T
				if arr, ok := ms.X.(*ssa.Alloc); ok && cell == nil {
					if n, ok := arrayLen(arr.Type()); ok && n > 0 {
						cell, capC = al, n
					}
				}
			}
		}
	}
	if cell == nil {
		r.Fatal("stacklimit: no operand stack (a []float64 variable made with constant capacity) found in %s", fnName(fn))
		return
	}
	p := br.prover(fn)
	n := 0
	for _, b := range fn.Blocks {
		for _, in := range b.Instrs {
			call, ok := in.(*ssa.Call)
			if !ok {
				continue
			}
			bi, ok := call.Call.Value.(*ssa.Builtin)
			if !ok || bi.Name() != "append" || len(call.Call.Args) < 2 {
				continue
			}
			base := call.Call.Args[0]
			if !derivesFromCell(base, cell, 0) {
				continue
			}
			// only pushes: the result goes back into the cell
			stored := false
			if call.Referrers() != nil {
				for _, ref := range *call.Referrers() {
					if st, ok := ref.(*ssa.Store); ok && st.Addr == ssa.Value(cell) {
						stored = true
					}
				}
			}
			if !stored {
				continue
			}
			n++
			key := r.MkKey("stacklimit", fnName(fn), "push onto the operand stack")
			neg, ok2 := p.lenOf(base).scale(-1)
			if ok2 && p.proveAt(b, neg.addc(capC)) {
				r.OK("stacklimit", key, w.Pos(call.Pos()), fmt.Sprintf("at most %d operands before the push", capC))
			} else {
				r.Fail("stacklimit", key, w.Pos(call.Pos()), fmt.Sprintf("the operand stack is not shown to hold at most %d operands before this push: a program that pushes more operands than the format allows is interpreted instead of being rejected", capC), nil)
			}
		}
	}
	r.Floor("stacklimit", 5)
	_ = n
}

func derivesFromCell(v ssa.Value, cell *ssa.Alloc, d int) bool {
	if d > 5 {
		return false
	}
	switch x := v.(type) {
	case *ssa.UnOp:
		return x.Op == token.MUL && x.X == ssa.Value(cell)
	case *ssa.Slice:
		return derivesFromCell(x.X, cell, d+1)
	case *memVal:
		return false
	}
	return false
}

func isSuccessReturn(rt *ssa.Return) bool {
	return len(rt.Results) == 2 && isNilConst(rt.Results[1]) && !isNilConst(rt.Results[0])
}

func checkEndcharOnly(w *World, r *Report, fn *ssa.Function) {
	cc := controlConds(fn)
	n := 0
	for _, b := range fn.Blocks {
		rt, ok := b.Instrs[len(b.Instrs)-1].(*ssa.Return)
		if !ok || !isSuccessReturn(rt) {
			continue
		}
		n++
		key := r.MkKey("endcharonly", fnName(fn), "success return")
		found := false
		for _, c := range cc[b] {
			if bo, ok := c.(*ssa.BinOp); ok && bo.Op == token.EQL {
				if k, ok := bconstInt(bo.Y); ok && k == 14 {
					found = true
				}
				if k, ok := bconstInt(bo.X); ok && k == 14 {
					found = true
				}
			}
		}
		if found {
			r.OK("endcharonly", key, w.Pos(rt.Pos()), "reached only under op == endchar")
		} else {
			r.Fail("endcharonly", key, w.Pos(rt.Pos()), "a glyph is returned without an error on a path that does not depend on the operator being endchar (14): a program that ends without endchar is accepted", nil)
		}
	}
	if n == 0 {
		r.Fatal("endcharonly: %s has no success return", fnName(fn))
	}
}

func checkMoveErr(w *World, r *Report, fn *ssa.Function) {
	errT := types.Universe.Lookup("error").Type()
	// closures of fn and their captured cells
	binding := map[*ssa.FreeVar]ssa.Value{}
	var closures []*ssa.Function
	for _, b := range fn.Blocks {
		for _, in := range b.Instrs {
			if mc, ok := in.(*ssa.MakeClosure); ok {
				cf := mc.Fn.(*ssa.Function)
				closures = append(closures, cf)
				for i, fv := range cf.FreeVars {
					if i < len(mc.Bindings) {
						binding[fv] = mc.Bindings[i]
					}
				}
			}
		}
	}
	var cell *ssa.Alloc
	setters := map[*ssa.Function]bool{}
	for _, cf := range closures {
		for _, b := range cf.Blocks {
			for _, in := range b.Instrs {
				st, ok := in.(*ssa.Store)
				if !ok {
					continue
				}
				fv, ok := st.Addr.(*ssa.FreeVar)
				if !ok {
					continue
				}
				al, ok := binding[fv].(*ssa.Alloc)
				if !ok || !types.Identical(al.Type().Underlying().(*types.Pointer).Elem(), errT) {
					continue
				}
				cell = al
				setters[cf] = true
			}
		}
	}
	key := r.MkKey("moveerr", fnName(fn), "deferred error of the path closures")
	if cell == nil {
		r.Fail("moveerr", key, w.Pos(fn.Pos()), "no closure records a drawing-before-moveto error: the malformed program is not rejected (or is rejected by means this rule does not know)", nil)
		return
	}
	// closures that call setters
	for changed := true; changed; {
		changed = false
		for _, cf := range closures {
			if setters[cf] {
				continue
			}
			for _, b := range cf.Blocks {
				for _, in := range b.Instrs {
					if c, ok := in.(ssa.CallInstruction); ok {
						for _, g := range w.Callees(c) {
							if setters[g] {
								setters[cf] = true
								changed = true
							}
						}
					}
				}
			}
		}
	}
	// check blocks: If (load cell != nil) whose taken branch returns the load
	check := map[*ssa.BasicBlock]bool{}
	for _, b := range fn.Blocks {
		ifi, ok := b.Instrs[len(b.Instrs)-1].(*ssa.If)
		if !ok {
			continue
		}
		bo, ok := ifi.Cond.(*ssa.BinOp)
		if !ok || bo.Op != token.NEQ {
			continue
		}
		ld, ok := bo.X.(*ssa.UnOp)
		if !ok || ld.X != ssa.Value(cell) || !isNilConst(bo.Y) {
			continue
		}
		t := b.Succs[0]
		if rt, ok := t.Instrs[len(t.Instrs)-1].(*ssa.Return); ok && len(rt.Results) == 2 {
			if l2, ok := rt.Results[1].(*ssa.UnOp); ok && l2.X == ssa.Value(cell) {
				check[b] = true
			}
		}
	}
	if len(check) == 0 {
		r.Fail("moveerr", key, w.Pos(cell.Pos()), "the error recorded by the path-building closures is never tested and returned: drawing before the first moveto is accepted", nil)
		return
	}
	// from every call of a setter: no success return reachable around the checks
	var bad token.Pos
	sites := 0
	for _, b := range fn.Blocks {
		for i, in := range b.Instrs {
			c, ok := in.(ssa.CallInstruction)
			if !ok {
				continue
			}
			isSetter := false
			for _, g := range w.Callees(c) {
				if setters[g] {
					isSetter = true
				}
			}
			if mc, ok := c.Common().Value.(*ssa.MakeClosure); ok && setters[mc.Fn.(*ssa.Function)] {
				isSetter = true
			}
			if !isSetter {
				continue
			}
			sites++
			_ = i
			seen := map[*ssa.BasicBlock]bool{}
			var walk func(x *ssa.BasicBlock, first bool)
			walk = func(x *ssa.BasicBlock, first bool) {
				if bad.IsValid() || (!first && seen[x]) {
					return
				}
				if !first {
					seen[x] = true
				}
				if rt, ok := x.Instrs[len(x.Instrs)-1].(*ssa.Return); ok && isSuccessReturn(rt) {
					bad = c.Pos()
					return
				}
				if check[x] {
					return
				}
				for _, s := range x.Succs {
					walk(s, false)
				}
			}
			walk(b, true)
		}
	}
	switch {
	case sites == 0:
		r.Fail("moveerr", key, w.Pos(cell.Pos()), "no call of a closure that records the error was found in the interpreter loop", nil)
	case bad.IsValid():
		r.Fail("moveerr", key, w.Pos(bad), "after this call, which can record 'drawing before moveto', a success return is reachable without the test of the recorded error: the malformed program is accepted", nil)
	default:
		r.OK("moveerr", key, w.Pos(cell.Pos()), fmt.Sprintf("%d call sites, each followed by the test on every path to a success return", sites))
	}
}
