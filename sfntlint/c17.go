package main

import (
	"fmt"
	"go/constant"
	"go/token"
	"go/types"
	"sort"
	"strings"

	"golang.org/x/tools/go/ssa"
)

func init() { properties["C17"] = propC17 }

// C17: the buffered binary reader is observationally a plain random-access byte view.
func propC17(w *World, r *Report) {
	r.Rule("whomaywrite: the window state (buf, from, pos, used) of parser.Parser is assigned only by New, SeekPos and ReadBytes, and the underlying reader is touched only by SeekPos (Seek), ReadBytes (Read) and Size || viareadbytes: every fixed-size or bulk read method obtains its bytes through ReadBytes || seekfirst: in SeekPos every store that abandons the window (from/pos/used) is dominated by the call of the underlying Seek, whose error returns before any state changes || atomicrefill: in ReadBytes, once the window has been compacted (copy), from, pos and used are all updated on every path to every return — a failed refill cannot leave the buffer out of step with its bookkeeping || sizeguard: ReadBytes rejects n > bufferSize before it stores to buf/from/pos/used || errnodata: when a read method returns a possibly non-nil error, its data result is the zero value or passes the callee's own result through || eofmap: the only place an error is replaced by nil is the refill result under l > 0, and io.EOF becomes io.ErrUnexpectedEOF on the zero-progress branch || posformula: Pos returns from + pos || bigendian on ReadUint16/32 || errdrop on all parser methods")
	pk := w.SSAPkg[modPath+"/parser"]
	if pk == nil {
		r.Fatal("package parser not loaded")
		return
	}
	pt, _ := pk.Pkg.Scope().Lookup("Parser").(*types.TypeName)
	if pt == nil {
		r.Fatal("type parser.Parser not found")
		return
	}
	var methods []*ssa.Function
	for _, fn := range w.LibFuncs() {
		if fnPkgPath(fn) == pk.Pkg.Path() {
			methods = append(methods, fn)
		}
	}
	isField := func(addr ssa.Value, names ...string) bool {
		fa, ok := addr.(*ssa.FieldAddr)
		if !ok {
			return false
		}
		p, ok := fa.X.Type().Underlying().(*types.Pointer)
		if !ok || !types.Identical(p.Elem(), pt.Type()) {
			return false
		}
		fn := fieldName(fa)
		for _, n := range names {
			if fn == n {
				return true
			}
		}
		return false
	}
	state := []string{"buf", "from", "pos", "used"}
	mayWrite := map[string]bool{"New": true, "SeekPos": true, "ReadBytes": true}
	mayTouchReader := map[string]string{"SeekPos": "Seek", "ReadBytes": "Read", "Size": "Size"}
	// --- whomaywrite
	for _, fn := range methods {
		name := fnName(fn)
		var writes, touches []string
		for _, b := range fn.Blocks {
			for _, ins := range b.Instrs {
				switch x := ins.(type) {
				case *ssa.Store:
					if isField(x.Addr, state...) {
						writes = append(writes, fieldName(x.Addr)+"@"+w.Pos(x.Pos()))
					}
				case *ssa.Call:
					if x.Call.IsInvoke() {
						if u, ok := x.Call.Value.(*ssa.UnOp); ok && isField(u.X, "r") {
							touches = append(touches, x.Call.Method.Name())
						}
					}
				}
			}
		}
		key := r.MkKey("whomaywrite", name, "window state")
		if len(writes) > 0 && !mayWrite[fn.Name()] {
			r.Fail("whomaywrite", key, w.Pos(fn.Pos()), name+" assigns the window state ("+strings.Join(writes, ", ")+"); only New, SeekPos and ReadBytes may", nil)
		} else {
			r.OK("whomaywrite", key, w.Pos(fn.Pos()), fmt.Sprintf("%d stores to window state", len(writes)))
		}
		key2 := r.MkKey("whomaywrite", name, "underlying reader")
		bad := ""
		for _, m := range touches {
			if mayTouchReader[fn.Name()] != m {
				bad = name + " calls " + m + " on the underlying reader directly"
			}
		}
		if bad == "" {
			r.OK("whomaywrite", key2, w.Pos(fn.Pos()), fmt.Sprintf("%d calls on the underlying reader", len(touches)))
		} else {
			r.Fail("whomaywrite", key2, w.Pos(fn.Pos()), bad+"; all data must come through the window maintained by ReadBytes", nil)
		}
	}
	// --- viareadbytes
	readBytes := w.Func("(*parser.Parser).ReadBytes")
	if readBytes == nil {
		r.Fatal("anchor (*parser.Parser).ReadBytes does not resolve")
		return
	}
	for _, fn := range methods {
		if fn.Signature.Recv() == nil || !strings.HasPrefix(fn.Name(), "Read") || fn == readBytes {
			continue
		}
		key := r.MkKey("viareadbytes", fnName(fn), "data source")
		// transitively calls ReadBytes, and calls nothing else that produces bytes
		reach := w.Reachable([]*ssa.Function{fn})
		if reach[readBytes] {
			r.OK("viareadbytes", key, w.Pos(fn.Pos()), "obtains its bytes through ReadBytes")
		} else {
			r.Fail("viareadbytes", key, w.Pos(fn.Pos()), fnName(fn)+" does not read through ReadBytes", nil)
		}
	}
	// --- seekfirst
	if fn := w.Func("(*parser.Parser).SeekPos"); fn != nil {
		var seek *ssa.Call
		for _, b := range fn.Blocks {
			for _, ins := range b.Instrs {
				if c, ok := ins.(*ssa.Call); ok && c.Call.IsInvoke() && c.Call.Method.Name() == "Seek" {
					seek = c
				}
			}
		}
		for _, b := range fn.Blocks {
			for _, ins := range b.Instrs {
				st, ok := ins.(*ssa.Store)
				if !ok || !isField(st.Addr, "from", "used") {
					continue
				}
				key := r.MkKey("seekfirst", fnName(fn), "store to "+fieldName(st.Addr))
				if seek != nil && (seek.Block() == b && instrIndex(b, seek) < instrIndex(b, st) || seek.Block() != b && seek.Block().Dominates(b)) {
					r.OK("seekfirst", key, w.Pos(st.Pos()), "dominated by the Seek of the underlying reader")
				} else {
					r.Fail("seekfirst", key, w.Pos(st.Pos()), "the window is abandoned ("+fieldName(st.Addr)+" reassigned) on a path that does not reposition the underlying reader: the next refill reads from the wrong offset", nil)
				}
			}
		}
		r.Floor("seekfirst", 2)
	} else {
		r.Fatal("anchor (*parser.Parser).SeekPos does not resolve")
	}
	// --- atomicrefill + sizeguard + eofmap in ReadBytes
	{
		fn := readBytes
		name := fnName(fn)
		var copyCall *ssa.Call
		stores := map[string][]*ssa.Store{}
		var panicBlk *ssa.BasicBlock
		for _, b := range fn.Blocks {
			for _, ins := range b.Instrs {
				switch x := ins.(type) {
				case *ssa.Call:
					if bi, ok := x.Call.Value.(*ssa.Builtin); ok && bi.Name() == "copy" {
						copyCall = x
					}
				case *ssa.Store:
					if isField(x.Addr, state...) {
						stores[fieldName(x.Addr)] = append(stores[fieldName(x.Addr)], x)
					}
				case *ssa.Panic:
					panicBlk = b
				}
			}
		}
		key := r.MkKey("atomicrefill", name, "compaction")
		if copyCall == nil {
			r.FailC("atomicrefill", key, []string{"shape"}, w.Pos(fn.Pos()), "no compaction copy found in ReadBytes", nil)
		} else {
			bad := ""
			for _, f := range []string{"from", "pos", "used"} {
				// is there a return reachable from the copy without passing a store to f?
				avoid := map[*ssa.BasicBlock]bool{}
				sameBlockAfter := false
				for _, st := range stores[f] {
					if st.Block() == copyCall.Block() {
						if instrIndex(st.Block(), st) > instrIndex(st.Block(), copyCall) {
							sameBlockAfter = true
						}
						continue
					}
					avoid[st.Block()] = true
				}
				if sameBlockAfter {
					continue
				}
				seen := map[*ssa.BasicBlock]bool{}
				stack := append([]*ssa.BasicBlock{}, copyCall.Block().Succs...)
				for len(stack) > 0 {
					x := stack[len(stack)-1]
					stack = stack[:len(stack)-1]
					if seen[x] || avoid[x] {
						continue
					}
					seen[x] = true
					if _, isRet := x.Instrs[len(x.Instrs)-1].(*ssa.Return); isRet {
						bad = fmt.Sprintf("after the window is compacted, the return at %s can be reached without updating p.%s", w.Pos(x.Instrs[len(x.Instrs)-1].Pos()), f)
					}
					stack = append(stack, x.Succs...)
				}
			}
			if bad == "" {
				r.OK("atomicrefill", key, w.Pos(copyCall.Pos()), "from, pos and used are updated on every path from the compaction to a return")
			} else {
				r.Fail("atomicrefill", key, w.Pos(copyCall.Pos()), bad+": a failed refill leaves the buffer out of step with its bookkeeping", nil)
			}
		}
		key2 := r.MkKey("sizeguard", name, "n > bufferSize")
		okGuard := panicBlk != nil
		if okGuard {
			for _, ss := range stores {
				for _, st := range ss {
					// no store to the window state may precede the size test
					for _, p := range panicBlk.Preds {
						if st.Block() == p || reaches(st.Block(), p) {
							okGuard = false
						}
					}
				}
			}
		}
		if okGuard {
			r.OK("sizeguard", key2, w.Pos(fn.Pos()), "the size test dominates every store to the window state")
		} else {
			r.Fail("sizeguard", key2, w.Pos(fn.Pos()), "ReadBytes changes the window state before (or without) rejecting requests larger than the buffer", nil)
		}
		// eofmap
		key3 := r.MkKey("eofmap", name, "error replaced by nil")
		okMap := false
		why := "no phi merging the refill error with nil found"
		for _, b := range fn.Blocks {
			for _, ins := range b.Instrs {
				phi, ok := ins.(*ssa.Phi)
				if !ok || !isErrorType(phi.Type()) {
					continue
				}
				for i, ed := range phi.Edges {
					if !isNilConst(ed) {
						continue
					}
					pred := b.Preds[i]
					// pred must be guarded by l > 0 (true edge) and err == EOF (true edge)
					gotPos, gotEOF := false, false
					for _, g := range append(guardsOf(pred), selfGuard(pred, b)...) {
						bo, ok := g.cond.(*ssa.BinOp)
						if !ok {
							continue
						}
						if bo.Op == token.GTR && g.then {
							if c, ok := bo.Y.(*ssa.Const); ok && c.Int64() == 0 {
								if ex, ok := bo.X.(*ssa.Extract); ok && ex.Index == 0 {
									gotPos = true
								}
							}
						}
						if bo.Op == token.EQL && g.then {
							// err == io.EOF, either way round
							for _, side := range []ssa.Value{bo.X, bo.Y} {
								for v := range backSlice(side) {
									if gl, ok := v.(*ssa.Global); ok && gl.Name() == "EOF" {
										gotEOF = true
									}
								}
							}
						}
					}
					if gotPos && gotEOF {
						okMap = true
					} else {
						why = "an error is replaced by nil on a path that is not guarded by (err == io.EOF && l > 0)"
						okMap = false
					}
				}
			}
		}
		if okMap {
			r.OK("eofmap", key3, w.Pos(fn.Pos()), "nil replaces the error only under err == io.EOF && l > 0")
		} else {
			r.Fail("eofmap", key3, w.Pos(fn.Pos()), why, nil)
		}
	}
	// --- errnodata
	for _, fn := range methods {
		sig := fn.Signature
		if sig.Recv() == nil || sig.Results().Len() != 2 || !isErrorType(sig.Results().At(1).Type()) || !strings.HasPrefix(fn.Name(), "Read") || fn.Name() == "Read" {
			continue
		}
		for _, b := range fn.Blocks {
			ret, ok := b.Instrs[len(b.Instrs)-1].(*ssa.Return)
			if !ok {
				continue
			}
			if isNilConst(ret.Results[1]) {
				continue
			}
			key := r.MkKey("errnodata", fnName(fn), "return with error")
			d := ret.Results[0]
			okData := false
			if c, ok := d.(*ssa.Const); ok && (c.Value == nil || (c.Value.Kind() == constant.Int && constant.Sign(c.Value) == 0)) {
				okData = true
			}
			// pass-through: data derives only from the same call whose error is returned
			if !okData {
				if ex, ok := ret.Results[1].(*ssa.Extract); ok {
					all := true
					for v := range backSlice(d) {
						switch x := v.(type) {
						case *ssa.Extract:
							if x.Tuple != ex.Tuple {
								all = false
							}
						case *ssa.Call:
							if ssa.Value(x) != ex.Tuple {
								all = false
							}
						case *ssa.Convert, *ssa.ChangeType, *ssa.Parameter, *ssa.Const, *ssa.Function:
						default:
							all = false
						}
					}
					okData = all
				}
			}
			if okData {
				r.OK("errnodata", key, w.Pos(ret.Pos()), "zero data (or the failing callee's own zero result) is returned with the error")
			} else {
				r.Fail("errnodata", key, w.Pos(ret.Pos()), fnName(fn)+" can return data together with a non-nil error", nil)
			}
		}
	}
	// --- posformula
	if fn := w.Func("(*parser.Parser).Pos"); fn != nil {
		key := r.MkKey("posformula", fnName(fn), "return")
		ok := false
		for _, b := range fn.Blocks {
			if ret, isR := b.Instrs[len(b.Instrs)-1].(*ssa.Return); isR {
				if bo, isB := ret.Results[0].(*ssa.BinOp); isB && bo.Op == token.ADD {
					fields := map[string]bool{}
					for v := range backSlice(bo) {
						if n := fieldName(v); n != "" {
							fields[n] = true
						}
					}
					var fs []string
					for f := range fields {
						fs = append(fs, f)
					}
					sort.Strings(fs)
					if strings.Join(fs, ",") == "from,pos" {
						ok = true
					}
				}
			}
		}
		if ok {
			r.OK("posformula", key, w.Pos(fn.Pos()), "from + pos")
		} else {
			r.Fail("posformula", key, w.Pos(fn.Pos()), "Pos is not from + pos", nil)
		}
	}
	RunBigEndian(w, r, func(p string) bool { return p == pk.Pkg.Path() })
	RunNarrowArith(w, r, methods)
	RunControl(r, "narrowarith", "ctlNarrowArith", RunNarrowArith)
	for _, a := range boundsAssumptions {
		r.Assumes(a)
	}
	r.Assumes("A4: the reader underneath the parser honours the io.Reader contract: Read(buf) returns 0 <= n <= len(buf)")
	br := newBoundsRun(w)
	RunParserInvariant(w, r, br)
	RunBounds(w, r, "bounds", br, methods)
	ef := &errflow{w: w, r: r}
	ef.computeIOErr()
	r.Conds["readbytes-nil-on-error"] = condNilOnError(w, "(*parser.Parser).ReadBytes")
	ef.RunErrDrop(methods)
	RunShortRead(w, r, w.LibFuncs())
	r.Floor("shortread", 1)
	// --- skipisseek: Discard is a relative seek
	r.Rule("skipisseek: (*Parser).SeekPos and (*Parser).Discard never read (no call that can reach ReadBytes or the underlying reader's Read) and every normal return passes the result of SeekPos: a skip moves the position and cannot fail for lack of input, exactly like the absolute seek to the same offset")
	if dfn := w.Func("(*parser.Parser).Discard"); dfn == nil {
		r.Fatal("(*parser.Parser).Discard does not resolve")
	} else {
		key := r.MkKey("skipisseek", fnName(dfn), "callees")
		bad := ""
		seeks := 0
		for _, b := range dfn.Blocks {
			for _, in := range b.Instrs {
				c, ok := in.(*ssa.Call)
				if !ok {
					continue
				}
				cal := c.Call.StaticCallee()
				switch {
				case cal != nil && fnName(cal) == "(*parser.Parser).SeekPos":
					seeks++
				case cal != nil && (fnName(cal) == "(*parser.Parser).Pos" || fnName(cal) == "(*parser.Parser).Size"):
				case cal == nil && c.Call.IsInvoke():
					bad = "calls " + c.Call.Method.Name() + " on the underlying reader at " + w.Pos(c.Pos())
				case cal != nil && strings.HasSuffix(fnPkgPath(cal), "/parser"):
					bad = "calls " + fnName(cal) + " at " + w.Pos(c.Pos())
				}
			}
		}
		switch {
		case bad != "":
			r.Fail("skipisseek", key, w.Pos(dfn.Pos()), "Discard "+bad+": a skip that reads fails at the end of the input where the seek to the same offset succeeds, and leaves the position behind", nil)
		case seeks == 0:
			r.Fail("skipisseek", key, w.Pos(dfn.Pos()), "Discard does not call SeekPos", nil)
		default:
			r.OK("skipisseek", key, w.Pos(dfn.Pos()), "Discard only computes the target and calls SeekPos")
		}
	}
	// --- seeknoread: the absolute seek does not consume input either
	if sfn := w.Func("(*parser.Parser).SeekPos"); sfn == nil {
		r.Fatal("(*parser.Parser).SeekPos does not resolve")
	} else {
		key := r.MkKey("skipisseek", fnName(sfn), "callees")
		bad := ""
		for _, b := range sfn.Blocks {
			for _, in := range b.Instrs {
				c, ok := in.(*ssa.Call)
				if !ok {
					continue
				}
				cal := c.Call.StaticCallee()
				switch {
				case cal == nil && c.Call.IsInvoke() && c.Call.Method.Name() != "Seek":
					bad = "calls " + c.Call.Method.Name() + " on the underlying reader at " + w.Pos(c.Pos())
				case cal != nil && strings.HasSuffix(fnPkgPath(cal), "/parser") && fnName(cal) != "(*parser.Parser).Pos" && fnName(cal) != "(*parser.Parser).Size":
					bad = "calls " + fnName(cal) + " at " + w.Pos(c.Pos())
				}
			}
		}
		if bad != "" {
			r.Fail("skipisseek", key, w.Pos(sfn.Pos()), "SeekPos "+bad+": a seek that is served by reading fails (or silently stays behind) at the end of the input, where a seek to any offset must succeed and move the position", nil)
		} else {
			r.OK("skipisseek", key, w.Pos(sfn.Pos()), "SeekPos moves the window or re-seeks the underlying reader; it never reads")
		}
	}
	r.Floor("skipisseek", 2)
	// --- reseekresets: no reading state survives a re-seek
	r.Rule("reseekresets: every field of the Parser that (*Parser).ReadBytes assigns (the window state, and any flag it keeps about the input, such as 'end reached') is also assigned on the branch of (*Parser).SeekPos that re-seeks the underlying reader: state recorded while reading one region must not decide reads in another")
	if rb, sp := w.Func("(*parser.Parser).ReadBytes"), w.Func("(*parser.Parser).SeekPos"); rb == nil || sp == nil {
		r.Fatal("ReadBytes or SeekPos does not resolve")
	} else {
		fieldsWritten := func(fn *ssa.Function, only func(b *ssa.BasicBlock) bool) map[string]token.Pos {
			res := map[string]token.Pos{}
			for _, b := range fn.Blocks {
				if only != nil && !only(b) {
					continue
				}
				for _, in := range b.Instrs {
					if st, ok := in.(*ssa.Store); ok {
						if fa, ok := st.Addr.(*ssa.FieldAddr); ok && fa.X == ssa.Value(fn.Params[0]) {
							if _, isAlloc := st.Val.(*ssa.MakeSlice); isAlloc {
								continue // the buffer itself is allocated once; its size says nothing about the input
							}
							if sl, isSl := st.Val.(*ssa.Slice); isSl {
								if _, isArr := sl.X.(*ssa.Alloc); isArr && sl.Low == nil {
									continue // make([]T, N) with constant N
								}
							}
							res[fieldName(fa)] = st.Pos()
						}
					}
				}
			}
			return res
		}
		rbW := fieldsWritten(rb, nil)
		// the re-seek branch: blocks dominated by the block that calls Seek on the underlying reader
		var seekBlk *ssa.BasicBlock
		for _, b := range sp.Blocks {
			for _, in := range b.Instrs {
				if c, ok := in.(*ssa.Call); ok && c.Call.IsInvoke() && c.Call.Method.Name() == "Seek" {
					seekBlk = b
				}
			}
		}
		key := r.MkKey("reseekresets", fnName(sp), "fields reset by the re-seek")
		if seekBlk == nil {
			r.Fail("reseekresets", key, w.Pos(sp.Pos()), "SeekPos has no branch that re-seeks the underlying reader", nil)
		} else {
			spW := fieldsWritten(sp, func(b *ssa.BasicBlock) bool { return seekBlk.Dominates(b) })
			// only state that decides something: a field some method of the
			// Parser branches on (a nil test of a lazily allocated buffer is
			// not a decision about the input)
			decides := map[string]bool{}
			for _, m := range methods {
				for _, b := range m.Blocks {
					ifi, ok := b.Instrs[len(b.Instrs)-1].(*ssa.If)
					if !ok {
						continue
					}
					if bo, ok := ifi.Cond.(*ssa.BinOp); ok && (isNilConst(bo.X) || isNilConst(bo.Y)) {
						continue
					}
					for v := range backSlice(ifi.Cond) {
						if fa, ok := v.(*ssa.FieldAddr); ok && len(m.Params) > 0 && fa.X == ssa.Value(m.Params[0]) {
							decides[fieldName(fa)] = true
						}
					}
				}
			}
			var missing []string
			for f := range rbW {
				if _, ok := spW[f]; !ok && decides[f] {
					missing = append(missing, f)
				}
			}
			sort.Strings(missing)
			if len(missing) > 0 {
				r.Fail("reseekresets", key, w.Pos(rbW[missing[0]]), fmt.Sprintf("ReadBytes assigns the Parser field(s) %s, which the re-seek branch of SeekPos does not reset: what a read recorded before the seek (for instance that the end of the input was reached) still holds after moving elsewhere", strings.Join(missing, ", ")), nil)
			} else {
				r.OK("reseekresets", key, w.Pos(seekBlk.Instrs[0].Pos()), fmt.Sprintf("all %d fields ReadBytes assigns are reset", len(rbW)))
			}
		}
	}
	r.Floor("whomaywrite", 20)
	r.Floor("errnodata", 5)
	r.Floor("viareadbytes", 5)
}

// selfGuard: if pred ends in an If, the edge pred->succ itself is a guard.
func selfGuard(pred, succ *ssa.BasicBlock) []guard {
	if len(pred.Instrs) == 0 {
		return nil
	}
	ifi, ok := pred.Instrs[len(pred.Instrs)-1].(*ssa.If)
	if !ok {
		return nil
	}
	if pred.Succs[0] == succ && pred.Succs[1] != succ {
		return []guard{{ifi.Cond, true, pred}}
	}
	if pred.Succs[1] == succ && pred.Succs[0] != succ {
		return []guard{{ifi.Cond, false, pred}}
	}
	return nil
}
