package main

import (
	"fmt"
	"go/constant"
	"go/token"
	"go/types"
	"sort"
	"strings"

	"golang.org/x/tools/go/ssa"
)

// RunEnumPair: a field of an enumeration type that the reader fills from a
// chain of bit tests (the decoded value is one of finitely many constants) is
// "case coded".  The writer of such a field may touch it only through
// comparisons with constants of the type, each of which sets a constant bit
// pattern; the two tables (constant -> bits in the writer, bits -> constant
// in the reader) must be inverse to each other.  Arithmetic on the enum value
// (a shift by it, an index computed from it) depends on the numeric values of
// the constants, which the reader's table does not.
func RunEnumPair(w *World, r *Report, pkgRel, reader, writer string) {
	pkg := w.All[modPath+"/"+pkgRel]
	if pkg == nil {
		return
	}
	rd := w.Func(pkgRel + "." + reader)
	wr := w.Func("(*" + pkgRel + ".Info)." + writer)
	if wr == nil {
		wr = w.Func("(" + pkgRel + ".Info)." + writer)
	}
	if rd == nil || wr == nil {
		return
	}
	// enumeration types of the package: named integer types with at least two declared constants
	consts := map[*types.Named][]*types.Const{}
	for _, n := range pkg.Types.Scope().Names() {
		if c, ok := pkg.Types.Scope().Lookup(n).(*types.Const); ok {
			if nt, ok := c.Type().(*types.Named); ok {
				if b, ok := nt.Underlying().(*types.Basic); ok && b.Info()&types.IsInteger != 0 {
					consts[nt] = append(consts[nt], c)
				}
			}
		}
	}
	// reader: stores of an all-constant phi into a field of such a type
	for _, b := range rd.Blocks {
		for _, in := range b.Instrs {
			st, ok := in.(*ssa.Store)
			if !ok {
				continue
			}
			fa, ok := st.Addr.(*ssa.FieldAddr)
			if !ok {
				continue
			}
			nt, ok := st.Val.Type().(*types.Named)
			if !ok || len(consts[nt]) < 2 {
				continue
			}
			ph, ok := st.Val.(*ssa.Phi)
			if !ok {
				continue
			}
			field := fieldName(fa)
			dec := map[int64]int64{} // bit mask tested -> constant (mask 0: default)
			allConst := true
			for i, e := range ph.Edges {
				c, ok := e.(*ssa.Const)
				if !ok || c.Value == nil {
					allConst = false
					break
				}
				cv, _ := constant.Int64Val(c.Value)
				p := ph.Block().Preds[i]
				mask := int64(-1)
				if len(p.Preds) == 1 {
					q := p.Preds[0]
					if ifi, ok := q.Instrs[len(q.Instrs)-1].(*ssa.If); ok {
						// (x & K) != 0 on its true edge, or (x & K) == 0 on its false edge: the bits are set
						if m, setOnTrue, ok := bitTestMask(ifi.Cond); ok {
							if (q.Succs[0] == p) == setOnTrue {
								mask = m
							} else {
								mask = 0
							}
						}
					}
				}
				if mask < 0 {
					allConst = false
					break
				}
				dec[mask] = cv
			}
			if !allConst {
				continue
			}
			key := r.MkKey("enumpair", pkgRel+"."+reader+"/"+writer, "field "+field)
			// writer: every use of the field is a comparison with a constant that selects a constant bit pattern
			enc := map[int64]int64{} // constant -> bits set
			var problems []string
			nLoads := 0
			for _, wb := range wr.Blocks {
				for _, win := range wb.Instrs {
					ld, ok := win.(*ssa.UnOp)
					if !ok || ld.Op != token.MUL || fieldName(ld.X) != field {
						continue
					}
					if wfa, ok := ld.X.(*ssa.FieldAddr); !ok || wfa.Field != fa.Field {
						continue
					}
					nLoads++
					for _, ref := range *ld.Referrers() {
						cmp, ok := ref.(*ssa.BinOp)
						if !ok || (cmp.Op != token.EQL && cmp.Op != token.NEQ) {
							problems = append(problems, fmt.Sprintf("the writer computes with the value of %s (%s at %s) instead of comparing it with the constants of %s", field, ref.String(), w.Pos(ref.Pos()), nt.Obj().Name()))
							continue
						}
						other := cmp.Y
						if other == ssa.Value(ld) {
							other = cmp.X
						}
						c, ok := other.(*ssa.Const)
						if !ok || c.Value == nil {
							problems = append(problems, "the writer compares "+field+" with a non-constant")
							continue
						}
						cv, _ := constant.Int64Val(c.Value)
						// the branch taken when the field equals the constant
						for _, cref := range *cmp.Referrers() {
							ifi, ok := cref.(*ssa.If)
							if !ok {
								continue
							}
							tgt := ifi.Block().Succs[0]
							if cmp.Op == token.NEQ {
								tgt = ifi.Block().Succs[1]
							}
							if len(tgt.Preds) != 1 {
								continue // the equal-branch does nothing of its own (e.g. `!= PermInstall` guarding the rest)
							}
							for _, ti := range tgt.Instrs {
								if or, ok := ti.(*ssa.BinOp); ok && or.Op == token.OR {
									if kc, ok := or.Y.(*ssa.Const); ok && kc.Value != nil {
										k, _ := constant.Int64Val(kc.Value)
										enc[cv] |= k
									}
								}
							}
						}
					}
				}
			}
			if nLoads == 0 {
				problems = append(problems, "the writer never reads "+field)
			}
			if len(problems) == 0 {
				// inverse tables
				for cv, k := range enc {
					if k == 0 {
						continue
					}
					if got, ok := dec[k]; !ok || got != cv {
						problems = append(problems, fmt.Sprintf("the writer sets bits %#x for %s, the reader maps those bits to %s", k, enumName(consts[nt], cv), decName(consts[nt], dec, k)))
					}
				}
				for k, cv := range dec {
					if k == 0 {
						if enc[cv] != 0 {
							problems = append(problems, fmt.Sprintf("the reader's default %s is written with bits %#x", enumName(consts[nt], cv), enc[cv]))
						}
						continue
					}
					if enc[cv] != k {
						problems = append(problems, fmt.Sprintf("the reader maps bits %#x to %s, the writer sets bits %#x for it", k, enumName(consts[nt], cv), enc[cv]))
					}
				}
				for _, c := range consts[nt] {
					cv, _ := constant.Int64Val(c.Val())
					found := false
					for _, dv := range dec {
						if dv == cv {
							found = true
						}
					}
					if !found {
						problems = append(problems, "the reader never produces "+c.Name())
					}
				}
			}
			sort.Strings(problems)
			if len(problems) == 0 {
				r.OK("enumpair", key, w.Pos(st.Pos()), fmt.Sprintf("%d constants of %s: the writer's case table is the inverse of the reader's bit tests", len(dec), nt.Obj().Name()))
			} else {
				r.Fail("enumpair", key, w.Pos(st.Pos()), strings.Join(problems[:min(3, len(problems))], "; ")+": the value read back differs from the value written for some constant of the type", nil)
			}
		}
	}
}

// bitTestMask recognises (x & K) != 0 (bits set on the true edge) and
// (x & K) == 0 (bits set on the false edge) and returns K.
func bitTestMask(v ssa.Value) (mask int64, setOnTrue bool, ok bool) {
	cmp, isB := v.(*ssa.BinOp)
	if !isB || (cmp.Op != token.NEQ && cmp.Op != token.EQL) {
		return 0, false, false
	}
	setOnTrue = cmp.Op == token.NEQ
	a, z := cmp.X, cmp.Y
	if c, ok := a.(*ssa.Const); ok && c.Value != nil && constant.Sign(c.Value) == 0 {
		a, z = z, a
	}
	zc, ok := z.(*ssa.Const)
	if !ok || zc.Value == nil || constant.Sign(zc.Value) != 0 {
		return 0, false, false
	}
	and, ok := a.(*ssa.BinOp)
	if !ok || and.Op != token.AND {
		return 0, false, false
	}
	for _, op := range []ssa.Value{and.Y, and.X} {
		if kc, ok := op.(*ssa.Const); ok && kc.Value != nil {
			k, ok := constant.Int64Val(kc.Value)
			return k, setOnTrue, ok
		}
	}
	return 0, false, false
}

func enumName(cs []*types.Const, v int64) string {
	for _, c := range cs {
		if cv, _ := constant.Int64Val(c.Val()); cv == v {
			return c.Name()
		}
	}
	return fmt.Sprintf("%d", v)
}

func decName(cs []*types.Const, dec map[int64]int64, k int64) string {
	if v, ok := dec[k]; ok {
		return enumName(cs, v)
	}
	return "nothing (falls through to another case)"
}

// RunFDSelectFill: the format 0 form of FDSelect is one byte per glyph behind
// the format byte.  In FDSelectFn.encode the buffer made for it is filled by
// a loop whose every iteration stores, at counter+1, the converted result of
// the selector applied to that same counter.
func RunFDSelectFill(w *World, r *Report) {
	r.Rule("fdselectfill: in FDSelectFn.encode every iteration of the loop over the glyphs that follows the allocation of the format 0 buffer stores byte(fdSelect(i)) at offset i+1 for the loop counter i: no glyph keeps the zero the buffer was made with")
	fn := w.Func("(cff.FDSelectFn).encode")
	if fn == nil {
		r.Fatal("(cff.FDSelectFn).encode does not resolve")
		return
	}
	key := r.MkKey("fdselectfill", fnName(fn), "format 0 table")
	loops := naturalLoops(fn)
	for _, b := range fn.Blocks {
		for _, in := range b.Instrs {
			ms, ok := in.(*ssa.MakeSlice)
			if !ok {
				continue
			}
			// stores into this buffer at counter+1
			for _, b2 := range fn.Blocks {
				for _, in2 := range b2.Instrs {
					st, ok := in2.(*ssa.Store)
					if !ok {
						continue
					}
					ia, ok := st.Addr.(*ssa.IndexAddr)
					if !ok || !valueReaches(ia.X, ms) {
						continue
					}
					add, ok := ia.Index.(*ssa.BinOp)
					if !ok || add.Op != token.ADD {
						continue
					}
					if one, isC := bconstInt(add.Y); !isC || one != 1 {
						continue
					}
					ctr := add.X
					// value: conversion of a call of the receiver with the counter
					okVal := false
					for v := range backSlice(st.Val) {
						if c, ok := v.(*ssa.Call); ok && len(fn.Params) > 0 && c.Call.Value == ssa.Value(fn.Params[0]) {
							for va := range backSlice(c.Call.Args[0]) {
								if va == ctr {
									okVal = true
								}
							}
						}
					}
					var inner *natLoop
					for _, l := range loops {
						if l.body[b2] && (inner == nil || len(l.body) < len(inner.body)) {
							inner = l
						}
					}
					every := inner != nil
					if inner != nil {
						for _, lt := range inner.latches {
							if !b2.Dominates(lt) {
								every = false
							}
						}
					}
					if okVal && every {
						r.OK("fdselectfill", key, w.Pos(st.Pos()), "buf[i+1] = byte(fdSelect(i)) on every iteration")
						r.Floor("fdselectfill", 1)
						return
					}
				}
			}
		}
	}
	r.Fail("fdselectfill", key, w.Pos(fn.Pos()), "no loop stores the selector's answer for the loop counter i at offset i+1 of the format 0 buffer on every iteration: glyphs whose byte is not written are assigned font dictionary 0", nil)
	r.Floor("fdselectfill", 1)
}

// valueReaches: v is ms or a phi/slice of it.
func valueReaches(v ssa.Value, ms ssa.Value) bool {
	for d := 0; d < 6; d++ {
		if v == ms {
			return true
		}
		switch x := v.(type) {
		case *ssa.Phi:
			for _, e := range x.Edges {
				if e == ms {
					return true
				}
			}
			return false
		case *ssa.Slice:
			v = x.X
		default:
			return false
		}
	}
	return false
}

// RunPredefEncoding: the writer replaces a built-in encoding by the id of a
// predefined one (0 = Standard, 1 = Expert) when a predicate says the
// encoding "is" that predefined encoding; the reader, seeing the id,
// reconstructs the vector with a generator function.  The predicate
// therefore has to be equality with what that same generator produces: it
// calls the generator the reader calls and compares the encoding with the
// result position by position.  A one-directional test (every used code is
// standard) accepts encodings that leave standard glyphs unencoded, and those
// come back encoded.
func RunPredefEncoding(w *World, r *Report) {
	r.Rule("predefenc: each predicate under which (*cff.Font).Write emits a predefined encoding id (isStandardEncoding, isExpertEncoding) calls the generator that cff.Read uses to rebuild that encoding and compares the font's encoding with its result element by element (an inequality at one index makes it return false)")
	pairs := [][2]string{{"cff.isStandardEncoding", "cff.StandardEncoding"}, {"cff.isExpertEncoding", "cff.expertEncoding"}}
	rd := w.Func("cff.Read")
	for _, pr := range pairs {
		pred, gen := w.Func(pr[0]), w.Func(pr[1])
		key := r.MkKey("predefenc", pr[0], "comparison with "+pr[1])
		if pred == nil || gen == nil || rd == nil {
			r.Fail("predefenc", key, "-", "predicate, generator or cff.Read does not resolve", nil)
			continue
		}
		// the reader rebuilds the encoding with this generator
		readerUses := false
		for _, b := range rd.Blocks {
			for _, in := range b.Instrs {
				if c, ok := in.(*ssa.Call); ok && c.Call.StaticCallee() == gen {
					readerUses = true
				}
			}
		}
		// the predicate: generator call whose elements are compared with the parameter's elements at the same index
		var genCall *ssa.Call
		for _, b := range pred.Blocks {
			for _, in := range b.Instrs {
				if c, ok := in.(*ssa.Call); ok && c.Call.StaticCallee() == gen {
					genCall = c
				}
			}
		}
		elementwise := false
		if genCall != nil && len(pred.Params) > 0 {
			for _, b := range pred.Blocks {
				for _, in := range b.Instrs {
					cmp, ok := in.(*ssa.BinOp)
					if !ok || (cmp.Op != token.NEQ && cmp.Op != token.EQL) {
						continue
					}
					idxOf := func(v ssa.Value, base ssa.Value) (ssa.Value, bool) {
						ld, ok := v.(*ssa.UnOp)
						if !ok || ld.Op != token.MUL {
							return nil, false
						}
						ia, ok := ld.X.(*ssa.IndexAddr)
						if !ok || ia.X != base {
							return nil, false
						}
						return ia.Index, true
					}
					for _, pair := range [][2]ssa.Value{{cmp.X, cmp.Y}, {cmp.Y, cmp.X}} {
						i1, ok1 := idxOf(pair[0], pred.Params[0])
						i2, ok2 := idxOf(pair[1], genCall)
						if ok1 && ok2 && i1 == i2 {
							elementwise = true
						}
					}
				}
			}
		}
		switch {
		case !readerUses:
			r.Fail("predefenc", key, w.Pos(rd.Pos()), "cff.Read does not rebuild the predefined encoding with "+pr[1]+": predicate and reader no longer refer to the same vector", nil)
		case genCall == nil:
			r.Fail("predefenc", key, w.Pos(pred.Pos()), "the predicate does not call "+pr[1]+", the function with which the reader rebuilds the encoding: whatever it tests instead, an encoding it accepts need not be the vector the reader will produce (for instance one that leaves glyphs with standard names unencoded)", nil)
		case !elementwise:
			r.Fail("predefenc", key, w.Pos(genCall.Pos()), "the result of "+pr[1]+" is not compared with the font's encoding element by element at the same index", nil)
		default:
			r.OK("predefenc", key, w.Pos(genCall.Pos()), "equality with the vector the reader rebuilds")
		}
	}
	r.Floor("predefenc", 2)
}
