package main

import (
	"go/token"
	"go/types"

	"golang.org/x/tools/go/ssa"
)

// guard is a branch condition that decides whether a block is reached.
type guard struct {
	cond ssa.Value
	then bool // the block is reached through the true edge
	ifb  *ssa.BasicBlock
}

// guardsOf returns the conditions of all If terminators that dominate b and
// exactly one of whose successors dominates b (or is b).
func guardsOf(b *ssa.BasicBlock) []guard {
	var res []guard
	for d := b.Idom(); d != nil; d = d.Idom() {
		if len(d.Instrs) == 0 {
			continue
		}
		ifi, ok := d.Instrs[len(d.Instrs)-1].(*ssa.If)
		if !ok {
			continue
		}
		t, f := d.Succs[0], d.Succs[1]
		td := len(t.Preds) == 1 && (t == b || t.Dominates(b))
		fd := len(f.Preds) == 1 && (f == b || f.Dominates(b))
		if td && !fd {
			res = append(res, guard{ifi.Cond, true, d})
		} else if fd && !td {
			res = append(res, guard{ifi.Cond, false, d})
		}
	}
	return res
}

// backSlice returns the set of values v transitively depends on (operands),
// within the function; loads are followed to their address operands only.
func backSlice(v ssa.Value) map[ssa.Value]bool {
	seen := map[ssa.Value]bool{}
	var visit func(x ssa.Value)
	visit = func(x ssa.Value) {
		if x == nil || seen[x] {
			return
		}
		seen[x] = true
		if ins, ok := x.(ssa.Instruction); ok {
			for _, op := range ins.Operands(nil) {
				if *op != nil {
					visit(*op)
				}
			}
		}
	}
	visit(v)
	return seen
}

// fieldName returns the name of the field selected by a FieldAddr/Field.
func fieldName(v ssa.Value) string {
	switch x := v.(type) {
	case *ssa.FieldAddr:
		if p, ok := x.X.Type().Underlying().(*types.Pointer); ok {
			if st, ok := p.Elem().Underlying().(*types.Struct); ok {
				return st.Field(x.Field).Name()
			}
		}
	case *ssa.Field:
		if st, ok := x.X.Type().Underlying().(*types.Struct); ok {
			return st.Field(x.Field).Name()
		}
	}
	return ""
}

// sliceHasField reports whether the slice touches a field with the given name.
func sliceHasField(sl map[ssa.Value]bool, name string) bool {
	for v := range sl {
		if fieldName(v) == name {
			return true
		}
	}
	return false
}

// sliceHasParam reports whether the slice contains the given parameter.
func sliceHasParam(sl map[ssa.Value]bool, p *ssa.Parameter) bool {
	return sl[p]
}

// paramByName finds a parameter of fn.
func paramByName(fn *ssa.Function, name string) *ssa.Parameter {
	for _, p := range fn.Params {
		if p.Name() == name {
			return p
		}
	}
	return nil
}

// isLenOf reports whether v is len(x) with x loaded from a field named f (or any if f == "").
func isLenOfField(v ssa.Value, f string) bool {
	c, ok := v.(*ssa.Call)
	if !ok {
		return false
	}
	b, ok := c.Call.Value.(*ssa.Builtin)
	if !ok || b.Name() != "len" {
		return false
	}
	return f == "" || sliceHasField(backSlice(c.Call.Args[0]), f)
}

// isCompare reports whether v is an ordering/equality comparison.
func isCompare(v ssa.Value) (*ssa.BinOp, bool) {
	b, ok := v.(*ssa.BinOp)
	if !ok {
		return nil, false
	}
	switch b.Op {
	case token.LSS, token.LEQ, token.GTR, token.GEQ, token.EQL, token.NEQ:
		return b, true
	}
	return nil, false
}

// staticCalleeName returns the short name of a statically called function.
func staticCalleeName(c *ssa.CallCommon) string {
	if f := c.StaticCallee(); f != nil {
		return fnName(f)
	}
	return ""
}

// controlConds returns, for every block, the conditions of all If
// terminators the block is (transitively) control-dependent on, computed from
// post-dominators (Ferrante/Ottenstein/Warren).
func controlConds(fn *ssa.Function) map[*ssa.BasicBlock][]ssa.Value {
	n := len(fn.Blocks)
	exit := n // virtual exit
	succ := make([][]int, n+1)
	for _, b := range fn.Blocks {
		if len(b.Succs) == 0 {
			succ[b.Index] = []int{exit}
		}
		for _, s := range b.Succs {
			succ[b.Index] = append(succ[b.Index], s.Index)
		}
	}
	// pdom[i] = set of nodes post-dominating i
	full := make([]bool, n+1)
	for i := range full {
		full[i] = true
	}
	pdom := make([][]bool, n+1)
	for i := 0; i <= n; i++ {
		pdom[i] = append([]bool{}, full...)
	}
	pdom[exit] = make([]bool, n+1)
	pdom[exit][exit] = true
	changed := true
	for changed {
		changed = false
		for i := n - 1; i >= 0; i-- {
			nw := append([]bool{}, full...)
			if len(succ[i]) == 0 {
				nw = make([]bool, n+1)
			}
			for _, s := range succ[i] {
				for k := range nw {
					nw[k] = nw[k] && pdom[s][k]
				}
			}
			nw[i] = true
			for k := range nw {
				if nw[k] != pdom[i][k] {
					changed = true
				}
			}
			pdom[i] = nw
		}
	}
	// direct control dependence
	cd := make([]map[int]bool, n)
	for i := range cd {
		cd[i] = map[int]bool{}
	}
	for d := 0; d < n; d++ {
		if len(succ[d]) < 2 {
			continue
		}
		for _, s := range succ[d] {
			for b := 0; b < n; b++ {
				// b post-dominates s (or is s) and does not strictly post-dominate d
				if (b == s || (s != exit && pdom[s][b])) && !(b != d && pdom[d][b]) {
					cd[b][d] = true
				}
			}
		}
	}
	// transitive closure
	for changed := true; changed; {
		changed = false
		for b := 0; b < n; b++ {
			for d := range cd[b] {
				for d2 := range cd[d] {
					if !cd[b][d2] {
						cd[b][d2] = true
						changed = true
					}
				}
			}
		}
	}
	res := map[*ssa.BasicBlock][]ssa.Value{}
	for b := 0; b < n; b++ {
		for d := range cd[b] {
			blk := fn.Blocks[d]
			if len(blk.Instrs) == 0 {
				continue
			}
			if ifi, ok := blk.Instrs[len(blk.Instrs)-1].(*ssa.If); ok {
				res[fn.Blocks[b]] = append(res[fn.Blocks[b]], ifi.Cond)
			}
		}
	}
	return res
}

// allConds: conditions b is control-dependent on, plus conditions of
// dominating branches one of whose edges leads only to b's region (this also
// covers loop-exit tests, on which the code after the loop is not
// control-dependent in the classical sense).
func allConds(cc map[*ssa.BasicBlock][]ssa.Value, b *ssa.BasicBlock) []ssa.Value {
	seen := map[ssa.Value]bool{}
	var res []ssa.Value
	for _, c := range cc[b] {
		if !seen[c] {
			seen[c] = true
			res = append(res, c)
		}
	}
	for _, g := range guardsOf(b) {
		if !seen[g.cond] {
			seen[g.cond] = true
			res = append(res, g.cond)
		}
	}
	return res
}
