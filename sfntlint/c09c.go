package main

import (
	"fmt"
	"go/constant"
	"go/token"
	"go/types"
	"strings"

	"golang.org/x/tools/go/ssa"
)

// checkSegmentSkip: decodeFormat4 maps the codes of every segment — by the
// delta form or from the glyph id array.  It tolerates one kind of broken
// segment (fonts in the wild carry a final segment whose array offset points
// outside the table): that iteration is skipped.  The skip must stay tied to
// the failed range test: a path that completes an iteration of the segment
// loop without entering either of the two mapping loops is allowed only if
// it is control-dependent on a comparison against the length of a slice (the
// data is not there).  A skip decided by the segment's code range alone
// drops valid segments — e.g. the final 0xFFFF segment when it stores its
// glyph explicitly — and the map read back differs from the map written.
func checkSegmentSkip(w *World, r *Report) {
	r.Rule("segmentskip: in decodeFormat4 every path through an iteration of the segment loop enters one of the loops that map the segment's codes, except paths that are control-dependent (inside the loop) on a comparison with the length of a slice: a segment is skipped only when its data is missing, never on account of its code range alone")
	fn := w.Func("cmap.decodeFormat4")
	if fn == nil {
		r.Fatal("cmap.decodeFormat4 does not resolve")
		return
	}
	key := r.MkKey("segmentskip", "cmap.decodeFormat4", "segment loop")
	loops := naturalLoops(fn)
	hasUpdate := func(l *natLoop) bool {
		for b := range l.body {
			for _, in := range b.Instrs {
				if _, ok := in.(*ssa.MapUpdate); ok {
					return true
				}
			}
		}
		return false
	}
	// the segment loop: the loop with map updates that contains the most other loops with map updates
	var outer *natLoop
	var inner []*natLoop
	for _, l := range loops {
		if !hasUpdate(l) {
			continue
		}
		var in []*natLoop
		for _, m := range loops {
			if m != l && l.body[m.head] && len(m.body) < len(l.body) && hasUpdate(m) {
				in = append(in, m)
			}
		}
		if len(in) > len(inner) {
			outer, inner = l, in
		}
	}
	if outer == nil || len(inner) < 2 {
		r.Fail("segmentskip", key, w.Pos(fn.Pos()), "the segment loop with its two mapping loops (delta form, glyph id array) was not found", nil)
		return
	}
	innerHead := map[*ssa.BasicBlock]bool{}
	for _, m := range inner {
		innerHead[m.head] = true
	}
	// handlers of a failed range test: blocks entered through the true edge
	// of a comparison (inside the loop) that involves the length of a slice;
	// other conditions leading to the same block belong to the same
	// disjunction (`d < 0 || d+n > len(a)`)
	rangeFail := map[*ssa.BasicBlock]bool{}
	for b := range outer.body {
		if len(b.Instrs) == 0 {
			continue
		}
		ifi, ok := b.Instrs[len(b.Instrs)-1].(*ssa.If)
		if !ok {
			continue
		}
		if comparesWithLen(ifi.Cond, 0) {
			rangeFail[b.Succs[0]] = true
		}
	}
	// blocks reachable from the head inside the loop without entering a
	// mapping loop and without passing a failed range test
	seen := map[*ssa.BasicBlock]bool{outer.head: true}
	work := []*ssa.BasicBlock{outer.head}
	var bypass *ssa.BasicBlock
	for len(work) > 0 && bypass == nil {
		b := work[len(work)-1]
		work = work[:len(work)-1]
		for _, s := range b.Succs {
			if s == outer.head {
				if b != outer.head {
					bypass = b
				}
				continue
			}
			if !outer.body[s] || innerHead[s] || rangeFail[s] || seen[s] {
				continue
			}
			seen[s] = true
			work = append(work, s)
		}
	}
	if bypass != nil {
		pos := bypass.Instrs[len(bypass.Instrs)-1].Pos()
		for i := len(bypass.Instrs) - 1; i >= 0 && !pos.IsValid(); i-- {
			pos = bypass.Instrs[i].Pos()
		}
		if !pos.IsValid() {
			pos = fn.Pos()
		}
		r.Fail("segmentskip", key, w.Pos(pos), "an iteration of the segment loop can end without mapping the segment's codes and without a failed test against the length of the glyph id array: a valid segment (for instance the final 0xFFFF segment when it stores its glyph id explicitly) is dropped and the map read back differs from the map written", nil)
		return
	}
	r.OK("segmentskip", key, w.Pos(outer.head.Instrs[0].Pos()), "an iteration ends without mapping its codes only behind a failed range test")
}

// comparesWithLen: the value is computed from a len() call by arithmetic and
// conversions alone (not through memory, other calls or phis).
func comparesWithLen(v ssa.Value, depth int) bool {
	if depth > 8 {
		return false
	}
	switch x := v.(type) {
	case *ssa.Call:
		bi, ok := x.Call.Value.(*ssa.Builtin)
		return ok && bi.Name() == "len"
	case *ssa.BinOp:
		return comparesWithLen(x.X, depth+1) || comparesWithLen(x.Y, depth+1)
	case *ssa.Convert:
		return comparesWithLen(x.X, depth+1)
	case *ssa.ChangeType:
		return comparesWithLen(x.X, depth+1)
	}
	return false
}

// checkPlatformRange: a cmap encoding record names one of the platforms 0
// (Unicode), 1 (Macintosh), 2 (ISO), 3 (Windows), 4 (Custom).  cmap.Decode
// rejects records with other platform ids; the test must still admit all
// five, or a table that Encode wrote (it writes whatever keys the Table has)
// is refused as a whole when it is read back.
func checkPlatformRange(w *World, r *Report) {
	r.Rule("platformrange: the test with which cmap.Decode rejects the platform id of an encoding record (the 16-bit value at offset 4+8i of the table) admits every platform the format defines, 0..4")
	fn := w.Func("cmap.Decode")
	if fn == nil {
		r.Fatal("cmap.Decode does not resolve")
		return
	}
	key := r.MkKey("platformrange", "cmap.Decode", "rejection test of the platform id")
	n := 0
	for _, b := range fn.Blocks {
		if len(b.Instrs) == 0 {
			continue
		}
		ifi, ok := b.Instrs[len(b.Instrs)-1].(*ssa.If)
		if !ok {
			continue
		}
		cmp, ok := ifi.Cond.(*ssa.BinOp)
		if !ok {
			continue
		}
		k, isC := bconstInt(cmp.Y)
		if !isC {
			continue
		}
		// the left side: data[4+8i]<<8 | data[5+8i]
		isPlatform := false
		for v := range backSlice(cmp.X) {
			ia, ok := v.(*ssa.IndexAddr)
			if !ok {
				continue
			}
			if add, ok := ia.Index.(*ssa.BinOp); ok && add.Op == token.ADD {
				for _, pair := range [][2]ssa.Value{{add.X, add.Y}, {add.Y, add.X}} {
					if c, isC := bconstInt(pair[0]); isC && c == 4 {
						if mul, ok := pair[1].(*ssa.BinOp); ok && mul.Op == token.MUL {
							isPlatform = true
						}
					}
				}
			}
		}
		if !isPlatform {
			continue
		}
		// which values reach the error return?
		rejectsOnTrue := false
		if t := b.Succs[0]; len(t.Instrs) > 0 {
			if _, isRet := t.Instrs[len(t.Instrs)-1].(*ssa.Return); isRet {
				rejectsOnTrue = true
			}
		}
		if !rejectsOnTrue {
			continue
		}
		n++
		maxOK := int64(-1)
		switch cmp.Op {
		case token.GTR:
			maxOK = k
		case token.GEQ:
			maxOK = k - 1
		}
		switch {
		case maxOK < 0:
			r.Fail("platformrange", key, w.Pos(cmp.Pos()), "the platform id is rejected by a test this rule does not understand (expected: id > constant)", nil)
		case maxOK < 4:
			r.Fail("platformrange", key, w.Pos(cmp.Pos()), fmt.Sprintf("platform ids above %d are rejected, but the format defines platforms 0..4 (4 = Custom): a table with such a record, which Encode writes without complaint, cannot be read back", maxOK), nil)
		default:
			r.OK("platformrange", key, w.Pos(cmp.Pos()), fmt.Sprintf("platform ids 0..%d are admitted", maxOK))
		}
	}
	if n == 0 {
		r.OK("platformrange", key, w.Pos(fn.Pos()), "no platform id is rejected")
	}
}

// format4Loops: the segment loop of decodeFormat4 and the loops inside it
// that store into the result map.
func format4Loops(fn *ssa.Function) (outer *natLoop, inner []*natLoop) {
	loops := naturalLoops(fn)
	hasUpdate := func(l *natLoop) bool {
		for b := range l.body {
			for _, in := range b.Instrs {
				if _, ok := in.(*ssa.MapUpdate); ok {
					return true
				}
			}
		}
		return false
	}
	for _, l := range loops {
		if !hasUpdate(l) {
			continue
		}
		var in []*natLoop
		for _, m := range loops {
			if m != l && l.body[m.head] && len(m.body) < len(l.body) && hasUpdate(m) {
				in = append(in, m)
			}
		}
		if len(in) > len(inner) {
			outer, inner = l, in
		}
	}
	return
}

// valueFlow: the values v is computed from by conversions, arithmetic and
// phis; loads, calls and parameters are leaves (index computations of a load
// are not followed).
func valueFlow(v ssa.Value) map[ssa.Value]bool {
	seen := map[ssa.Value]bool{}
	var visit func(x ssa.Value)
	visit = func(x ssa.Value) {
		if x == nil || seen[x] {
			return
		}
		seen[x] = true
		switch y := x.(type) {
		case *ssa.Convert:
			visit(y.X)
		case *ssa.ChangeType:
			visit(y.X)
		case *ssa.BinOp:
			visit(y.X)
			visit(y.Y)
		case *ssa.Phi:
			for _, e := range y.Edges {
				visit(e)
			}
		case *ssa.UnOp:
			if y.Op != token.MUL {
				visit(y.X)
			}
		}
	}
	visit(v)
	return seen
}

// checkSegDelta: the format 4 specification computes the glyph of a code as
// (code + idDelta) mod 65536 for a segment without glyph id array, and as
// (array value + idDelta) mod 65536 for a non-zero array value otherwise.
// The rule binds idDelta by its role (the per-segment array element that is
// added to the code in one of the mapping loops) and requires (a) that the
// value stored by every mapping loop is computed from that element, and (b)
// that no sum involving it is compared or stored before it has been reduced
// to 16 bits.
func checkSegDelta(w *World, r *Report) {
	r.Rule("segdelta: in decodeFormat4 the per-segment array element that one mapping loop adds to the code (the idDelta, bound by this role) takes part in the value every mapping loop stores into the map (array values get the idDelta added too) || mod65536: every sum that involves the idDelta is reduced to a 16-bit type before it is compared with anything or stored (glyph ids wrap modulo 65536)")
	fn := w.Func("cmap.decodeFormat4")
	if fn == nil {
		r.Fatal("cmap.decodeFormat4 does not resolve")
		return
	}
	name := "cmap.decodeFormat4"
	outer, inner := format4Loops(fn)
	if outer == nil || len(inner) < 2 {
		r.Fail("segdelta", r.MkKey("segdelta", name, "mapping loops"), w.Pos(fn.Pos()), "the segment loop with its two mapping loops (delta form, glyph id array) was not found", nil)
		return
	}
	// the segment counter: a phi of the outer loop's head
	counters := map[ssa.Value]bool{}
	for _, in := range outer.head.Instrs {
		if ph, ok := in.(*ssa.Phi); ok {
			counters[ph] = true
		}
	}
	perSegment := func(v ssa.Value) (ssa.Value, bool) {
		ld, ok := v.(*ssa.UnOp)
		if !ok || ld.Op != token.MUL {
			return nil, false
		}
		ia, ok := ld.X.(*ssa.IndexAddr)
		if !ok {
			return nil, false
		}
		idx := ia.Index
		if cv, ok := idx.(*ssa.Convert); ok {
			idx = cv.X
		}
		if !counters[idx] {
			return nil, false
		}
		return ia.X, true
	}
	type upd struct {
		mu   *ssa.MapUpdate
		flow map[ssa.Value]bool // value and deciding conditions
		vals map[ssa.Value]bool // value only
	}
	var upds []upd
	cc := controlConds(fn)
	for _, m := range inner {
		for b := range m.body {
			for _, in := range b.Instrs {
				if mu, ok := in.(*ssa.MapUpdate); ok {
					fl := valueFlow(mu.Value)
					vals := valueFlow(mu.Value)
					// the conditions that decide the store belong to the computation too
					for _, c := range cc[b] {
						if ci, ok := c.(ssa.Instruction); ok && outer.body[ci.Block()] {
							for v := range valueFlow(c) {
								fl[v] = true
							}
						}
					}
					upds = append(upds, upd{mu, fl, vals})
				}
			}
		}
	}
	sortUpds := func() {
		for i := range upds {
			for j := i + 1; j < len(upds); j++ {
				if upds[j].mu.Pos() < upds[i].mu.Pos() {
					upds[i], upds[j] = upds[j], upds[i]
				}
			}
		}
	}
	sortUpds()
	// bind idDelta: per-segment element that is an operand (through conversions) of an addition in the flow of a stored value
	delta := map[ssa.Value]bool{}
	strip := func(v ssa.Value) ssa.Value {
		for {
			switch x := v.(type) {
			case *ssa.Convert:
				v = x.X
			case *ssa.ChangeType:
				v = x.X
			default:
				return v
			}
		}
	}
	for _, u := range upds {
		for v := range u.vals {
			bo, ok := v.(*ssa.BinOp)
			if !ok || bo.Op != token.ADD {
				continue
			}
			for _, op := range []ssa.Value{bo.X, bo.Y} {
				if arr, ok := perSegment(strip(op)); ok {
					delta[arr] = true
				}
			}
		}
	}
	if len(delta) == 0 {
		r.Fail("segdelta", r.MkKey("segdelta", name, "idDelta"), w.Pos(fn.Pos()), "no mapping loop adds a per-segment array element to the code: the idDelta cannot be bound", nil)
		return
	}
	for _, u := range upds {
		key := r.MkKey("segdelta", name, "glyph id stored by a mapping loop")
		has := false
		for v := range u.vals {
			if arr, ok := perSegment(v); ok && delta[arr] {
				has = true
			}
		}
		if has && !zeroGuarded(fn, u.vals, perSegment, delta, cc) {
			r.FailC("segdelta", key, []string{"zeroentry"}, w.Pos(u.mu.Pos()), "the idDelta is added to the value taken from the glyph id array whether or not that value is 0: an entry 0 means \"no glyph\" and must stay 0 (the format adds idDelta to non-zero entries only), otherwise the holes of the array map to glyph idDelta", nil)
		} else if has {
			r.OK("segdelta", key, w.Pos(u.mu.Pos()), "computed from the segment's idDelta")
		} else {
			r.Fail("segdelta", key, w.Pos(u.mu.Pos()), "the glyph id stored here is not computed from the segment's idDelta (the per-segment element the other mapping loop adds to the code): a segment that uses the glyph id array together with a non-zero idDelta decodes to glyph ids that differ from what the format defines (array value + idDelta modulo 65536 for non-zero array values)", nil)
		}
		// (b) sums involving the idDelta
		fwd := map[ssa.Value]bool{}
		var grow func(v ssa.Value)
		grow = func(v ssa.Value) {
			if fwd[v] {
				return
			}
			fwd[v] = true
			if refs := v.Referrers(); refs != nil {
				for _, ref := range *refs {
					if rv, ok := ref.(ssa.Value); ok && u.flow[rv] {
						grow(rv)
					}
				}
			}
		}
		for v := range u.flow {
			if arr, ok := perSegment(v); ok && delta[arr] {
				grow(v)
			}
		}
		var sums []*ssa.BinOp
		for v := range fwd {
			if bo, ok := v.(*ssa.BinOp); ok && (bo.Op == token.ADD || bo.Op == token.SUB) {
				sums = append(sums, bo)
			}
		}
		for i := range sums {
			for j := i + 1; j < len(sums); j++ {
				if sums[j].Pos() < sums[i].Pos() {
					sums[i], sums[j] = sums[j], sums[i]
				}
			}
		}
		for _, bo := range sums {
			key := r.MkKey("mod65536", name, "sum involving the idDelta")
			if typeBits(bo.Type()) <= 16 {
				r.OK("mod65536", key, w.Pos(bo.Pos()), "computed in a 16-bit type")
				continue
			}
			bad := wideUse(bo, map[ssa.Value]bool{})
			if bad == nil {
				r.OK("mod65536", key, w.Pos(bo.Pos()), "wider sum, reduced to 16 bits before any other use")
			} else {
				r.Fail("mod65536", key, w.Pos(bo.Pos()), fmt.Sprintf("this sum is computed in %s and used at %s before it is reduced to 16 bits: glyph ids that wrap modulo 65536 (code + idDelta >= 65536) are decoded differently from what the format defines", bo.Type(), w.Pos(bad.Pos())), nil)
			}
		}
	}
	r.Floor("segdelta", 2)
	r.Floor("mod65536", 1)
}

// wideUse: an instruction that uses the wide value v other than by reducing
// it to at most 16 bits (directly, or after further arithmetic / a mask).
func wideUse(v ssa.Value, seen map[ssa.Value]bool) ssa.Instruction {
	if seen[v] {
		return nil
	}
	seen[v] = true
	refs := v.Referrers()
	if refs == nil {
		return nil
	}
	for _, ref := range *refs {
		switch x := ref.(type) {
		case *ssa.Convert:
			if typeBits(x.Type()) <= 16 {
				continue
			}
			if bad := wideUse(x, seen); bad != nil {
				return bad
			}
		case *ssa.ChangeType:
			if bad := wideUse(x, seen); bad != nil {
				return bad
			}
		case *ssa.Phi:
			if bad := wideUse(x, seen); bad != nil {
				return bad
			}
		case *ssa.BinOp:
			switch x.Op {
			case token.ADD, token.SUB, token.AND, token.REM:
				if bad := wideUse(x, seen); bad != nil {
					return bad
				}
			default:
				return x
			}
		case *ssa.DebugRef:
		default:
			return ref
		}
	}
	return nil
}

// checkFormat0Len: a format 0 subtable says in bytes 2,3 how long it is. The
// encoder builds the subtable from a header literal and the 256-entry array;
// the rule adds up what is appended and compares the sum with the declared
// length, so that a missing part (or a wrong constant) is noticed.
func checkFormat0Len(w *World, r *Report) {
	r.Rule("declaredlen: in (*cmap.Format0).Encode the length of the returned slice — the sum of the lengths of everything appended to the empty buffer (constant header bytes, the whole Data array) — equals the length the header declares in bytes 2,3 (both are constants)")
	fn := w.Func("(*cmap.Format0).Encode")
	if fn == nil {
		r.Fatal("(*cmap.Format0).Encode does not resolve")
		return
	}
	key := r.MkKey("declaredlen", fnName(fn), "format 0 subtable")
	var ret ssa.Value
	for _, b := range fn.Blocks {
		if rt, ok := b.Instrs[len(b.Instrs)-1].(*ssa.Return); ok && len(rt.Results) == 1 {
			ret = rt.Results[0]
		}
	}
	if ret == nil {
		r.Fail("declaredlen", key, w.Pos(fn.Pos()), "no single-result return found", nil)
		return
	}
	// array literal behind a variadic argument: stores of constants at constant indices
	declared := int64(-1)
	var lenOfSlice func(v ssa.Value) (int64, bool)
	lenOfSlice = func(v ssa.Value) (int64, bool) {
		switch x := v.(type) {
		case *ssa.MakeSlice:
			if c, ok := x.Len.(*ssa.Const); ok {
				return c.Int64(), true
			}
		case *ssa.Slice:
			if x.Low != nil || x.High != nil {
				lo, hi := int64(0), int64(-1)
				if x.Low != nil {
					c, ok := x.Low.(*ssa.Const)
					if !ok {
						return 0, false
					}
					lo = c.Int64()
				}
				if x.High != nil {
					c, ok := x.High.(*ssa.Const)
					if !ok {
						return 0, false
					}
					hi = c.Int64()
				}
				if hi >= 0 {
					return hi - lo, true
				}
			}
			if p, ok := x.X.Type().Underlying().(*types.Pointer); ok {
				if a, ok := p.Elem().Underlying().(*types.Array); ok {
					lo := int64(0)
					if x.Low != nil {
						lo = x.Low.(*ssa.Const).Int64()
					}
					// remember the header literal
					if al, ok := x.X.(*ssa.Alloc); ok && al.Referrers() != nil {
						vals := map[int64]int64{}
						for _, ref := range *al.Referrers() {
							ia, ok := ref.(*ssa.IndexAddr)
							if !ok || ia.Referrers() == nil {
								continue
							}
							ic, ok := ia.Index.(*ssa.Const)
							if !ok {
								continue
							}
							for _, r2 := range *ia.Referrers() {
								if st, ok := r2.(*ssa.Store); ok {
									if v, ok := evalConstInt(st.Val, 0); ok {
										vals[ic.Int64()] = v
									}
								}
							}
						}
						if hi, ok1 := vals[2]; ok1 {
							if lo2, ok2 := vals[3]; ok2 && declared < 0 {
								declared = hi<<8 | lo2
							}
						}
					}
					return a.Len() - lo, true
				}
			}
		case *ssa.Call:
			if bi, ok := x.Call.Value.(*ssa.Builtin); ok && bi.Name() == "append" && len(x.Call.Args) == 2 {
				a, ok1 := lenOfSlice(x.Call.Args[0])
				b, ok2 := lenOfSlice(x.Call.Args[1])
				return a + b, ok1 && ok2
			}
		}
		return 0, false
	}
	total, ok := lenOfSlice(ret)
	switch {
	case !ok:
		r.Fail("declaredlen", key, w.Pos(fn.Pos()), "the length of the returned slice is not a sum of constant-length appends", nil)
	case declared < 0:
		r.Fail("declaredlen", key, w.Pos(fn.Pos()), "no header literal with constant bytes 2,3 found among the appended parts", nil)
	case total != declared:
		r.Fail("declaredlen", key, w.Pos(fn.Pos()), fmt.Sprintf("the subtable declares a length of %d bytes in its header but %d bytes are produced: a reader that trusts the length reads past the end or rejects the table", declared, total), nil)
	default:
		r.OK("declaredlen", key, w.Pos(fn.Pos()), fmt.Sprintf("%d bytes declared and produced", total))
	}
}

// evalConstInt folds conversions, shifts and masks of integer constants.
func evalConstInt(v ssa.Value, depth int) (int64, bool) {
	if depth > 8 {
		return 0, false
	}
	switch x := v.(type) {
	case *ssa.Const:
		if x.Value != nil && x.Value.Kind() == constant.Int {
			return x.Int64(), true
		}
	case *ssa.Convert:
		a, ok := evalConstInt(x.X, depth+1)
		if !ok {
			return 0, false
		}
		if n := typeBits(x.Type()); n > 0 && n < 64 {
			a &= (1 << uint(n)) - 1
		}
		return a, true
	case *ssa.BinOp:
		a, ok1 := evalConstInt(x.X, depth+1)
		b, ok2 := evalConstInt(x.Y, depth+1)
		if !ok1 || !ok2 {
			return 0, false
		}
		switch x.Op {
		case token.SHR:
			return a >> uint(b), true
		case token.SHL:
			return a << uint(b), true
		case token.AND:
			return a & b, true
		case token.OR:
			return a | b, true
		case token.ADD:
			return a + b, true
		case token.SUB:
			return a - b, true
		case token.MUL:
			return a * b, true
		}
	}
	return 0, false
}

// checkDecoderParam: the cmap format decoders receive the translation from
// the codes of the file to characters (Mac Roman for platform 1). A decoder
// has to apply it — or refuse tables for which one is given; a decoder that
// takes the parameter and ignores it hands out a subtable that answers
// character lookups with the glyph of a different character.
func checkDecoderParam(w *World, r *Report) {
	r.Rule("decoderparam: every function stored in cmap.decoders that can return a subtable calls its code-to-character parameter on the way (directly or through a phi that defaults it), or returns an error where the parameter is not nil: the translation of a Macintosh subtable is applied or refused, never dropped")
	sp := w.SSAPkg[modPath+"/cmap"]
	if sp == nil {
		r.Fatal("package cmap not loaded")
		return
	}
	n := 0
	var names []string
	for name := range sp.Members {
		names = append(names, name)
	}
	sortStrings(names)
	for _, name := range names {
		fn, ok := sp.Members[name].(*ssa.Function)
		if !ok || len(fn.Params) != 2 || len(fn.Blocks) == 0 {
			continue
		}
		sig := fn.Signature
		if sig.Results().Len() != 2 || sig.Results().At(0).Type().String() != modPath+"/cmap.Subtable" {
			continue
		}
		if _, ok := fn.Params[1].Type().Underlying().(*types.Signature); !ok {
			continue
		}
		// returns a subtable on some path?
		returnsValue := false
		for _, b := range fn.Blocks {
			if rt, ok := b.Instrs[len(b.Instrs)-1].(*ssa.Return); ok {
				if c, ok := rt.Results[0].(*ssa.Const); !ok || !c.IsNil() {
					returnsValue = true
				}
			}
		}
		if !returnsValue {
			continue // notImplemented
		}
		n++
		key := r.MkKey("decoderparam", fnName(fn), "code translation parameter")
		p := fn.Params[1]
		called, refused := false, false
		seen := map[ssa.Value]bool{}
		var visit func(v ssa.Value)
		visit = func(v ssa.Value) {
			if seen[v] {
				return
			}
			seen[v] = true
			if v.Referrers() == nil {
				return
			}
			for _, ref := range *v.Referrers() {
				switch x := ref.(type) {
				case *ssa.Call:
					if x.Call.Value == v {
						called = true
					}
					for _, a := range x.Call.Args {
						if a == v {
							called = true // handed on to a helper
						}
					}
				case *ssa.Phi:
					visit(x)
				case *ssa.MakeClosure:
					called = true
				case *ssa.BinOp:
					// nil test whose non-nil side returns an error
					if (x.Op == token.NEQ || x.Op == token.EQL) && x.Referrers() != nil {
						for _, r2 := range *x.Referrers() {
							ifi, ok := r2.(*ssa.If)
							if !ok {
								continue
							}
							side := ifi.Block().Succs[0]
							if x.Op == token.EQL {
								side = ifi.Block().Succs[1]
							}
							if rt, ok := side.Instrs[len(side.Instrs)-1].(*ssa.Return); ok && len(rt.Results) == 2 {
								if c, ok := rt.Results[1].(*ssa.Const); !ok || !c.IsNil() {
									refused = true
								}
							}
						}
					}
				}
			}
		}
		visit(p)
		switch {
		case called:
			r.OK("decoderparam", key, w.Pos(fn.Pos()), "applies the translation")
		case refused:
			r.OK("decoderparam", key, w.Pos(fn.Pos()), "refuses tables that need a translation")
		default:
			r.Fail("decoderparam", key, w.Pos(fn.Pos()), "the decoder receives the code-to-character translation and neither applies it nor refuses the table: for a Macintosh subtable the result answers a lookup of a character with the glyph stored for the code of the same number (ä, U+00E4, gets the glyph of Mac Roman 0xE4, ‰)", nil)
		}
	}
	if n < 3 {
		r.Fail("decoderparam", r.MkKey("decoderparam", "cmap", "decoders"), "-", "fewer than three format decoders found in package cmap", nil)
	}
}

// checkLookupRange: Subtable.Lookup takes a rune. A subtable keyed by 16-bit
// codes has to refuse characters outside that range before it converts; an
// unguarded uint16(r) makes U+10041 an alias of U+0041.
func checkLookupRange(w *World, r *Report) {
	r.Rule("lookuprange: in every Lookup method of package cmap a conversion of the rune parameter to a narrower integer type is dominated by a comparison of that parameter (a range test): characters outside the key range get glyph 0, not the glyph of the character with the same low bits")
	n := 0
	for _, fn := range w.LibFuncs() {
		if fnPkgPath(fn) != modPath+"/cmap" || fn.Name() != "Lookup" || fn.Signature.Recv() == nil || len(fn.Params) != 2 {
			continue
		}
		p := fn.Params[1]
		for _, b := range fn.Blocks {
			for _, in := range b.Instrs {
				cv, ok := in.(*ssa.Convert)
				if !ok || cv.X != ssa.Value(p) {
					continue
				}
				if tb := typeBits(cv.Type()); tb == 0 || tb >= typeBits(p.Type()) {
					continue
				}
				n++
				key := r.MkKey("lookuprange", fnName(fn), "conversion "+cv.Type().String()+"(rune)")
				guarded := false
				for _, g := range guardsOf(b) {
					if backSlice(g.cond)[p] {
						guarded = true
					}
				}
				if guarded {
					r.OK("lookuprange", key, w.Pos(cv.Pos()), "behind a range test of the character")
				} else {
					r.Fail("lookuprange", key, w.Pos(cv.Pos()), "the character is converted to "+cv.Type().String()+" without a range test: a code point above the key range is looked up under its low bits and gets the glyph of another character instead of glyph 0", nil)
				}
			}
		}
	}
	if n == 0 {
		r.OK("lookuprange", r.MkKey("lookuprange", "cmap", "Lookup methods"), "-", "no Lookup method narrows its rune parameter")
	}
}

// zeroGuarded: where the stored value adds the idDelta to an element that is
// not read per segment (an entry of the glyph id array), that addition is
// control-dependent on a comparison of the entry with 0. Sums with the code
// (the delta form) need no such test.
func zeroGuarded(fn *ssa.Function, vals map[ssa.Value]bool, perSegment func(ssa.Value) (ssa.Value, bool), delta map[ssa.Value]bool, cc map[*ssa.BasicBlock][]ssa.Value) bool {
	strip := func(v ssa.Value) ssa.Value {
		for {
			switch x := v.(type) {
			case *ssa.Convert:
				v = x.X
			case *ssa.ChangeType:
				v = x.X
			default:
				return v
			}
		}
	}
	for v := range vals {
		bo, ok := v.(*ssa.BinOp)
		if !ok || bo.Op != token.ADD {
			continue
		}
		var entry ssa.Value
		isDelta := false
		for _, op := range []ssa.Value{bo.X, bo.Y} {
			s := strip(op)
			if arr, ok := perSegment(s); ok && delta[arr] {
				isDelta = true
				continue
			}
			if ld, ok := s.(*ssa.UnOp); ok && ld.Op == token.MUL {
				if _, isIA := ld.X.(*ssa.IndexAddr); isIA {
					if _, per := perSegment(s); !per {
						entry = s
					}
				}
			}
		}
		if !isDelta || entry == nil {
			continue
		}
		guarded := false
		for _, c := range cc[bo.Block()] {
			cmp, ok := c.(*ssa.BinOp)
			if !ok || (cmp.Op != token.NEQ && cmp.Op != token.EQL) {
				continue
			}
			if k, ok := cmp.Y.(*ssa.Const); ok && k.Value != nil && k.Int64() == 0 && strip(cmp.X) == entry {
				guarded = true
			}
		}
		if !guarded {
			return false
		}
	}
	return true
}

// checkCodeWrap: the 16-bit decoders key their result by
// uint16(code2rune(code)). The conversion is harmless as long as the code
// itself is a 16-bit value (code2rune is the identity or the Mac Roman table);
// a code computed as firstCode+i can exceed 0xFFFF, wraps, and lands on a
// character the table does not map.
func checkCodeWrap(w *World, r *Report) {
	r.Rule("codewrap: in the cmap format decoders every code handed to the code-to-rune function whose result is narrowed to uint16 is shown by the linear prover to lie in 0..0xFFFF at that point (type range of the expression, dominating checks on the header fields, loop bounds): a format 6 table with firstCode+entryCount > 0x10000 must not wrap around to low codes")
	br := newBoundsRun(w)
	n := 0
	for _, fn := range w.LibFuncs() {
		if !strings.HasSuffix(fnPkgPath(fn), "/cmap") || !strings.HasPrefix(fn.Name(), "decodeFormat") {
			continue
		}
		for _, b := range fn.Blocks {
			for _, in := range b.Instrs {
				cv, ok := in.(*ssa.Convert)
				if !ok {
					continue
				}
				bt, ok := cv.Type().Underlying().(*types.Basic)
				if !ok || bt.Kind() != types.Uint16 {
					continue
				}
				call, ok := cv.X.(*ssa.Call)
				if !ok || call.Common().StaticCallee() != nil || call.Common().IsInvoke() || len(call.Common().Args) != 1 {
					continue
				}
				// a call through a function value (the code-to-rune parameter, possibly replaced
				// by a default): the result is a rune
				if rb, ok := call.Type().Underlying().(*types.Basic); !ok || rb.Kind() != types.Int32 {
					continue
				}
				n++
				p := br.prover(fn)
				arg := call.Common().Args[0]
				key := r.MkKey("codewrap", fnName(fn), "uint16("+p.srcOf(call)+")")
				if p.fitsType(p.linOf(arg), cv.Type(), cv) {
					r.OK("codewrap", key, w.Pos(cv.Pos()), "the code is a 16-bit value")
				} else {
					r.Fail("codewrap", key, w.Pos(cv.Pos()), "the code "+p.srcOf(arg)+" is not shown to stay below 0x10000: a larger code wraps around in the conversion to uint16 and the subtable maps a low character it does not contain (format 6: firstCode 0xFFFE with 4 entries maps characters 0 and 1)", nil)
				}
			}
		}
	}
	r.Floor("codewrap", 4)
}
