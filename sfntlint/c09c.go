package main

import (
	"fmt"
	"go/token"

	"golang.org/x/tools/go/ssa"
)

// checkSegmentSkip: decodeFormat4 maps the codes of every segment — by the
// delta form or from the glyph id array.  It tolerates one kind of broken
// segment (fonts in the wild carry a final segment whose array offset points
// outside the table): that iteration is skipped.  The skip must stay tied to
// the failed range test: a path that completes an iteration of the segment
// loop without entering either of the two mapping loops is allowed only if
// it is control-dependent on a comparison against the length of a slice (the
// data is not there).  A skip decided by the segment's code range alone
// drops valid segments — e.g. the final 0xFFFF segment when it stores its
// glyph explicitly — and the map read back differs from the map written.
func checkSegmentSkip(w *World, r *Report) {
	r.Rule("segmentskip: in decodeFormat4 every path through an iteration of the segment loop enters one of the loops that map the segment's codes, except paths that are control-dependent (inside the loop) on a comparison with the length of a slice: a segment is skipped only when its data is missing, never on account of its code range alone")
	fn := w.Func("cmap.decodeFormat4")
	if fn == nil {
		r.Fatal("cmap.decodeFormat4 does not resolve")
		return
	}
	key := r.MkKey("segmentskip", "cmap.decodeFormat4", "segment loop")
	loops := naturalLoops(fn)
	hasUpdate := func(l *natLoop) bool {
		for b := range l.body {
			for _, in := range b.Instrs {
				if _, ok := in.(*ssa.MapUpdate); ok {
					return true
				}
			}
		}
		return false
	}
	// the segment loop: the loop with map updates that contains the most other loops with map updates
	var outer *natLoop
	var inner []*natLoop
	for _, l := range loops {
		if !hasUpdate(l) {
			continue
		}
		var in []*natLoop
		for _, m := range loops {
			if m != l && l.body[m.head] && len(m.body) < len(l.body) && hasUpdate(m) {
				in = append(in, m)
			}
		}
		if len(in) > len(inner) {
			outer, inner = l, in
		}
	}
	if outer == nil || len(inner) < 2 {
		r.Fail("segmentskip", key, w.Pos(fn.Pos()), "the segment loop with its two mapping loops (delta form, glyph id array) was not found", nil)
		return
	}
	innerHead := map[*ssa.BasicBlock]bool{}
	for _, m := range inner {
		innerHead[m.head] = true
	}
	// handlers of a failed range test: blocks entered through the true edge
	// of a comparison (inside the loop) that involves the length of a slice;
	// other conditions leading to the same block belong to the same
	// disjunction (`d < 0 || d+n > len(a)`)
	rangeFail := map[*ssa.BasicBlock]bool{}
	for b := range outer.body {
		if len(b.Instrs) == 0 {
			continue
		}
		ifi, ok := b.Instrs[len(b.Instrs)-1].(*ssa.If)
		if !ok {
			continue
		}
		if comparesWithLen(ifi.Cond, 0) {
			rangeFail[b.Succs[0]] = true
		}
	}
	// blocks reachable from the head inside the loop without entering a
	// mapping loop and without passing a failed range test
	seen := map[*ssa.BasicBlock]bool{outer.head: true}
	work := []*ssa.BasicBlock{outer.head}
	var bypass *ssa.BasicBlock
	for len(work) > 0 && bypass == nil {
		b := work[len(work)-1]
		work = work[:len(work)-1]
		for _, s := range b.Succs {
			if s == outer.head {
				if b != outer.head {
					bypass = b
				}
				continue
			}
			if !outer.body[s] || innerHead[s] || rangeFail[s] || seen[s] {
				continue
			}
			seen[s] = true
			work = append(work, s)
		}
	}
	if bypass != nil {
		pos := bypass.Instrs[len(bypass.Instrs)-1].Pos()
		for i := len(bypass.Instrs) - 1; i >= 0 && !pos.IsValid(); i-- {
			pos = bypass.Instrs[i].Pos()
		}
		if !pos.IsValid() {
			pos = fn.Pos()
		}
		r.Fail("segmentskip", key, w.Pos(pos), "an iteration of the segment loop can end without mapping the segment's codes and without a failed test against the length of the glyph id array: a valid segment (for instance the final 0xFFFF segment when it stores its glyph id explicitly) is dropped and the map read back differs from the map written", nil)
		return
	}
	r.OK("segmentskip", key, w.Pos(outer.head.Instrs[0].Pos()), "an iteration ends without mapping its codes only behind a failed range test")
}

// comparesWithLen: the value is computed from a len() call by arithmetic and
// conversions alone (not through memory, other calls or phis).
func comparesWithLen(v ssa.Value, depth int) bool {
	if depth > 8 {
		return false
	}
	switch x := v.(type) {
	case *ssa.Call:
		bi, ok := x.Call.Value.(*ssa.Builtin)
		return ok && bi.Name() == "len"
	case *ssa.BinOp:
		return comparesWithLen(x.X, depth+1) || comparesWithLen(x.Y, depth+1)
	case *ssa.Convert:
		return comparesWithLen(x.X, depth+1)
	case *ssa.ChangeType:
		return comparesWithLen(x.X, depth+1)
	}
	return false
}

// checkPlatformRange: a cmap encoding record names one of the platforms 0
// (Unicode), 1 (Macintosh), 2 (ISO), 3 (Windows), 4 (Custom).  cmap.Decode
// rejects records with other platform ids; the test must still admit all
// five, or a table that Encode wrote (it writes whatever keys the Table has)
// is refused as a whole when it is read back.
func checkPlatformRange(w *World, r *Report) {
	r.Rule("platformrange: the test with which cmap.Decode rejects the platform id of an encoding record (the 16-bit value at offset 4+8i of the table) admits every platform the format defines, 0..4")
	fn := w.Func("cmap.Decode")
	if fn == nil {
		r.Fatal("cmap.Decode does not resolve")
		return
	}
	key := r.MkKey("platformrange", "cmap.Decode", "rejection test of the platform id")
	n := 0
	for _, b := range fn.Blocks {
		if len(b.Instrs) == 0 {
			continue
		}
		ifi, ok := b.Instrs[len(b.Instrs)-1].(*ssa.If)
		if !ok {
			continue
		}
		cmp, ok := ifi.Cond.(*ssa.BinOp)
		if !ok {
			continue
		}
		k, isC := bconstInt(cmp.Y)
		if !isC {
			continue
		}
		// the left side: data[4+8i]<<8 | data[5+8i]
		isPlatform := false
		for v := range backSlice(cmp.X) {
			ia, ok := v.(*ssa.IndexAddr)
			if !ok {
				continue
			}
			if add, ok := ia.Index.(*ssa.BinOp); ok && add.Op == token.ADD {
				for _, pair := range [][2]ssa.Value{{add.X, add.Y}, {add.Y, add.X}} {
					if c, isC := bconstInt(pair[0]); isC && c == 4 {
						if mul, ok := pair[1].(*ssa.BinOp); ok && mul.Op == token.MUL {
							isPlatform = true
						}
					}
				}
			}
		}
		if !isPlatform {
			continue
		}
		// which values reach the error return?
		rejectsOnTrue := false
		if t := b.Succs[0]; len(t.Instrs) > 0 {
			if _, isRet := t.Instrs[len(t.Instrs)-1].(*ssa.Return); isRet {
				rejectsOnTrue = true
			}
		}
		if !rejectsOnTrue {
			continue
		}
		n++
		maxOK := int64(-1)
		switch cmp.Op {
		case token.GTR:
			maxOK = k
		case token.GEQ:
			maxOK = k - 1
		}
		switch {
		case maxOK < 0:
			r.Fail("platformrange", key, w.Pos(cmp.Pos()), "the platform id is rejected by a test this rule does not understand (expected: id > constant)", nil)
		case maxOK < 4:
			r.Fail("platformrange", key, w.Pos(cmp.Pos()), fmt.Sprintf("platform ids above %d are rejected, but the format defines platforms 0..4 (4 = Custom): a table with such a record, which Encode writes without complaint, cannot be read back", maxOK), nil)
		default:
			r.OK("platformrange", key, w.Pos(cmp.Pos()), fmt.Sprintf("platform ids 0..%d are admitted", maxOK))
		}
	}
	if n == 0 {
		r.OK("platformrange", key, w.Pos(fn.Pos()), "no platform id is rejected")
	}
}
