package main

import (
	"fmt"
	"go/ast"
	"go/token"
	"go/types"
	"strings"

	"golang.org/x/tools/go/ssa"
)

// checkFDEvery: the FDSelect function of a subset font with several font
// dictionaries answers from a per-glyph table that the subsetter fills in a
// loop over the retained glyphs.  Every element must be written: a store that
// sits inside a branch of the loop body (for instance the branch that handles
// a font dictionary seen for the first time) leaves the other glyphs at 0,
// which is a valid index of a different dictionary.
func checkFDEvery(w *World, r *Report) {
	r.Rule("fdevery: in the two CFF subsetters the table that the new FDSelect closure answers from is written on every iteration of the loop over the retained glyphs: the block holding the store dominates every back edge of that loop (no glyph keeps the zero the table was allocated with)")
	for _, name := range []string{"(*sfnt.subsetter).SubsetCFF", "(*cff.Outlines).Subset"} {
		fn := w.Func(name)
		if fn == nil {
			r.Fatal("%s does not resolve", name)
			continue
		}
		loops := naturalLoops(fn)
		n := 0
		for _, b := range fn.Blocks {
			for _, in := range b.Instrs {
				st, ok := in.(*ssa.Store)
				if !ok || fieldName(st.Addr) != "FDSelect" {
					continue
				}
				val := st.Val
				for {
					if ct, ok := val.(*ssa.ChangeType); ok {
						val = ct.X
						continue
					}
					break
				}
				mc, ok := val.(*ssa.MakeClosure)
				if !ok {
					continue
				}
				for _, bind := range mc.Bindings {
					if !isSliceOrSliceCell(bind) {
						continue
					}
					// stores into elements of the captured table
					for _, b2 := range fn.Blocks {
						for _, in2 := range b2.Instrs {
							st2, ok := in2.(*ssa.Store)
							if !ok {
								continue
							}
							ia, ok := st2.Addr.(*ssa.IndexAddr)
							if !ok || !sameTable(ia.X, bind) {
								continue
							}
							n++
							key := r.MkKey("fdevery", fnName(fn), "store into the table behind the new FDSelect")
							var inner *natLoop
							for _, l := range loops {
								if l.body[b2] && (inner == nil || len(l.body) < len(inner.body)) {
									inner = l
								}
							}
							if inner == nil {
								r.Fail("fdevery", key, w.Pos(st2.Pos()), "the table behind the new FDSelect function is written outside any loop over the retained glyphs", nil)
								continue
							}
							every := true
							for _, lt := range inner.latches {
								if !b2.Dominates(lt) {
									every = false
								}
							}
							if every {
								r.OK("fdevery", key, w.Pos(st2.Pos()), "the store runs on every iteration of the loop over the retained glyphs")
							} else {
								r.Fail("fdevery", key, w.Pos(st2.Pos()), "the font-dictionary index of a glyph is stored only on some paths through the loop over the retained glyphs (the store does not dominate the loop's back edge): the other glyphs keep index 0 and are given the private dictionary and font matrix of another font dictionary", nil)
							}
						}
					}
				}
			}
		}
		if n == 0 {
			r.Fail("fdevery", r.MkKey("fdevery", fnName(fn), "store into the table behind the new FDSelect"), w.Pos(fn.Pos()), "no per-glyph table behind the new FDSelect function found", nil)
		}
		// the FDSelect field of the new outlines is assigned on every path to a return
		// (a nil FDSelect makes every later use of the subset panic)
		setBlocks := map[*ssa.BasicBlock]bool{}
		for _, b := range fn.Blocks {
			for _, in := range b.Instrs {
				if st, ok := in.(*ssa.Store); ok && fieldName(st.Addr) == "FDSelect" {
					setBlocks[b] = true
				}
			}
		}
		key := r.MkKey("fdevery", fnName(fn), "FDSelect of the subset assigned on every path")
		var bare *ssa.BasicBlock
		seen := map[*ssa.BasicBlock]bool{}
		work := []*ssa.BasicBlock{fn.Blocks[0]}
		for len(work) > 0 && bare == nil {
			b := work[len(work)-1]
			work = work[:len(work)-1]
			if seen[b] || setBlocks[b] {
				continue
			}
			seen[b] = true
			if len(b.Instrs) > 0 {
				if ret, ok := b.Instrs[len(b.Instrs)-1].(*ssa.Return); ok {
					// returning nil outlines (nothing to subset) is not a subset without FDSelect
					nilRes := len(ret.Results) > 0
					for _, rv := range ret.Results {
						if c, ok := rv.(*ssa.Const); !ok || !c.IsNil() {
							nilRes = false
						}
					}
					if !nilRes {
						bare = b
					}
				}
			}
			work = append(work, b.Succs...)
		}
		if bare == nil {
			r.OK("fdevery", key, w.Pos(fn.Pos()), "every returning path assigns FDSelect")
		} else {
			r.Fail("fdevery", key, w.Pos(bare.Instrs[len(bare.Instrs)-1].Pos()), "a path to this return assigns no FDSelect function to the new outlines (for instance when a single private dictionary remains): the field stays nil and the first use of the subset — writing it, asking for a glyph's font dictionary — panics", nil)
		}
	}
	r.Floor("fdevery", 4)
}

func isSliceOrSliceCell(v ssa.Value) bool {
	t := v.Type()
	if p, ok := t.Underlying().(*types.Pointer); ok {
		if _, isAlloc := v.(*ssa.Alloc); isAlloc {
			t = p.Elem()
		}
	}
	_, ok := t.Underlying().(*types.Slice)
	return ok
}

// sameTable: x is the captured slice value itself or a load of the captured cell.
func sameTable(x, bind ssa.Value) bool {
	if x == bind {
		return true
	}
	if ld, ok := x.(*ssa.UnOp); ok && ld.Op == token.MUL && ld.X == bind {
		return true
	}
	return false
}

// checkFreshResult: a subsetting function renumbers every glyph id of the
// table it is given, so what it returns is built from the renumbered values;
// handing back the table that was passed in (a shortcut for "nothing was
// removed") keeps the old numbering, which is wrong whenever the retained
// glyphs change position.
func checkFreshResult(w *World, r *Report, fns []*ssa.Function) {
	r.Rule("freshresult: no subsetting function returns the table it was given (or a value obtained from it by a type assertion or interface conversion alone): every result is a newly built value")
	for _, fn := range fns {
		if fn.Signature.Results().Len() == 0 || len(fn.Params) == 0 {
			continue
		}
		for _, b := range fn.Blocks {
			ret, ok := b.Instrs[len(b.Instrs)-1].(*ssa.Return)
			if !ok {
				continue
			}
			for _, res := range ret.Results {
				key := r.MkKey("freshresult", fnName(fn), "returned value")
				if p := passesParam(res, map[ssa.Value]bool{}); p != nil {
					r.Fail("freshresult", key, w.Pos(ret.Pos()), fmt.Sprintf("the function can return its argument %s unchanged: the glyph ids in it still carry the old numbering, so the subset maps characters (or rules) to the wrong glyphs whenever the retained glyphs change position", p.Name()), nil)
				} else {
					r.OK("freshresult", key, w.Pos(ret.Pos()), "the result is not the argument")
				}
			}
		}
	}
	r.Floor("freshresult", 8)
}

func passesParam(v ssa.Value, seen map[ssa.Value]bool) *ssa.Parameter {
	if seen[v] {
		return nil
	}
	seen[v] = true
	switch x := v.(type) {
	case *ssa.Parameter:
		// the receiver of a method is not "the table given"
		if fn := x.Parent(); fn != nil && fn.Signature.Recv() != nil && len(fn.Params) > 0 && fn.Params[0] == x {
			return nil
		}
		return x
	case *ssa.MakeInterface:
		return passesParam(x.X, seen)
	case *ssa.ChangeInterface:
		return passesParam(x.X, seen)
	case *ssa.ChangeType:
		return passesParam(x.X, seen)
	case *ssa.TypeAssert:
		return passesParam(x.X, seen)
	case *ssa.Extract:
		return passesParam(x.Tuple, seen)
	case *ssa.Phi:
		for _, e := range x.Edges {
			if p := passesParam(e, seen); p != nil {
				return p
			}
		}
	}
	return nil
}

// RunRangeCopy: `for _, r := range rules` gives the body a copy of each
// element when the elements are structs or arrays.  An assignment to a field
// of that copy changes nothing outside the iteration unless the copy is
// written back, appended or handed on; where the body only reads fields of
// the copy afterwards, the update the code meant to record in the slice is
// lost (a counter that is decremented across rounds never reaches zero).
func RunRangeCopy(w *World, r *Report, fns []*ssa.Function) {
	r.Rule("rangecopy: in a range loop whose value variable is a struct or array copy of the element, no field or element of that variable is assigned unless the variable as a whole is used afterwards in the body (stored back, appended, passed on or its address taken): otherwise the update is made to the per-iteration copy and is lost")
	done := map[*ast.RangeStmt]bool{}
	for _, fn := range fns {
		root := fn
		for root.Parent() != nil {
			root = root.Parent()
		}
		syn := root.Syntax()
		info := w.Info(root)
		if syn == nil || info == nil {
			continue
		}
		ast.Inspect(syn, func(n ast.Node) bool {
			rs, ok := n.(*ast.RangeStmt)
			if !ok || done[rs] {
				return true
			}
			done[rs] = true
			id, ok := rs.Value.(*ast.Ident)
			if !ok || id.Name == "_" || rs.Tok != token.DEFINE {
				return true
			}
			obj := info.Defs[id]
			if obj == nil {
				return true
			}
			switch obj.Type().Underlying().(type) {
			case *types.Struct, *types.Array:
			default:
				return true
			}
			// writes through the copy
			var writes []ast.Node
			rootOf := func(e ast.Expr) *ast.Ident {
				through := false
				for {
					switch x := e.(type) {
					case *ast.ParenExpr:
						e = x.X
					case *ast.SelectorExpr:
						// a field reached through a pointer or slice is shared with the element
						if tv, ok := info.Types[x.X]; ok {
							if _, isPtr := tv.Type.Underlying().(*types.Pointer); isPtr {
								return nil
							}
						}
						e = x.X
						through = true
					case *ast.IndexExpr:
						if tv, ok := info.Types[x.X]; ok {
							if _, isArr := tv.Type.Underlying().(*types.Array); !isArr {
								return nil // slice or map: shared storage
							}
						}
						e = x.X
						through = true
					case *ast.Ident:
						if through {
							return x
						}
						return nil
					default:
						return nil
					}
				}
			}
			whole := false
			ast.Inspect(rs.Body, func(n ast.Node) bool {
				switch x := n.(type) {
				case *ast.AssignStmt:
					for _, l := range x.Lhs {
						if rid := rootOf(l); rid != nil && info.Uses[rid] == obj {
							writes = append(writes, l)
						}
					}
				case *ast.IncDecStmt:
					if rid := rootOf(x.X); rid != nil && info.Uses[rid] == obj {
						writes = append(writes, x)
					}
				}
				return true
			})
			if len(writes) == 0 {
				return true
			}
			// whole uses: the identifier anywhere it is not the root of a selector/index chain that reads or writes a part
			parents := map[ast.Node]ast.Node{}
			var stack []ast.Node
			ast.Inspect(rs.Body, func(n ast.Node) bool {
				if n == nil {
					stack = stack[:len(stack)-1]
					return true
				}
				if len(stack) > 0 {
					parents[n] = stack[len(stack)-1]
				}
				stack = append(stack, n)
				return true
			})
			ast.Inspect(rs.Body, func(n ast.Node) bool {
				uid, ok := n.(*ast.Ident)
				if !ok || info.Uses[uid] != obj {
					return true
				}
				switch p := parents[uid].(type) {
				case *ast.SelectorExpr:
					if p.X == uid {
						// a method with pointer receiver takes the address of the copy: still the copy, but
						// the method may publish it; a field read is a part use
						if sel, ok := info.Selections[p]; ok && sel.Kind() == types.FieldVal {
							return true
						}
						whole = true
						return true
					}
				case *ast.IndexExpr:
					if p.X == uid {
						return true
					}
				}
				whole = true
				return true
			})
			key := r.MkKey("rangecopy", fnName(root), "range variable "+id.Name)
			if whole {
				r.OK("rangecopy", key, w.Pos(writes[0].Pos()), "the modified copy is used as a whole afterwards")
				return true
			}
			var what []string
			for _, wn := range writes {
				switch x := wn.(type) {
				case ast.Expr:
					what = append(what, types.ExprString(x))
				case *ast.IncDecStmt:
					what = append(what, types.ExprString(x.X)+x.Tok.String())
				}
			}
			r.Fail("rangecopy", key, w.Pos(writes[0].Pos()), fmt.Sprintf("%s assigns to the loop's copy of the element (%s is a %s value, not a reference) and the copy is never stored back or passed on: the element of %s keeps its old value, so whatever the update was meant to record across iterations or rounds is lost", strings.Join(what, ", "), id.Name, obj.Type().String(), types.ExprString(rs.X)), nil)
			return true
		})
	}
}

// RunFullScan: the subsetting functions translate a table of the source font
// entry by entry.  A loop that fills a table of the subset from a table of
// the source must visit every entry: it has no exit other than its own loop
// condition (an early `break` once "enough" entries were produced drops the
// entries not yet visited — several characters can share a glyph, several
// rules an input).  Exits that panic are not exits in this sense.
func RunFullScan(w *World, r *Report, fns []*ssa.Function) {
	r.Rule("fullscan: in the subsetting functions a loop that stores into a map of the subset (one entry per visited entry of the source table) is left only through its loop condition: no break or return inside the body, so every entry of the source table is translated")
	for _, fn := range fns {
		loops := naturalLoops(fn)
		for _, l := range loops {
			// the translation loop itself: the innermost loop around the map update
			var upd *ssa.MapUpdate
			for b := range l.body {
				inner := false
				for _, m := range loops {
					if m != l && len(m.body) < len(l.body) && m.body[b] && l.body[m.head] {
						inner = true
					}
				}
				if inner {
					continue
				}
				for _, in := range b.Instrs {
					if mu, ok := in.(*ssa.MapUpdate); ok && upd == nil {
						if isOut, _ := outputContainer(mu.Map); isOut {
							upd = mu
						}
					}
				}
			}
			if upd == nil {
				continue
			}
			key := r.MkKey("fullscan", fnName(fn), "loop filling "+shortName(upd.Map.Type().String()))
			var early *ssa.BasicBlock
			for b := range l.body {
				if b == l.head {
					continue
				}
				for _, s := range b.Succs {
					if l.body[s] {
						continue
					}
					if len(s.Instrs) > 0 {
						if _, isPanic := s.Instrs[len(s.Instrs)-1].(*ssa.Panic); isPanic {
							continue
						}
					}
					early = b
				}
			}
			if early == nil {
				r.OK("fullscan", key, w.Pos(upd.Pos()), "left through the loop condition only")
			} else {
				pos := upd.Pos()
				for _, in := range early.Instrs {
					if in.Pos().IsValid() {
						pos = in.Pos()
					}
				}
				r.Fail("fullscan", key, w.Pos(pos), "the loop that translates the source table into the subset's table can be left from inside its body (break or return): the entries not visited yet are dropped — with several characters mapped to one retained glyph, or several rules sharing an input, the subset loses mappings although their glyphs are retained", nil)
			}
		}
	}
}

// RunCodeSpace: (cmap.Table).Get hands out subtables keyed by character: for
// a Macintosh subtable (platform 1) it translates the Mac Roman codes of the
// file to unicode. A function that stores the re-encoded subtable under the
// key it was read with therefore has to translate the characters back to
// codes for that platform; otherwise the translation is applied a second time
// when the subset is read, and every non-ASCII character of the Macintosh
// subtable changes its meaning.
func RunCodeSpace(w *World, r *Report) {
	r.Rule("codespace: where a function decodes a cmap subtable with (cmap.Table).Get(key) — which translates Macintosh codes to unicode — and stores an encoded subtable into a cmap.Table under that same key, a call into package mac that is control-dependent on a test of the key's PlatformID translates the characters back to codes before the subtable is encoded")
	fn := w.Func("(*sfnt.Font).Subset")
	if fn == nil {
		r.Fatal("anchor (*sfnt.Font).Subset does not resolve")
		return
	}
	isCmapTable := func(t types.Type) bool {
		n, ok := t.(*types.Named)
		return ok && n.Obj().Pkg() != nil && n.Obj().Pkg().Path() == modPath+"/cmap" && n.Obj().Name() == "Table"
	}
	var gets []*ssa.Call
	var upds []*ssa.MapUpdate
	for _, b := range fn.Blocks {
		for _, in := range b.Instrs {
			switch x := in.(type) {
			case *ssa.Call:
				if c := x.Common().StaticCallee(); c != nil && fnName(c) == "(cmap.Table).Get" {
					gets = append(gets, x)
				}
			case *ssa.MapUpdate:
				if isCmapTable(x.Map.Type()) {
					upds = append(upds, x)
				}
			}
		}
	}
	cc := controlConds(fn)
	n := 0
	for _, g := range gets {
		key := g.Common().Args[1]
		for _, u := range upds {
			if !sameLoaded(u.Key, key) {
				continue
			}
			n++
			k := r.MkKey("codespace", fnName(fn), "subtable stored under the key it was read with")
			ok := false
			for _, b := range fn.Blocks {
				for _, in := range b.Instrs {
					call, isCall := in.(*ssa.Call)
					if !isCall {
						continue
					}
					c := call.Common().StaticCallee()
					if c == nil || c.Pkg == nil || c.Pkg.Pkg.Path() != modPath+"/mac" {
						continue
					}
					for _, cond := range cc[b] {
						for v := range backSlice(cond) {
							switch f := v.(type) {
							case *ssa.Field:
								if fieldNameOfField(f) == "PlatformID" && f.X == key {
									ok = true
								}
							case *ssa.FieldAddr:
								if fieldName(f) == "PlatformID" {
									ok = true
								}
							}
						}
					}
				}
			}
			if ok {
				r.OK("codespace", k, w.Pos(u.Pos()), "Macintosh subtables are translated back to codes first")
			} else {
				r.Fail("codespace", k, w.Pos(u.Pos()), "the subtable decoded by Get (unicode keys, Macintosh codes translated) is encoded and stored under the same key without translating the characters of a platform 1 subtable back to Mac Roman codes: on reading the subset the translation is applied a second time and non-ASCII characters map to other glyphs or to none", nil)
			}
		}
	}
	if n == 0 {
		r.Fail("codespace", r.MkKey("codespace", fnName(fn), "subtable stored under the key it was read with"), w.Pos(fn.Pos()), "no cmap subtable that is read with Get and stored under the same key was found in Font.Subset", nil)
	}
}

// sameLoaded: the same value, or two loads of the same local variable.
func sameLoaded(a, b ssa.Value) bool {
	if a == b {
		return true
	}
	la, ok1 := a.(*ssa.UnOp)
	lb, ok2 := b.(*ssa.UnOp)
	return ok1 && ok2 && la.Op == token.MUL && lb.Op == token.MUL && la.X == lb.X
}
