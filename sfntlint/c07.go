package main

import (
	"fmt"
	"go/ast"
	"go/constant"
	"go/token"
	"go/types"
	"strings"

	"golang.org/x/tools/go/ssa"
)

// Rules for the shaping engine (C06, C07).

// ---------------------------------------------------------------------------
// E13 slicealias: y = x[:k] assigned to a different variable, and both grown.

func RunSliceAlias(w *World, r *Report, fns []*ssa.Function) {
	r.Rule("slicealias: a re-slice x[:k] assigned to a different local slice variable y shares x's backing array; if afterwards both x and y are grown by append while both are in use, appends through one overwrite the other — reported as a violation (x = x[:0], hand-over to a field, and append(x[:0], …) are fine)")
	for _, fn := range fns {
		body, _ := funcBody(fn)
		info := w.Info(fn)
		if body == nil || info == nil {
			continue
		}
		name := fnName(fn)
		appended := func(obj types.Object, from token.Pos, scope ast.Node) bool {
			found := false
			ast.Inspect(scope, func(n ast.Node) bool {
				if fl, ok := n.(*ast.FuncLit); ok && fl != scope {
					return false
				}
				as, ok := n.(*ast.AssignStmt)
				if !ok || len(as.Lhs) != 1 || len(as.Rhs) != 1 {
					return true
				}
				lid, ok := as.Lhs[0].(*ast.Ident)
				if !ok || info.ObjectOf(lid) != obj {
					return true
				}
				call, ok := as.Rhs[0].(*ast.CallExpr)
				if !ok {
					return true
				}
				if id, ok := call.Fun.(*ast.Ident); ok && id.Name == "append" && len(call.Args) > 0 {
					if aid, ok := call.Args[0].(*ast.Ident); ok && info.ObjectOf(aid) == obj {
						found = true
					}
				}
				return true
			})
			return found
		}
		ast.Inspect(body, func(n ast.Node) bool {
			if _, ok := n.(*ast.FuncLit); ok {
				return false
			}
			as, ok := n.(*ast.AssignStmt)
			if !ok || len(as.Lhs) != 1 || len(as.Rhs) != 1 {
				return true
			}
			se, ok := as.Rhs[0].(*ast.SliceExpr)
			if !ok {
				return true
			}
			lid, ok1 := as.Lhs[0].(*ast.Ident)
			xid, ok2 := se.X.(*ast.Ident)
			if !ok1 || !ok2 {
				return true
			}
			lo, xo := info.ObjectOf(lid), info.ObjectOf(xid)
			if lo == nil || xo == nil || lo == xo {
				return true
			}
			if _, isSlice := xo.Type().Underlying().(*types.Slice); !isSlice {
				return true
			}
			if _, isVar := xo.(*types.Var); !isVar {
				return true
			}
			// the enclosing loop (if any) or function body is the region in which both are live
			var scope ast.Node = body
			for _, p := range enclosing(body, as.Pos()) {
				switch p.(type) {
				case *ast.ForStmt, *ast.RangeStmt:
					scope = p
				}
			}
			key := r.MkKey("slicealias", name, fmt.Sprintf("%s = %s[…]", lid.Name, xid.Name))
			if appended(lo, as.Pos(), scope) && appended(xo, as.Pos(), scope) {
				r.Fail("slicealias", key, w.Pos(as.Pos()), fmt.Sprintf("%s aliases the backing array of %s and both are extended by append afterwards: appends through one overwrite elements of the other", lid.Name, xid.Name), nil)
			} else {
				r.OK("slicealias", key, w.Pos(as.Pos()), "alias of a backing array, but at most one of the two slices is grown")
			}
			return true
		})
	}
}

// ---------------------------------------------------------------------------
// reusable scratch buffer of the shaping context

func ctxParam(fn *ssa.Function, ctxType types.Type) *ssa.Parameter {
	for _, p := range fn.Params {
		if pt, ok := p.Type().(*types.Pointer); ok && types.Identical(pt.Elem(), ctxType) {
			return p
		}
	}
	return nil
}

func isFieldOf(v ssa.Value, base ssa.Value, field string) bool {
	fa, ok := v.(*ssa.FieldAddr)
	return ok && fa.X == base && fieldName(fa) == field
}

func isNilConst(v ssa.Value) bool {
	c, ok := v.(*ssa.Const)
	return ok && c.Value == nil
}

// derivedFrom computes the values derived from the seeds through slicing,
// phi, append (first argument) and type changes.
func derivedFrom(fn *ssa.Function, seeds map[ssa.Value]bool) map[ssa.Value]bool {
	d := map[ssa.Value]bool{}
	for v := range seeds {
		d[v] = true
	}
	for changed := true; changed; {
		changed = false
		for _, b := range fn.Blocks {
			for _, ins := range b.Instrs {
				v, ok := ins.(ssa.Value)
				if !ok || d[v] {
					continue
				}
				hit := false
				switch x := ins.(type) {
				case *ssa.Slice:
					hit = d[x.X]
				case *ssa.Phi:
					for _, e := range x.Edges {
						if d[e] {
							hit = true
						}
					}
				case *ssa.ChangeType:
					hit = d[x.X]
				case *ssa.Call:
					if bi, ok := x.Call.Value.(*ssa.Builtin); ok && bi.Name() == "append" {
						hit = d[x.Call.Args[0]]
					}
				}
				if hit {
					d[v] = true
					changed = true
				}
			}
		}
	}
	return d
}

func RunScratchDiscipline(w *World, r *Report) {
	r.Rule("scratchclaim: in every function of package gtab that takes the shaping context, a slice derived from ctx.scratch may be stored into longer-lived memory (e.g. a nested-action record pushed on ctx.stack) only after ctx.scratch has been set to nil on that path (claim), so that a nested lookup cannot reuse and overwrite it || scratchreuse: the loaded scratch buffer is only re-used as scratch[:0] / through append / stored back — its old contents are never read")
	gp := w.SSAPkg[modPath+"/opentype/gtab"]
	if gp == nil {
		r.Fatal("package opentype/gtab not loaded")
		return
	}
	ctxT := gp.Pkg.Scope().Lookup("Context")
	if ctxT == nil {
		r.Fatal("type gtab.Context not found")
		return
	}
	nClaim := 0
	for _, fn := range w.LibFuncs() {
		if fnPkgPath(fn) != gp.Pkg.Path() || len(fn.Blocks) == 0 {
			continue
		}
		ctx := ctxParam(fn, ctxT.Type())
		if ctx == nil {
			continue
		}
		name := fnName(fn)
		seeds := map[ssa.Value]bool{}
		for _, b := range fn.Blocks {
			for _, ins := range b.Instrs {
				if u, ok := ins.(*ssa.UnOp); ok && u.Op == token.MUL && isFieldOf(u.X, ctx, "scratch") {
					seeds[u] = true
				}
			}
		}
		if len(seeds) == 0 {
			continue
		}
		d := derivedFrom(fn, seeds)
		// scratchreuse
		for s := range seeds {
			key := r.MkKey("scratchreuse", name, "load of ctx.scratch")
			bad := ""
			for _, ref := range *s.Referrers() {
				switch x := ref.(type) {
				case *ssa.Slice:
					if hc, ok := x.High.(*ssa.Const); !ok || hc.Int64() != 0 {
						bad = "re-sliced to a non-zero length at " + w.Pos(x.Pos())
					}
				case *ssa.Phi, *ssa.DebugRef:
				case *ssa.Store:
					if x.Val == ssa.Value(s) && !isFieldOf(x.Addr, ctx, "scratch") {
						bad = "stored elsewhere without being reset at " + w.Pos(x.Pos())
					}
				case *ssa.Call:
					if bi, ok := x.Call.Value.(*ssa.Builtin); !ok || (bi.Name() != "append" && bi.Name() != "cap") {
						bad = "passed to a call at " + w.Pos(x.Pos())
					}
				default:
					bad = fmt.Sprintf("used by %T at %s", ref, w.Pos(ref.Pos()))
				}
			}
			if bad == "" {
				r.OK("scratchreuse", key, w.Pos(s.Pos()), "old contents never observed")
			} else {
				r.Fail("scratchreuse", key, w.Pos(s.Pos()), "the scratch buffer's previous contents can be observed: "+bad, nil)
			}
		}
		// scratchclaim: escapes of derived values
		for _, b := range fn.Blocks {
			for i, ins := range b.Instrs {
				st, ok := ins.(*ssa.Store)
				if !ok || !d[st.Val] {
					continue
				}
				if isFieldOf(st.Addr, ctx, "scratch") {
					continue // release
				}
				if _, isAlloc := st.Addr.(*ssa.Alloc); isAlloc && !st.Addr.(*ssa.Alloc).Heap {
					continue // local variable
				}
				nClaim++
				key := r.MkKey("scratchclaim", name, "escape of scratch-derived slice into "+describeAddr(st.Addr))
				claimed := false
				// a store ctx.scratch = nil earlier in this block, or in a dominating block
				for _, bb := range fn.Blocks {
					for j, ins2 := range bb.Instrs {
						s2, ok := ins2.(*ssa.Store)
						if !ok || !isFieldOf(s2.Addr, ctx, "scratch") || !isNilConst(s2.Val) {
							continue
						}
						if (bb == b && j < i) || (bb != b && bb.Dominates(b)) {
							claimed = true
						}
					}
				}
				if claimed {
					r.OK("scratchclaim", key, w.Pos(st.Pos()), "ctx.scratch is set to nil before the slice escapes")
				} else {
					r.Fail("scratchclaim", key, w.Pos(st.Pos()), "a slice that shares ctx.scratch's backing array is stored into "+describeAddr(st.Addr)+" without first claiming the scratch space (ctx.scratch = nil): a nested lookup will overwrite the recorded positions", nil)
				}
			}
		}
	}
	r.Floor("scratchclaim", 5)
	r.Floor("scratchreuse", 5)
	_ = nClaim
}

// ---------------------------------------------------------------------------
// text conservation: no append onto a Text slice borrowed from the input

func RunTextAppend(w *World, r *Report) {
	r.Rule("textappend: in package gtab no append has as its base a slice loaded from the Text field of a glyph.Info (appending to input-owned Text may overwrite the text of neighbouring glyphs that share the backing array); text is accumulated in a private buffer")
	gp := w.SSAPkg[modPath+"/opentype/gtab"]
	n := 0
	for _, fn := range w.LibFuncs() {
		if fnPkgPath(fn) != gp.Pkg.Path() {
			continue
		}
		name := fnName(fn)
		for _, b := range fn.Blocks {
			for _, ins := range b.Instrs {
				c, ok := ins.(*ssa.Call)
				if !ok {
					continue
				}
				bi, ok := c.Call.Value.(*ssa.Builtin)
				if !ok || bi.Name() != "append" {
					continue
				}
				if sl, ok := c.Type().Underlying().(*types.Slice); !ok || !types.Identical(sl.Elem(), types.Typ[types.Rune]) && sl.Elem().String() != "rune" && sl.Elem().String() != "int32" {
					continue
				}
				n++
				key := r.MkKey("textappend", name, "append to rune slice")
				// trace the base
				bad := false
				seen := map[ssa.Value]bool{}
				var visit func(v ssa.Value)
				visit = func(v ssa.Value) {
					if seen[v] {
						return
					}
					seen[v] = true
					switch x := v.(type) {
					case *ssa.Slice:
						visit(x.X)
					case *ssa.Phi:
						for _, e := range x.Edges {
							visit(e)
						}
					case *ssa.Call:
						if bi, ok := x.Call.Value.(*ssa.Builtin); ok && bi.Name() == "append" {
							visit(x.Call.Args[0])
						}
					case *ssa.UnOp:
						if x.Op == token.MUL && fieldName(x.X) == "Text" {
							bad = true
						}
					case *ssa.Field:
						if fieldName(x) == "Text" {
							bad = true
						}
					}
				}
				visit(c.Call.Args[0])
				if bad {
					r.Fail("textappend", key, w.Pos(c.Pos()), "append onto a Text slice that belongs to an input glyph: may overwrite characters of other glyphs sharing the backing array (text not conserved)", nil)
				} else {
					r.OK("textappend", key, w.Pos(c.Pos()), "base is a private buffer")
				}
			}
		}
	}
	r.Floor("textappend", 1)
}

// ---------------------------------------------------------------------------
// nested-action stack typestate

// storesToStack lists the stores into ctx.stack in fn.
func storesToStack(fn *ssa.Function, ctx ssa.Value) []*ssa.Store {
	var res []*ssa.Store
	for _, b := range fn.Blocks {
		for _, ins := range b.Instrs {
			if st, ok := ins.(*ssa.Store); ok && isFieldOf(st.Addr, ctx, "stack") {
				res = append(res, st)
			}
		}
	}
	return res
}

func RunStackTypestate(w *World, r *Report, e *Effects) {
	r.Rule("pushimplies: in every Subtable.apply method no path leads from a store to ctx.stack to a `return -1` (no match ⇒ nothing pushed) || stackempty: at every return of (*Context).applyAtRecursively the nested-action stack is empty — the return is unreachable from any call that may push, or is guarded by the pushing call having reported no match, or is dominated by the stack being reset to length 0 / by the loop test len(ctx.stack) > 0 being false with no other loop exit — so a later Apply on the same Context cannot see actions left over from an earlier call")
	gp := w.SSAPkg[modPath+"/opentype/gtab"]
	ctxT := gp.Pkg.Scope().Lookup("Context").Type()
	// pushimplies
	nApply := 0
	for _, fn := range w.LibFuncs() {
		if fnPkgPath(fn) != gp.Pkg.Path() || fn.Name() != "apply" || fn.Signature.Recv() == nil {
			continue
		}
		ctx := ctxParam(fn, ctxT)
		if ctx == nil {
			continue
		}
		nApply++
		name := fnName(fn)
		pushes := storesToStack(fn, ctx)
		key := r.MkKey("pushimplies", name, "return -1")
		bad := ""
		for _, b := range fn.Blocks {
			if len(b.Instrs) == 0 {
				continue
			}
			ret, ok := b.Instrs[len(b.Instrs)-1].(*ssa.Return)
			if !ok || len(ret.Results) != 1 {
				continue
			}
			c, ok := ret.Results[0].(*ssa.Const)
			neg := ok && c.Value != nil && constant.Sign(c.Value) < 0
			if !neg {
				// a phi that may be negative is treated as possibly -1
				if _, isPhi := ret.Results[0].(*ssa.Phi); isPhi {
					for _, ed := range ret.Results[0].(*ssa.Phi).Edges {
						if cc, ok := ed.(*ssa.Const); ok && cc.Value != nil && constant.Sign(cc.Value) < 0 {
							neg = true
						}
					}
				}
			}
			if !neg {
				continue
			}
			for _, p := range pushes {
				if p.Block() == b || reaches(p.Block(), b) {
					bad = fmt.Sprintf("the store to ctx.stack at %s can be followed by the `return -1` at %s", w.Pos(p.Pos()), w.Pos(ret.Pos()))
				}
			}
		}
		if bad == "" {
			r.OK("pushimplies", key, w.Pos(fn.Pos()), fmt.Sprintf("%d stores to ctx.stack, none can reach a negative return", len(pushes)))
		} else {
			r.Fail("pushimplies", key, w.Pos(fn.Pos()), bad, nil)
		}
	}
	if nApply < 20 {
		r.Fatal("only %d Subtable.apply methods found (expected >= 20)", nApply)
	}
	// stackempty
	fn := w.Func("(*opentype/gtab.Context).applyAtRecursively")
	if fn == nil {
		// fall back: any Context method that loops on len(ctx.stack)
		r.Fatal("anchor (*gtab.Context).applyAtRecursively does not resolve")
		return
	}
	name := fnName(fn)
	ctx := fn.Params[0]
	// calls that may write ctx.stack (by effect summary)
	var pushing []*ssa.Call
	stackField := -1
	if st, ok := ctxT.Underlying().(*types.Struct); ok {
		for i := 0; i < st.NumFields(); i++ {
			if st.Field(i).Name() == "stack" {
				stackField = i
			}
		}
	}
	for _, b := range fn.Blocks {
		for _, ins := range b.Instrs {
			c, ok := ins.(*ssa.Call)
			if !ok {
				continue
			}
			for _, callee := range w.Callees(c) {
				s := e.sums[callee]
				if s == nil {
					continue
				}
				for l := range s.writes {
					ri := e.roots[l.root()]
					if ri.kind == rkParam && l.field() == stackField || ri.kind == rkParamVia && ri.via == stackField {
						// the context must be among the arguments
						pushing = append(pushing, c)
					}
				}
			}
		}
	}
	seenCall := map[*ssa.Call]bool{}
	var pc []*ssa.Call
	for _, c := range pushing {
		if !seenCall[c] {
			seenCall[c] = true
			pc = append(pc, c)
		}
	}
	if len(pc) == 0 {
		r.Fatal("%s: no call that may push nested actions found (effect summaries changed?)", name)
		return
	}
	isLenStack := func(v ssa.Value) bool {
		c, ok := v.(*ssa.Call)
		if !ok {
			return false
		}
		bi, ok := c.Call.Value.(*ssa.Builtin)
		if !ok || bi.Name() != "len" {
			return false
		}
		u, ok := c.Call.Args[0].(*ssa.UnOp)
		return ok && isFieldOf(u.X, ctx, "stack")
	}
	for _, b := range fn.Blocks {
		if len(b.Instrs) == 0 {
			continue
		}
		ret, ok := b.Instrs[len(b.Instrs)-1].(*ssa.Return)
		if !ok {
			continue
		}
		key := r.MkKey("stackempty", name, "return")
		// (a) unreachable from pushing calls
		reach := false
		var first *ssa.Call
		for _, c := range pc {
			if c.Block() == b || reaches(c.Block(), b) {
				reach = true
				if first == nil {
					first = c
				}
			}
		}
		if !reach {
			r.OK("stackempty", key, w.Pos(ret.Pos()), "no call that can push precedes this return")
			continue
		}
		// (b) guarded by `result of the only preceding pushing call < 0`
		okB := false
		nReach := 0
		for _, c := range pc {
			if c.Block() == b || reaches(c.Block(), b) {
				nReach++
			}
		}
		for _, g := range guardsOf(b) {
			if bo, ok := g.cond.(*ssa.BinOp); ok && nReach == 1 {
				if bo.Op == token.LSS && bo.X == ssa.Value(first) && g.then {
					if c, ok := bo.Y.(*ssa.Const); ok && c.Int64() == 0 {
						okB = true
					}
				}
			}
		}
		if okB {
			r.OK("stackempty", key, w.Pos(ret.Pos()), "reached only when the pushing call reported no match (pushimplies)")
			continue
		}
		// (c) dominated by a reset of the stack to length 0 after the last push, or by the loop test
		okC := false
		how := ""
		for _, bb := range fn.Blocks {
			for _, ins := range bb.Instrs {
				st, ok := ins.(*ssa.Store)
				if !ok || !isFieldOf(st.Addr, ctx, "stack") {
					continue
				}
				reset := isNilConst(st.Val)
				if sl, ok := st.Val.(*ssa.Slice); ok {
					if hc, ok := sl.High.(*ssa.Const); ok && hc.Int64() == 0 {
						reset = true
					}
				}
				if !reset || !(bb == b || bb.Dominates(b)) {
					continue
				}
				// no pushing call between the reset and the return
				after := false
				for _, c := range pc {
					if (c.Block() == bb && instrIndex(bb, c) > instrIndex(bb, st)) || (c.Block() != bb && reaches(bb, c.Block()) && (c.Block() == b || reaches(c.Block(), b))) {
						after = true
					}
				}
				if !after {
					okC = true
					how = "the stack is reset to length 0 at " + w.Pos(st.Pos()) + " on every path to this return"
				}
			}
		}
		if !okC {
			// loop-exit test: the return's block is entered only through the false edge of `len(ctx.stack) > 0`
			for _, g := range guardsOf(b) {
				bo, ok := g.cond.(*ssa.BinOp)
				if !ok || g.then {
					continue
				}
				if bo.Op == token.GTR && isLenStack(bo.X) {
					if c, ok := bo.Y.(*ssa.Const); ok && c.Int64() == 0 {
						okC = true
						how = "reached only when len(ctx.stack) > 0 is false"
					}
				}
			}
		}
		if okC {
			r.OK("stackempty", key, w.Pos(ret.Pos()), how)
		} else {
			r.Fail("stackempty", key, w.Pos(ret.Pos()), "the nested-action stack may be non-empty at this return (e.g. when the action budget is exhausted): the next Apply on this Context starts with stale actions — the result depends on earlier calls", nil)
		}
	}
	r.Floor("stackempty", 2)
	r.Floor("pushimplies", 20)
}

// RunFirstMatch: applyAt returns at the first subtable whose apply result is >= 0.
func RunFirstMatch(w *World, r *Report) {
	r.Rule("firstmatch: (*Context).applyAt iterates the subtables in slice order and returns the result of the first apply call that is >= 0, -1 otherwise || lookuporder: (*Context).Apply ranges over ctx.lookups in slice order without reordering it")
	fn := w.Func("(*opentype/gtab.Context).applyAt")
	if fn == nil {
		r.Fatal("anchor (*gtab.Context).applyAt does not resolve")
		return
	}
	name := fnName(fn)
	key := r.MkKey("firstmatch", name, "loop")
	var call *ssa.Call
	for _, b := range fn.Blocks {
		for _, ins := range b.Instrs {
			if c, ok := ins.(*ssa.Call); ok && c.Call.IsInvoke() && c.Call.Method.Name() == "apply" {
				call = c
			}
		}
	}
	if call == nil {
		r.Fail("firstmatch", key, w.Pos(fn.Pos()), "no dynamic call of Subtable.apply found", nil)
		return
	}
	// the block after the call ends in `if next >= 0` whose true branch returns next
	ok := false
	b := call.Block()
	if ifi, isIf := b.Instrs[len(b.Instrs)-1].(*ssa.If); isIf {
		if bo, isB := ifi.Cond.(*ssa.BinOp); isB && bo.Op == token.GEQ && bo.X == ssa.Value(call) {
			if c, isC := bo.Y.(*ssa.Const); isC && c.Int64() == 0 {
				t := b.Succs[0]
				if ret, isR := t.Instrs[len(t.Instrs)-1].(*ssa.Return); isR && len(ret.Results) == 1 && ret.Results[0] == ssa.Value(call) {
					ok = true
				}
			}
		}
	}
	// the receiver comes from a range over the parameter slice in index order
	if ok {
		ok = false
		if u, isU := call.Call.Value.(*ssa.UnOp); isU {
			if ia, isIA := u.X.(*ssa.IndexAddr); isIA {
				if _, isParam := ia.X.(*ssa.Parameter); isParam {
					ok = true
				}
			}
		}
	}
	// every other return yields a negative constant
	for _, bb := range fn.Blocks {
		if ret, isR := bb.Instrs[len(bb.Instrs)-1].(*ssa.Return); isR && ret.Results[0] != ssa.Value(call) {
			if c, isC := ret.Results[0].(*ssa.Const); !isC || c.Int64() >= 0 {
				ok = false
			}
		}
	}
	if ok {
		r.OK("firstmatch", key, w.Pos(call.Pos()), "returns the first non-negative apply result in subtable order")
	} else {
		r.Fail("firstmatch", key, w.Pos(call.Pos()), "applyAt does not have the shape `for each subtable in order: next := apply(); if next >= 0 { return next }; return -1`", nil)
	}
	// lookup order
	ap := w.Func("(*opentype/gtab.Context).Apply")
	if ap == nil {
		r.Fatal("anchor (*gtab.Context).Apply does not resolve")
		return
	}
	key2 := r.MkKey("lookuporder", fnName(ap), "range ctx.lookups")
	body, _ := funcBody(ap)
	info := w.Info(ap)
	found, sorted := false, false
	ast.Inspect(body, func(n ast.Node) bool {
		switch x := n.(type) {
		case *ast.RangeStmt:
			if strings.HasSuffix(types.ExprString(x.X), ".lookups") {
				found = true
			}
		case *ast.CallExpr:
			s := types.ExprString(x.Fun)
			if strings.HasPrefix(s, "sort.") || strings.HasPrefix(s, "slices.Sort") || strings.HasPrefix(s, "slices.Reverse") {
				for _, a := range x.Args {
					if strings.HasSuffix(types.ExprString(a), ".lookups") {
						sorted = true
					}
				}
			}
		}
		return true
	})
	_ = info
	if found && !sorted {
		r.OK("lookuporder", key2, w.Pos(ap.Pos()), "lookups are applied by ranging over ctx.lookups in slice order")
	} else {
		r.Fail("lookuporder", key2, w.Pos(ap.Pos()), "Apply does not range over ctx.lookups in the given order", nil)
	}
}
