package main

import (
	"fmt"
	"go/types"
	"sort"
	"strings"

	"golang.org/x/tools/go/ssa"
)

// C16: a font that is not being modified is safe for concurrent use.
//
// Decided clause (E6 sharedwrite): no operation of the quantifier's list can
// write memory reachable from the shared *sfnt.Font (or from shared lookup
// lists / GDEF handed to gtab.NewContext), nor an unsynchronised package-level
// variable. Session objects (Layouter, gtab.Context) may write the memory they
// own; which of their fields are borrowed from the shared font is derived
// from their constructors on every run.

func init() { properties["C16"] = propC16 }

func dedupEvents(ev []wevent) []wevent {
	seen := map[string]bool{}
	var out []wevent
	for _, x := range ev {
		k := fmt.Sprintf("%d|%d|%p|%d", x.w.pos, x.target, x.w.callee, x.w.cloc)
		if !seen[k] {
			seen[k] = true
			out = append(out, x)
		}
	}
	return out
}

// methodsOf returns the declared methods (any visibility) with pointer or
// value receiver of the named type pkgRel.typeName.
func methodsOf(w *World, pkgRel, typeName string) []*ssa.Function {
	path := modPath
	if pkgRel != "" {
		path += "/" + pkgRel
	}
	sp := w.SSAPkg[path]
	if sp == nil {
		return nil
	}
	tn, _ := sp.Pkg.Scope().Lookup(typeName).(*types.TypeName)
	if tn == nil {
		return nil
	}
	named, _ := tn.Type().(*types.Named)
	if named == nil {
		return nil
	}
	var res []*ssa.Function
	for i := 0; i < named.NumMethods(); i++ {
		if f := w.Prog.FuncValue(named.Method(i)); f != nil {
			res = append(res, f)
		}
	}
	sort.Slice(res, func(i, j int) bool { return fnName(res[i]) < fnName(res[j]) })
	return res
}

// fieldClass classifies the fields of the fresh object a constructor returns.
type fieldClass struct {
	name  string
	class string // "owned" (fresh/zero only), "borrowed" (refers to constructor arguments directly), "nested" (fresh object holding argument references)
}

// constructorFields runs fn in collect mode and classifies the fields of the
// struct it returns as result 0.
func constructorFields(e *Effects, fn *ssa.Function) (map[int]fieldClass, error) {
	a := e.Collect(fn)
	last := map[*ssa.Return]retInfo{}
	for _, ri := range a.retCells {
		last[ri.ins] = ri
	}
	rt := fn.Signature.Results().At(0).Type()
	pt, ok := rt.Underlying().(*types.Pointer)
	if !ok {
		return nil, fmt.Errorf("%s does not return a pointer", fnName(fn))
	}
	stt, ok := pt.Elem().Underlying().(*types.Struct)
	if !ok {
		return nil, fmt.Errorf("%s does not return a pointer to struct", fnName(fn))
	}
	res := map[int]fieldClass{}
	rank := map[string]int{"owned": 0, "nested": 1, "borrowed": 2}
	found := false
	for _, ri := range last {
		if len(ri.vals) == 0 {
			continue
		}
		for _, l := range ri.vals[0] {
			if e.roots[l.root()].kind != rkFresh {
				return nil, fmt.Errorf("%s may return a non-fresh object (%s)", fnName(fn), e.locStr(fn, l))
			}
			found = true
			c := ri.st[l.root()]
			for i := 0; i < stt.NumFields(); i++ {
				if !e.pointerLike(stt.Field(i).Type()) {
					continue
				}
				class := "owned"
				if c != nil {
					for _, x := range c.load(i) {
						if e.roots[x.root()].kind == rkFresh {
							for _, y := range a.closure(ri.st, single(x)) {
								if e.roots[y.root()].kind != rkFresh && rank["nested"] > rank[class] {
									class = "nested"
								}
							}
						} else {
							class = "borrowed"
						}
					}
				}
				if old, ok := res[i]; !ok || rank[class] > rank[old.class] {
					res[i] = fieldClass{name: stt.Field(i).Name(), class: class}
				}
			}
		}
	}
	if !found {
		return nil, fmt.Errorf("%s: no fresh result object found", fnName(fn))
	}
	return res, nil
}

func propC16(w *World, r *Report) {
	e := NewEffects(w)
	r.Rule("sharedwrite: for each read-only operation, the interprocedural write-effect summary (flow- and field-sensitive for fresh objects, summaries relative to parameters with first-level selector) contains no write to memory reachable from the shared font / lookup list, to a package variable, or to unknown memory; session objects (Layouter, gtab.Context) may only write fields their constructor fills with fresh memory")
	r.Rule("globalwrite: every direct write to a package-level variable in the reachable closure is under the lock embedded in the written object, with every other access to its fields under the same lock (lockset for the lazy-init idiom)")
	r.Assumes("effects of functions outside seehuhn.de/go/{sfnt,postscript,geom,dijkstra} are taken from the hand-written table externals.go; a callee receiving tracked memory that is not in the table is reported as undecided")
	r.Assumes("regexp.Regexp, strings.Replacer, language.Matcher and time.Time are safe for concurrent use as documented")

	RunClosureState(w, r, w.LibFuncs())
	r.Floor("closurestate", 3)
	RunEffectControls(r)
	mutators := map[string]bool{"InstallCMap": true, "EnsureGlyphNames": true}
	var entries []*ssa.Function

	type sharedEntry struct {
		fn     *ssa.Function
		shared []int // parameter indices that are shared
	}
	var list []sharedEntry
	fontMethods := methodsOf(w, "", "Font")
	if len(fontMethods) < 30 {
		r.Fatal("only %d methods found on sfnt.Font (expected >= 30)", len(fontMethods))
	}
	for _, m := range fontMethods {
		if mutators[m.Name()] {
			continue
		}
		list = append(list, sharedEntry{m, []int{0}})
	}
	for _, n := range []string{"(*cff.Font).Write", "(*cff.Font).Clone", "opentype/gtab/builder.ExplainGsub", "opentype/gtab/builder.ExplainGpos"} {
		if f := w.Func(n); f != nil {
			list = append(list, sharedEntry{f, []int{0}})
		} else if n != "(*cff.Font).Clone" {
			r.Fatal("anchor function %q does not resolve", n)
		}
	}
	newCtx := w.Func("opentype/gtab.NewContext")
	if newCtx == nil {
		r.Fatal("anchor gtab.NewContext does not resolve")
		return
	}
	list = append(list, sharedEntry{newCtx, []int{0, 1}})

	isShared := func(fn *ssa.Function, shared []int, l loc) (bool, string) {
		ri := e.roots[l.root()]
		switch ri.kind {
		case rkParam, rkParamVia:
			for _, i := range shared {
				if ri.idx == i {
					return true, "shared parameter"
				}
			}
			return false, ""
		case rkGlobal:
			return false, "" // handled by the globalwrite rule
		case rkUnknown:
			return true, "undecided"
		}
		return false, ""
	}

	for _, se := range list {
		entries = append(entries, se.fn)
		name := fnName(se.fn)
		bad := 0
		var ok []string
		for _, l := range e.sortedWrites(se.fn) {
			if sh, why := isShared(se.fn, se.shared, l); sh {
				bad++
				ffn, fw, path := e.FinalWrite(se.fn, l)
				key := r.MkKey("sharedwrite", name, e.locStr(se.fn, l))
				detail := fmt.Sprintf("%s writes %s (%s): %s in %s at %s", name, e.locStr(se.fn, l), why, fw.what, fnName(ffn), w.Pos(fw.pos))
				r.Fail("sharedwrite", key, w.Pos(fw.pos), detail, path)
			} else if e.roots[l.root()].kind != rkGlobal {
				ok = append(ok, e.locStr(se.fn, l))
			}
		}
		if bad == 0 {
			how := "no write to shared memory"
			if len(ok) > 0 {
				how += "; writes only " + strings.Join(ok, ", ")
			}
			r.OK("sharedwrite", r.MkKey("sharedwrite", name, "summary"), w.Pos(se.fn.Pos()), how)
		}
	}

	// --- session objects ---------------------------------------------------
	ctxFields, err := constructorFields(e, newCtx)
	if err != nil {
		r.Fatal("cannot derive ownership of gtab.Context fields: %v", err)
		return
	}
	ctxBorrowed := map[int]bool{}
	var ctxDesc []string
	for i, fc := range ctxFields {
		if fc.class != "owned" {
			ctxBorrowed[i] = true
		}
		ctxDesc = append(ctxDesc, fc.name+"="+fc.class)
	}
	sort.Strings(ctxDesc)
	r.Note("gtab.Context fields by constructor: %s", strings.Join(ctxDesc, " "))
	if len(ctxBorrowed) < 2 {
		r.Fatal("expected gtab.NewContext to store at least the lookup list and GDEF table as borrowed fields, found %v", ctxDesc)
	}
	ctxMethods := methodsOf(w, "opentype/gtab", "Context")
	checkSessionWrite := func(fn *ssa.Function, l loc, borrowed map[int]bool) (bool, string) {
		ri := e.roots[l.root()]
		switch ri.kind {
		case rkParamVia:
			if ri.idx == 0 && (ri.via < 0 || borrowed[ri.via]) {
				return true, "memory borrowed from the shared font"
			}
		case rkUnknown:
			return true, "undecided"
		}
		return false, ""
	}
	for _, m := range ctxMethods {
		if m.Signature.Recv() == nil {
			continue
		}
		entries = append(entries, m)
		name := fnName(m)
		bad := 0
		for _, l := range e.sortedWrites(m) {
			if sh, why := checkSessionWrite(m, l, ctxBorrowed); sh {
				bad++
				ffn, fw, path := e.FinalWrite(m, l)
				r.Fail("sharedwrite", r.MkKey("sharedwrite", name, e.locStr(m, l)), w.Pos(fw.pos),
					fmt.Sprintf("%s writes %s (%s): %s in %s at %s", name, e.locStr(m, l), why, fw.what, fnName(ffn), w.Pos(fw.pos)), path)
			}
		}
		if bad == 0 {
			r.OK("sharedwrite", r.MkKey("sharedwrite", name, "summary"), w.Pos(m.Pos()), "writes only fields/memory owned by the Context")
		}
	}

	newLay := w.Func("(*sfnt.Font).NewLayouter")
	if newLay == nil {
		r.Fatal("anchor (*sfnt.Font).NewLayouter does not resolve")
		return
	}
	layFields, err := constructorFields(e, newLay)
	if err != nil {
		r.Fatal("cannot derive ownership of sfnt.Layouter fields: %v", err)
		return
	}
	var layDesc []string
	layBorrowed, layNested := map[int]bool{}, map[int]bool{}
	for i, fc := range layFields {
		switch fc.class {
		case "borrowed":
			layBorrowed[i] = true
		case "nested":
			layNested[i] = true
		}
		layDesc = append(layDesc, fc.name+"="+fc.class)
	}
	sort.Strings(layDesc)
	r.Note("sfnt.Layouter fields by constructor: %s", strings.Join(layDesc, " "))
	if len(layBorrowed) < 1 || len(layNested) < 2 {
		r.Fatal("expected NewLayouter to borrow the font and nest two contexts, found %v", layDesc)
	}
	ctxType := w.SSAPkg[modPath+"/opentype/gtab"].Pkg.Scope().Lookup("Context").Type()
	for _, m := range methodsOf(w, "", "Layouter") {
		if m.Signature.Recv() == nil {
			continue
		}
		entries = append(entries, m)
		name := fnName(m)
		a := e.Collect(m)
		bad := 0
		nev := 0
		for _, ev := range dedupEvents(a.events) {
			nev++
			ri := e.roots[ev.target.root()]
			fail := func(why string) {
				bad++
				path := []string{name}
				pos := ev.w.pos
				what := ev.w.what
				if ev.w.callee != nil {
					ffn, fw, p := e.FinalWrite(ev.w.callee, ev.w.cloc)
					path = append(path, p...)
					if fw != nil {
						pos, what = fw.pos, fw.what+" in "+fnName(ffn)
					}
				}
				r.Fail("sharedwrite", r.MkKey("sharedwrite", name, e.locStr(m, ev.target)), w.Pos(pos),
					fmt.Sprintf("%s writes %s (%s): %s", name, e.locStr(m, ev.target), why, what), path)
			}
			switch ri.kind {
			case rkUnknown:
				fail("undecided")
			case rkParamVia:
				if ri.idx != 0 {
					continue
				}
				switch {
				case ri.via < 0 || layBorrowed[ri.via]:
					fail("memory borrowed from the shared font")
				case layNested[ri.via]:
					// must be a Context method call on exactly that field, writing only Context-owned memory
					okCall := false
					if ev.w.callee != nil && ev.w.callee.Signature.Recv() != nil && len(ev.args) > 0 {
						rt := ev.w.callee.Signature.Recv().Type()
						if p, ok := rt.(*types.Pointer); ok && types.Identical(p.Elem(), ctxType) {
							recvOK := len(ev.args[0]) > 0
							for _, x := range ev.args[0] {
								if x.root() != ev.target.root() {
									recvOK = false
								}
							}
							cri := e.roots[ev.w.cloc.root()]
							if recvOK && cri.idx == 0 && (cri.kind == rkParam || (cri.kind == rkParamVia && cri.via >= 0 && !ctxBorrowed[cri.via])) {
								okCall = true
							}
						}
					}
					if !okCall && ev.w.callee == nil {
						// a direct store is accepted when its address provably derives from
						// Layouter-owned memory or from what a Context method returned out of
						// Context-owned memory (e.g. seq[i].Advance after seq = ctx.Apply(seq))
						if st, ok := ev.w.ins.(*ssa.Store); ok && ownedProvenance(e, m, st.Addr, layFields, ctxType, ctxBorrowed) {
							okCall = true
						}
					}
					if !okCall {
						fail("the nested shaping context may only be modified through gtab.Context methods that write Context-owned memory")
					}
				}
			}
		}
		if bad == 0 {
			r.OK("sharedwrite", r.MkKey("sharedwrite", name, "events"), w.Pos(m.Pos()), fmt.Sprintf("%d write events, all to Layouter-owned memory or through Context methods", nev))
		}
	}

	// --- package-level variables --------------------------------------------
	reach := w.Reachable(entries)
	r.Scope["entry_points"] = len(entries)
	r.Scope["reachable_functions"] = len(reach)
	nmod := 0
	var fns []*ssa.Function
	for fn := range reach {
		if e.scope[fn] {
			nmod++
			fns = append(fns, fn)
		}
	}
	r.Scope["reachable_analysed_functions"] = nmod
	sort.Slice(fns, func(i, j int) bool { return fnName(fns[i]) < fnName(fns[j]) })
	nGlobal := 0
	for _, fn := range fns {
		if fn.Name() == "init" || strings.HasPrefix(fn.Name(), "init#") {
			continue
		}
		s := e.sums[fn]
		hasG := false
		for l := range s.writes {
			if e.roots[l.root()].kind == rkGlobal {
				hasG = true
			}
		}
		if !hasG {
			continue
		}
		a := e.Collect(fn)
		for _, ev := range dedupEvents(a.events) {
			if e.roots[ev.target.root()].kind != rkGlobal {
				continue
			}
			// report the write where the package variable first becomes visible:
			// a direct write, or a call whose callee writes through a parameter
			writer, what, wpos := fn, ev.w.what, ev.w.pos
			if ev.w.callee != nil {
				if e.roots[ev.w.cloc.root()].kind == rkGlobal {
					continue // reported at the deeper level
				}
				ffn, fw, _ := e.FinalWrite(ev.w.callee, ev.w.cloc)
				if fw != nil {
					writer, what, wpos = ffn, fw.what, fw.pos
				}
			}
			nGlobal++
			g := e.roots[ev.target.root()].g
			key := r.MkKey("globalwrite", fnName(fn), shortName(g.String())+" via "+fnName(writer))
			if ok, how := lockProtected(w, e, writer, g); ok {
				r.OK("globalwrite", key, w.Pos(wpos), how)
			} else {
				r.Fail("globalwrite", key, w.Pos(wpos),
					fmt.Sprintf("%s: %s writes package variable %s without the lock idiom (%s)", fnName(writer), what, shortName(g.String()), how),
					w.PathTo(entries, fn))
			}
		}
	}
	r.Scope["direct_global_write_sites"] = nGlobal
	// unsummarised externals reachable from the entry set are reported through
	// the Unknown root above; list them for the evidence
	var ext []string
	for n := range e.unknownExt {
		ext = append(ext, n)
	}
	sort.Strings(ext)
	r.Note("unsummarised externals anywhere in the analysed scope (only those reachable from an entry matter and are reported as undecided): %d", len(ext))
	r.Floor("sharedwrite", 40)
}

// lockProtected implements the static lockset for the lazy-initialisation
// idiom: fn writes fields of the object held in package variable g; accepted
// iff the object's type embeds a sync.Mutex, fn locks it in its entry block
// and defers the unlock, and every function touching a non-mutex field of
// that type either does the same or is only called from functions that do.
func lockProtected(w *World, e *Effects, fn *ssa.Function, g *ssa.Global) (bool, string) {
	gt := g.Type().(*types.Pointer).Elem()
	var objT types.Type = gt
	if p, ok := gt.Underlying().(*types.Pointer); ok {
		objT = p.Elem()
	}
	st, ok := objT.Underlying().(*types.Struct)
	if !ok {
		return false, "written object is not a struct with an embedded mutex"
	}
	mutexField := -1
	for i := 0; i < st.NumFields(); i++ {
		f := st.Field(i)
		if f.Embedded() && (f.Type().String() == "sync.Mutex" || f.Type().String() == "sync.RWMutex") {
			mutexField = i
		}
	}
	if mutexField < 0 {
		return false, "written object has no embedded sync.Mutex"
	}
	locksAtEntry := func(f *ssa.Function) bool {
		if len(f.Params) == 0 || len(f.Blocks) == 0 {
			return false
		}
		lock, unlock := false, false
		for _, ins := range f.Blocks[0].Instrs {
			var c *ssa.CallCommon
			isDefer := false
			switch x := ins.(type) {
			case *ssa.Call:
				c = x.Common()
			case *ssa.Defer:
				c = x.Common()
				isDefer = true
			default:
				continue
			}
			callee := c.StaticCallee()
			if callee == nil || len(c.Args) == 0 {
				continue
			}
			fa, ok := c.Args[0].(*ssa.FieldAddr)
			if !ok || fa.Field != mutexField || fa.X != f.Params[0] {
				continue
			}
			switch callee.String() {
			case "(*sync.Mutex).Lock", "(*sync.RWMutex).Lock":
				if !isDefer {
					lock = true
				}
			case "(*sync.Mutex).Unlock", "(*sync.RWMutex).Unlock":
				if isDefer && lock {
					unlock = true
				}
			}
		}
		return lock && unlock
	}
	touches := func(f *ssa.Function) bool {
		for _, b := range f.Blocks {
			for _, ins := range b.Instrs {
				if fa, ok := ins.(*ssa.FieldAddr); ok && fa.Field != mutexField {
					if p, ok := fa.X.Type().Underlying().(*types.Pointer); ok && types.Identical(p.Elem(), objT) {
						return true
					}
				}
			}
		}
		return false
	}
	n := 0
	for _, f := range e.fns {
		if !touches(f) {
			continue
		}
		if f.Name() == "init" || strings.HasPrefix(f.Name(), "init#") {
			continue
		}
		n++
		if locksAtEntry(f) {
			continue
		}
		// all callers must hold the lock on the same receiver
		callers := 0
		node := w.CG.Nodes[f]
		if node != nil {
			for _, in := range node.In {
				callers++
				cf := in.Caller.Func
				if !locksAtEntry(cf) {
					return false, fmt.Sprintf("%s accesses fields of %s without holding its lock (caller %s)", fnName(f), objT.String(), fnName(cf))
				}
				args := in.Site.Common().Args
				if len(args) == 0 || args[0] != cf.Params[0] {
					return false, fmt.Sprintf("%s is called from %s on a different object", fnName(f), fnName(cf))
				}
			}
		}
		if callers == 0 {
			return false, fmt.Sprintf("%s accesses fields of %s without holding its lock", fnName(f), objT.String())
		}
	}
	// the variable itself must not be reassigned outside init
	for _, f := range e.fns {
		if f.Name() == "init" || strings.HasPrefix(f.Name(), "init#") {
			continue
		}
		for _, b := range f.Blocks {
			for _, ins := range b.Instrs {
				if s, ok := ins.(*ssa.Store); ok && s.Addr == g {
					return false, fmt.Sprintf("%s reassigns the package variable itself", fnName(f))
				}
			}
		}
	}
	if !locksAtEntry(fn) {
		// fn itself may be a helper called with the lock held (checked above)
		if !touches(fn) {
			return false, "write site does not access the locked object's fields"
		}
	}
	return true, fmt.Sprintf("lock-protected lazy initialisation: all %d functions accessing fields of %s hold its embedded mutex (Lock at entry + deferred Unlock, or called only from such functions on the same receiver)", n, shortName(objT.String()))
}

// ownedProvenance traces the address of a direct store in a Layouter method
// back to its base values; every base must be session-owned memory.
func ownedProvenance(e *Effects, m *ssa.Function, addr ssa.Value, layFields map[int]fieldClass, ctxType types.Type, ctxBorrowed map[int]bool) bool {
	seen := map[ssa.Value]bool{}
	var ok func(v ssa.Value) bool
	ok = func(v ssa.Value) bool {
		if seen[v] {
			return true
		}
		seen[v] = true
		switch v := v.(type) {
		case *ssa.IndexAddr:
			return ok(v.X)
		case *ssa.FieldAddr:
			// a field of the Layouter itself is owned; otherwise follow the base
			if v.X == m.Params[0] {
				return true
			}
			return ok(v.X)
		case *ssa.Slice:
			return ok(v.X)
		case *ssa.Phi:
			for _, x := range v.Edges {
				if !ok(x) {
					return false
				}
			}
			return true
		case *ssa.Extract:
			return ok(v.Tuple)
		case *ssa.Alloc, *ssa.MakeSlice, *ssa.MakeMap:
			return true
		case *ssa.UnOp:
			// load of an owned Layouter field
			if fa, isFA := v.X.(*ssa.FieldAddr); isFA && fa.X == m.Params[0] {
				fc, known := layFields[fa.Field]
				return known && fc.class == "owned"
			}
			return false
		case *ssa.Call:
			c := v.Common()
			if b, isB := c.Value.(*ssa.Builtin); isB && b.Name() == "append" {
				return ok(c.Args[0])
			}
			callee := c.StaticCallee()
			if callee == nil || callee.Signature.Recv() == nil {
				return false
			}
			p, isP := callee.Signature.Recv().Type().(*types.Pointer)
			if !isP || !types.Identical(p.Elem(), ctxType) {
				return false
			}
			s := e.sums[callee]
			if s == nil {
				return false
			}
			for _, ex := range s.ret {
				for _, l := range ex.roots {
					ri := e.roots[l.root()]
					switch {
					case ri.kind == rkFreshRet:
					case ri.kind == rkParam && ri.idx >= 1:
						// static method call: Args[0] is the receiver, so parameter i is Args[i]
						if ri.idx >= len(c.Args) || !ok(c.Args[ri.idx]) {
							return false
						}
					case ri.kind == rkParamVia && ri.idx == 0 && ri.via >= 0 && !ctxBorrowed[ri.via]:
					default:
						return false
					}
				}
			}
			return true
		}
		return false
	}
	return ok(addr)
}

// RunClosureState: function values that outlive the call that creates them
// (returned, or stored into a structure such as a font's FDSelect) are
// shared by every goroutine that uses the structure.  Such a closure must
// not assign its captured variables: a cursor or cache kept in captured
// variables turns a read-only query into a write.
func RunClosureState(w *World, r *Report, fns []*ssa.Function) {
	r.Rule("closurestate: no function literal of the library that escapes the call creating it (it is returned or stored, possibly after conversion to a named function type) assigns one of its captured variables or a field/element reached through one: the closure is shared by all users of the object that holds it")
	for _, fn := range fns {
		if fn.Blocks == nil {
			continue
		}
		for _, b := range fn.Blocks {
			for _, in := range b.Instrs {
				mc, ok := in.(*ssa.MakeClosure)
				if !ok {
					continue
				}
				anon, ok := mc.Fn.(*ssa.Function)
				if !ok || anon.Blocks == nil {
					continue
				}
				if !closureEscapes(mc, 0) {
					continue
				}
				key := r.MkKey("closurestate", fnName(fn), "escaping closure "+anon.Name())
				bad := ""
				for _, ab := range anon.Blocks {
					for _, ai := range ab.Instrs {
						var addr ssa.Value
						switch x := ai.(type) {
						case *ssa.Store:
							addr = x.Addr
						case *ssa.MapUpdate:
							addr = x.Map
						}
						if addr == nil {
							continue
						}
						// does the address derive from a free variable?
						for v := range backSlice(addr) {
							if fv, ok := v.(*ssa.FreeVar); ok {
								bad = "it assigns (through) the captured variable " + fv.Name() + " at " + w.Pos(ai.Pos())
							}
						}
					}
				}
				if bad == "" {
					r.OK("closurestate", key, w.Pos(mc.Pos()), "does not assign captured variables")
				} else {
					r.Fail("closurestate", key, w.Pos(mc.Pos()), "the function literal escapes ("+fnName(fn)+" returns or stores it) and "+bad+": every call, also from read-only operations running concurrently, writes that shared state", nil)
				}
			}
		}
	}
}

func closureEscapes(v ssa.Value, depth int) bool {
	if depth > 5 || v.Referrers() == nil {
		return false
	}
	for _, ref := range *v.Referrers() {
		switch x := ref.(type) {
		case *ssa.Return:
			return true
		case *ssa.Store:
			if x.Val == v {
				// a store into a local variable that is only called does not escape; be simple: any store escapes unless the target is an Alloc that is not itself escaping
				if al, ok := x.Addr.(*ssa.Alloc); ok && !al.Heap {
					continue
				}
				return true
			}
		case *ssa.MapUpdate:
			if x.Value == v {
				return true
			}
		case *ssa.ChangeType:
			if closureEscapes(x, depth+1) {
				return true
			}
		case *ssa.MakeInterface:
			if closureEscapes(x, depth+1) {
				return true
			}
		case *ssa.Phi:
			if closureEscapes(x, depth+1) {
				return true
			}
		}
	}
	return false
}
