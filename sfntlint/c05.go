package main

// C05: structural conformance clauses of the Type 2 charstring interpreter
// against Adobe TN5177.  The specification's tables (operator numbers,
// operand encodings, subroutine bias, mask length, width detection) are
// encoded here; the code's own constants, formulas and predicates are
// extracted from the syntax tree / SSA and compared: algebraically (linear
// forms), by the linear prover (ceil-division), or by constant-folding a
// predicate at the operand counts the specification allows.

import (
	"fmt"
	"go/ast"
	"go/constant"
	"go/token"
	"go/types"
	"sort"
	"strings"

	"golang.org/x/tools/go/ssa"
)

func init() { properties["C05"] = propC05 }

// TN5177 Appendix A: operator numbers (two-byte operators as 0x0c00 | b1).
var t2SpecOps = map[int64]string{
	1: "hstem", 3: "vstem", 4: "vmoveto", 5: "rlineto", 6: "hlineto", 7: "vlineto", 8: "rrcurveto",
	10: "callsubr", 11: "return", 14: "endchar", 18: "hstemhm", 19: "hintmask", 20: "cntrmask",
	21: "rmoveto", 22: "hmoveto", 23: "vstemhm", 24: "rcurveline", 25: "rlinecurve", 26: "vvcurveto",
	27: "hhcurveto", 29: "callgsubr", 30: "vhcurveto", 31: "hvcurveto",
	0x0c03: "and", 0x0c04: "or", 0x0c05: "not", 0x0c09: "abs", 0x0c0a: "add", 0x0c0b: "sub", 0x0c0c: "div",
	0x0c0e: "neg", 0x0c0f: "eq", 0x0c12: "drop", 0x0c14: "put", 0x0c15: "get", 0x0c16: "ifelse",
	0x0c17: "random", 0x0c18: "mul", 0x0c1a: "sqrt", 0x0c1b: "dup", 0x0c1c: "exch", 0x0c1d: "index",
	0x0c1e: "roll", 0x0c22: "hflex", 0x0c23: "flex", 0x0c24: "hflex1", 0x0c25: "flex1",
}

// width detection (TN5177 section 3.1 / 4.1-4.3): operand counts a valid
// program can have when the operator is the first stack-clearing one, and
// those among them that include the width.
type widthSpec struct {
	valid   []int
	present func(n int) bool
}

var t2WidthSpec = map[int64]widthSpec{
	1:  {[]int{2, 3, 4, 5, 6, 7, 8, 9}, func(n int) bool { return n%2 == 1 }},
	3:  {[]int{2, 3, 4, 5, 6, 7, 8, 9}, func(n int) bool { return n%2 == 1 }},
	18: {[]int{2, 3, 4, 5, 6, 7, 8, 9}, func(n int) bool { return n%2 == 1 }},
	23: {[]int{2, 3, 4, 5, 6, 7, 8, 9}, func(n int) bool { return n%2 == 1 }},
	19: {[]int{0, 1, 2, 3, 4, 5, 6, 7}, func(n int) bool { return n%2 == 1 }},
	20: {[]int{0, 1, 2, 3, 4, 5, 6, 7}, func(n int) bool { return n%2 == 1 }},
	21: {[]int{2, 3}, func(n int) bool { return n == 3 }},
	22: {[]int{1, 2}, func(n int) bool { return n == 2 }},
	4:  {[]int{1, 2}, func(n int) bool { return n == 2 }},
	14: {[]int{0, 1, 4, 5}, func(n int) bool { return n == 1 || n == 5 }},
}

func propC05(w *World, r *Report) {
	defer RunCacheParam(w, r, "/cff")
	r.Rule("opcoverage: every operator of TN5177 Appendix A is a case of the interpreter's operator switch || numenc: the three one/two-byte integer operand encodings decode to b0-139, (b0-247)*256+b1+108 and -(b0-251)*256-b1-108 (linear forms of the SSA values, shown not to wrap) || subrbias: a subroutine INDEX is indexed with operand + bias where the bias is 107/1131/32768 chosen by comparing the length of that same INDEX with 1240 and 33900 || maskbytes: the number k of hintmask/cntrmask bytes satisfies 8k >= nStems and 8k <= nStems+7 (prover) || widthrule: the width-presence predicate passed at each first stack-clearing operator agrees with the specification at every operand count a valid program can have (constant folding of the predicate) || storagescope: the transient array lives outside the interpreter loops (put in one subroutine, get after return) || bounds/loopterm/precond on the interpreter (rules of C02 restricted to cff charstring decoding)")
	for _, a := range boundsAssumptions {
		r.Assumes(a)
	}
	pkg := w.All[modPath+"/cff"]
	if pkg == nil {
		r.Fatal("package cff not loaded")
		return
	}
	fd := findMethod(pkg.Syntax, "decodeInfo", "decodeCharString")
	fn := w.Func("(*cff.decodeInfo).decodeCharString")
	if fd == nil || fn == nil {
		r.Fatal("(*cff.decodeInfo).decodeCharString not found")
		return
	}
	info := pkg.TypesInfo
	// the interpreter's locals are bound by role, not by name (c05canon.go)
	defer c05Canon(info, fd)()
	br := newBoundsRun(w)
	p := br.prover(fn)
	checkSubrSource(w, r, fn)

	// ---- opcoverage
	caseConsts := map[int64]*ast.CaseClause{}
	ast.Inspect(fd.Body, func(n ast.Node) bool {
		cc, ok := n.(*ast.CaseClause)
		if !ok {
			return true
		}
		for _, e := range cc.List {
			if tv, ok := info.Types[e]; ok && tv.Value != nil && tv.Value.Kind() == constant.Int {
				if named, ok := tv.Type.(*types.Named); ok && named.Obj().Name() == "t2op" {
					v, _ := constant.Int64Val(tv.Value)
					caseConsts[v] = cc
				}
			}
		}
		return true
	})
	var specOps []int64
	for v := range t2SpecOps {
		specOps = append(specOps, v)
	}
	sort.Slice(specOps, func(i, j int) bool { return specOps[i] < specOps[j] })
	for _, v := range specOps {
		key := r.MkKey("opcoverage", "decodeCharString", "operator "+t2SpecOps[v])
		if cc, ok := caseConsts[v]; ok {
			r.OK("opcoverage", key, w.Pos(cc.Pos()), fmt.Sprintf("case for operator %#x", v))
		} else {
			r.Fail("opcoverage", key, w.Pos(fd.Pos()), fmt.Sprintf("Type 2 operator %s (%#x) has no case in the interpreter's switch: programs using it are rejected or mis-decoded", t2SpecOps[v], v), nil)
		}
	}
	r.Floor("opcoverage", 45)

	// ---- operandcount: path operators reject operand counts their form does not admit
	r.Rule("operandcount: the case of every path operator (the move, line, curve and flex operators) contains a test of the operand count (a condition on len of the operand stack or of a slice cut from it) that leads to an error return: a program with an operand deleted or added is rejected, not decoded as something else")
	pathOps := map[string]bool{"rmoveto": true, "hmoveto": true, "vmoveto": true, "rlineto": true, "hlineto": true, "vlineto": true, "rrcurveto": true, "rcurveline": true, "rlinecurve": true, "hhcurveto": true, "vvcurveto": true, "hvcurveto": true, "vhcurveto": true, "flex": true, "flex1": true, "hflex": true, "hflex1": true}
	doneClause := map[*ast.CaseClause]bool{}
	for _, v := range specOps {
		cc := caseConsts[v]
		if cc == nil || doneClause[cc] || !pathOps[t2SpecOps[v]] {
			continue
		}
		doneClause[cc] = true
		var names []string
		for _, v2 := range specOps {
			if caseConsts[v2] == cc {
				names = append(names, t2SpecOps[v2])
			}
		}
		key := r.MkKey("operandcount", "decodeCharString", "case "+strings.Join(names, ", "))
		rejects := false
		ast.Inspect(cc, func(n ast.Node) bool {
			ifs, ok := n.(*ast.IfStmt)
			if !ok {
				return true
			}
			if !strings.Contains(types.ExprString(ifs.Cond), "len(") {
				return true
			}
			ast.Inspect(ifs.Body, func(m ast.Node) bool {
				if rt, ok := m.(*ast.ReturnStmt); ok && len(rt.Results) == 2 {
					if id, ok := rt.Results[1].(*ast.Ident); !ok || id.Name != "nil" {
						rejects = true
					}
				}
				return true
			})
			return true
		})
		if rejects {
			r.OK("operandcount", key, w.Pos(cc.Pos()), "rejects operand counts the operator does not admit")
		} else {
			r.Fail("operandcount", key, w.Pos(cc.Pos()), "the case of "+strings.Join(names, ", ")+" has no test of the operand count that leads to an error: with too few operands the operator is skipped (or applied to what is there), surplus operands are dropped, and the program is decoded as a different glyph instead of being rejected", nil)
		}
	}

	// ---- numenc
	checkNumEnc(w, r, p, fd, fn, info)

	// ---- subrbias
	checkSubrBias(w, r, br, []string{"(*cff.decodeInfo).decodeCharString", "cff.getSubr"})

	// ---- maskbytes
	checkMaskBytes(w, r, p, fn, caseConsts, info)

	// ---- widthrule
	checkWidthRule(w, r, pkg.Types, fd, caseConsts, info)

	// ---- storagescope
	checkStorageScope(w, r, fd, caseConsts, info)

	// ---- operator semantics
	checkArithSem(w, r, caseConsts, info)
	checkFlexSem(w, r, fd, caseConsts, info)
	checkWidthOperands(w, r)
	checkCallDepth(w, r, p, fn, caseConsts)
	checkPerFD(w, r)
	checkDecodeSem(w, r)
	checkStackSem(w, r)
	checkStackCtl(w, r)
	checkStemSem(w, r)
	checkMoveState(w, r, fn)
	checkMalformed(w, r, br, fn)

	// ---- safety of the interpreter (shared with C02)
	var fns []*ssa.Function
	scopeRoots := []*ssa.Function{fn}
	// the subroutine tables the interpreter calls into are read by readIndex
	// (tables of up to 65535 entries, crossing both bias thresholds)
	if ri := w.Func("cff.readIndex"); ri != nil {
		scopeRoots = append(scopeRoots, ri)
	} else {
		r.Fatal("cff.readIndex does not resolve")
	}
	for f := range w.libReach(scopeRoots) {
		if strings.HasSuffix(fnPkgPath(f), "/cff") {
			fns = append(fns, f)
		}
	}
	sort.Slice(fns, func(i, j int) bool { return fnName(fns[i]) < fnName(fns[j]) })
	r.Conds["monotone-stores:cff.readIndex"] = condMonotoneStores(w, br, "cff.readIndex", false)
	r.Conds["readindex-size-check"] = condReadIndexSizeCheck(w)
	r.Conds["gpos4-markcov-reconciled"] = condGpos4Reconciled(w)
	r.Conds["charstring-budget"] = condGlobalBudget(w, "(*cff.decodeInfo).decodeCharString")
	RunBounds(w, r, "bounds", br, fns)
	runLoopTerm(w, r, br, fns, true)
	r.Floor("bounds", 200)
	r.Floor("loopterm", 10)
}

func findMethod(files []*ast.File, recv, name string) *ast.FuncDecl {
	for _, f := range files {
		for _, d := range f.Decls {
			fd, ok := d.(*ast.FuncDecl)
			if !ok || fd.Name.Name != name || fd.Recv == nil || fd.Body == nil || len(fd.Recv.List) == 0 {
				continue
			}
			t := fd.Recv.List[0].Type
			if st, ok := t.(*ast.StarExpr); ok {
				t = st.X
			}
			if id, ok := t.(*ast.Ident); ok && id.Name == recv {
				return fd
			}
		}
	}
	return nil
}

// ssaAt finds the BinOp / Convert created for the expression whose
// operator (or opening parenthesis) is at pos.
func ssaAt(fn *ssa.Function, pos token.Pos) ssa.Value {
	var res ssa.Value
	var visit func(f *ssa.Function)
	visit = func(f *ssa.Function) {
		for _, b := range f.Blocks {
			for _, in := range b.Instrs {
				if v, ok := in.(ssa.Value); ok && in.Pos() == pos {
					switch in.(type) {
					case *ssa.BinOp, *ssa.Convert, *ssa.Call:
						if res == nil {
							res = v
						}
					}
				}
			}
		}
		for _, af := range f.AnonFuncs {
			visit(af)
		}
	}
	visit(fn)
	return res
}

func checkNumEnc(w *World, r *Report, p *bprover, fd *ast.FuncDecl, fn *ssa.Function, info *types.Info) {
	// branches: if op >= LO && op <= HI { ... append(stack, float64(EXPR)) ... }
	type enc struct {
		lo, hi int64
		cA, cB int64 // coefficients of the first byte and of the second byte
		k      int64
		name   string
	}
	specs := []enc{
		{32, 246, 1, 0, -139, "b0 - 139"},
		{247, 250, 256, 1, 108 - 247*256, "(b0-247)*256 + b1 + 108"},
		{251, 254, -256, -1, 251*256 - 108, "-(b0-251)*256 - b1 - 108"},
	}
	found := map[int]bool{}
	ast.Inspect(fd.Body, func(n ast.Node) bool {
		is, ok := n.(*ast.IfStmt)
		if !ok {
			return true
		}
		lo, hi, ok := rangeCond(is.Cond, info)
		if !ok {
			return true
		}
		for si, sp := range specs {
			if sp.lo != lo || sp.hi != hi {
				continue
			}
			found[si] = true
			key := r.MkKey("numenc", "decodeCharString", fmt.Sprintf("operand encoding %d..%d", lo, hi))
			// the value pushed: the argument of float64(...) in this branch
			var valExpr ast.Expr
			ast.Inspect(is.Body, func(m ast.Node) bool {
				ce, ok := m.(*ast.CallExpr)
				if !ok || len(ce.Args) != 1 {
					return true
				}
				if tv, ok := info.Types[ce.Fun]; ok && tv.IsType() && types.TypeString(tv.Type, nil) == "float64" && valExpr == nil {
					valExpr = ce.Args[0]
				}
				return true
			})
			if valExpr == nil {
				r.Fail("numenc", key, w.Pos(is.Pos()), "no float64(...) value is pushed in this branch", nil)
				continue
			}
			// resolve an identifier to its defining expression within the branch
			if id, ok := valExpr.(*ast.Ident); ok {
				ast.Inspect(is.Body, func(m ast.Node) bool {
					as, ok := m.(*ast.AssignStmt)
					if ok && len(as.Lhs) == 1 && len(as.Rhs) == 1 {
						if l, ok := as.Lhs[0].(*ast.Ident); ok && info.ObjectOf(l) == info.ObjectOf(id) {
							valExpr = as.Rhs[0]
						}
					}
					return true
				})
			}
			var v ssa.Value
			switch e := ast.Unparen(valExpr).(type) {
			case *ast.BinaryExpr:
				v = ssaAt(fn, e.OpPos)
			case *ast.CallExpr:
				v = ssaAt(fn, e.Lparen)
			}
			if v == nil {
				r.Fail("numenc", key, w.Pos(valExpr.Pos()), "the pushed value has no SSA counterpart the analysis can identify", nil)
				continue
			}
			l := p.linOf(v)
			// atoms: the first byte (op) and possibly a second one
			ok2 := l.k == sp.k
			var coeffs []int64
			for _, c := range l.t {
				coeffs = append(coeffs, c)
			}
			sort.Slice(coeffs, func(i, j int) bool { return abs64(coeffs[i]) > abs64(coeffs[j]) })
			want := []int64{sp.cA}
			if sp.cB != 0 {
				want = append(want, sp.cB)
			}
			if len(coeffs) != len(want) {
				ok2 = false
			} else {
				for i := range want {
					if coeffs[i] != want[i] {
						ok2 = false
					}
				}
			}
			if ok2 {
				r.OK("numenc", key, w.Pos(valExpr.Pos()), "value is "+sp.name+" without wrap-around")
			} else {
				r.Fail("numenc", key, w.Pos(valExpr.Pos()), fmt.Sprintf("the operand decoded in the branch %d..%d is %s, the specification says %s", lo, hi, p.linStr(l), sp.name), nil)
			}
		}
		return true
	})
	for si, sp := range specs {
		if !found[si] {
			key := r.MkKey("numenc", "decodeCharString", fmt.Sprintf("operand encoding %d..%d", sp.lo, sp.hi))
			r.Fail("numenc", key, w.Pos(fd.Pos()), fmt.Sprintf("no branch for first bytes %d..%d", sp.lo, sp.hi), nil)
		}
	}
	r.Floor("numenc", 3)
}

func abs64(x int64) int64 {
	if x < 0 {
		return -x
	}
	return x
}

// rangeCond recognises  x >= LO && x <= HI.
func rangeCond(e ast.Expr, info *types.Info) (int64, int64, bool) {
	be, ok := ast.Unparen(e).(*ast.BinaryExpr)
	if !ok || be.Op != token.LAND {
		return 0, 0, false
	}
	l, ok1 := ast.Unparen(be.X).(*ast.BinaryExpr)
	h, ok2 := ast.Unparen(be.Y).(*ast.BinaryExpr)
	if !ok1 || !ok2 || l.Op != token.GEQ || h.Op != token.LEQ {
		return 0, 0, false
	}
	lv, okl := info.Types[l.Y]
	hv, okh := info.Types[h.Y]
	if !okl || !okh || lv.Value == nil || hv.Value == nil {
		return 0, 0, false
	}
	lo, _ := constant.Int64Val(constant.ToInt(lv.Value))
	hi, _ := constant.Int64Val(constant.ToInt(hv.Value))
	return lo, hi, true
}

// checkSubrBias: every non-constant index into a cffIndex in the given
// functions is  operand + bias(len(that same INDEX)).
func checkSubrBias(w *World, r *Report, br *boundsRun, fnNames []string) {
	n := 0
	for _, name := range fnNames {
		fn := w.Func(name)
		if fn == nil {
			continue
		}
		p := br.prover(fn)
		for _, b := range fn.Blocks {
			for _, in := range b.Instrs {
				ia, ok := in.(*ssa.IndexAddr)
				if !ok {
					continue
				}
				nt, ok := ia.X.Type().(*types.Named)
				if !ok || nt.Obj().Name() != "cffIndex" {
					continue
				}
				if _, isC := bconstInt(ia.Index); isC {
					continue
				}
				n++
				key := r.MkKey("subrbias", fnName(fn), "index into subroutine INDEX")
				pos := w.Pos(ia.Pos())
				ok, why := biasAgrees(w, br, p, fn, ia)
				if ok {
					r.OK("subrbias", key, pos, why)
				} else {
					r.Fail("subrbias", key, pos, why, nil)
				}
			}
		}
	}
	r.Floor("subrbias", 1)
}

func biasAgrees(w *World, br *boundsRun, p *bprover, fn *ssa.Function, ia *ssa.IndexAddr) (bool, string) {
	add, ok := ia.Index.(*ssa.BinOp)
	if !ok || add.Op != token.ADD {
		return false, "the index is not of the form operand + bias"
	}
	X := p.canonVal(ia.X)
	// which operand is the bias?  a phi of constants, or a call bias(len(Y))
	for _, cand := range []ssa.Value{add.Y, add.X} {
		switch off := cand.(type) {
		case *ssa.Phi:
			consts := map[int64]bool{}
			for _, e := range off.Edges {
				c, ok := bconstInt(e)
				if !ok {
					consts = nil
					break
				}
				consts[c] = true
			}
			if consts == nil {
				continue
			}
			if !(consts[107] && consts[1131] && consts[32768] && len(consts) == 3) {
				return false, fmt.Sprintf("bias values %v differ from the specification's 107 / 1131 / 32768", int64Keys(consts))
			}
			// thresholds on len(Y) in this function
			return thresholdsOn(p, fn, func(v ssa.Value) bool { return p.canonVal(v) == X }, "the INDEX that is indexed")
		case *ssa.Call:
			callee := off.Call.StaticCallee()
			if callee == nil || len(off.Call.Args) != 1 || len(callee.Params) != 1 {
				continue
			}
			// argument must be len(X)
			lc, ok := off.Call.Args[0].(*ssa.Call)
			if !ok {
				return false, "the bias is not computed from a length"
			}
			bi, ok := lc.Call.Value.(*ssa.Builtin)
			if !ok || bi.Name() != "len" || p.canonVal(lc.Call.Args[0]) != X {
				return false, "the bias is computed from the length of a different table than the one that is indexed (local and global subroutines have separate biases)"
			}
			cp := br.prover(callee)
			// constants returned and thresholds on the parameter
			rets := map[int64]bool{}
			for _, b := range callee.Blocks {
				if ret, ok := b.Instrs[len(b.Instrs)-1].(*ssa.Return); ok && len(ret.Results) == 1 {
					if c, ok := bconstInt(ret.Results[0]); ok {
						rets[c] = true
					} else if ph, ok := ret.Results[0].(*ssa.Phi); ok {
						for _, e := range ph.Edges {
							if c, ok := bconstInt(e); ok {
								rets[c] = true
							}
						}
					}
				}
			}
			if !(rets[107] && rets[1131] && rets[32768] && len(rets) == 3) {
				return false, fmt.Sprintf("bias values %v differ from the specification's 107 / 1131 / 32768", int64Keys(rets))
			}
			return thresholdsOnParam(cp, callee)
		}
	}
	return false, "no bias term (phi of constants or bias function of a length) found in the index"
}

func int64Keys(m map[int64]bool) []int64 {
	var ks []int64
	for k := range m {
		ks = append(ks, k)
	}
	sort.Slice(ks, func(i, j int) bool { return ks[i] < ks[j] })
	return ks
}

// thresholdsOn: the function compares len(Y) with 1240 and 33900 (strictly
// below) for a Y accepted by same, and with no other table.
func thresholdsOn(p *bprover, fn *ssa.Function, same func(ssa.Value) bool, what string) (bool, string) {
	seen := map[int64]bool{}
	for _, b := range fn.Blocks {
		for _, in := range b.Instrs {
			bo, ok := in.(*ssa.BinOp)
			if !ok || bo.Op != token.LSS {
				continue
			}
			c, ok := bconstInt(bo.Y)
			if !ok || (c != 1240 && c != 33900) {
				continue
			}
			lc, ok := bo.X.(*ssa.Call)
			if !ok {
				return false, "a bias threshold is not applied to a length"
			}
			bi, ok := lc.Call.Value.(*ssa.Builtin)
			if !ok || bi.Name() != "len" || !same(lc.Call.Args[0]) {
				return false, "a bias threshold is applied to the length of a different table than " + what
			}
			seen[c] = true
		}
	}
	if !seen[1240] || !seen[33900] {
		return false, "the thresholds 1240 and 33900 (count < threshold) are not both present"
	}
	return true, "bias 107/1131/32768 chosen by the length of the indexed table (< 1240, < 33900)"
}

func thresholdsOnParam(p *bprover, fn *ssa.Function) (bool, string) {
	seen := map[int64]bool{}
	for _, b := range fn.Blocks {
		for _, in := range b.Instrs {
			bo, ok := in.(*ssa.BinOp)
			if !ok || bo.Op != token.LSS {
				continue
			}
			c, ok := bconstInt(bo.Y)
			if !ok || (c != 1240 && c != 33900) {
				continue
			}
			if bo.X != ssa.Value(fn.Params[0]) {
				return false, "a bias threshold is not applied to the count parameter"
			}
			seen[c] = true
		}
	}
	if !seen[1240] || !seen[33900] {
		return false, "the thresholds 1240 and 33900 (count < threshold) are not both present"
	}
	return true, "bias function of the length of the indexed table (107 below 1240, 1131 below 33900, else 32768)"
}

// checkMaskBytes: k mask bytes for n stem hints with 8k >= n and 8k <= n+7.
func checkMaskBytes(w *World, r *Report, p *bprover, fn *ssa.Function, caseConsts map[int64]*ast.CaseClause, info *types.Info) {
	cc := caseConsts[19]
	key := r.MkKey("maskbytes", "decodeCharString", "hintmask/cntrmask length")
	if cc == nil {
		r.Fail("maskbytes", key, "-", "no hintmask case", nil)
		return
	}
	// the slice code[:k] inside the case, and n = (len(HStem)+len(VStem))/2
	var sl *ssa.Slice
	var nval ssa.Value
	for _, b := range fn.Blocks {
		for _, in := range b.Instrs {
			if in.Pos() < cc.Pos() || in.Pos() > cc.End() {
				continue
			}
			switch x := in.(type) {
			case *ssa.Slice:
				if x.Low == nil && x.High != nil && bIsByteSlice(x.X.Type().Underlying()) && sl == nil {
					sl = x
				}
			case *ssa.BinOp:
				if x.Op == token.QUO {
					if c, ok := bconstInt(x.Y); ok && c == 2 {
						if s, ok := x.X.(*ssa.BinOp); ok && s.Op == token.ADD {
							nval = x
						}
					}
				}
			}
		}
	}
	if sl == nil || nval == nil {
		r.Fail("maskbytes", key, w.Pos(cc.Pos()), "the mask slice code[:k] or the stem count (len(HStem)+len(VStem))/2 was not found in the hintmask case", nil)
		return
	}
	k := p.linOf(sl.High)
	n := p.linOf(nval)
	k8, _ := k.scale(8)
	g1, _ := k8.sub(n)         // 8k - n >= 0
	g2, _ := n.addc(7).sub(k8) // n + 7 - 8k >= 0
	b := sl.Block()
	if p.proveAt(b, g1) && p.proveAt(b, g2) {
		r.OK("maskbytes", key, w.Pos(sl.Pos()), "8k >= nStems and 8k <= nStems+7, i.e. k = ceil(nStems/8)")
	} else {
		r.Fail("maskbytes", key, w.Pos(sl.Pos()), fmt.Sprintf("the number of mask bytes %s is not shown to be ceil(nStems/8) for nStems = %s: masks of glyphs whose stem count is a multiple of 8 (or not) are mis-sized", p.linStr(k), p.linStr(n)), nil)
	}
	r.Floor("maskbytes", 1)
}

// checkWidthRule: constant-fold the predicate handed to the width setter.
func checkWidthRule(w *World, r *Report, tpkg *types.Package, fd *ast.FuncDecl, caseConsts map[int64]*ast.CaseClause, info *types.Info) {
	// the width setter: the function literal that assigns a field named Width
	var setter types.Object
	ast.Inspect(fd.Body, func(n ast.Node) bool {
		as, ok := n.(*ast.AssignStmt)
		if !ok || len(as.Lhs) != 1 || len(as.Rhs) != 1 {
			return true
		}
		fl, ok := as.Rhs[0].(*ast.FuncLit)
		if !ok {
			return true
		}
		sets := false
		ast.Inspect(fl.Body, func(m ast.Node) bool {
			if a2, ok := m.(*ast.AssignStmt); ok {
				for _, l := range a2.Lhs {
					if se, ok := l.(*ast.SelectorExpr); ok && se.Sel.Name == "Width" {
						sets = true
					}
				}
			}
			return true
		})
		if sets {
			if id, ok := as.Lhs[0].(*ast.Ident); ok {
				setter = info.ObjectOf(id)
			}
		}
		return true
	})
	if setter == nil {
		r.Fatal("width setter closure not found in decodeCharString")
		return
	}
	var ops []int64
	for v := range t2WidthSpec {
		ops = append(ops, v)
	}
	sort.Slice(ops, func(i, j int) bool { return ops[i] < ops[j] })
	for _, v := range ops {
		spec := t2WidthSpec[v]
		key := r.MkKey("widthrule", "decodeCharString", "width detection at "+t2SpecOps[v])
		cc := caseConsts[v]
		if cc == nil {
			r.Fail("widthrule", key, "-", "no case for the operator", nil)
			continue
		}
		var arg ast.Expr
		ast.Inspect(cc, func(n ast.Node) bool {
			ce, ok := n.(*ast.CallExpr)
			if !ok || len(ce.Args) != 1 {
				return true
			}
			if id, ok := ce.Fun.(*ast.Ident); ok && info.ObjectOf(id) == setter && arg == nil {
				arg = ce.Args[0]
			}
			return true
		})
		if arg == nil {
			r.Fail("widthrule", key, w.Pos(cc.Pos()), "the operator can be the first stack-clearing operator of a glyph but its case does not run the width detection", nil)
			continue
		}
		src := types.ExprString(arg)
		// the stack variable: the argument of len(...) in the predicate
		var lenArg string
		ast.Inspect(arg, func(n ast.Node) bool {
			ce, ok := n.(*ast.CallExpr)
			if ok && len(ce.Args) == 1 {
				if id, ok := ce.Fun.(*ast.Ident); ok && id.Name == "len" {
					lenArg = types.ExprString(ce)
				}
			}
			return true
		})
		if lenArg == "" {
			r.Fail("widthrule", key, w.Pos(arg.Pos()), "the predicate "+src+" does not depend on the operand count", nil)
			continue
		}
		bad := ""
		for _, n := range spec.valid {
			folded := strings.ReplaceAll(src, lenArg, fmt.Sprint(n))
			tv, err := types.Eval(w.Fset, tpkg, token.NoPos, folded)
			if err != nil || tv.Value == nil || tv.Value.Kind() != constant.Bool {
				bad = fmt.Sprintf("the predicate %s does not fold to a constant at operand count %d", src, n)
				break
			}
			if constant.BoolVal(tv.Value) != spec.present(n) {
				bad = fmt.Sprintf("with %d operands %s is %v but the specification says the width is %s", n, src, constant.BoolVal(tv.Value), map[bool]string{true: "present", false: "absent"}[spec.present(n)])
				break
			}
		}
		if bad == "" {
			r.OK("widthrule", key, w.Pos(arg.Pos()), fmt.Sprintf("%s agrees with the specification at operand counts %v", src, spec.valid))
		} else {
			r.Fail("widthrule", key, w.Pos(arg.Pos()), bad, nil)
		}
	}
	r.Floor("widthrule", 10)
}

// checkStorageScope: the slice that put writes and get reads is declared
// outside every loop of the interpreter.
func checkStorageScope(w *World, r *Report, fd *ast.FuncDecl, caseConsts map[int64]*ast.CaseClause, info *types.Info) {
	key := r.MkKey("storagescope", "decodeCharString", "transient array")
	cc := caseConsts[0x0c14]
	if cc == nil {
		r.Fail("storagescope", key, "-", "no case for put", nil)
		return
	}
	var obj types.Object
	ast.Inspect(cc, func(n ast.Node) bool {
		as, ok := n.(*ast.AssignStmt)
		if !ok {
			return true
		}
		for _, l := range as.Lhs {
			if ie, ok := l.(*ast.IndexExpr); ok {
				if id, ok := ie.X.(*ast.Ident); ok && obj == nil {
					obj = info.ObjectOf(id)
				}
			}
		}
		return true
	})
	if obj == nil {
		r.Fail("storagescope", key, w.Pos(cc.Pos()), "the put case does not store into an indexed variable", nil)
		return
	}
	// enclosing loops of the declaration
	inLoop := false
	var stack []ast.Node
	ast.Inspect(fd.Body, func(n ast.Node) bool {
		if n == nil {
			stack = stack[:len(stack)-1]
			return true
		}
		stack = append(stack, n)
		if id, ok := n.(*ast.Ident); ok && info.Defs[id] == obj {
			for _, a := range stack {
				switch a.(type) {
				case *ast.ForStmt, *ast.RangeStmt:
					inLoop = true
				}
			}
		}
		return true
	})
	if inLoop {
		r.Fail("storagescope", key, w.Pos(obj.Pos()), "the transient array "+obj.Name()+" is declared inside an interpreter loop, so it is re-initialised when a subroutine returns: a value put in a subroutine cannot be read back with get afterwards", nil)
	} else {
		r.OK("storagescope", key, w.Pos(obj.Pos()), "declared once per charstring, outside the loops")
	}
	r.Floor("storagescope", 1)
}

// ---- operator semantics tables (TN5177 section 4.4 arithmetic, 4.1 flex)

// checkArithSem: the two-operand arithmetic operators compute
// stack[k] OP stack[k+1] on the float operands themselves.
func checkArithSem(w *World, r *Report, caseConsts map[int64]*ast.CaseClause, info *types.Info) {
	ops := []struct {
		code int64
		name string
		tok  token.Token
		asg  token.Token
	}{
		{0x0c0a, "add", token.ADD, token.ADD_ASSIGN},
		{0x0c0b, "sub", token.SUB, token.SUB_ASSIGN},
		{0x0c18, "mul", token.MUL, token.MUL_ASSIGN},
		{0x0c0c, "div", token.QUO, token.QUO_ASSIGN},
	}
	isStackAt := func(e ast.Expr, plus int64) (string, bool) {
		ie, ok := ast.Unparen(e).(*ast.IndexExpr)
		if !ok {
			return "", false
		}
		base := types.ExprString(ie.X)
		idx := ast.Unparen(ie.Index)
		if plus == 0 {
			if id, ok := idx.(*ast.Ident); ok {
				return base + "[" + id.Name, true
			}
			return "", false
		}
		be, ok := idx.(*ast.BinaryExpr)
		if !ok || be.Op != token.ADD {
			return "", false
		}
		id, ok1 := be.X.(*ast.Ident)
		tv, ok2 := info.Types[be.Y]
		if !ok1 || !ok2 || tv.Value == nil {
			return "", false
		}
		if v, _ := constant.Int64Val(constant.ToInt(tv.Value)); v != plus {
			return "", false
		}
		return base + "[" + id.Name, true
	}
	for _, op := range ops {
		key := r.MkKey("arithsem", "decodeCharString", "operator "+op.name)
		cc := caseConsts[op.code]
		if cc == nil {
			r.Fail("arithsem", key, "-", "no case for the operator", nil)
			continue
		}
		found := false
		ast.Inspect(cc, func(n ast.Node) bool {
			switch x := n.(type) {
			case *ast.BinaryExpr:
				if x.Op == op.tok {
					a, ok1 := isStackAt(x.X, 0)
					b, ok2 := isStackAt(x.Y, 1)
					if ok1 && ok2 && a == b {
						found = true
					}
				}
			case *ast.AssignStmt:
				if x.Tok == op.asg && len(x.Lhs) == 1 && len(x.Rhs) == 1 {
					a, ok1 := isStackAt(x.Lhs[0], 0)
					b, ok2 := isStackAt(x.Rhs[0], 1)
					if ok1 && ok2 && a == b {
						found = true
					}
				}
			}
			return true
		})
		if found {
			r.OK("arithsem", key, w.Pos(cc.Pos()), "computes stack[k] "+op.tok.String()+" stack[k+1] on the operands themselves")
		} else {
			r.Fail("arithsem", key, w.Pos(cc.Pos()), "the case for "+op.name+" does not compute stack[k] "+op.tok.String()+" stack[k+1] on the two top operands as they are (e.g. it converts them to integers first)", nil)
		}
	}
	r.Floor("arithsem", 4)
}

// flexSpec: for each flex operator the coefficients of the operands
// (stack indices) in each of the 12 arguments of the two curves.
// The two variants of flex1 are keyed 37 (|dx| > |dy|) and -37.
func flexSpec() map[int64][12]map[int]int {
	s := func(ix ...int) map[int]int {
		m := map[int]int{}
		for _, i := range ix {
			if i >= 0 {
				m[i]++
			} else {
				m[-i-100]--
			}
		}
		return m
	}
	neg := func(i int) int { return -i - 100 }
	z := s()
	return map[int64][12]map[int]int{
		0x0c23: {s(0), s(1), s(2), s(3), s(4), s(5), s(6), s(7), s(8), s(9), s(10), s(11)},
		0x0c22: {s(0), z, s(1), s(2), s(3), z, s(4), z, s(5), s(neg(2)), s(6), z},
		0x0c24: {s(0), s(1), s(2), s(3), s(4), z, s(5), z, s(6), s(7), s(8), s(neg(1), neg(3), neg(7))},
		0x0c25: {s(0), s(1), s(2), s(3), s(4), s(5), s(6), s(7), s(8), s(9), s(10), s(neg(1), neg(3), neg(5), neg(7), neg(9))},
		-0x0c25: {s(0), s(1), s(2), s(3), s(4), s(5), s(6), s(7), s(8), s(9), s(neg(0), neg(2), neg(4), neg(6), neg(8)), s(10)},
	}
}

// checkFlexSem compares the arguments of the two curves each flex operator
// draws with the specification, as linear combinations of the operands.
func checkFlexSem(w *World, r *Report, fd *ast.FuncDecl, caseConsts map[int64]*ast.CaseClause, info *types.Info) {
	spec := flexSpec()
	names := map[int64]string{0x0c23: "flex", 0x0c22: "hflex", 0x0c24: "hflex1", 0x0c25: "flex1"}
	// the curve drawing closure: the callee with six arguments used in the flex case
	for _, code := range []int64{0x0c22, 0x0c23, 0x0c24, 0x0c25} {
		key := r.MkKey("flexsem", "decodeCharString", "operator "+names[code])
		cc := caseConsts[code]
		if cc == nil {
			r.Fail("flexsem", key, "-", "no case for the operator", nil)
			continue
		}
		// local definitions  name := linear expression
		defs := map[types.Object]map[int]int{}
		var lin func(e ast.Expr) (map[int]int, bool)
		lin = func(e ast.Expr) (map[int]int, bool) {
			switch x := ast.Unparen(e).(type) {
			case *ast.BasicLit:
				if tv, ok := info.Types[x]; ok && tv.Value != nil && constant.Sign(tv.Value) == 0 {
					return map[int]int{}, true
				}
			case *ast.Ident:
				if m, ok := defs[info.ObjectOf(x)]; ok {
					return m, true
				}
			case *ast.IndexExpr:
				if tv, ok := info.Types[x.Index]; ok && tv.Value != nil {
					i, _ := constant.Int64Val(constant.ToInt(tv.Value))
					return map[int]int{int(i): 1}, true
				}
			case *ast.UnaryExpr:
				if x.Op == token.SUB {
					m, ok := lin(x.X)
					if !ok {
						return nil, false
					}
					n := map[int]int{}
					for k, v := range m {
						n[k] = -v
					}
					return n, true
				}
			case *ast.BinaryExpr:
				if x.Op == token.ADD || x.Op == token.SUB {
					a, ok1 := lin(x.X)
					b, ok2 := lin(x.Y)
					if !ok1 || !ok2 {
						return nil, false
					}
					n := map[int]int{}
					for k, v := range a {
						n[k] += v
					}
					for k, v := range b {
						if x.Op == token.ADD {
							n[k] += v
						} else {
							n[k] -= v
						}
					}
					for k, v := range n {
						if v == 0 {
							delete(n, k)
						}
					}
					return n, true
				}
			}
			return nil, false
		}
		// collect calls with six arguments, remembering whether they sit in the then/else branch of an if
		type call struct {
			args   []ast.Expr
			branch int // 0 none, 1 then, 2 else
		}
		var calls []call
		condProblem := ""
		var walk func(n ast.Node, branch int)
		walk = func(n ast.Node, branch int) {
			ast.Inspect(n, func(m ast.Node) bool {
				switch x := m.(type) {
				case *ast.AssignStmt:
					if x.Tok == token.DEFINE && len(x.Lhs) == 1 && len(x.Rhs) == 1 {
						if id, ok := x.Lhs[0].(*ast.Ident); ok {
							if l, ok := lin(x.Rhs[0]); ok {
								defs[info.ObjectOf(id)] = l
							}
						}
					}
				case *ast.IfStmt:
					if m == n {
						return true
					}
					// the inner if of flex1: condition compares |dx| with |dy|; which branch is
					// the case |dx| > |dy| is read off the condition (either operand order, negated or not)
					if strings.Contains(types.ExprString(x.Cond), "Abs") && x.Else != nil {
						thenCase, why := flex1ThenCase(x.Cond, lin)
						if thenCase == 0 {
							condProblem = why
							thenCase = 1
						}
						walk(x.Body, thenCase)
						walk(x.Else, 3-thenCase)
						return false
					}
				case *ast.CallExpr:
					if len(x.Args) == 6 {
						calls = append(calls, call{x.Args, branch})
					}
				}
				return true
			})
		}
		walk(cc, 0)
		variants := []int64{code}
		if code == 0x0c25 {
			variants = []int64{code, -code}
		}
		bad := condProblem
		for vi, v := range variants {
			if bad != "" {
				break
			}
			want := spec[v]
			var got []map[int]int
			for _, c := range calls {
				if c.branch != 0 && c.branch != vi+1 {
					continue
				}
				for _, a := range c.args {
					l, ok := lin(a)
					if !ok {
						bad = "argument " + types.ExprString(a) + " is not a sum of operands"
					}
					got = append(got, l)
				}
			}
			if bad != "" {
				break
			}
			if len(got) != 12 {
				bad = fmt.Sprintf("%d curve arguments found, the operator draws two curves (12 arguments)", len(got))
				break
			}
			for i := 0; i < 12; i++ {
				if !sameCoeffs(got[i], want[i]) {
					bad = fmt.Sprintf("argument %d of the %s is %s, the specification says %s", i%6+1, []string{"first", "second"}[i/6], coeffStr(got[i]), coeffStr(want[i]))
					if len(variants) > 1 {
						bad += []string{" (case |dx| > |dy|)", " (case |dx| <= |dy|)"}[vi]
					}
					break
				}
			}
			if bad != "" {
				break
			}
		}
		if bad == "" {
			r.OK("flexsem", key, w.Pos(cc.Pos()), "both curves have the arguments of TN5177")
		} else {
			r.Fail("flexsem", key, w.Pos(cc.Pos()), names[code]+": "+bad, nil)
		}
	}
	r.Floor("flexsem", 4)
}

func sameCoeffs(a, b map[int]int) bool {
	if len(a) != len(b) {
		return false
	}
	for k, v := range a {
		if b[k] != v {
			return false
		}
	}
	return true
}

func coeffStr(m map[int]int) string {
	if len(m) == 0 {
		return "0"
	}
	var ks []int
	for k := range m {
		ks = append(ks, k)
	}
	sort.Ints(ks)
	s := ""
	for _, k := range ks {
		switch m[k] {
		case 1:
			s += fmt.Sprintf("+arg%d", k)
		case -1:
			s += fmt.Sprintf("-arg%d", k)
		default:
			s += fmt.Sprintf("%+d*arg%d", m[k], k)
		}
	}
	return strings.TrimPrefix(s, "+")
}

// checkWidthOperands: TN5176 table 23: defaultWidthX and nominalWidthX are
// "number" operands (integer or real); the decoder setup must read them
// with the getter that accepts reals.
func checkWidthOperands(w *World, r *Report) {
	sp := w.SSAPkg[modPath+"/cff"]
	n := 0
	for _, fn := range w.LibFuncs() {
		if fnPkgPath(fn) != sp.Pkg.Path() {
			continue
		}
		for _, b := range fn.Blocks {
			for _, in := range b.Instrs {
				call, ok := in.(*ssa.Call)
				if !ok {
					continue
				}
				callee := call.Call.StaticCallee()
				if callee == nil || !strings.HasPrefix(callee.Name(), "get") || len(call.Call.Args) < 2 {
					continue
				}
				c, ok := call.Call.Args[1].(*ssa.Const)
				if !ok || c.Value == nil {
					continue
				}
				v, exact := constant.Int64Val(constant.ToInt(c.Value))
				if !exact || (v != 20 && v != 21) || !strings.HasSuffix(c.Type().String(), "dictOp") {
					continue
				}
				n++
				name := map[int64]string{20: "defaultWidthX", 21: "nominalWidthX"}[v]
				key := r.MkKey("widthoperands", fnName(fn), "read of "+name)
				if callee.Name() == "getFloat" {
					r.OK("widthoperands", key, w.Pos(call.Pos()), "read as a number (integer or real)")
				} else {
					r.Fail("widthoperands", key, w.Pos(call.Pos()), name+" is a 'number' operand of the Private DICT (TN5176) but is read with "+callee.Name()+": a width written as a real number is lost and every glyph width that depends on it is wrong", nil)
				}
			}
		}
	}
	r.Floor("widthoperands", 2)
}

// checkCallDepth: TN5177 Appendix B limits subroutine nesting to 10 levels:
// a call that makes the nesting depth 10 is legal, 11 is not.
func checkCallDepth(w *World, r *Report, p *bprover, fn *ssa.Function, caseConsts map[int64]*ast.CaseClause) {
	key := r.MkKey("calldepth", "decodeCharString", "subroutine nesting limit")
	cc := caseConsts[10]
	if cc == nil {
		r.Fail("calldepth", key, "-", "no case for callsubr", nil)
		return
	}
	found := false
	for _, b := range fn.Blocks {
		if len(b.Instrs) == 0 {
			continue
		}
		ifi, ok := b.Instrs[len(b.Instrs)-1].(*ssa.If)
		if !ok || ifi.Cond.Pos() < cc.Pos() || ifi.Cond.Pos() > cc.End() {
			continue
		}
		cmp, ok := ifi.Cond.(*ssa.BinOp)
		if !ok {
			continue
		}
		// one side is the length of a slice that was just extended by append
		var lenv ssa.Value
		for _, side := range []ssa.Value{cmp.X, cmp.Y} {
			if c, ok := side.(*ssa.Call); ok {
				if bi, ok := c.Call.Value.(*ssa.Builtin); ok && bi.Name() == "len" {
					if ap, ok := c.Call.Args[0].(*ssa.Call); ok {
						if b2, ok := ap.Call.Value.(*ssa.Builtin); ok && b2.Name() == "append" {
							lenv = c.Call.Args[0]
						}
					}
				}
			}
		}
		if lenv == nil {
			continue
		}
		// which successor returns an error?
		errSucc := -1
		for si, s := range b.Succs {
			if len(s.Instrs) > 0 {
				if ret, ok := s.Instrs[len(s.Instrs)-1].(*ssa.Return); ok && len(ret.Results) == 2 {
					if c, ok := ret.Results[1].(*ssa.Const); !ok || c.Value != nil {
						errSucc = si
					}
				}
			}
		}
		if errSucc < 0 {
			continue
		}
		found = true
		depth := p.lenOf(lenv)
		var fe, fo []bfact
		p.condFacts(ifi.Cond, errSucc == 0, &fe) // facts on the rejecting edge
		p.condFacts(ifi.Cond, errSucc != 0, &fo) // facts on the accepting edge
		neg, _ := depth.scale(-1)
		rejOK := p.prove(append(p.factsAt(b), fe...), depth.addc(-11), b, 1)
		accOK := p.prove(append(p.factsAt(b), fo...), neg.addc(10), b, 1)
		switch {
		case rejOK && accOK:
			r.OK("calldepth", key, w.Pos(ifi.Cond.Pos()), "a call is rejected exactly when it makes the nesting depth exceed 10")
		case !rejOK:
			r.Fail("calldepth", key, w.Pos(ifi.Cond.Pos()), "the nesting check can reject a call that makes the depth 10 or less: a well-formed program nested ten deep (the limit of TN5177) is refused", nil)
		default:
			r.Fail("calldepth", key, w.Pos(ifi.Cond.Pos()), "the nesting check lets the depth exceed 10", nil)
		}
	}
	if !found {
		r.Fail("calldepth", key, w.Pos(cc.Pos()), "no check of the call stack depth after pushing the return address", nil)
	}
	r.Floor("calldepth", 1)
}

// checkPerFD: in cff.Read every glyph stored into the font is the direct
// result of decodeCharString called on the decoder selected by FDSelect for
// that same glyph index (per-FD subroutines and widths).
func checkPerFD(w *World, r *Report) {
	fn := w.Func("cff.Read")
	key := r.MkKey("perfd", "cff.Read", "glyph decoding")
	if fn == nil {
		r.Fatal("cff.Read does not resolve")
		return
	}
	n := 0
	bad := ""
	var pos token.Pos
	for _, b := range fn.Blocks {
		for _, in := range b.Instrs {
			st, ok := in.(*ssa.Store)
			if !ok {
				continue
			}
			ia, ok := st.Addr.(*ssa.IndexAddr)
			if !ok || !strings.HasSuffix(st.Val.Type().String(), "cff.Glyph") {
				continue
			}
			n++
			pos = st.Pos()
			// all sources of the stored value
			var srcs []ssa.Value
			seen := map[ssa.Value]bool{}
			var walk func(v ssa.Value)
			walk = func(v ssa.Value) {
				if seen[v] {
					return
				}
				seen[v] = true
				switch x := v.(type) {
				case *ssa.Phi:
					for _, e := range x.Edges {
						walk(e)
					}
				case *ssa.Extract:
					walk(x.Tuple)
				default:
					srcs = append(srcs, v)
				}
			}
			walk(st.Val)
			for _, s := range srcs {
				call, ok := s.(*ssa.Call)
				if !ok {
					if c, isC := s.(*ssa.Const); isC && c.Value == nil {
						continue
					}
					bad = "a glyph that is not the result of a call is stored"
					continue
				}
				callee := call.Call.StaticCallee()
				if callee == nil || callee.Name() != "decodeCharString" {
					name := "a dynamic call"
					if callee != nil {
						name = callee.Name()
					}
					bad = "a glyph produced by " + name + " (not by decodeCharString) is stored"
					continue
				}
				// receiver: decoders[fdSelect(gid)] with the same gid as the store index
				recvSlice := backSlice(call.Call.Args[0])
				okSel := false
				for v := range recvSlice {
					if c2, ok := v.(*ssa.Call); ok && len(c2.Call.Args) == 1 && c2.Call.StaticCallee() == nil {
						// call of the FDSelect function value: its argument must derive from the store index
						if backSlice(c2.Call.Args[0])[ia.Index] || backSlice(ia.Index)[c2.Call.Args[0]] || sameRoot(c2.Call.Args[0], ia.Index) {
							okSel = true
						}
					}
				}
				if !okSel {
					bad = "the decoder used is not selected by FDSelect of the glyph that is stored"
				}
			}
		}
	}
	if n == 0 {
		r.Fail("perfd", key, w.Pos(fn.Pos()), "no store of a decoded glyph found in cff.Read", nil)
	} else if bad != "" {
		r.Fail("perfd", key, w.Pos(pos), bad+": glyphs of CID-keyed fonts must be decoded with the subroutines and widths of their own font DICT", nil)
	} else {
		r.OK("perfd", key, w.Pos(pos), "each stored glyph is decodeCharString of the decoder FDSelect gives for that glyph")
	}
	r.Floor("perfd", 1)
}

// sameRoot: both values are conversions of one value.
func sameRoot(a, b ssa.Value) bool {
	root := func(v ssa.Value) ssa.Value {
		for {
			switch x := v.(type) {
			case *ssa.Convert:
				v = x.X
			case *ssa.ChangeType:
				v = x.X
			default:
				return v
			}
		}
	}
	return root(a) == root(b)
}


// checkMoveState: "drawing before the first moveto is an error" is decided in
// the path-building closures of decodeCharString: the closures for lineto and
// curveto set moveError when a piece of state says that no moveto has been
// seen.  That state must change only in the path-building closures themselves
// (the three closures that advance the current point); a write anywhere else —
// in the operator loop, say, when a hint mask is recorded — makes the test
// pass for a glyph that draws without ever moving.
func checkMoveState(w *World, r *Report, fn *ssa.Function) {
	r.Rule("movestate: the closures of decodeCharString that report drawing-before-moveto (they store moveError) test a location (a captured flag, or the length of a captured slice) that is written only by the closures that advance the current point; no other code of the interpreter writes it after initialisation")
	// captured variables: FreeVar of closure -> Alloc in fn
	binding := map[*ssa.FreeVar]ssa.Value{}
	var closures []*ssa.Function
	for _, b := range fn.Blocks {
		for _, in := range b.Instrs {
			mc, ok := in.(*ssa.MakeClosure)
			if !ok {
				continue
			}
			cf := mc.Fn.(*ssa.Function)
			closures = append(closures, cf)
			for i, fv := range cf.FreeVars {
				if i < len(mc.Bindings) {
					binding[fv] = mc.Bindings[i]
				}
			}
		}
	}
	root := func(v ssa.Value) ssa.Value {
		if fv, ok := v.(*ssa.FreeVar); ok {
			if b, ok := binding[fv]; ok {
				return b
			}
		}
		return v
	}
	// loc: a description of the memory a value is read from / written to
	type loc struct {
		base  ssa.Value
		field string
	}
	var locOfAddr func(a ssa.Value) (loc, bool)
	locOfAddr = func(a ssa.Value) (loc, bool) {
		switch x := a.(type) {
		case *ssa.FreeVar, *ssa.Alloc:
			return loc{base: root(x)}, true
		case *ssa.FieldAddr:
			// field of the object a captured pointer variable holds
			if ld, ok := x.X.(*ssa.UnOp); ok && ld.Op == token.MUL {
				if l, ok := locOfAddr(ld.X); ok && l.field == "" {
					return loc{base: l.base, field: fieldName(x)}, true
				}
			}
			if l, ok := locOfAddr(x.X); ok && l.field == "" {
				return loc{base: l.base, field: fieldName(x)}, true
			}
		}
		return loc{}, false
	}
	var locOfVal func(v ssa.Value, depth int) (loc, bool)
	locOfVal = func(v ssa.Value, depth int) (loc, bool) {
		if depth > 6 {
			return loc{}, false
		}
		switch x := v.(type) {
		case *ssa.UnOp:
			if x.Op == token.MUL {
				return locOfAddr(x.X)
			}
			return locOfVal(x.X, depth+1)
		case *ssa.BinOp:
			if _, isC := x.Y.(*ssa.Const); isC {
				return locOfVal(x.X, depth+1)
			}
			if _, isC := x.X.(*ssa.Const); isC {
				return locOfVal(x.Y, depth+1)
			}
		case *ssa.Call:
			if bi, ok := x.Call.Value.(*ssa.Builtin); ok && bi.Name() == "len" {
				return locOfVal(x.Call.Args[0], depth+1)
			}
		}
		return loc{}, false
	}
	// stores of a closure to captured variables of a kind: "error" (the
	// deferred error report) or "float" (the current point)
	storesTo := func(f *ssa.Function, kind string) []*ssa.Store {
		var res []*ssa.Store
		for _, b := range f.Blocks {
			for _, in := range b.Instrs {
				if st, ok := in.(*ssa.Store); ok {
					if _, isFV := st.Addr.(*ssa.FreeVar); !isFV {
						continue
					}
					if l, ok := locOfAddr(st.Addr); ok && l.field == "" {
						if al, ok := l.base.(*ssa.Alloc); ok {
							et := al.Type().Underlying().(*types.Pointer).Elem()
							switch kind {
							case "error":
								if types.Identical(et, types.Universe.Lookup("error").Type()) {
									res = append(res, st)
								}
							case "float":
								if bt, ok := et.Underlying().(*types.Basic); ok && bt.Kind() == types.Float64 {
									res = append(res, st)
								}
							}
						}
					}
				}
			}
		}
		return res
	}
	// the closures that advance the current point
	pathBuilder := map[*ssa.Function]bool{}
	for _, cf := range closures {
		if len(storesTo(cf, "float")) > 0 {
			pathBuilder[cf] = true
		}
	}
	n := 0
	for _, cf := range closures {
		errStores := storesTo(cf, "error")
		if len(errStores) == 0 {
			continue
		}
		for _, st := range errStores {
			n++
			key := r.MkKey("movestate", fnName(cf), "guard of the moveError report")
			// the branch that guards the store
			var cond ssa.Value
			for b := st.Block(); b != nil && cond == nil; b = b.Idom() {
				if id := b.Idom(); id != nil && len(id.Instrs) > 0 {
					if ifi, ok := id.Instrs[len(id.Instrs)-1].(*ssa.If); ok && len(b.Preds) == 1 && b.Preds[0] == id {
						cond = ifi.Cond
					}
				}
			}
			if cond == nil {
				r.Fail("movestate", key, w.Pos(st.Pos()), "moveError is set unconditionally", nil)
				continue
			}
			l, ok := locOfVal(cond, 0)
			if !ok {
				r.Fail("movestate", key, w.Pos(st.Pos()), "the state tested before reporting drawing-before-moveto is not a captured variable or a field of one: the rule cannot decide who writes it", nil)
				continue
			}
			// every write to that location
			bad := ""
			writers := 0
			check := func(f *ssa.Function) {
				for _, b := range f.Blocks {
					for _, in := range b.Instrs {
						s2, ok := in.(*ssa.Store)
						if !ok {
							continue
						}
						l2, ok := locOfAddr(s2.Addr)
						if !ok || l2 != l {
							continue
						}
						if f == fn && b.Index == 0 {
							continue // initialisation
						}
						if pathBuilder[f] {
							writers++
							continue
						}
						if bad == "" {
							bad = fmt.Sprintf("%s (in %s)", w.Pos(s2.Pos()), fnName(f))
						}
					}
				}
			}
			check(fn)
			for _, c2 := range closures {
				check(c2)
			}
			what := "the captured variable " + l.base.(interface{ Name() string }).Name()
			if al, ok := l.base.(*ssa.Alloc); ok {
				what = "the captured variable " + al.Comment
			}
			if l.field != "" {
				what = "field " + l.field + " of " + strings.TrimPrefix(what, "the ")
			}
			switch {
			case bad != "":
				r.Fail("movestate", key, w.Pos(st.Pos()), fmt.Sprintf("%s, which decides whether a moveto has been seen, is also written at %s, outside the closures that advance the current point: after that write a glyph that draws without a moveto is accepted", what, bad), nil)
			case writers == 0:
				r.Fail("movestate", key, w.Pos(st.Pos()), what+" is never written by the moveto closure: every drawing operator is rejected or none is", nil)
			default:
				r.OK("movestate", key, w.Pos(st.Pos()), fmt.Sprintf("%s is written only by the path-building closures (%d stores)", what, writers))
			}
		}
	}
	r.Floor("movestate", 2)
	_ = n
}

// flex1ThenCase reads the test that selects between the two forms of flex1:
// the specification takes the first form when |dx| > |dy| (dx, dy the sums of
// the first five horizontal resp. vertical deltas) and the second otherwise,
// ties included.  Returns 1 when the then-branch is the case |dx| > |dy|, 2
// when it is the case |dx| <= |dy|, 0 (with a reason) for anything else.
func flex1ThenCase(cond ast.Expr, lin func(ast.Expr) (map[int]int, bool)) (int, string) {
	negated := false
	for {
		switch x := cond.(type) {
		case *ast.ParenExpr:
			cond = x.X
			continue
		case *ast.UnaryExpr:
			if x.Op == token.NOT {
				negated = !negated
				cond = x.X
				continue
			}
		}
		break
	}
	be, ok := cond.(*ast.BinaryExpr)
	if !ok {
		return 0, "flex1: the test between the two forms is not a comparison of |dx| and |dy|"
	}
	absArg := func(e ast.Expr) (map[int]int, bool) {
		for {
			p, ok := e.(*ast.ParenExpr)
			if !ok {
				break
			}
			e = p.X
		}
		c, ok := e.(*ast.CallExpr)
		if !ok || len(c.Args) != 1 || !strings.HasSuffix(types.ExprString(c.Fun), "Abs") {
			return nil, false
		}
		return lin(c.Args[0])
	}
	l, ok1 := absArg(be.X)
	r, ok2 := absArg(be.Y)
	if !ok1 || !ok2 {
		return 0, "flex1: the test between the two forms is not a comparison of |dx| and |dy|"
	}
	isSum := func(m map[int]int, parity int) bool {
		if len(m) != 5 {
			return false
		}
		for k := parity; k < 10; k += 2 {
			if m[k] != 1 {
				return false
			}
		}
		return true
	}
	op := be.Op
	switch {
	case isSum(l, 0) && isSum(r, 1): // |dx| op |dy|
	case isSum(l, 1) && isSum(r, 0): // |dy| op |dx|: mirror
		op = map[token.Token]token.Token{token.LSS: token.GTR, token.GTR: token.LSS, token.LEQ: token.GEQ, token.GEQ: token.LEQ}[op]
	default:
		return 0, "flex1: the test between the two forms does not compare the sums of the first five horizontal and vertical deltas"
	}
	if negated {
		op = map[token.Token]token.Token{token.LSS: token.GEQ, token.GEQ: token.LSS, token.GTR: token.LEQ, token.LEQ: token.GTR}[op]
	}
	switch op {
	case token.GTR:
		return 1, ""
	case token.LEQ:
		return 2, ""
	case token.GEQ, token.LSS:
		return 0, "flex1: when |dx| equals |dy| the first form is chosen (or the second form only for |dx| < |dy|); the specification gives ties to the second form"
	}
	return 0, "flex1: the test between the two forms is not an order comparison"
}
