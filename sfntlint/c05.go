package main

// C05: structural conformance clauses of the Type 2 charstring interpreter
// against Adobe TN5177.  The specification's tables (operator numbers,
// operand encodings, subroutine bias, mask length, width detection) are
// encoded here; the code's own constants, formulas and predicates are
// extracted from the syntax tree / SSA and compared: algebraically (linear
// forms), by the linear prover (ceil-division), or by constant-folding a
// predicate at the operand counts the specification allows.

import (
	"fmt"
	"go/ast"
	"go/constant"
	"go/token"
	"go/types"
	"sort"
	"strings"

	"golang.org/x/tools/go/ssa"
)

func init() { properties["C05"] = propC05 }

// TN5177 Appendix A: operator numbers (two-byte operators as 0x0c00 | b1).
var t2SpecOps = map[int64]string{
	1: "hstem", 3: "vstem", 4: "vmoveto", 5: "rlineto", 6: "hlineto", 7: "vlineto", 8: "rrcurveto",
	10: "callsubr", 11: "return", 14: "endchar", 18: "hstemhm", 19: "hintmask", 20: "cntrmask",
	21: "rmoveto", 22: "hmoveto", 23: "vstemhm", 24: "rcurveline", 25: "rlinecurve", 26: "vvcurveto",
	27: "hhcurveto", 29: "callgsubr", 30: "vhcurveto", 31: "hvcurveto",
	0x0c03: "and", 0x0c04: "or", 0x0c05: "not", 0x0c09: "abs", 0x0c0a: "add", 0x0c0b: "sub", 0x0c0c: "div",
	0x0c0e: "neg", 0x0c0f: "eq", 0x0c12: "drop", 0x0c14: "put", 0x0c15: "get", 0x0c16: "ifelse",
	0x0c17: "random", 0x0c18: "mul", 0x0c1a: "sqrt", 0x0c1b: "dup", 0x0c1c: "exch", 0x0c1d: "index",
	0x0c1e: "roll", 0x0c22: "hflex", 0x0c23: "flex", 0x0c24: "hflex1", 0x0c25: "flex1",
}

// width detection (TN5177 section 3.1 / 4.1-4.3): operand counts a valid
// program can have when the operator is the first stack-clearing one, and
// those among them that include the width.
type widthSpec struct {
	valid   []int
	present func(n int) bool
}

var t2WidthSpec = map[int64]widthSpec{
	1:  {[]int{2, 3, 4, 5, 6, 7, 8, 9}, func(n int) bool { return n%2 == 1 }},
	3:  {[]int{2, 3, 4, 5, 6, 7, 8, 9}, func(n int) bool { return n%2 == 1 }},
	18: {[]int{2, 3, 4, 5, 6, 7, 8, 9}, func(n int) bool { return n%2 == 1 }},
	23: {[]int{2, 3, 4, 5, 6, 7, 8, 9}, func(n int) bool { return n%2 == 1 }},
	19: {[]int{0, 1, 2, 3, 4, 5, 6, 7}, func(n int) bool { return n%2 == 1 }},
	20: {[]int{0, 1, 2, 3, 4, 5, 6, 7}, func(n int) bool { return n%2 == 1 }},
	21: {[]int{2, 3}, func(n int) bool { return n == 3 }},
	22: {[]int{1, 2}, func(n int) bool { return n == 2 }},
	4:  {[]int{1, 2}, func(n int) bool { return n == 2 }},
	14: {[]int{0, 1, 4, 5}, func(n int) bool { return n == 1 || n == 5 }},
}

func propC05(w *World, r *Report) {
	r.Rule("opcoverage: every operator of TN5177 Appendix A is a case of the interpreter's operator switch || numenc: the three one/two-byte integer operand encodings decode to b0-139, (b0-247)*256+b1+108 and -(b0-251)*256-b1-108 (linear forms of the SSA values, shown not to wrap) || subrbias: a subroutine INDEX is indexed with operand + bias where the bias is 107/1131/32768 chosen by comparing the length of that same INDEX with 1240 and 33900 || maskbytes: the number k of hintmask/cntrmask bytes satisfies 8k >= nStems and 8k <= nStems+7 (prover) || widthrule: the width-presence predicate passed at each first stack-clearing operator agrees with the specification at every operand count a valid program can have (constant folding of the predicate) || storagescope: the transient array lives outside the interpreter loops (put in one subroutine, get after return) || bounds/loopterm/precond on the interpreter (rules of C02 restricted to cff charstring decoding)")
	for _, a := range boundsAssumptions {
		r.Assumes(a)
	}
	pkg := w.All[modPath+"/cff"]
	if pkg == nil {
		r.Fatal("package cff not loaded")
		return
	}
	fd := findMethod(pkg.Syntax, "decodeInfo", "decodeCharString")
	fn := w.Func("(*cff.decodeInfo).decodeCharString")
	if fd == nil || fn == nil {
		r.Fatal("(*cff.decodeInfo).decodeCharString not found")
		return
	}
	info := pkg.TypesInfo
	br := newBoundsRun(w)
	p := br.prover(fn)

	// ---- opcoverage
	caseConsts := map[int64]*ast.CaseClause{}
	ast.Inspect(fd.Body, func(n ast.Node) bool {
		cc, ok := n.(*ast.CaseClause)
		if !ok {
			return true
		}
		for _, e := range cc.List {
			if tv, ok := info.Types[e]; ok && tv.Value != nil && tv.Value.Kind() == constant.Int {
				if named, ok := tv.Type.(*types.Named); ok && named.Obj().Name() == "t2op" {
					v, _ := constant.Int64Val(tv.Value)
					caseConsts[v] = cc
				}
			}
		}
		return true
	})
	var specOps []int64
	for v := range t2SpecOps {
		specOps = append(specOps, v)
	}
	sort.Slice(specOps, func(i, j int) bool { return specOps[i] < specOps[j] })
	for _, v := range specOps {
		key := r.MkKey("opcoverage", "decodeCharString", "operator "+t2SpecOps[v])
		if cc, ok := caseConsts[v]; ok {
			r.OK("opcoverage", key, w.Pos(cc.Pos()), fmt.Sprintf("case for operator %#x", v))
		} else {
			r.Fail("opcoverage", key, w.Pos(fd.Pos()), fmt.Sprintf("Type 2 operator %s (%#x) has no case in the interpreter's switch: programs using it are rejected or mis-decoded", t2SpecOps[v], v), nil)
		}
	}
	r.Floor("opcoverage", 45)

	// ---- numenc
	checkNumEnc(w, r, p, fd, fn, info)

	// ---- subrbias
	checkSubrBias(w, r, br, []string{"(*cff.decodeInfo).decodeCharString", "cff.getSubr"})

	// ---- maskbytes
	checkMaskBytes(w, r, p, fn, caseConsts, info)

	// ---- widthrule
	checkWidthRule(w, r, pkg.Types, fd, caseConsts, info)

	// ---- storagescope
	checkStorageScope(w, r, fd, caseConsts, info)

	// ---- safety of the interpreter (shared with C02)
	var fns []*ssa.Function
	for f := range w.libReach([]*ssa.Function{fn}) {
		if strings.HasSuffix(fnPkgPath(f), "/cff") {
			fns = append(fns, f)
		}
	}
	sort.Slice(fns, func(i, j int) bool { return fnName(fns[i]) < fnName(fns[j]) })
	RunBounds(w, r, "bounds", br, fns)
	runLoopTerm(w, r, br, fns, true)
	r.Floor("bounds", 200)
	r.Floor("loopterm", 10)
}

func findMethod(files []*ast.File, recv, name string) *ast.FuncDecl {
	for _, f := range files {
		for _, d := range f.Decls {
			fd, ok := d.(*ast.FuncDecl)
			if !ok || fd.Name.Name != name || fd.Recv == nil || fd.Body == nil || len(fd.Recv.List) == 0 {
				continue
			}
			t := fd.Recv.List[0].Type
			if st, ok := t.(*ast.StarExpr); ok {
				t = st.X
			}
			if id, ok := t.(*ast.Ident); ok && id.Name == recv {
				return fd
			}
		}
	}
	return nil
}

// ssaAt finds the BinOp / Convert created for the expression whose
// operator (or opening parenthesis) is at pos.
func ssaAt(fn *ssa.Function, pos token.Pos) ssa.Value {
	var res ssa.Value
	var visit func(f *ssa.Function)
	visit = func(f *ssa.Function) {
		for _, b := range f.Blocks {
			for _, in := range b.Instrs {
				if v, ok := in.(ssa.Value); ok && in.Pos() == pos {
					switch in.(type) {
					case *ssa.BinOp, *ssa.Convert, *ssa.Call:
						if res == nil {
							res = v
						}
					}
				}
			}
		}
		for _, af := range f.AnonFuncs {
			visit(af)
		}
	}
	visit(fn)
	return res
}

func checkNumEnc(w *World, r *Report, p *bprover, fd *ast.FuncDecl, fn *ssa.Function, info *types.Info) {
	// branches: if op >= LO && op <= HI { ... append(stack, float64(EXPR)) ... }
	type enc struct {
		lo, hi int64
		cA, cB int64 // coefficients of the first byte and of the second byte
		k      int64
		name   string
	}
	specs := []enc{
		{32, 246, 1, 0, -139, "b0 - 139"},
		{247, 250, 256, 1, 108 - 247*256, "(b0-247)*256 + b1 + 108"},
		{251, 254, -256, -1, 251*256 - 108, "-(b0-251)*256 - b1 - 108"},
	}
	found := map[int]bool{}
	ast.Inspect(fd.Body, func(n ast.Node) bool {
		is, ok := n.(*ast.IfStmt)
		if !ok {
			return true
		}
		lo, hi, ok := rangeCond(is.Cond, info)
		if !ok {
			return true
		}
		for si, sp := range specs {
			if sp.lo != lo || sp.hi != hi {
				continue
			}
			found[si] = true
			key := r.MkKey("numenc", "decodeCharString", fmt.Sprintf("operand encoding %d..%d", lo, hi))
			// the value pushed: the argument of float64(...) in this branch
			var valExpr ast.Expr
			ast.Inspect(is.Body, func(m ast.Node) bool {
				ce, ok := m.(*ast.CallExpr)
				if !ok || len(ce.Args) != 1 {
					return true
				}
				if tv, ok := info.Types[ce.Fun]; ok && tv.IsType() && types.TypeString(tv.Type, nil) == "float64" && valExpr == nil {
					valExpr = ce.Args[0]
				}
				return true
			})
			if valExpr == nil {
				r.Fail("numenc", key, w.Pos(is.Pos()), "no float64(...) value is pushed in this branch", nil)
				continue
			}
			// resolve an identifier to its defining expression within the branch
			if id, ok := valExpr.(*ast.Ident); ok {
				ast.Inspect(is.Body, func(m ast.Node) bool {
					as, ok := m.(*ast.AssignStmt)
					if ok && len(as.Lhs) == 1 && len(as.Rhs) == 1 {
						if l, ok := as.Lhs[0].(*ast.Ident); ok && info.ObjectOf(l) == info.ObjectOf(id) {
							valExpr = as.Rhs[0]
						}
					}
					return true
				})
			}
			var v ssa.Value
			switch e := ast.Unparen(valExpr).(type) {
			case *ast.BinaryExpr:
				v = ssaAt(fn, e.OpPos)
			case *ast.CallExpr:
				v = ssaAt(fn, e.Lparen)
			}
			if v == nil {
				r.Fail("numenc", key, w.Pos(valExpr.Pos()), "the pushed value has no SSA counterpart the analysis can identify", nil)
				continue
			}
			l := p.linOf(v)
			// atoms: the first byte (op) and possibly a second one
			ok2 := l.k == sp.k
			var coeffs []int64
			for _, c := range l.t {
				coeffs = append(coeffs, c)
			}
			sort.Slice(coeffs, func(i, j int) bool { return abs64(coeffs[i]) > abs64(coeffs[j]) })
			want := []int64{sp.cA}
			if sp.cB != 0 {
				want = append(want, sp.cB)
			}
			if len(coeffs) != len(want) {
				ok2 = false
			} else {
				for i := range want {
					if coeffs[i] != want[i] {
						ok2 = false
					}
				}
			}
			if ok2 {
				r.OK("numenc", key, w.Pos(valExpr.Pos()), "value is "+sp.name+" without wrap-around")
			} else {
				r.Fail("numenc", key, w.Pos(valExpr.Pos()), fmt.Sprintf("the operand decoded in the branch %d..%d is %s, the specification says %s", lo, hi, p.linStr(l), sp.name), nil)
			}
		}
		return true
	})
	for si, sp := range specs {
		if !found[si] {
			key := r.MkKey("numenc", "decodeCharString", fmt.Sprintf("operand encoding %d..%d", sp.lo, sp.hi))
			r.Fail("numenc", key, w.Pos(fd.Pos()), fmt.Sprintf("no branch for first bytes %d..%d", sp.lo, sp.hi), nil)
		}
	}
	r.Floor("numenc", 3)
}

func abs64(x int64) int64 {
	if x < 0 {
		return -x
	}
	return x
}

// rangeCond recognises  x >= LO && x <= HI.
func rangeCond(e ast.Expr, info *types.Info) (int64, int64, bool) {
	be, ok := ast.Unparen(e).(*ast.BinaryExpr)
	if !ok || be.Op != token.LAND {
		return 0, 0, false
	}
	l, ok1 := ast.Unparen(be.X).(*ast.BinaryExpr)
	h, ok2 := ast.Unparen(be.Y).(*ast.BinaryExpr)
	if !ok1 || !ok2 || l.Op != token.GEQ || h.Op != token.LEQ {
		return 0, 0, false
	}
	lv, okl := info.Types[l.Y]
	hv, okh := info.Types[h.Y]
	if !okl || !okh || lv.Value == nil || hv.Value == nil {
		return 0, 0, false
	}
	lo, _ := constant.Int64Val(constant.ToInt(lv.Value))
	hi, _ := constant.Int64Val(constant.ToInt(hv.Value))
	return lo, hi, true
}

// checkSubrBias: every non-constant index into a cffIndex in the given
// functions is  operand + bias(len(that same INDEX)).
func checkSubrBias(w *World, r *Report, br *boundsRun, fnNames []string) {
	n := 0
	for _, name := range fnNames {
		fn := w.Func(name)
		if fn == nil {
			continue
		}
		p := br.prover(fn)
		for _, b := range fn.Blocks {
			for _, in := range b.Instrs {
				ia, ok := in.(*ssa.IndexAddr)
				if !ok {
					continue
				}
				nt, ok := ia.X.Type().(*types.Named)
				if !ok || nt.Obj().Name() != "cffIndex" {
					continue
				}
				if _, isC := bconstInt(ia.Index); isC {
					continue
				}
				n++
				key := r.MkKey("subrbias", fnName(fn), "index into subroutine INDEX")
				pos := w.Pos(ia.Pos())
				ok, why := biasAgrees(w, br, p, fn, ia)
				if ok {
					r.OK("subrbias", key, pos, why)
				} else {
					r.Fail("subrbias", key, pos, why, nil)
				}
			}
		}
	}
	r.Floor("subrbias", 1)
}

func biasAgrees(w *World, br *boundsRun, p *bprover, fn *ssa.Function, ia *ssa.IndexAddr) (bool, string) {
	add, ok := ia.Index.(*ssa.BinOp)
	if !ok || add.Op != token.ADD {
		return false, "the index is not of the form operand + bias"
	}
	X := p.canonVal(ia.X)
	// which operand is the bias?  a phi of constants, or a call bias(len(Y))
	for _, cand := range []ssa.Value{add.Y, add.X} {
		switch off := cand.(type) {
		case *ssa.Phi:
			consts := map[int64]bool{}
			for _, e := range off.Edges {
				c, ok := bconstInt(e)
				if !ok {
					consts = nil
					break
				}
				consts[c] = true
			}
			if consts == nil {
				continue
			}
			if !(consts[107] && consts[1131] && consts[32768] && len(consts) == 3) {
				return false, fmt.Sprintf("bias values %v differ from the specification's 107 / 1131 / 32768", int64Keys(consts))
			}
			// thresholds on len(Y) in this function
			return thresholdsOn(p, fn, func(v ssa.Value) bool { return p.canonVal(v) == X }, "the INDEX that is indexed")
		case *ssa.Call:
			callee := off.Call.StaticCallee()
			if callee == nil || len(off.Call.Args) != 1 || len(callee.Params) != 1 {
				continue
			}
			// argument must be len(X)
			lc, ok := off.Call.Args[0].(*ssa.Call)
			if !ok {
				return false, "the bias is not computed from a length"
			}
			bi, ok := lc.Call.Value.(*ssa.Builtin)
			if !ok || bi.Name() != "len" || p.canonVal(lc.Call.Args[0]) != X {
				return false, "the bias is computed from the length of a different table than the one that is indexed (local and global subroutines have separate biases)"
			}
			cp := br.prover(callee)
			// constants returned and thresholds on the parameter
			rets := map[int64]bool{}
			for _, b := range callee.Blocks {
				if ret, ok := b.Instrs[len(b.Instrs)-1].(*ssa.Return); ok && len(ret.Results) == 1 {
					if c, ok := bconstInt(ret.Results[0]); ok {
						rets[c] = true
					} else if ph, ok := ret.Results[0].(*ssa.Phi); ok {
						for _, e := range ph.Edges {
							if c, ok := bconstInt(e); ok {
								rets[c] = true
							}
						}
					}
				}
			}
			if !(rets[107] && rets[1131] && rets[32768] && len(rets) == 3) {
				return false, fmt.Sprintf("bias values %v differ from the specification's 107 / 1131 / 32768", int64Keys(rets))
			}
			return thresholdsOnParam(cp, callee)
		}
	}
	return false, "no bias term (phi of constants or bias function of a length) found in the index"
}

func int64Keys(m map[int64]bool) []int64 {
	var ks []int64
	for k := range m {
		ks = append(ks, k)
	}
	sort.Slice(ks, func(i, j int) bool { return ks[i] < ks[j] })
	return ks
}

// thresholdsOn: the function compares len(Y) with 1240 and 33900 (strictly
// below) for a Y accepted by same, and with no other table.
func thresholdsOn(p *bprover, fn *ssa.Function, same func(ssa.Value) bool, what string) (bool, string) {
	seen := map[int64]bool{}
	for _, b := range fn.Blocks {
		for _, in := range b.Instrs {
			bo, ok := in.(*ssa.BinOp)
			if !ok || bo.Op != token.LSS {
				continue
			}
			c, ok := bconstInt(bo.Y)
			if !ok || (c != 1240 && c != 33900) {
				continue
			}
			lc, ok := bo.X.(*ssa.Call)
			if !ok {
				return false, "a bias threshold is not applied to a length"
			}
			bi, ok := lc.Call.Value.(*ssa.Builtin)
			if !ok || bi.Name() != "len" || !same(lc.Call.Args[0]) {
				return false, "a bias threshold is applied to the length of a different table than " + what
			}
			seen[c] = true
		}
	}
	if !seen[1240] || !seen[33900] {
		return false, "the thresholds 1240 and 33900 (count < threshold) are not both present"
	}
	return true, "bias 107/1131/32768 chosen by the length of the indexed table (< 1240, < 33900)"
}

func thresholdsOnParam(p *bprover, fn *ssa.Function) (bool, string) {
	seen := map[int64]bool{}
	for _, b := range fn.Blocks {
		for _, in := range b.Instrs {
			bo, ok := in.(*ssa.BinOp)
			if !ok || bo.Op != token.LSS {
				continue
			}
			c, ok := bconstInt(bo.Y)
			if !ok || (c != 1240 && c != 33900) {
				continue
			}
			if bo.X != ssa.Value(fn.Params[0]) {
				return false, "a bias threshold is not applied to the count parameter"
			}
			seen[c] = true
		}
	}
	if !seen[1240] || !seen[33900] {
		return false, "the thresholds 1240 and 33900 (count < threshold) are not both present"
	}
	return true, "bias function of the length of the indexed table (107 below 1240, 1131 below 33900, else 32768)"
}

// checkMaskBytes: k mask bytes for n stem hints with 8k >= n and 8k <= n+7.
func checkMaskBytes(w *World, r *Report, p *bprover, fn *ssa.Function, caseConsts map[int64]*ast.CaseClause, info *types.Info) {
	cc := caseConsts[19]
	key := r.MkKey("maskbytes", "decodeCharString", "hintmask/cntrmask length")
	if cc == nil {
		r.Fail("maskbytes", key, "-", "no hintmask case", nil)
		return
	}
	// the slice code[:k] inside the case, and n = (len(HStem)+len(VStem))/2
	var sl *ssa.Slice
	var nval ssa.Value
	for _, b := range fn.Blocks {
		for _, in := range b.Instrs {
			if in.Pos() < cc.Pos() || in.Pos() > cc.End() {
				continue
			}
			switch x := in.(type) {
			case *ssa.Slice:
				if x.Low == nil && x.High != nil && bIsByteSlice(x.X.Type().Underlying()) && sl == nil {
					sl = x
				}
			case *ssa.BinOp:
				if x.Op == token.QUO {
					if c, ok := bconstInt(x.Y); ok && c == 2 {
						if s, ok := x.X.(*ssa.BinOp); ok && s.Op == token.ADD {
							nval = x
						}
					}
				}
			}
		}
	}
	if sl == nil || nval == nil {
		r.Fail("maskbytes", key, w.Pos(cc.Pos()), "the mask slice code[:k] or the stem count (len(HStem)+len(VStem))/2 was not found in the hintmask case", nil)
		return
	}
	k := p.linOf(sl.High)
	n := p.linOf(nval)
	k8, _ := k.scale(8)
	g1, _ := k8.sub(n)         // 8k - n >= 0
	g2, _ := n.addc(7).sub(k8) // n + 7 - 8k >= 0
	b := sl.Block()
	if p.proveAt(b, g1) && p.proveAt(b, g2) {
		r.OK("maskbytes", key, w.Pos(sl.Pos()), "8k >= nStems and 8k <= nStems+7, i.e. k = ceil(nStems/8)")
	} else {
		r.Fail("maskbytes", key, w.Pos(sl.Pos()), fmt.Sprintf("the number of mask bytes %s is not shown to be ceil(nStems/8) for nStems = %s: masks of glyphs whose stem count is a multiple of 8 (or not) are mis-sized", p.linStr(k), p.linStr(n)), nil)
	}
	r.Floor("maskbytes", 1)
}

// checkWidthRule: constant-fold the predicate handed to the width setter.
func checkWidthRule(w *World, r *Report, tpkg *types.Package, fd *ast.FuncDecl, caseConsts map[int64]*ast.CaseClause, info *types.Info) {
	// the width setter: the function literal that assigns a field named Width
	var setter types.Object
	ast.Inspect(fd.Body, func(n ast.Node) bool {
		as, ok := n.(*ast.AssignStmt)
		if !ok || len(as.Lhs) != 1 || len(as.Rhs) != 1 {
			return true
		}
		fl, ok := as.Rhs[0].(*ast.FuncLit)
		if !ok {
			return true
		}
		sets := false
		ast.Inspect(fl.Body, func(m ast.Node) bool {
			if a2, ok := m.(*ast.AssignStmt); ok {
				for _, l := range a2.Lhs {
					if se, ok := l.(*ast.SelectorExpr); ok && se.Sel.Name == "Width" {
						sets = true
					}
				}
			}
			return true
		})
		if sets {
			if id, ok := as.Lhs[0].(*ast.Ident); ok {
				setter = info.ObjectOf(id)
			}
		}
		return true
	})
	if setter == nil {
		r.Fatal("width setter closure not found in decodeCharString")
		return
	}
	var ops []int64
	for v := range t2WidthSpec {
		ops = append(ops, v)
	}
	sort.Slice(ops, func(i, j int) bool { return ops[i] < ops[j] })
	for _, v := range ops {
		spec := t2WidthSpec[v]
		key := r.MkKey("widthrule", "decodeCharString", "width detection at "+t2SpecOps[v])
		cc := caseConsts[v]
		if cc == nil {
			r.Fail("widthrule", key, "-", "no case for the operator", nil)
			continue
		}
		var arg ast.Expr
		ast.Inspect(cc, func(n ast.Node) bool {
			ce, ok := n.(*ast.CallExpr)
			if !ok || len(ce.Args) != 1 {
				return true
			}
			if id, ok := ce.Fun.(*ast.Ident); ok && info.ObjectOf(id) == setter && arg == nil {
				arg = ce.Args[0]
			}
			return true
		})
		if arg == nil {
			r.Fail("widthrule", key, w.Pos(cc.Pos()), "the operator can be the first stack-clearing operator of a glyph but its case does not run the width detection", nil)
			continue
		}
		src := types.ExprString(arg)
		// the stack variable: the argument of len(...) in the predicate
		var lenArg string
		ast.Inspect(arg, func(n ast.Node) bool {
			ce, ok := n.(*ast.CallExpr)
			if ok && len(ce.Args) == 1 {
				if id, ok := ce.Fun.(*ast.Ident); ok && id.Name == "len" {
					lenArg = types.ExprString(ce)
				}
			}
			return true
		})
		if lenArg == "" {
			r.Fail("widthrule", key, w.Pos(arg.Pos()), "the predicate "+src+" does not depend on the operand count", nil)
			continue
		}
		bad := ""
		for _, n := range spec.valid {
			folded := strings.ReplaceAll(src, lenArg, fmt.Sprint(n))
			tv, err := types.Eval(w.Fset, tpkg, token.NoPos, folded)
			if err != nil || tv.Value == nil || tv.Value.Kind() != constant.Bool {
				bad = fmt.Sprintf("the predicate %s does not fold to a constant at operand count %d", src, n)
				break
			}
			if constant.BoolVal(tv.Value) != spec.present(n) {
				bad = fmt.Sprintf("with %d operands %s is %v but the specification says the width is %s", n, src, constant.BoolVal(tv.Value), map[bool]string{true: "present", false: "absent"}[spec.present(n)])
				break
			}
		}
		if bad == "" {
			r.OK("widthrule", key, w.Pos(arg.Pos()), fmt.Sprintf("%s agrees with the specification at operand counts %v", src, spec.valid))
		} else {
			r.Fail("widthrule", key, w.Pos(arg.Pos()), bad, nil)
		}
	}
	r.Floor("widthrule", 10)
}

// checkStorageScope: the slice that put writes and get reads is declared
// outside every loop of the interpreter.
func checkStorageScope(w *World, r *Report, fd *ast.FuncDecl, caseConsts map[int64]*ast.CaseClause, info *types.Info) {
	key := r.MkKey("storagescope", "decodeCharString", "transient array")
	cc := caseConsts[0x0c14]
	if cc == nil {
		r.Fail("storagescope", key, "-", "no case for put", nil)
		return
	}
	var obj types.Object
	ast.Inspect(cc, func(n ast.Node) bool {
		as, ok := n.(*ast.AssignStmt)
		if !ok {
			return true
		}
		for _, l := range as.Lhs {
			if ie, ok := l.(*ast.IndexExpr); ok {
				if id, ok := ie.X.(*ast.Ident); ok && obj == nil {
					obj = info.ObjectOf(id)
				}
			}
		}
		return true
	})
	if obj == nil {
		r.Fail("storagescope", key, w.Pos(cc.Pos()), "the put case does not store into an indexed variable", nil)
		return
	}
	// enclosing loops of the declaration
	inLoop := false
	var stack []ast.Node
	ast.Inspect(fd.Body, func(n ast.Node) bool {
		if n == nil {
			stack = stack[:len(stack)-1]
			return true
		}
		stack = append(stack, n)
		if id, ok := n.(*ast.Ident); ok && info.Defs[id] == obj {
			for _, a := range stack {
				switch a.(type) {
				case *ast.ForStmt, *ast.RangeStmt:
					inLoop = true
				}
			}
		}
		return true
	})
	if inLoop {
		r.Fail("storagescope", key, w.Pos(obj.Pos()), "the transient array "+obj.Name()+" is declared inside an interpreter loop, so it is re-initialised when a subroutine returns: a value put in a subroutine cannot be read back with get afterwards", nil)
	} else {
		r.OK("storagescope", key, w.Pos(obj.Pos()), "declared once per charstring, outside the loops")
	}
	r.Floor("storagescope", 1)
}
