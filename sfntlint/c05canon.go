package main

import (
	"go/ast"
	"go/token"
	"go/types"
)

// The interpreters of C05 (decodesem, stacksem, stackctl, stemsem) execute
// the syntax of decodeCharString abstractly and refer to a handful of its
// local variables and closures by role: the operand stack, the transient
// array, the closures that draw, clear the stack and set the width.  The
// roles are bound by what the code does with each of them, not by what the
// source calls them, and for the duration of the C05 run the identifiers are
// given the role names the interpreters use (the syntax tree is restored
// afterwards).  Renaming one of these locals therefore changes nothing.
//
//	stack          the []float64 that the parameterless closure reslices to [:0]
//	clearStack     that closure
//	setGlyphWidth  the closure with one bool parameter
//	widthIsSet     the bool that closure sets to true
//	rMoveTo, rLineTo, rCurveTo
//	               the closures that append a GlyphOp with Op OpMoveTo/OpLineTo/OpCurveTo
//	storage        the []float64 declared without a value (allocated on first put)
//	stage          the local initialised from a constant of a named integer type
func c05Canon(info *types.Info, fd *ast.FuncDecl) (restore func()) {
	roles := map[types.Object]string{}
	bind := func(id *ast.Ident, role string) {
		if id == nil {
			return
		}
		obj := info.Defs[id]
		if obj == nil {
			obj = info.Uses[id]
		}
		if obj == nil {
			return
		}
		if _, dup := roles[obj]; dup {
			return
		}
		for _, r := range roles {
			if r == role {
				return // first binding wins
			}
		}
		roles[obj] = role
	}
	isFloatSlice := func(t types.Type) bool {
		s, ok := t.Underlying().(*types.Slice)
		if !ok {
			return false
		}
		b, ok := s.Elem().Underlying().(*types.Basic)
		return ok && b.Kind() == types.Float64
	}
	var stackObj types.Object
	for _, st := range fd.Body.List {
		switch x := st.(type) {
		case *ast.AssignStmt:
			if x.Tok != token.DEFINE || len(x.Lhs) != 1 || len(x.Rhs) != 1 {
				continue
			}
			id, ok := x.Lhs[0].(*ast.Ident)
			if !ok {
				continue
			}
			switch rhs := x.Rhs[0].(type) {
			case *ast.FuncLit:
				np := rhs.Type.Params.NumFields()
				// drawing closures
				op := ""
				ast.Inspect(rhs.Body, func(n ast.Node) bool {
					kv, ok := n.(*ast.KeyValueExpr)
					if !ok {
						return true
					}
					k, ok1 := kv.Key.(*ast.Ident)
					v, ok2 := kv.Value.(*ast.Ident)
					if ok1 && ok2 && k.Name == "Op" {
						if c, ok := info.Uses[v].(*types.Const); ok {
							op = c.Name()
						}
					}
					return true
				})
				switch op {
				case "OpMoveTo":
					bind(id, "rMoveTo")
					continue
				case "OpLineTo":
					bind(id, "rLineTo")
					continue
				case "OpCurveTo":
					bind(id, "rCurveTo")
					continue
				}
				if np == 0 && len(rhs.Body.List) == 1 {
					if as, ok := rhs.Body.List[0].(*ast.AssignStmt); ok && as.Tok == token.ASSIGN && len(as.Lhs) == 1 && len(as.Rhs) == 1 {
						l, ok1 := as.Lhs[0].(*ast.Ident)
						sl, ok2 := as.Rhs[0].(*ast.SliceExpr)
						if ok1 && ok2 && sl.Low == nil && sl.High != nil {
							if base, ok := sl.X.(*ast.Ident); ok && info.Uses[base] == info.Uses[l] && info.Uses[l] != nil && isFloatSlice(info.Uses[l].Type()) {
								if tv, ok := info.Types[sl.High]; ok && tv.Value != nil && tv.Value.String() == "0" {
									bind(id, "clearStack")
									stackObj = info.Uses[l]
									roles[stackObj] = "stack"
									continue
								}
							}
						}
					}
				}
				if np == 1 {
					if pt, ok := info.Types[rhs.Type.Params.List[0].Type]; ok {
						if b, ok := pt.Type.Underlying().(*types.Basic); ok && b.Kind() == types.Bool {
							bind(id, "setGlyphWidth")
							for _, s := range rhs.Body.List {
								if as, ok := s.(*ast.AssignStmt); ok && as.Tok == token.ASSIGN && len(as.Lhs) == 1 && len(as.Rhs) == 1 {
									if l, ok := as.Lhs[0].(*ast.Ident); ok {
										if tv, ok := info.Types[as.Rhs[0]]; ok && tv.Value != nil && tv.Value.String() == "true" {
											bind(l, "widthIsSet")
										}
									}
								}
							}
						}
					}
				}
			default:
				// stage := stageStart
				if cid, ok := x.Rhs[0].(*ast.Ident); ok {
					if c, ok := info.Uses[cid].(*types.Const); ok {
						if _, named := c.Type().(*types.Named); named {
							if b, ok := c.Type().Underlying().(*types.Basic); ok && b.Info()&types.IsInteger != 0 {
								bind(id, "stage")
							}
						}
					}
				}
			}
		case *ast.DeclStmt:
			gd, ok := x.Decl.(*ast.GenDecl)
			if !ok || gd.Tok != token.VAR {
				continue
			}
			for _, sp := range gd.Specs {
				vs, ok := sp.(*ast.ValueSpec)
				if !ok || len(vs.Values) != 0 {
					continue
				}
				for _, nm := range vs.Names {
					if obj := info.Defs[nm]; obj != nil && isFloatSlice(obj.Type()) {
						bind(nm, "storage")
					}
				}
			}
		}
	}
	type saved struct {
		id   *ast.Ident
		name string
	}
	var undo []saved
	ast.Inspect(fd, func(n ast.Node) bool {
		id, ok := n.(*ast.Ident)
		if !ok {
			return true
		}
		obj := info.Defs[id]
		if obj == nil {
			obj = info.Uses[id]
		}
		if role, ok := roles[obj]; ok && obj != nil && id.Name != role {
			undo = append(undo, saved{id, id.Name})
			id.Name = role
		}
		return true
	})
	return func() {
		for _, u := range undo {
			u.id.Name = u.name
		}
	}
}
