package main

// Memory-load identification for the bounds prover: two loads of the same
// field (of the same base value) or of the same variable cell denote the
// same value when no store to that field/cell type and no call that may
// perform such a store lies on any path between them.  Type-based, flow-
// sensitive (available-expressions dataflow), whole-program for calls.

import (
	"fmt"
	"os"
	"sort"
	"sync"
	"go/token"
	"go/types"
	"strings"

	"golang.org/x/tools/go/ssa"
)

type memInfo struct {
	w      *World
	catID  map[string]int
	cats   []string
	writes map[*ssa.Function][]uint64 // transitive write categories (bitset)
	star   int
}

func (m *memInfo) id(cat string) int {
	if i, ok := m.catID[cat]; ok {
		return i
	}
	i := len(m.cats)
	m.catID[cat] = i
	m.cats = append(m.cats, cat)
	return i
}

func bitSet(bs *[]uint64, i int) bool {
	for len(*bs) <= i/64 {
		*bs = append(*bs, 0)
	}
	if (*bs)[i/64]&(1<<uint(i%64)) != 0 {
		return false
	}
	(*bs)[i/64] |= 1 << uint(i%64)
	return true
}

// writeCats lists the categories a function may write, transitively.
func (m *memInfo) writeCats(fn *ssa.Function) []string {
	var res []string
	for wi, word := range m.writes[fn] {
		for b := 0; b < 64; b++ {
			if word&(1<<uint(b)) != 0 {
				res = append(res, m.cats[wi*64+b])
			}
		}
	}
	return res
}

func typeKey(t types.Type) string { return types.TypeString(t, nil) }

// Categories:  F:<struct>.<field>|<value type>   field store
//              E:|<elem type>                     slice/array element store
//              C:|<type>                          store through any other pointer
//              S:<struct>|                        whole struct value overwritten
func catVT(cat string) string {
	if i := strings.IndexByte(cat, '|'); i >= 0 {
		return cat[i+1:]
	}
	return ""
}

// freshRoot: the address lies inside an object allocated by this function
// (field/element chains rooted at an Alloc); returns that Alloc.
func freshRoot(addr ssa.Value) *ssa.Alloc {
	for depth := 0; depth < 6; depth++ {
		switch a := addr.(type) {
		case *ssa.Alloc:
			if !a.Heap {
				return nil
			}
			for _, r := range *a.Referrers() {
				if _, isPhi := r.(*ssa.Phi); isPhi {
					return nil // may be known under another name in this function
				}
			}
			return a
		case *ssa.FieldAddr:
			addr = a.X
		case *ssa.IndexAddr:
			// only arrays inside the object, not slices it points to
			if _, isPtr := a.X.Type().Underlying().(*types.Pointer); !isPtr {
				return nil
			}
			addr = a.X
		default:
			return nil
		}
	}
	return nil
}

// mapCat: the write category of insertions into / deletions from maps of a type.
func mapCat(t types.Type) string { return "M:|" + typeKey(t.Underlying()) }

// storeCats returns the categories written by a store to addr of a value of type vt.
func storeCats(addr ssa.Value, vt types.Type) []string {
	var res []string
	switch a := addr.(type) {
	case *ssa.FieldAddr:
		pt := a.X.Type().Underlying().(*types.Pointer).Elem()
		st := pt.Underlying().(*types.Struct)
		res = append(res, "F:"+typeKey(pt)+"."+st.Field(a.Field).Name()+"|"+typeKey(vt))
	case *ssa.IndexAddr:
		res = append(res, "E:|"+typeKey(vt))
	default:
		res = append(res, "C:|"+typeKey(vt))
	}
	// a whole struct (or array of structs) value overwrites all its fields
	var walk func(t types.Type, depth int)
	walk = func(t types.Type, depth int) {
		if depth > 4 {
			return
		}
		switch u := t.Underlying().(type) {
		case *types.Struct:
			res = append(res, "S:"+typeKey(t)+"|")
			for i := 0; i < u.NumFields(); i++ {
				walk(u.Field(i).Type(), depth+1)
			}
		case *types.Array:
			walk(u.Elem(), depth+1)
		}
	}
	walk(vt, 0)
	return res
}

// newMemInfo computes, for every function, the memory categories it may
// write directly or through callees.  Direct writes are recorded for module
// and dependency functions (and instantiated generics); other code can
// reach module memory only through pointers passed to it (handled at the
// call) or by calling back into module closures (propagated here).
func newMemInfo(w *World) *memInfo {
	m := &memInfo{w: w, catID: map[string]int{}, writes: map[*ssa.Function][]uint64{}}
	fieldAddrTaken = computeFieldAddrTaken(w)
	m.star = m.id("*")
	callers := map[*ssa.Function][]*ssa.Function{}
	var work []*ssa.Function
	for fn, node := range w.CG.Nodes {
		if fn == nil {
			continue
		}
		var set []uint64
		pp := fnPkgPath(fn)
		own := isModPkg(pp) || isDepPkg(pp) || len(fn.TypeArgs()) > 0
		if own {
			for _, b := range fn.Blocks {
				for _, in := range b.Instrs {
					switch x := in.(type) {
					case *ssa.Store:
						if freshRoot(x.Addr) != nil {
							continue // initialising an object this function allocated: invisible to callers' earlier knowledge
						}
						for _, c := range storeCats(x.Addr, x.Val.Type()) {
							bitSet(&set, m.id(c))
						}
					case *ssa.MapUpdate:
						if _, fresh := x.Map.(*ssa.MakeMap); fresh {
							continue
						}
						bitSet(&set, m.id(mapCat(x.Map.Type())))
					case ssa.CallInstruction:
						if bi, ok := x.Common().Value.(*ssa.Builtin); ok && (bi.Name() == "delete" || bi.Name() == "clear") && len(x.Common().Args) > 0 {
							if _, isMap := x.Common().Args[0].Type().Underlying().(*types.Map); isMap {
								bitSet(&set, m.id(mapCat(x.Common().Args[0].Type())))
							}
						}
						if c := x.Common().StaticCallee(); c != nil && c.Pkg != nil {
							p := c.Pkg.Pkg.Path()
							if p == "encoding/binary" && c.Name() == "Read" || p == "encoding/json" || p == "reflect" {
								bitSet(&set, m.star)
							}
						}
					}
				}
			}
		}
		m.writes[fn] = set
		for _, e := range node.Out {
			callers[e.Callee.Func] = append(callers[e.Callee.Func], fn)
		}
		for _, af := range fn.AnonFuncs {
			callers[af] = append(callers[af], fn)
		}
		if len(set) > 0 {
			work = append(work, fn)
		}
	}
	inWork := map[*ssa.Function]bool{}
	for _, f := range work {
		inWork[f] = true
	}
	for len(work) > 0 {
		fn := work[len(work)-1]
		work = work[:len(work)-1]
		inWork[fn] = false
		src := m.writes[fn]
		for _, c := range callers[fn] {
			cs := m.writes[c]
			grew := false
			for len(cs) < len(src) {
				cs = append(cs, 0)
			}
			for i, wd := range src {
				if cs[i]|wd != cs[i] {
					cs[i] |= wd
					grew = true
				}
			}
			m.writes[c] = cs
			if grew && !inWork[c] {
				inWork[c] = true
				work = append(work, c)
			}
		}
	}
	return m
}

type memEntry struct {
	cat     string
	val     ssa.Value
	private bool // the address is a local variable cell that only this function and its closures touch
}

// memVal is a synthetic SSA value: the contents of a memory location on
// function entry, or the merge of different contents at a join.
type memVal struct {
	fn    *ssa.Function
	key   string
	cat   string
	typ   types.Type
	blk   *ssa.BasicBlock // nil: entry value
	edges []ssa.Value     // per predecessor of blk
	addr  ssa.Value       // an address expression of the location (for reporting, globals)
	sites []*ssa.BasicBlock // blocks of the last-write places that define an untracked value
	siteIns []ssa.Instruction // the writing instructions among them (joins have none)
	base    ssa.Value         // the object whose field this is, when asked for through a query
	refs  []ssa.Instruction
	pos   token.Pos
}

func (m *memVal) Name() string {
	if m.blk == nil {
		return "entry(" + m.key + ")"
	}
	return fmt.Sprintf("memphi%d(%s)", m.blk.Index, m.key)
}
func (m *memVal) String() string                 { return m.Name() }
func (m *memVal) Type() types.Type               { return m.typ }
func (m *memVal) Parent() *ssa.Function          { return m.fn }
func (m *memVal) Referrers() *[]ssa.Instruction  { return &m.refs }
func (m *memVal) Pos() token.Pos                 { return m.pos }

// killMatches: may a write of category w change the memory entry e stands for?
// local: the write is a store in the same function through a different address.
func killMatches(e memEntry, w string, local bool) bool {
	if w == "*" || e.cat == w {
		return !(local && e.private && strings.HasPrefix(w, "C:"))
	}
	if strings.HasPrefix(w, "S:") {
		return strings.HasPrefix(e.cat, "F:"+strings.TrimSuffix(w[2:], "|")+".")
	}
	evt, wvt := catVT(e.cat), catVT(w)
	if evt != wvt {
		return false
	}
	switch {
	case strings.HasPrefix(w, "C:"):
		// a store through an arbitrary pointer may hit an element or a cell of that type,
		// and a field only if the address of that field is taken somewhere in the program
		if strings.HasPrefix(e.cat, "F:") {
			name := e.cat[:strings.IndexByte(e.cat, '|')]
			if fieldAddrTaken != nil && !fieldAddrTaken[name] {
				return false
			}
		}
		return !(local && e.private)
	case strings.HasPrefix(e.cat, "C:"):
		// a field or element store may hit what a pointer parameter / global pointer refers to
		return !e.private
	}
	return false
}

// privateCell: an Alloc used only as the address of loads and stores and as
// a closure binding.
func privateCell(v ssa.Value) bool {
	al, ok := v.(*ssa.Alloc)
	if !ok {
		return false
	}
	for _, r := range *al.Referrers() {
		switch x := r.(type) {
		case *ssa.UnOp:
		case *ssa.Store:
			if x.Val == v {
				return false
			}
		case *ssa.MakeClosure, *ssa.DebugRef:
		default:
			return false
		}
	}
	return true
}

// canonLoads maps each load (UnOp MUL) of an identifiable address to the
// value it is known to equal: a stored value, the contents of the location
// since its last possible write (memVal without block), or a merge of these
// at a join (memVal with block).
//
// Phase 1 computes, for every block, where each write category may last
// have been written (an instruction, or a join block when paths disagree).
// Phase 2 propagates location contents like constant propagation; a
// location that is not tracked holds "its contents since the last write",
// a value named by (location, last-write places).
// fieldAddrTaken: fields ("F:<struct>.<field>") whose address escapes a
// direct load/store somewhere in the analysed program (&x.f handed on).
var fieldAddrTaken map[string]bool

func computeFieldAddrTaken(w *World) map[string]bool {
	res := map[string]bool{}
	for fn := range w.CG.Nodes {
		if fn == nil {
			continue
		}
		for _, b := range fn.Blocks {
			for _, in := range b.Instrs {
				fa, ok := in.(*ssa.FieldAddr)
				if !ok {
					continue
				}
				taken := false
				for _, ref := range *fa.Referrers() {
					switch x := ref.(type) {
					case *ssa.UnOp:
					case *ssa.Store:
						if x.Val == ssa.Value(fa) {
							taken = true
						}
					case *ssa.FieldAddr, *ssa.IndexAddr, *ssa.DebugRef:
						// nested selection: the inner address is judged on its own;
						// slicing an array field (x.arr[:]) does hand out the memory
					case *ssa.Slice:
						taken = true
					default:
						taken = true
					}
				}
				if taken {
					pt := fa.X.Type().Underlying().(*types.Pointer).Elem()
					st := pt.Underlying().(*types.Struct)
					res["F:"+typeKey(pt)+"."+st.Field(fa.Field).Name()] = true
				}
			}
		}
	}
	return res
}

// trackedStructs: struct types whose fields are tracked from function entry.
var trackedStructs = map[string]bool{
	"seehuhn.de/go/sfnt/parser.Parser": true,
}

// blockEntry is a pseudo instruction: "on entry to block b" (for memQuery).
type blockEntry struct {
	ssa.Instruction
	b *ssa.BasicBlock
}

// memQuery answers "what does field f of *base hold just before instruction ins?"
type memQuery func(ins ssa.Instruction, base ssa.Value, field string) ssa.Value

func canonLoads(fn *ssa.Function, m *memInfo) (map[*ssa.UnOp]ssa.Value, map[*ssa.Call]ssa.Value, memQuery) {
	canon := map[*ssa.UnOp]ssa.Value{}
	canonLen := map[*ssa.Call]ssa.Value{}
	noQuery := func(ssa.Instruction, ssa.Value, string) ssa.Value { return nil }
	if m == nil || len(fn.Blocks) == 0 {
		return canon, canonLen, noQuery
	}
	nb := len(fn.Blocks)
	order := fn.DomPreorder()

	// ---- writes of each instruction
	type wr struct {
		cat   string
		local bool
		fresh string // id of the Alloc when the store initialises an object of this function
	}
	writesOf := func(ins ssa.Instruction) []wr {
		var res []wr
		switch x := ins.(type) {
		case *ssa.Store:
			fresh := ""
			if al := freshRoot(x.Addr); al != nil {
				fresh = valID(al)
			}
			for _, c := range storeCats(x.Addr, x.Val.Type()) {
				res = append(res, wr{c, true, fresh})
			}
		case *ssa.MapUpdate:
			res = append(res, wr{mapCat(x.Map.Type()), false, ""})
		case ssa.CallInstruction:
			com := x.Common()
			if bi, ok := com.Value.(*ssa.Builtin); ok {
				if (bi.Name() == "delete" || bi.Name() == "clear") && len(com.Args) > 0 {
					if _, isMap := com.Args[0].Type().Underlying().(*types.Map); isMap {
						res = append(res, wr{mapCat(com.Args[0].Type()), false, ""})
					}
				}
				return res
			}
			callees := m.w.Callees(x)
			if len(callees) == 0 {
				if com.IsInvoke() || com.StaticCallee() == nil {
					res = append(res, wr{"*", false, ""})
				}
				return res
			}
			for _, c := range callees {
				for _, cat := range m.writeCats(c) {
					res = append(res, wr{cat, false, ""})
				}
				if pp := fnPkgPath(c); !isModPkg(pp) && !isDepPkg(pp) {
					for _, a := range com.Args {
						at := a.Type()
						if mi, ok := a.(*ssa.MakeInterface); ok {
							at = mi.X.Type()
						}
						if pt, ok := at.Underlying().(*types.Pointer); ok {
							for _, cat := range storeCats(a, pt.Elem()) {
								res = append(res, wr{cat, false, ""})
							}
						}
					}
				}
				if c.Pkg != nil && c.Pkg.Pkg.Path() == "encoding/binary" && c.Name() == "Read" {
					res = append(res, wr{"*", false, ""})
				}
			}
		}
		return res
	}
	insWrites := map[ssa.Instruction][]wr{}
	for _, b := range fn.Blocks {
		for _, ins := range b.Instrs {
			if w := writesOf(ins); len(w) > 0 {
				insWrites[ins] = w
			}
		}
	}

	// ---- phase 1: last-write places per category
	siteBlock := map[string]*ssa.BasicBlock{}
	siteInstr := map[string]ssa.Instruction{}
	for _, b := range fn.Blocks {
		siteBlock[fmt.Sprintf("b%d", b.Index)] = b
	}
	killIn := make([]map[string]string, nb)
	killOut := make([]map[string]string, nb)
	killIn[0] = map[string]string{}
	for iter := 0; iter < 200; iter++ {
		changed := false
		for _, b := range order {
			i := b.Index
			if i > 0 {
				var in map[string]string
				cats := map[string]bool{}
				nvis := 0
				for _, pr := range b.Preds {
					if po := killOut[pr.Index]; po != nil {
						nvis++
						for c := range po {
							cats[c] = true
						}
					}
				}
				if nvis == 0 {
					continue
				}
				in = map[string]string{}
				for c := range cats {
					id, first, same := "", true, true
					for _, pr := range b.Preds {
						po := killOut[pr.Index]
						if po == nil {
							continue
						}
						v := po[c]
						if first {
							id, first = v, false
						} else if v != id {
							same = false
						}
					}
					if !same {
						id = fmt.Sprintf("b%d", i)
					}
					if id != "" {
						in[c] = id
					}
				}
				killIn[i] = in
			}
			out := make(map[string]string, len(killIn[i]))
			for c, v := range killIn[i] {
				out[c] = v
			}
			for _, ins := range b.Instrs {
				for _, w := range insWrites[ins] {
					if w.fresh != "" {
						continue
					}
					id := "i" + instrID(ins)
					out[w.cat] = id
					siteBlock[id] = b
					siteInstr[id] = ins
				}
			}
			same := killOut[i] != nil && len(killOut[i]) == len(out)
			if same {
				for c, v := range out {
					if killOut[i][c] != v {
						same = false
						break
					}
				}
			}
			if !same {
				killOut[i] = out
				changed = true
			}
		}
		if !changed {
			break
		}
		if iter == 199 {
			return canon, canonLen, noQuery // no identification
		}
	}
	versionOf := func(killed map[string]string, cat string) string {
		e := memEntry{cat: cat}
		var ids []string
		for w, id := range killed {
			if killMatches(e, w, false) {
				ids = append(ids, id)
			}
		}
		if len(ids) == 0 {
			return "entry"
		}
		sort.Strings(ids)
		return strings.Join(ids, "+")
	}

	// ---- phase 2: contents of locations
	sinceVals := map[string]*memVal{}
	phiVals := map[string]*memVal{}
	keyCat := map[string]string{}
	keyTyp := map[string]types.Type{}
	keyAddr := map[string]ssa.Value{}
	keyBase := map[string]ssa.Value{}
	sinceVal := func(key, version string) *memVal {
		id := key + "#" + version
		if v, ok := sinceVals[id]; ok {
			return v
		}
		v := &memVal{fn: fn, key: id, cat: keyCat[key], typ: keyTyp[key], addr: keyAddr[key], base: keyBase[key]}
		if version != "entry" {
			for _, sid := range strings.Split(version, "+") {
				if sb := siteBlock[sid]; sb != nil {
					v.sites = append(v.sites, sb)
				}
				if si := siteInstr[sid]; si != nil {
					v.siteIns = append(v.siteIns, si)
				}
			}
		}
		if a := keyAddr[key]; a != nil {
			v.pos = a.Pos()
		}
		sinceVals[id] = v
		return v
	}
	resolve := func(v ssa.Value) ssa.Value {
		for {
			switch x := v.(type) {
			case *ssa.ChangeType:
				v = x.X
				continue
			case *ssa.UnOp:
				if x.Op == token.MUL {
					if c, ok := canon[x]; ok && c != ssa.Value(x) {
						v = c
						continue
					}
				}
			}
			return v
		}
	}
	addrKey := func(addr ssa.Value) (string, string, bool) {
		et := addr.Type().Underlying().(*types.Pointer).Elem()
		switch a := addr.(type) {
		case *ssa.FieldAddr:
			k, ok := addrKeyRec(a, resolve)
			if !ok {
				return "", "", false
			}
			pt := a.X.Type().Underlying().(*types.Pointer).Elem()
			st := pt.Underlying().(*types.Struct)
			return k, "F:" + typeKey(pt) + "." + st.Field(a.Field).Name() + "|" + typeKey(et), true
		case *ssa.IndexAddr:
			base := resolve(a.X)
			var idx string
			if c, ok := bconstInt(a.Index); ok {
				idx = fmt.Sprint(c)
			} else {
				idx = valID(resolve(a.Index))
			}
			var bk string
			if fa, ok := base.(*ssa.FieldAddr); ok { // array field
				k, ok := addrKeyRec(fa, resolve)
				if !ok {
					return "", "", false
				}
				bk = "(" + k + ")"
			} else {
				bk = valID(base)
			}
			return "E@" + bk + "[" + idx + "]", "E:|" + typeKey(et), true
		case *ssa.Alloc, *ssa.FreeVar, *ssa.Global, *ssa.Parameter:
			return "C@" + valID(addr), "C:|" + typeKey(et), true
		}
		return "", "", false
	}
	in := make([]map[string]memEntry, nb)
	out := make([]map[string]memEntry, nb)
	in[0] = map[string]memEntry{}
	trackedKeys := map[string]bool{}
	// objects with a declared invariant: their fields are tracked from the
	// function entry on, so that joins and loops get explicit merge values
	for _, par := range fn.Params {
		pt, ok := par.Type().Underlying().(*types.Pointer)
		if !ok || !trackedStructs[typeKey(pt.Elem())] {
			continue
		}
		stt, ok := pt.Elem().Underlying().(*types.Struct)
		if !ok {
			continue
		}
		for i := 0; i < stt.NumFields(); i++ {
			name := "F:" + typeKey(pt.Elem()) + "." + stt.Field(i).Name()
			key := name + "@" + valID(par)
			cat := name + "|" + typeKey(stt.Field(i).Type())
			keyCat[key], keyTyp[key], keyBase[key] = cat, stt.Field(i).Type(), par
			in[0][key] = memEntry{cat, sinceVal(key, "entry"), false}
			trackedKeys[key] = true
		}
	}
	var record func(ins ssa.Instruction, st map[string]memEntry, killed map[string]string)
	var recordEntry func(b *ssa.BasicBlock, st map[string]memEntry, killed map[string]string)
	transfer := func(b *ssa.BasicBlock, st0 map[string]memEntry) map[string]memEntry {
		st := make(map[string]memEntry, len(st0))
		for k, v := range st0 {
			st[k] = v
		}
		killed := make(map[string]string, len(killIn[b.Index]))
		for c, v := range killIn[b.Index] {
			killed[c] = v
		}
		for ii, ins := range b.Instrs {
			if ii == 0 && record != nil {
				recordEntry(b, st, killed)
			}
			if x, ok := ins.(*ssa.UnOp); ok && x.Op == token.MUL {
				k, cat, ok := addrKey(x.X)
				if !ok {
					delete(canon, x)
					continue
				}
				keyCat[k], keyTyp[k] = cat, x.Type()
				if keyAddr[k] == nil {
					keyAddr[k] = x.X
				}
				if fa, isFA := x.X.(*ssa.FieldAddr); isFA && keyBase[k] == nil {
					keyBase[k] = resolve(fa.X)
				}
				if e, ok := st[k]; ok {
					canon[x] = e.val
				} else {
					ev := sinceVal(k, versionOf(killed, cat))
					canon[x] = ev
					st[k] = memEntry{cat, ev, privateCell(x.X)}
				}
				continue
			}
			if lc, ok := ins.(*ssa.Call); ok {
				if bi, isB := lc.Call.Value.(*ssa.Builtin); isB && bi.Name() == "len" {
					if _, isMap := lc.Call.Args[0].Type().Underlying().(*types.Map); isMap {
						k := "ML@" + valID(resolve(lc.Call.Args[0]))
						cat := mapCat(lc.Call.Args[0].Type())
						keyCat[k], keyTyp[k] = cat, lc.Type()
						if e, ok := st[k]; ok {
							canonLen[lc] = e.val
						} else {
							ev := sinceVal(k, versionOf(killed, cat))
							canonLen[lc] = ev
							st[k] = memEntry{cat, ev, false}
						}
						continue
					}
				}
			}
			if record != nil {
				switch ins.(type) {
				case ssa.CallInstruction, *ssa.Store, *ssa.Return:
					record(ins, st, killed)
				}
			}
			ws := insWrites[ins]
			if len(ws) == 0 {
				continue
			}
			for _, w := range ws {
				for k, e := range st {
					if w.fresh != "" && !strings.Contains(k, w.fresh) {
						continue // a different object
					}
					if killMatches(e, w.cat, w.local) {
						delete(st, k)
					}
				}
				if w.fresh == "" {
					killed[w.cat] = "i" + instrID(ins)
				}
			}
			if x, ok := ins.(*ssa.Store); ok {
				if k, cat, ok := addrKey(x.Addr); ok {
					keyCat[k], keyTyp[k] = cat, x.Val.Type()
					if keyAddr[k] == nil {
						keyAddr[k] = x.Addr
					}
					st[k] = memEntry{cat, resolve(x.Val), privateCell(x.Addr)}
				}
			}
		}
		return st
	}
	equal := func(a, b map[string]memEntry) bool {
		if (a == nil) != (b == nil) || len(a) != len(b) {
			return false
		}
		for k, v := range a {
			if w, ok := b[k]; !ok || w != v {
				return false
			}
		}
		return true
	}
	merge := func(b *ssa.BasicBlock) (map[string]memEntry, bool) {
		keys := map[string]bool{}
		nvis := 0
		for _, pr := range b.Preds {
			if po := out[pr.Index]; po != nil {
				nvis++
				for k := range po {
					keys[k] = true
				}
			}
		}
		if nvis == 0 {
			return nil, false
		}
		for k := range trackedKeys {
			keys[k] = true
		}
		st := map[string]memEntry{}
		var keyList []string
		for k := range keys {
			keyList = append(keyList, k)
		}
		sort.Strings(keyList)
		for _, k := range keyList {
			vals := make([]ssa.Value, len(b.Preds))
			var proto memEntry
			allSame := true
			for pi, pr := range b.Preds {
				po := out[pr.Index]
				if po == nil {
					continue // optimistic: filled in a later round
				}
				e, has := po[k]
				if !has {
					e = memEntry{keyCat[k], sinceVal(k, versionOf(killOut[pr.Index], keyCat[k])), keyAddr[k] != nil && privateCell(keyAddr[k])}
				}
				if proto.val == nil {
					proto = e
				} else {
					if e.val != proto.val {
						allSame = false
					}
					proto.private = proto.private && e.private
				}
				vals[pi] = e.val
			}
			id := fmt.Sprintf("%d|%s", b.Index, k)
			if allSame && phiVals[id] == nil {
				st[k] = proto
				continue
			}
			mv := phiVals[id]
			if mv == nil {
				mv = &memVal{fn: fn, key: k, cat: proto.cat, typ: keyTyp[k], blk: b, addr: keyAddr[k]}
				if len(b.Instrs) > 0 {
					mv.pos = b.Instrs[0].Pos()
				}
				phiVals[id] = mv
			}
			for i, v := range vals {
				if v == nil {
					vals[i] = mv
				}
			}
			mv.edges = vals
			st[k] = memEntry{proto.cat, mv, proto.private}
		}
		return st, true
	}
	const maxIter = 300
	for iter := 0; iter < maxIter; iter++ {
		changed := false
		for _, b := range order {
			i := b.Index
			if i > 0 {
				st, ok := merge(b)
				if !ok {
					continue
				}
				in[i] = st
			}
			no := transfer(b, in[i])
			if iter > maxIter-4 && os.Getenv("SFNT_MEMDEBUG") != "" && !equal(no, out[i]) {
				for k, v := range no {
					if w, ok := out[i][k]; !ok || w != v {
						fmt.Println("  iter", iter, "block", i, "key", k, "new", v.val.Name(), "old-present", ok)
					}
				}
				for k := range out[i] {
					if _, ok := no[k]; !ok {
						fmt.Println("  iter", iter, "block", i, "key", k, "dropped")
					}
				}
			}
			if !equal(no, out[i]) {
				out[i] = no
				changed = true
			}
		}
		if !changed {
			break
		}
		if iter == maxIter-1 {
			if os.Getenv("SFNT_MEMDEBUG") != "" {
				fmt.Println("memory analysis: no fixpoint in", fnName(fn))
			}
			return map[*ssa.UnOp]ssa.Value{}, map[*ssa.Call]ssa.Value{}, noQuery
		}
	}
	// snapshots of the state before every call, for queries about field contents at call sites
	type snapT struct {
		st     map[string]memEntry
		killed map[string]string
	}
	snaps := map[ssa.Instruction]snapT{}
	record = func(ins ssa.Instruction, st map[string]memEntry, killed map[string]string) {
		s2 := snapT{st: make(map[string]memEntry, len(st)), killed: make(map[string]string, len(killed))}
		for k, v := range st {
			s2.st[k] = v
		}
		for k, v := range killed {
			s2.killed[k] = v
		}
		snaps[ins] = s2
	}
	blockSnaps := map[*ssa.BasicBlock]snapT{}
	recordEntry = func(b *ssa.BasicBlock, st map[string]memEntry, killed map[string]string) {
		s2 := snapT{st: make(map[string]memEntry, len(st)), killed: make(map[string]string, len(killed))}
		for k, v := range st {
			s2.st[k] = v
		}
		for k, v := range killed {
			s2.killed[k] = v
		}
		blockSnaps[b] = s2
	}
	for _, b := range order {
		if in[b.Index] != nil || b.Index == 0 {
			transfer(b, in[b.Index])
		}
	}
	record = nil
	query := func(ins ssa.Instruction, base ssa.Value, field string) ssa.Value {
		sn, ok := snaps[ins]
		if ins == nil {
			sn, ok = snapT{}, true // function entry
		}
		if be, isBE := ins.(*blockEntry); isBE {
			sn, ok = blockSnaps[be.b]
		}
		if !ok {
			return nil
		}
		if strings.HasSuffix(field, "#after") {
			// the state right after the instruction: apply its writes
			field = strings.TrimSuffix(field, "#after")
			s2 := snapT{st: map[string]memEntry{}, killed: map[string]string{}}
			for k, v := range sn.st {
				s2.st[k] = v
			}
			for k, v := range sn.killed {
				s2.killed[k] = v
			}
			for _, w := range insWrites[ins] {
				for k, e := range s2.st {
					if w.fresh != "" && !strings.Contains(k, w.fresh) {
						continue
					}
					if killMatches(e, w.cat, w.local) {
						delete(s2.st, k)
					}
				}
				if w.fresh == "" {
					s2.killed[w.cat] = "i" + instrID(ins)
				}
			}
			sn = s2
		}
		if field == "#maplen" {
			if _, isMap := base.Type().Underlying().(*types.Map); !isMap {
				return nil
			}
			key := "ML@" + valID(resolve(base))
			cat := mapCat(base.Type())
			if e, ok := sn.st[key]; ok {
				return e.val
			}
			if _, known := keyCat[key]; !known {
				keyCat[key], keyTyp[key] = cat, types.Typ[types.Int]
			}
			return sinceVal(key, versionOf(sn.killed, cat))
		}
		pt, ok := base.Type().Underlying().(*types.Pointer)
		if !ok {
			return nil
		}
		stt, ok := pt.Elem().Underlying().(*types.Struct)
		if !ok {
			return nil
		}
		for i := 0; i < stt.NumFields(); i++ {
			if stt.Field(i).Name() != field {
				continue
			}
			name := "F:" + typeKey(pt.Elem()) + "." + field
			key := name + "@" + valID(resolve(base))
			cat := name + "|" + typeKey(stt.Field(i).Type())
			if e, ok := sn.st[key]; ok {
				return e.val
			}
			if _, known := keyCat[key]; !known {
				keyCat[key], keyTyp[key] = cat, stt.Field(i).Type()
			}
			if keyBase[key] == nil {
				keyBase[key] = resolve(base)
			}
			return sinceVal(key, versionOf(sn.killed, cat))
		}
		return nil
	}
	// a merge value is usable where its block dominates
	for ld, rep := range canon {
		if r, ok := rep.(*memVal); ok && r.blk != nil && r.blk != ld.Block() && !r.blk.Dominates(ld.Block()) {
			canon[ld] = ld
		} else if r, ok := rep.(ssa.Instruction); ok && r.Block() != nil && r.Block() != ld.Block() && !r.Block().Dominates(ld.Block()) {
			canon[ld] = ld
		}
	}
	for lc, rep := range canonLen {
		if r, ok := rep.(*memVal); ok && r.blk != nil && r.blk != lc.Block() && !r.blk.Dominates(lc.Block()) {
			canonLen[lc] = lc
		} else if r, ok := rep.(ssa.Instruction); ok && r.Block() != nil && r.Block() != lc.Block() && !r.Block().Dominates(lc.Block()) {
			canonLen[lc] = lc
		}
	}
	return canon, canonLen, query
}

func addrKeyRec(a *ssa.FieldAddr, resolve func(ssa.Value) ssa.Value) (string, bool) {
	pt := a.X.Type().Underlying().(*types.Pointer).Elem()
	st := pt.Underlying().(*types.Struct)
	name := "F:" + typeKey(pt) + "." + st.Field(a.Field).Name()
	base := resolve(a.X)
	switch inner := base.(type) {
	case *ssa.FieldAddr:
		k, ok := addrKeyRec(inner, resolve)
		if !ok {
			return "", false
		}
		return name + "@(" + k + ")", true
	case *ssa.IndexAddr:
		// field of a slice element: identified by the slice value and the
		// index value (two IndexAddr instructions with the same operands
		// denote the same address)
		if _, isFA := resolve(inner.X).(*ssa.FieldAddr); !isFA {
			var idx string
			if c, ok := bconstInt(inner.Index); ok {
				idx = fmt.Sprint(c)
			} else {
				idx = valID(resolve(inner.Index))
			}
			return name + "@E(" + valID(resolve(inner.X)) + "[" + idx + "])", true
		}
		return name + "@" + valID(inner), true
	}
	return name + "@" + valID(base), true
}

func valID(v ssa.Value) string {
	return fmtPtr(v)
}

// detID gives SSA values and instructions identifiers that are the same in
// every run (no addresses), so that orderings and keys are reproducible.
var (
	detMu    sync.Mutex
	detInstr = map[*ssa.Function]map[ssa.Instruction]string{}
)

func instrID(ins ssa.Instruction) string {
	fn := ins.Parent()
	if fn == nil {
		return "?"
	}
	detMu.Lock()
	defer detMu.Unlock()
	m := detInstr[fn]
	if m == nil {
		m = map[ssa.Instruction]string{}
		for _, b := range fn.Blocks {
			for i, in := range b.Instrs {
				m[in] = fmt.Sprintf("b%d.%d", b.Index, i)
			}
		}
		detInstr[fn] = m
	}
	if s, ok := m[ins]; ok {
		return s
	}
	return "?" + ins.String()
}

func fmtPtr(v ssa.Value) string {
	switch x := v.(type) {
	case *memVal:
		if x.blk != nil {
			return fmt.Sprintf("mphi%d{%s}", x.blk.Index, x.key)
		}
		return "mem{" + x.key + "}"
	case *ssa.Parameter:
		return "p:" + x.Name()
	case *ssa.FreeVar:
		return "fv:" + x.Name()
	case *ssa.Global:
		return "g:" + x.String()
	case *ssa.Const:
		return "c:" + x.String()
	case *ssa.Function:
		return "f:" + x.String()
	case *ssa.Builtin:
		return "bi:" + x.Name()
	case ssa.Instruction:
		return instrID(x)
	}
	return "v:" + v.Name()
}
