package main

// E7 errflow: I/O error and byte-count discipline.

import (
	"fmt"
	"go/ast"
	"go/token"
	"go/types"
	"sort"
	"strings"

	"golang.org/x/tools/go/ssa"
	"golang.org/x/tools/go/types/typeutil"
)

var errorType = types.Universe.Lookup("error").Type()

func isErrorType(t types.Type) bool { return types.Identical(t, errorType) }

// errIndex returns the index of the error result of a signature, or -1.
func errIndex(sig *types.Signature) int {
	n := sig.Results().Len()
	if n > 0 && isErrorType(sig.Results().At(n-1).Type()) {
		return n - 1
	}
	return -1
}

// inMemorySink reports whether v's static/dynamic type is a writer that cannot fail.
func inMemorySink(v ssa.Value) bool {
	t := v.Type()
	if mi, ok := v.(*ssa.MakeInterface); ok {
		t = mi.X.Type()
	}
	s := t.String()
	switch s {
	case "*bytes.Buffer", "*strings.Builder", "hash.Hash", "hash.Hash32", "hash.Hash64":
		return true
	}
	if strings.HasPrefix(s, "*crypto/") || strings.HasPrefix(s, "*hash/") {
		return true
	}
	return false
}

type errflow struct {
	w     *World
	r     *Report
	ioerr map[*ssa.Function]bool
	// anyErr: rule name under which every error-returning library callee counts (errprop), not only those that can return an I/O error
	anyErr string
}

var ioMethodNames = map[string]bool{"Write": true, "Read": true, "ReadAt": true, "Seek": true, "Close": true, "Flush": true,
	"WriteString": true, "WriteByte": true, "ReadByte": true, "WriteTo": true, "ReadFrom": true, "Sync": true}

// primitiveIO reports whether the call is a fallible I/O primitive.
func (ef *errflow) primitiveIO(c *ssa.CallCommon) (bool, string) {
	if errIndex(c.Signature()) < 0 {
		return false, ""
	}
	if c.IsInvoke() {
		if !ioMethodNames[c.Method.Name()] {
			return false, ""
		}
		if inMemorySink(c.Value) {
			return false, ""
		}
		// only interfaces of io-like shape: declared in io, or embedding io interfaces
		return true, "(" + shortName(c.Value.Type().String()) + ")." + c.Method.Name()
	}
	callee := c.StaticCallee()
	if callee == nil {
		return false, ""
	}
	p := fnPkgPath(callee)
	name := callee.String()
	switch name {
	case "io.ReadAll", "io.ReadFull", "io.Copy", "io.CopyN", "io.WriteString", "io.ReadAtLeast":
		return true, name
	case "encoding/binary.Write", "encoding/binary.Read":
		if len(c.Args) > 0 && inMemorySink(c.Args[0]) {
			return false, ""
		}
		return true, name
	}
	if p == "os" || p == "bufio" || p == "io" || p == "compress/flate" || p == "compress/zlib" {
		if callee.Signature.Recv() != nil && len(c.Args) > 0 && inMemorySink(c.Args[0]) {
			return false, ""
		}
		return true, name
	}
	return false, ""
}

// computeIOErr: module functions returning an error that can originate from I/O.
func (ef *errflow) computeIOErr() {
	ef.ioerr = map[*ssa.Function]bool{}
	var fns []*ssa.Function
	for fn := range ef.w.allFns {
		p := fnPkgPath(fn)
		if (isModPkg(p) || isDepPkg(p)) && len(fn.Blocks) > 0 && !isGenericOrigin(fn) {
			fns = append(fns, fn)
		}
	}
	changed := true
	for changed {
		changed = false
		for _, fn := range fns {
			if ef.ioerr[fn] || errIndex(fn.Signature) < 0 {
				continue
			}
			hit := false
			for _, b := range fn.Blocks {
				for _, ins := range b.Instrs {
					ci, ok := ins.(ssa.CallInstruction)
					if !ok {
						continue
					}
					if p, _ := ef.primitiveIO(ci.Common()); p {
						hit = true
					}
					for _, callee := range ef.w.Callees(ci) {
						if ef.ioerr[callee] {
							hit = true
						}
					}
				}
			}
			if hit {
				ef.ioerr[fn] = true
				changed = true
			}
		}
	}
}

// flowsToExit reports whether error value e can flow (as a value) to a return
// operand or a panic of its function.
func flowsToExit(e ssa.Value) bool {
	seen := map[ssa.Value]bool{}
	var visit func(v ssa.Value) bool
	visit = func(v ssa.Value) bool {
		if seen[v] {
			return false
		}
		seen[v] = true
		refs := v.Referrers()
		if refs == nil {
			return false
		}
		for _, ref := range *refs {
			switch x := ref.(type) {
			case *ssa.Return:
				return true
			case *ssa.Panic:
				return true
			case *ssa.Phi:
				if visit(x) {
					return true
				}
			case *ssa.MakeInterface:
				if visit(x) {
					return true
				}
			case *ssa.ChangeInterface:
				if visit(x) {
					return true
				}
			case *ssa.ChangeType:
				if visit(x) {
					return true
				}
			case *ssa.TypeAssert:
				if visit(x) {
					return true
				}
			case *ssa.Extract:
				if visit(x) {
					return true
				}
			case *ssa.Slice: // variadic argument packing
				if visit(x) {
					return true
				}
			case *ssa.IndexAddr:
				if visit(x) {
					return true
				}
			case *ssa.Store:
				if x.Val == v {
					// stored into a local cell (named result, captured variable, variadic slice): follow loads
					if visit(x.Addr) {
						return true
					}
					if ia, ok := x.Addr.(*ssa.IndexAddr); ok && visit(ia.X) {
						return true
					}
				}
			case *ssa.UnOp:
				if x.Op == token.MUL && visit(x) {
					return true
				}
			case *ssa.Call:
				// wrapping: the error is an argument and the call yields an error
				if errIndex(x.Call.Signature()) >= 0 || isErrorType(x.Type()) {
					if visit(x) {
						return true
					}
				}
			case *ssa.MakeClosure:
				// captured by a deferred/inner function: treat as handled there
				return true
			}
		}
		// an address (Alloc): follow its loads
		if _, ok := v.(*ssa.Alloc); ok {
			for _, ref := range *refs {
				if u, ok := ref.(*ssa.UnOp); ok && u.Op == token.MUL && visit(u) {
					return true
				}
			}
		}
		return false
	}
	return visit(e)
}

// RunErrDrop checks rule R1 on the given functions.
func (ef *errflow) RunErrDrop(fns []*ssa.Function) {
	ef.r.Rule("errdrop: for every call of a fallible I/O primitive (io.Writer.Write, ReaderAt.ReadAt, Reader.Read, Seek, io.ReadAll, binary.Read/Write on a non-memory stream, os/bufio calls) or of a module function that can return such an error, the error value flows to a return operand (possibly wrapped) or a panic of the calling function; deferred or discarded calls are violations; writers that cannot fail (*bytes.Buffer, *strings.Builder, hash) are excluded by type")
	for _, fn := range fns {
		name := fnName(fn)
		for _, b := range fn.Blocks {
			for _, ins := range b.Instrs {
				ci, ok := ins.(ssa.CallInstruction)
				if !ok {
					continue
				}
				c := ci.Common()
				ei := errIndex(c.Signature())
				if ei < 0 {
					continue
				}
				prim, pname := ef.primitiveIO(c)
				what := pname
				if !prim {
					for _, callee := range ef.w.Callees(ci) {
						if ef.ioerr[callee] {
							prim = true
							what = fnName(callee)
							break
						}
					}
				}
				rule := "errdrop"
				if ef.anyErr != "" {
					// the complementary set: errors that cannot come from I/O (format errors of nested decoders)
					if prim {
						continue
					}
					for _, callee := range ef.w.Callees(ci) {
						if isLibPkg(fnPkgPath(callee)) && len(callee.Blocks) > 0 && !alwaysNilError(callee) {
							prim = true
							what = fnName(callee)
							break
						}
					}
					rule = ef.anyErr
				}
				if !prim {
					continue
				}
				key := ef.r.MkKey(rule, name, "call "+what)
				pos := ef.w.Pos(ins.Pos())
				switch x := ins.(type) {
				case *ssa.Defer:
					ef.r.Fail(rule, key, pos, "deferred call of "+what+": its error can never be reported", nil)
				case *ssa.Go:
					ef.r.Fail(rule, key, pos, "go statement calling "+what+": its error is lost", nil)
				case *ssa.Call:
					var ev ssa.Value
					if c.Signature().Results().Len() == 1 {
						ev = x
					} else {
						for _, ref := range *x.Referrers() {
							if ex, ok := ref.(*ssa.Extract); ok && ex.Index == ei {
								ev = ex
							}
						}
					}
					if ev == nil {
						ef.r.Fail(rule, key, pos, "error result of "+what+" is discarded", nil)
					} else if flowsToExit(ev) {
						if lost := errLostOnPath(fn, x, ev); lost != token.NoPos {
							ef.r.FailC(rule, key, []string{"path"}, pos, "the error of "+what+" reaches a return of "+name+", but the return at "+ef.w.Pos(lost)+" can be reached with the error set and returns something else (nil or another error): on that path the fault is swallowed", nil)
						} else {
							ef.r.OK(rule, key, pos, "error flows to a return/panic of "+name+" on every path on which it can be set")
						}
					} else if errIndex(fn.Signature) < 0 && fn.Signature.Results().Len() == 0 && hasNilTest(ev) && fn.Parent() != nil {
						// closures without results that test the error (e.g. helper lambdas) are checked by their parent's discipline
						ef.r.Fail(rule, key, pos, "error result of "+what+" is tested but never reported by "+name, nil)
					} else {
						ef.r.Fail(rule, key, pos, "error result of "+what+" never reaches a return or panic of "+name+" (dropped or only tested)", nil)
					}
				}
			}
		}
	}
}

// alwaysNilError: every return of fn has the constant nil in its error position.
func alwaysNilError(fn *ssa.Function) bool {
	ei := errIndex(fn.Signature)
	if ei < 0 {
		return false
	}
	for _, b := range fn.Blocks {
		if len(b.Instrs) == 0 {
			continue
		}
		ret, ok := b.Instrs[len(b.Instrs)-1].(*ssa.Return)
		if !ok {
			continue
		}
		if ei >= len(ret.Results) {
			return false
		}
		c, ok := ret.Results[ei].(*ssa.Const)
		if !ok || !c.IsNil() {
			return false
		}
	}
	return true
}

func hasNilTest(v ssa.Value) bool {
	for _, ref := range *v.Referrers() {
		if b, ok := ref.(*ssa.BinOp); ok && (b.Op == token.NEQ || b.Op == token.EQL) {
			return true
		}
	}
	return false
}

// RunByteCount checks rule R2 on functions returning (count, error) that write.
func (ef *errflow) RunByteCount(fns []*ssa.Function) {
	ef.r.Rule("bytecount: in every function returning (count, error) that calls Write on its destination, a forward must-analysis tracks the set of Write results not yet added to the running count; at every return the set is empty and the returned count is the running counter (a constant count is allowed only where no Write can have happened); pass-through functions return the callee's count together with the callee's error")
	for _, fn := range fns {
		sig := fn.Signature
		if sig.Results().Len() != 2 || !isErrorType(sig.Results().At(1).Type()) || !isIntegerType(sig.Results().At(0).Type()) {
			continue
		}
		// only functions that write to a destination passed by the caller
		hasWriter := false
		for i := 0; i < sig.Params().Len(); i++ {
			if it, ok := sig.Params().At(i).Type().Underlying().(*types.Interface); ok {
				for k := 0; k < it.NumMethods(); k++ {
					if it.Method(k).Name() == "Write" {
						hasWriter = true
					}
				}
			}
		}
		if !hasWriter {
			continue
		}
		name := fnName(fn)
		// Write calls on a writer (non-memory)
		var writes []*ssa.Call
		for _, b := range fn.Blocks {
			for _, ins := range b.Instrs {
				if c, ok := ins.(*ssa.Call); ok && c.Call.IsInvoke() && c.Call.Method.Name() == "Write" && !inMemorySink(c.Call.Value) {
					writes = append(writes, c)
				}
			}
		}
		if len(writes) == 0 {
			ef.passThrough(fn)
			continue
		}
		nOf := map[ssa.Value]int{} // Extract(call,0) -> index
		for i, c := range writes {
			for _, ref := range *c.Referrers() {
				if ex, ok := ref.(*ssa.Extract); ok && ex.Index == 0 {
					nOf[ex] = i
				}
			}
		}
		// accounted: ADD instructions with an operand converted from a Write count
		accounts := map[ssa.Instruction]int{}
		for _, b := range fn.Blocks {
			for _, ins := range b.Instrs {
				bo, ok := ins.(*ssa.BinOp)
				if !ok || bo.Op != token.ADD {
					continue
				}
				for _, op := range []ssa.Value{bo.X, bo.Y} {
					v := op
					for {
						if cv, ok := v.(*ssa.Convert); ok {
							v = cv.X
							continue
						}
						if cv, ok := v.(*ssa.ChangeType); ok {
							v = cv.X
							continue
						}
						break
					}
					if i, ok := nOf[v]; ok {
						accounts[bo] = i
					}
				}
			}
		}
		// forward dataflow: set of unaccounted write indices
		in := make([]map[int]bool, len(fn.Blocks))
		in[0] = map[int]bool{}
		work := []int{0}
		atReturn := map[*ssa.Return]map[int]bool{}
		for len(work) > 0 {
			bi := work[0]
			work = work[1:]
			b := fn.Blocks[bi]
			st := map[int]bool{}
			for k := range in[bi] {
				st[k] = true
			}
			for _, ins := range b.Instrs {
				if c, ok := ins.(*ssa.Call); ok {
					for i, wc := range writes {
						if wc == c {
							st[i] = true
						}
					}
				}
				if i, ok := accounts[ins]; ok {
					delete(st, i)
				}
				if ret, ok := ins.(*ssa.Return); ok {
					cp := map[int]bool{}
					for k := range st {
						cp[k] = true
					}
					atReturn[ret] = cp
				}
			}
			for _, s := range b.Succs {
				ch := false
				if in[s.Index] == nil {
					in[s.Index] = map[int]bool{}
					ch = true
				}
				for k := range st {
					if !in[s.Index][k] {
						in[s.Index][k] = true
						ch = true
					}
				}
				if ch {
					work = append(work, s.Index)
				}
			}
		}
		var rets []*ssa.Return
		for r := range atReturn {
			rets = append(rets, r)
		}
		sort.Slice(rets, func(i, j int) bool { return rets[i].Pos() < rets[j].Pos() })
		for _, ret := range rets {
			key := ef.r.MkKey("bytecount", name, "return")
			un := atReturn[ret]
			if len(un) > 0 {
				var ws []string
				for i := range un {
					ws = append(ws, ef.w.Pos(writes[i].Pos()))
				}
				sort.Strings(ws)
				ef.r.Fail("bytecount", key, ef.w.Pos(ret.Pos()), "the byte count returned here does not include the bytes accepted by the Write at "+strings.Join(ws, ", "), nil)
				continue
			}
			// a constant count is only allowed where no write can have happened
			if _, isConst := ret.Results[0].(*ssa.Const); isConst {
				reached := false
				for _, wc := range writes {
					if wc.Block() == ret.Block() || reaches(wc.Block(), ret.Block()) {
						reached = true
					}
				}
				if reached {
					ef.r.Fail("bytecount", key, ef.w.Pos(ret.Pos()), "a constant byte count is returned although a Write may already have happened", nil)
					continue
				}
			}
			ef.r.OK("bytecount", key, ef.w.Pos(ret.Pos()), fmt.Sprintf("all %d Write results are accumulated on every path to this return", len(writes)))
		}
		// each Write's error must be tested before the next Write: covered by errdrop (error flows to a return) plus:
		for i, wc := range writes {
			key := ef.r.MkKey("bytecount", name, "write error tested")
			var ev ssa.Value
			for _, ref := range *wc.Referrers() {
				if ex, ok := ref.(*ssa.Extract); ok && ex.Index == 1 {
					ev = ex
				}
			}
			ok := false
			if ev != nil {
				// the block ends in an If on err != nil whose true branch returns
				for _, ref := range *ev.Referrers() {
					if bo, isB := ref.(*ssa.BinOp); isB && bo.Op == token.NEQ {
						for _, r2 := range *bo.Referrers() {
							if ifi, isIf := r2.(*ssa.If); isIf {
								t := ifi.Block().Succs[0]
								if len(t.Instrs) > 0 {
									if _, isRet := t.Instrs[len(t.Instrs)-1].(*ssa.Return); isRet {
										ok = true
									}
								}
							}
						}
					}
				}
			}
			if ok {
				ef.r.OK("bytecount", key, ef.w.Pos(wc.Pos()), "error tested immediately; failing branch returns")
			} else {
				ef.r.Fail("bytecount", key, ef.w.Pos(wc.Pos()), fmt.Sprintf("the error of Write #%d is not tested with an immediate return: later writes could follow a failed one", i), nil)
			}
		}
	}
}

// passThrough: a (count, error) function without own writes must return a
// callee's (count, error) pair together, or a constant count.
func (ef *errflow) passThrough(fn *ssa.Function) {
	name := fnName(fn)
	for _, b := range fn.Blocks {
		if len(b.Instrs) == 0 {
			continue
		}
		ret, ok := b.Instrs[len(b.Instrs)-1].(*ssa.Return)
		if !ok || len(ret.Results) != 2 {
			continue
		}
		key := ef.r.MkKey("bytecount", name, "pass-through return")
		c0, isC := ret.Results[0].(*ssa.Const)
		if isC {
			if c0.Int64() != 0 {
				ef.r.Fail("bytecount", key, ef.w.Pos(ret.Pos()), "non-zero constant byte count", nil)
				continue
			}
			// zero count: no callee that writes may have run before — approximated by: no call returning (count, error) reaches this return
			bad := false
			for _, bb := range fn.Blocks {
				for _, ins := range bb.Instrs {
					if c, ok := ins.(*ssa.Call); ok {
						s := c.Call.Signature()
						if s.Results().Len() == 2 && isIntegerType(s.Results().At(0).Type()) && isErrorType(s.Results().At(1).Type()) {
							if bb == b || reaches(bb, b) {
								bad = true
							}
						}
					}
				}
			}
			if bad {
				ef.r.Fail("bytecount", key, ef.w.Pos(ret.Pos()), "returns count 0 after a counting writer may already have run", nil)
			} else {
				ef.r.OK("bytecount", key, ef.w.Pos(ret.Pos()), "count 0 before anything was written")
			}
			continue
		}
		e0, ok0 := ret.Results[0].(*ssa.Extract)
		e1, ok1 := ret.Results[1].(*ssa.Extract)
		if ok0 && ok1 && e0.Tuple == e1.Tuple && e0.Index == 0 && e1.Index == 1 {
			ef.r.OK("bytecount", key, ef.w.Pos(ret.Pos()), "returns the callee's count and error together")
			continue
		}
		ef.r.Fail("bytecount", key, ef.w.Pos(ret.Pos()), "byte count and error do not come from the same call", nil)
	}
}

// ---------------------------------------------------------------------------
// sorted-before-indexed

// RunSortedBeforeIndexed: in every function that sorts a local slice, no
// element of that slice is read before the sort.
func RunSortedBeforeIndexed(w *World, r *Report, fns []*ssa.Function) {
	r.Rule("sortfirst: in a function that sorts a local slice, no element of that slice is read (indexed on the right-hand side or in a condition) at a source position before the sort call; element writes and appends may precede it")
	for _, fn := range fns {
		body, _ := funcBody(fn)
		info := w.Info(fn)
		if body == nil || info == nil {
			continue
		}
		name := fnName(fn)
		ast.Inspect(body, func(n ast.Node) bool {
			if _, ok := n.(*ast.FuncLit); ok {
				return false
			}
			call, ok := n.(*ast.CallExpr)
			if !ok || len(call.Args) == 0 {
				return true
			}
			callee := typeutil.Callee(info, call)
			if callee == nil || callee.Pkg() == nil {
				return true
			}
			switch callee.Pkg().Path() + "." + callee.Name() {
			case "sort.Slice", "sort.SliceStable", "slices.Sort", "slices.SortFunc", "golang.org/x/exp/slices.Sort", "golang.org/x/exp/slices.SortFunc", "sort.Ints", "sort.Strings":
			default:
				return true
			}
			id, ok := call.Args[0].(*ast.Ident)
			if !ok {
				return true
			}
			obj := info.ObjectOf(id)
			if obj == nil || obj.Parent() == nil || obj.Pkg() == nil || obj.Parent() == obj.Pkg().Scope() {
				return true
			}
			key := r.MkKey("sortfirst", name, "sort of "+id.Name)
			bad := token.NoPos
			// element reads before the call
			var stack []ast.Node
			ast.Inspect(body, func(m ast.Node) bool {
				if m == nil {
					stack = stack[:len(stack)-1]
					return true
				}
				stack = append(stack, m)
				ix, ok := m.(*ast.IndexExpr)
				if !ok || ix.Pos() >= call.Pos() {
					return true
				}
				xid, ok := ix.X.(*ast.Ident)
				if !ok || info.ObjectOf(xid) != obj {
					return true
				}
				// is this a pure write (lhs of an assignment, possibly through a field)?
				isWrite := false
				var cur ast.Node = ix
				for i := len(stack) - 2; i >= 0; i-- {
					switch p := stack[i].(type) {
					case *ast.SelectorExpr:
						if p.X == cur {
							cur = p
							continue
						}
					case *ast.AssignStmt:
						for _, l := range p.Lhs {
							if l == cur && p.Tok == token.ASSIGN {
								isWrite = true
							}
						}
					}
					break
				}
				if !isWrite && bad == token.NoPos {
					bad = ix.Pos()
				}
				return true
			})
			if bad != token.NoPos {
				r.Fail("sortfirst", key, w.Pos(call.Pos()), fmt.Sprintf("element of %s is read at %s before the slice is sorted at %s", id.Name, w.Pos(bad), w.Pos(call.Pos())), nil)
			} else {
				r.OK("sortfirst", key, w.Pos(call.Pos()), "no element read precedes the sort")
			}
			return true
		})
	}
}

// ---- must-flow: the error is reported on EVERY path on which it can be non-nil
//
// flowsToExit shows that the error value can reach a return; that accepts
// `_, err := w.Write(b); if quiet { return nil }; return err`.  errLostOnPath
// looks for a return that is reachable from the call without crossing an
// edge on which the error is known to be nil (or equal to a sentinel such as
// io.EOF, or matched by errors.Is/As) and that returns something not derived
// from the error and not a freshly made error.

func errDerived(e ssa.Value) map[ssa.Value]bool {
	d := map[ssa.Value]bool{}
	var visit func(v ssa.Value)
	visit = func(v ssa.Value) {
		if d[v] {
			return
		}
		d[v] = true
		refs := v.Referrers()
		if refs == nil {
			return
		}
		for _, ref := range *refs {
			switch x := ref.(type) {
			case *ssa.Phi:
				visit(x)
			case *ssa.MakeInterface:
				visit(x)
			case *ssa.ChangeInterface:
				visit(x)
			case *ssa.ChangeType:
				visit(x)
			case *ssa.TypeAssert:
				visit(x)
			case *ssa.Extract:
				visit(x)
			case *ssa.Slice:
				visit(x)
			case *ssa.IndexAddr:
				visit(x)
			case *ssa.Store:
				if x.Val == v {
					visit(x.Addr)
					if ia, ok := x.Addr.(*ssa.IndexAddr); ok {
						visit(ia.X)
					}
				}
			case *ssa.UnOp:
				if x.Op == token.MUL {
					visit(x)
				}
			case *ssa.Call:
				if errIndex(x.Call.Signature()) >= 0 || isErrorType(x.Type()) {
					visit(x)
				}
			}
		}
		if _, ok := v.(*ssa.Alloc); ok {
			for _, ref := range *refs {
				if u, ok := ref.(*ssa.UnOp); ok && u.Op == token.MUL {
					visit(u)
				}
			}
		}
	}
	visit(e)
	return d
}

// errLostOnPath returns the position of a return that drops the error e of
// the call instruction call (in fn) on some path, or token.NoPos.
func errLostOnPath(fn *ssa.Function, call ssa.Instruction, e ssa.Value) token.Pos {
	ri := errIndex(fn.Signature)
	if ri < 0 {
		return token.NoPos
	}
	d := errDerived(e)
	// escapes into memory that outlives the function or into a closure: handled elsewhere
	for v := range d {
		if refs := v.Referrers(); refs != nil {
			for _, ref := range *refs {
				switch x := ref.(type) {
				case *ssa.MakeClosure:
					return token.NoPos
				case *ssa.Store:
					if x.Val == v {
						switch x.Addr.(type) {
						case *ssa.FieldAddr, *ssa.Global, *ssa.FreeVar:
							return token.NoPos // sticky-error idiom
						}
					}
				case *ssa.Defer, *ssa.Go:
					return token.NoPos
				}
			}
		}
		if al, ok := v.(*ssa.Alloc); ok && al.Heap {
			// a named result read by a deferred function, or a cell captured by a closure
			return token.NoPos
		}
	}
	// edges on which the error is known to be absent or recognised
	handledEdge := func(b *ssa.BasicBlock, si int) bool {
		if len(b.Instrs) == 0 {
			return false
		}
		ifi, ok := b.Instrs[len(b.Instrs)-1].(*ssa.If)
		if !ok {
			return false
		}
		switch c := ifi.Cond.(type) {
		case *ssa.BinOp:
			if c.Op != token.EQL && c.Op != token.NEQ {
				return false
			}
			if !d[c.X] && !d[c.Y] {
				return false
			}
			// equal side
			return (c.Op == token.EQL && si == 0) || (c.Op == token.NEQ && si == 1)
		case *ssa.Call:
			// errors.Is / errors.As / a predicate of the module on the error (header.IsMissing):
			// the error is recognised on the true side
			if bt, ok := c.Type().Underlying().(*types.Basic); ok && bt.Kind() == types.Bool {
				for _, a := range c.Call.Args {
					if d[a] {
						return si == 0
					}
				}
			}
		case *ssa.UnOp:
			if c.Op == token.NOT {
				if cc, ok := c.X.(*ssa.Call); ok {
					if bt, ok := cc.Type().Underlying().(*types.Basic); ok && bt.Kind() == types.Bool {
						for _, a := range cc.Call.Args {
							if d[a] {
								return si == 1
							}
						}
					}
				}
			}
		case *ssa.Extract:
			// v, ok := err.(T)
			if ta, ok := c.Tuple.(*ssa.TypeAssert); ok && d[ta.X] && c.Index == 1 {
				return si == 0
			}
		}
		return false
	}
	start := call.Block()
	reach := map[*ssa.BasicBlock]bool{}
	var work []*ssa.BasicBlock
	push := func(from *ssa.BasicBlock) {
		for si, s := range from.Succs {
			if handledEdge(from, si) || reach[s] || s == start {
				continue
			}
			reach[s] = true
			work = append(work, s)
		}
	}
	push(start)
	for len(work) > 0 {
		b := work[len(work)-1]
		work = work[:len(work)-1]
		push(b)
	}
	inScope := func(b *ssa.BasicBlock) bool { return b == start || reach[b] }
	definitelyNonNil := func(v ssa.Value) bool {
		switch x := v.(type) {
		case *ssa.MakeInterface:
			return true
		case *ssa.Call:
			if cal := x.Call.StaticCallee(); cal != nil && cal.Pkg != nil {
				p := cal.Pkg.Pkg.Path()
				if (p == "errors" && cal.Name() == "New") || (p == "fmt" && cal.Name() == "Errorf") {
					return true
				}
			}
		}
		return false
	}
	seen := map[ssa.Value]bool{}
	var okVal func(v ssa.Value) bool
	okVal = func(v ssa.Value) bool {
		if ph, isPhi := v.(*ssa.Phi); isPhi {
			if seen[ph] {
				return true
			}
			seen[ph] = true
			for i, ev := range ph.Edges {
				if !inScope(ph.Block().Preds[i]) {
					continue
				}
				// the edge itself may be a handled one
				pred := ph.Block().Preds[i]
				hi := -1
				for si, s := range pred.Succs {
					if s == ph.Block() {
						hi = si
					}
				}
				if hi >= 0 && handledEdge(pred, hi) {
					continue
				}
				if !okVal(ev) {
					return false
				}
			}
			return true
		}
		if d[v] {
			return true
		}
		return definitelyNonNil(v)
	}
	check := func(b *ssa.BasicBlock) token.Pos {
		if len(b.Instrs) == 0 {
			return token.NoPos
		}
		ret, ok := b.Instrs[len(b.Instrs)-1].(*ssa.Return)
		if !ok || ri >= len(ret.Results) {
			return token.NoPos
		}
		if okVal(ret.Results[ri]) {
			return token.NoPos
		}
		if ret.Pos().IsValid() {
			return ret.Pos()
		}
		return fn.Pos()
	}
	if p := check(start); p != token.NoPos {
		// the call's own block returns: only relevant when the return comes after the call
		return p
	}
	var blocks []*ssa.BasicBlock
	for b := range reach {
		blocks = append(blocks, b)
	}
	sort.Slice(blocks, func(i, j int) bool { return blocks[i].Index < blocks[j].Index })
	for _, b := range blocks {
		if p := check(b); p != token.NoPos {
			return p
		}
	}
	return token.NoPos
}

// condNilOnError: every return of the function with a non-nil error returns
// a nil first result (so a caller that copies the result gets zero bytes
// whenever an error is reported).
func condNilOnError(w *World, name string) func() (bool, string) {
	return func() (bool, string) {
		fn := w.Func(name)
		if fn == nil {
			return false, name + " not found"
		}
		for _, b := range fn.Blocks {
			if len(b.Instrs) == 0 {
				continue
			}
			ret, ok := b.Instrs[len(b.Instrs)-1].(*ssa.Return)
			if !ok || len(ret.Results) != 2 {
				continue
			}
			if c, ok := ret.Results[1].(*ssa.Const); ok && c.Value == nil {
				continue
			}
			if c, ok := ret.Results[0].(*ssa.Const); !ok || c.Value != nil {
				return false, fmt.Sprintf("%s returns data together with an error at %s", name, w.Pos(ret.Pos()))
			}
		}
		return true, "every error return of " + name + " carries a nil slice"
	}
}
