package main

// Further structural clauses of C06 (lookup application semantics), taken
// from the OpenType specification's lookup-flag and contextual-lookup rules.

import (
	"fmt"
	"go/ast"
	"go/token"
	"go/types"
	"os"
	"strings"

	"golang.org/x/tools/go/ast/astutil"
	"golang.org/x/tools/go/ssa"
)

// RunFlagPrecedence: OpenType chapter 2, lookupFlag: "If the IGNORE_MARKS
// bit is set, this supersedes any mark filtering set or mark attachment
// type indications.  If a mark filtering set is specified, this supersedes
// any mark attachment type indication."  In the glyph filter the attachment
// type test may therefore only be evaluated when UseMarkFilteringSet is
// clear, and the filtering-set test only when IgnoreMarks is clear.
func RunFlagPrecedence(w *World, r *Report) {
	r.Rule("flagprecedence: in the glyph filter (*keepFunc).Keep the test of the mark attachment type (flags & 0xFF00) is reached only through the false branch of the UseMarkFilteringSet test (flags & 0x0010), which is reached only through the false branch of the IgnoreMarks test (flags & 0x0008) — the precedence the OpenType specification gives the three mark filters")
	fn := w.Func("(*opentype/gtab.keepFunc).Keep")
	if fn == nil {
		r.Fatal("(*gtab.keepFunc).Keep does not resolve")
		return
	}
	// the If instructions testing flags&C != 0
	test := map[int64]*ssa.If{}
	for _, b := range fn.Blocks {
		if len(b.Instrs) == 0 {
			continue
		}
		ifi, ok := b.Instrs[len(b.Instrs)-1].(*ssa.If)
		if !ok {
			continue
		}
		cmp, ok := ifi.Cond.(*ssa.BinOp)
		if !ok || cmp.Op != token.NEQ {
			continue
		}
		and, ok := cmp.X.(*ssa.BinOp)
		if !ok || and.Op != token.AND {
			continue
		}
		if c, ok := bconstInt(and.Y); ok {
			test[c] = ifi
		}
	}
	check := func(later, earlier int64, what string) {
		key := r.MkKey("flagprecedence", fnName(fn), what)
		l, e := test[later], test[earlier]
		if l == nil || e == nil {
			r.Fail("flagprecedence", key, w.Pos(fn.Pos()), fmt.Sprintf("the tests of lookup flags %#x and %#x were not both found", later, earlier), nil)
			return
		}
		for _, g := range guardsOf(l.Block()) {
			if g.cond == e.Cond && !g.then {
				r.OK("flagprecedence", key, w.Pos(l.Cond.Pos()), "evaluated only when the superseding flag is clear")
				return
			}
		}
		r.Fail("flagprecedence", key, w.Pos(l.Cond.Pos()), fmt.Sprintf("the test of lookup flag %#x is not confined to the branch where flag %#x is clear: the specification lets %s", later, earlier, what), nil)
	}
	check(0x0010, 0x0008, "IgnoreMarks supersede the mark filtering set")
	check(0xFF00, 0x0010, "the mark filtering set supersede the mark attachment type")
	r.Floor("flagprecedence", 2)
}

// RunLookaheadBound: lookahead (and backtrack) context is matched against
// the whole glyph string, not against the window [a, b) that limits the
// input sequence of a nested lookup.
func RunLookaheadBound(w *World, r *Report) {
	r.Rule("lookaheadbound: in the apply methods of the chained context subtables the loops that match the Lookahead and Backtrack sequences do not mention the window parameters a/b (OpenType: backtrack and lookahead glyphs may lie outside the input sequence of the enclosing rule); the Input loop is the one limited by b")
	pkg := w.All[modPath+"/opentype/gtab"]
	if pkg == nil {
		r.Fatal("package gtab not loaded")
		return
	}
	info := pkg.TypesInfo
	for _, f := range pkg.Syntax {
		for _, d := range f.Decls {
			fd, ok := d.(*ast.FuncDecl)
			if !ok || fd.Name.Name != "apply" || fd.Recv == nil || fd.Body == nil {
				continue
			}
			recv := types.ExprString(fd.Recv.List[0].Type)
			if !strings.Contains(recv, "ChainedSeqContext") {
				continue
			}
			params := fd.Type.Params.List
			var window []types.Object
			for _, p := range params {
				for _, n := range p.Names {
					if t, ok := info.TypeOf(p.Type).(*types.Basic); ok && t.Kind() == types.Int {
						window = append(window, info.ObjectOf(n))
					}
				}
			}
			ast.Inspect(fd.Body, func(n ast.Node) bool {
				rs, ok := n.(*ast.RangeStmt)
				if !ok {
					return true
				}
				se, ok := rs.X.(*ast.SelectorExpr)
				if !ok || (se.Sel.Name != "Lookahead" && se.Sel.Name != "Backtrack") {
					return true
				}
				key := r.MkKey("lookaheadbound", recv+".apply", "range "+types.ExprString(rs.X))
				bad := ""
				ast.Inspect(rs.Body, func(m ast.Node) bool {
					if id, ok := m.(*ast.Ident); ok {
						for _, wo := range window {
							if info.ObjectOf(id) == wo {
								bad = id.Name
							}
						}
					}
					return true
				})
				if bad == "" {
					r.OK("lookaheadbound", key, w.Pos(rs.Pos()), "matched against the whole glyph string")
				} else {
					r.Fail("lookaheadbound", key, w.Pos(rs.Pos()), "the "+se.Sel.Name+" sequence is matched within the window parameter "+bad+": context glyphs outside the input window of an enclosing rule are not seen, so nested chained lookups fail to match", nil)
				}
				return true
			})
		}
	}
	r.Floor("lookaheadbound", 6)
}

// RunMarkAdvance: when a mark is attached to a base (or mark) that precedes
// it, the x offset subtracts the advance of every glyph from the base up to
// the mark.
func RunMarkAdvance(w *World, r *Report) {
	r.Rule("markadvance: in the mark attachment subtables (GPOS 4.1, 6.1) the value added to the mark's XOffset depends on the Advance of seq[i] for a loop counter i that runs from the base position to the mark position (not on a single glyph's advance)")
	for _, name := range []string{"(*opentype/gtab.Gpos4_1).apply", "(*opentype/gtab.Gpos6_1).apply"} {
		fn := w.Func(name)
		if fn == nil {
			r.Fatal("%s does not resolve", name)
			continue
		}
		key := r.MkKey("markadvance", fnName(fn), "XOffset update")
		// stores to field XOffset
		var stored ssa.Value
		var pos token.Pos
		for _, b := range fn.Blocks {
			for _, in := range b.Instrs {
				st, ok := in.(*ssa.Store)
				if !ok {
					continue
				}
				if fa, ok := st.Addr.(*ssa.FieldAddr); ok && fieldName(fa) == "XOffset" {
					stored, pos = st.Val, st.Pos()
				}
			}
		}
		if stored == nil {
			r.Fail("markadvance", key, w.Pos(fn.Pos()), "no store to XOffset found", nil)
			continue
		}
		ok := false
		for v := range backSlice(stored) {
			ld, isLoad := v.(*ssa.UnOp)
			if !isLoad || ld.Op != token.MUL {
				continue
			}
			fa, isF := ld.X.(*ssa.FieldAddr)
			if !isF || fieldName(fa) != "Advance" {
				continue
			}
			ia, isI := fa.X.(*ssa.IndexAddr)
			if !isI {
				continue
			}
			ph, isPhi := ia.Index.(*ssa.Phi)
			if !isPhi || !isLoopPhi(ph) {
				continue
			}
			// an up-counter ...
			up := false
			for _, e := range ph.Edges {
				if add, isAdd := e.(*ssa.BinOp); isAdd && add.Op == token.ADD && add.X == ssa.Value(ph) {
					if c, isC := bconstInt(add.Y); isC && c > 0 {
						up = true
					}
				}
			}
			// ... that stops at the position of the mark (first int parameter)
			var markPos *ssa.Parameter
			for _, par := range fn.Params {
				if isIntType(par.Type()) {
					markPos = par
					break
				}
			}
			hb := ph.Block()
			if ifi, isIf := hb.Instrs[len(hb.Instrs)-1].(*ssa.If); isIf && up && markPos != nil {
				if cmp, isCmp := ifi.Cond.(*ssa.BinOp); isCmp && cmp.Op == token.LSS && cmp.X == ssa.Value(ph) && cmp.Y == ssa.Value(markPos) {
					ok = true
				}
			}
		}
		if ok {
			r.OK("markadvance", key, w.Pos(pos), "offset accumulates the advances over a loop from the base to the mark")
		} else {
			r.Fail("markadvance", key, w.Pos(pos), "the XOffset of the attached mark does not depend on the advances of all glyphs between the base and the mark (no Advance load indexed by a loop counter feeds it): with several marks, or marks that carry an advance, the mark is misplaced", nil)
		}
	}
	r.Floor("markadvance", 2)
}

// RunIterFresh: a slice that is only used inside a loop (filled by append
// and read in the same iteration, nothing of it is used after the loop)
// must not carry elements from one iteration into the next: no append may
// have the loop-carried value itself as its base (it must be re-sliced to
// length 0 or replaced first).
func RunIterFresh(w *World, r *Report, fns []*ssa.Function) {
	r.Rule("iterfresh: a local slice that a loop body fills with append and reads in the same iteration, and that is not used after the loop, is reset at the start of every iteration: no append uses the value carried over from the previous iteration as its base")
	for _, fn := range fns {
		for _, l := range naturalLoops(fn) {
			stmt := loopStmtOf(w, fn, l)
			if stmt == nil {
				continue
			}
			type cand struct {
				ph    *ssa.Phi
				stale token.Pos
				reset bool
			}
			var cands []cand
			for _, in := range l.head.Instrs {
				ph, ok := in.(*ssa.Phi)
				if !ok {
					break
				}
				if _, isSl := ph.Type().Underlying().(*types.Slice); !isSl {
					continue
				}
				// web: the header phi and phis inside the loop that may equal it
				web := map[ssa.Value]bool{ph: true}
				for changed := true; changed; {
					changed = false
					for b := range l.body {
						for _, ii := range b.Instrs {
							q, ok := ii.(*ssa.Phi)
							if !ok {
								break
							}
							if web[q] {
								continue
							}
							for _, e := range q.Edges {
								if web[e] {
									web[q] = true
									changed = true
								}
							}
						}
					}
				}
				// all values derived from the web inside the loop by append / reslicing
				derived := map[ssa.Value]bool{}
				for v := range web {
					derived[v] = true
				}
				for changed := true; changed; {
					changed = false
					for b := range l.body {
						for _, ii := range b.Instrs {
							v, ok := ii.(ssa.Value)
							if !ok || derived[v] {
								continue
							}
							switch x := ii.(type) {
							case *ssa.Call:
								if bi, ok := x.Call.Value.(*ssa.Builtin); ok && bi.Name() == "append" && derived[x.Call.Args[0]] {
									derived[v] = true
									changed = true
								}
							case *ssa.Slice:
								if derived[x.X] {
									derived[v] = true
									changed = true
								}
							case *ssa.Phi:
								for _, e := range x.Edges {
									if derived[e] {
										derived[v] = true
										changed = true
									}
								}
							}
						}
					}
				}
				// blocks reached through the loop's own exit (condition false /
				// range exhausted), as opposed to return paths out of the body
				after := map[*ssa.BasicBlock]bool{}
				var stack []*ssa.BasicBlock
				for _, s := range l.head.Succs {
					if !l.body[s] {
						stack = append(stack, s)
					}
				}
				for len(stack) > 0 {
					b := stack[len(stack)-1]
					stack = stack[:len(stack)-1]
					if after[b] || l.body[b] {
						continue
					}
					after[b] = true
					stack = append(stack, b.Succs...)
				}
				usedAfter, readInside, staleAppend := false, false, false
				var stalePos token.Pos
				for v := range derived {
					refs := v.Referrers()
					if refs == nil {
						continue
					}
					for _, ref := range *refs {
						if ref.Block() == nil {
							continue
						}
						if _, isPhi := ref.(*ssa.Phi); isPhi {
							if !l.body[ref.Block()] {
								usedAfter = true
							}
							continue
						}
						if rp := ref.Pos(); rp.IsValid() {
							if rp < stmt.Pos() || rp > stmt.End() {
								usedAfter = true
								continue
							}
						} else if after[ref.Block()] {
							if _, isPhi := ref.(*ssa.Phi); !isPhi {
								usedAfter = true
							}
							continue
						}
						switch x := ref.(type) {
						case *ssa.Call:
							if bi, ok := x.Call.Value.(*ssa.Builtin); ok {
								switch bi.Name() {
								case "append":
									if len(x.Call.Args) > 0 && x.Call.Args[0] == v && web[v] {
										staleAppend = true
										stalePos = x.Pos()
									}
									if len(x.Call.Args) > 1 && x.Call.Args[1] == v {
										readInside = true
									}
								case "len":
									readInside = true
								default:
									readInside = true
								}
							} else {
								readInside = true
							}
						case *ssa.IndexAddr, *ssa.Range:
							readInside = true
						case *ssa.Slice:
							if x.High != nil || x.Low != nil {
								if c, ok := bconstInt(x.High); !(ok && c == 0 && x.Low == nil) {
									readInside = true
								}
							}
						case *ssa.Phi, *ssa.DebugRef:
						case *ssa.Store, *ssa.Return, *ssa.MakeInterface, *ssa.MakeClosure:
							if l.body[ref.Block()] {
								usedAfter = true // kept beyond the iteration
							} else {
								readInside = true
							}
						}
					}
				}
				if os.Getenv("SFNT_IFDEBUG") != "" {
					fmt.Fprintln(os.Stderr, "iterfresh", fnName(fn), ph.Comment, "read", readInside, "after", usedAfter, "stale", staleAppend)
				}
				if !readInside || usedAfter {
					continue
				}
				reset := false
				for v := range web {
					if refs := v.Referrers(); refs != nil {
						for _, ref := range *refs {
							if sl, ok := ref.(*ssa.Slice); ok && sl.X == v && sl.Low == nil && sl.High != nil {
								if c, ok := bconstInt(sl.High); ok && c == 0 {
									reset = true
								}
							}
						}
					}
				}
				c := cand{ph: ph, reset: reset && !staleAppend}
				if staleAppend {
					c.stale = stalePos
				}
				cands = append(cands, c)
			}
			anyReset := false
			for _, c := range cands {
				anyReset = anyReset || c.reset
			}
			if !anyReset {
				continue // no sibling shows that the loop's slices are per-iteration
			}
			for _, c := range cands {
				key := r.MkKey("iterfresh", fnName(fn), "loop-local slice "+c.ph.Comment)
				if c.stale.IsValid() {
					r.Fail("iterfresh", key, w.Pos(c.stale), "the slice "+c.ph.Comment+" is filled and read inside the loop only and its siblings are reset at the start of every iteration, but an append extends the value left over from the previous iteration: elements collected for an earlier candidate leak into the next one", nil)
				} else {
					r.OK("iterfresh", key, w.Pos(c.ph.Pos()), "reset before it is filled in every iteration")
				}
			}
		}
	}
}

// loopStmtOf: the innermost for/range statement whose source range contains
// every positioned instruction of the loop body.
func loopStmtOf(w *World, fn *ssa.Function, l *natLoop) ast.Stmt {
	lo, hi := token.NoPos, token.NoPos
	for b := range l.body {
		for _, in := range b.Instrs {
			if _, isPhi := in.(*ssa.Phi); isPhi {
				continue
			}
			p := in.Pos()
			if !p.IsValid() {
				continue
			}
			if !lo.IsValid() || p < lo {
				lo = p
			}
			if p > hi {
				hi = p
			}
		}
	}
	if !lo.IsValid() {
		return nil
	}
	pkg := w.PkgOf(fn)
	if pkg == nil {
		return nil
	}
	for _, f := range pkg.Syntax {
		if f.Pos() <= lo && hi <= f.End() {
			path, _ := astutil.PathEnclosingInterval(f, lo, hi)
			for _, n := range path {
				switch x := n.(type) {
				case *ast.ForStmt:
					return x
				case *ast.RangeStmt:
					return x
				case *ast.FuncDecl, *ast.FuncLit:
					return nil
				}
			}
		}
	}
	return nil
}
