package main

// Further structural clauses of C06 (lookup application semantics), taken
// from the OpenType specification's lookup-flag and contextual-lookup rules.

import (
	"fmt"
	"go/ast"
	"go/token"
	"go/types"
	"strings"

	"golang.org/x/tools/go/ssa"
)

// RunFlagPrecedence: OpenType chapter 2, lookupFlag: "If the IGNORE_MARKS
// bit is set, this supersedes any mark filtering set or mark attachment
// type indications.  If a mark filtering set is specified, this supersedes
// any mark attachment type indication."  In the glyph filter the attachment
// type test may therefore only be evaluated when UseMarkFilteringSet is
// clear, and the filtering-set test only when IgnoreMarks is clear.
func RunFlagPrecedence(w *World, r *Report) {
	r.Rule("flagprecedence: in the glyph filter (*keepFunc).Keep the test of the mark attachment type (flags & 0xFF00) is reached only through the false branch of the UseMarkFilteringSet test (flags & 0x0010), which is reached only through the false branch of the IgnoreMarks test (flags & 0x0008) — the precedence the OpenType specification gives the three mark filters")
	fn := w.Func("(*opentype/gtab.keepFunc).Keep")
	if fn == nil {
		r.Fatal("(*gtab.keepFunc).Keep does not resolve")
		return
	}
	// the If instructions testing flags&C != 0
	test := map[int64]*ssa.If{}
	for _, b := range fn.Blocks {
		if len(b.Instrs) == 0 {
			continue
		}
		ifi, ok := b.Instrs[len(b.Instrs)-1].(*ssa.If)
		if !ok {
			continue
		}
		cmp, ok := ifi.Cond.(*ssa.BinOp)
		if !ok || cmp.Op != token.NEQ {
			continue
		}
		and, ok := cmp.X.(*ssa.BinOp)
		if !ok || and.Op != token.AND {
			continue
		}
		if c, ok := bconstInt(and.Y); ok {
			test[c] = ifi
		}
	}
	check := func(later, earlier int64, what string) {
		key := r.MkKey("flagprecedence", fnName(fn), what)
		l, e := test[later], test[earlier]
		if l == nil || e == nil {
			r.Fail("flagprecedence", key, w.Pos(fn.Pos()), fmt.Sprintf("the tests of lookup flags %#x and %#x were not both found", later, earlier), nil)
			return
		}
		for _, g := range guardsOf(l.Block()) {
			if g.cond == e.Cond && !g.then {
				r.OK("flagprecedence", key, w.Pos(l.Cond.Pos()), "evaluated only when the superseding flag is clear")
				return
			}
		}
		r.Fail("flagprecedence", key, w.Pos(l.Cond.Pos()), fmt.Sprintf("the test of lookup flag %#x is not confined to the branch where flag %#x is clear: the specification lets %s", later, earlier, what), nil)
	}
	check(0x0010, 0x0008, "IgnoreMarks supersede the mark filtering set")
	check(0xFF00, 0x0010, "the mark filtering set supersede the mark attachment type")
	r.Floor("flagprecedence", 2)
}

// RunLookaheadBound: lookahead (and backtrack) context is matched against
// the whole glyph string, not against the window [a, b) that limits the
// input sequence of a nested lookup.
func RunLookaheadBound(w *World, r *Report) {
	r.Rule("lookaheadbound: in the apply methods of the chained context subtables the loops that match the Lookahead and Backtrack sequences do not mention the window parameters a/b (OpenType: backtrack and lookahead glyphs may lie outside the input sequence of the enclosing rule); the Input loop is the one limited by b")
	pkg := w.All[modPath+"/opentype/gtab"]
	if pkg == nil {
		r.Fatal("package gtab not loaded")
		return
	}
	info := pkg.TypesInfo
	for _, f := range pkg.Syntax {
		for _, d := range f.Decls {
			fd, ok := d.(*ast.FuncDecl)
			if !ok || fd.Name.Name != "apply" || fd.Recv == nil || fd.Body == nil {
				continue
			}
			recv := types.ExprString(fd.Recv.List[0].Type)
			if !strings.Contains(recv, "ChainedSeqContext") {
				continue
			}
			params := fd.Type.Params.List
			var window []types.Object
			for _, p := range params {
				for _, n := range p.Names {
					if t, ok := info.TypeOf(p.Type).(*types.Basic); ok && t.Kind() == types.Int {
						window = append(window, info.ObjectOf(n))
					}
				}
			}
			ast.Inspect(fd.Body, func(n ast.Node) bool {
				rs, ok := n.(*ast.RangeStmt)
				if !ok {
					return true
				}
				se, ok := rs.X.(*ast.SelectorExpr)
				if !ok || (se.Sel.Name != "Lookahead" && se.Sel.Name != "Backtrack") {
					return true
				}
				key := r.MkKey("lookaheadbound", recv+".apply", "range "+types.ExprString(rs.X))
				bad := ""
				ast.Inspect(rs.Body, func(m ast.Node) bool {
					if id, ok := m.(*ast.Ident); ok {
						for _, wo := range window {
							if info.ObjectOf(id) == wo {
								bad = id.Name
							}
						}
					}
					return true
				})
				if bad == "" {
					r.OK("lookaheadbound", key, w.Pos(rs.Pos()), "matched against the whole glyph string")
				} else {
					r.Fail("lookaheadbound", key, w.Pos(rs.Pos()), "the "+se.Sel.Name+" sequence is matched within the window parameter "+bad+": context glyphs outside the input window of an enclosing rule are not seen, so nested chained lookups fail to match", nil)
				}
				return true
			})
		}
	}
	r.Floor("lookaheadbound", 6)
}

// RunMarkAdvance: when a mark is attached to a base (or mark) that precedes
// it, the x offset subtracts the advance of every glyph from the base up to
// the mark.
func RunMarkAdvance(w *World, r *Report) {
	r.Rule("markadvance: in the mark attachment subtables (GPOS 4.1, 6.1) the value added to the mark's XOffset depends on the Advance of seq[i] for a loop counter i that runs from the base position to the mark position (not on a single glyph's advance)")
	for _, name := range []string{"(*opentype/gtab.Gpos4_1).apply", "(*opentype/gtab.Gpos6_1).apply"} {
		fn := w.Func(name)
		if fn == nil {
			r.Fatal("%s does not resolve", name)
			continue
		}
		key := r.MkKey("markadvance", fnName(fn), "XOffset update")
		// stores to field XOffset
		var stored ssa.Value
		var pos token.Pos
		for _, b := range fn.Blocks {
			for _, in := range b.Instrs {
				st, ok := in.(*ssa.Store)
				if !ok {
					continue
				}
				if fa, ok := st.Addr.(*ssa.FieldAddr); ok && fieldName(fa) == "XOffset" {
					stored, pos = st.Val, st.Pos()
				}
			}
		}
		if stored == nil {
			r.Fail("markadvance", key, w.Pos(fn.Pos()), "no store to XOffset found", nil)
			continue
		}
		ok := false
		for v := range backSlice(stored) {
			ld, isLoad := v.(*ssa.UnOp)
			if !isLoad || ld.Op != token.MUL {
				continue
			}
			fa, isF := ld.X.(*ssa.FieldAddr)
			if !isF || fieldName(fa) != "Advance" {
				continue
			}
			ia, isI := fa.X.(*ssa.IndexAddr)
			if !isI {
				continue
			}
			ph, isPhi := ia.Index.(*ssa.Phi)
			if !isPhi || !isLoopPhi(ph) {
				continue
			}
			// an up-counter ...
			up := false
			for _, e := range ph.Edges {
				if add, isAdd := e.(*ssa.BinOp); isAdd && add.Op == token.ADD && add.X == ssa.Value(ph) {
					if c, isC := bconstInt(add.Y); isC && c > 0 {
						up = true
					}
				}
			}
			// ... that stops at the position of the mark (first int parameter)
			var markPos *ssa.Parameter
			for _, par := range fn.Params {
				if isIntType(par.Type()) {
					markPos = par
					break
				}
			}
			hb := ph.Block()
			if ifi, isIf := hb.Instrs[len(hb.Instrs)-1].(*ssa.If); isIf && up && markPos != nil {
				if cmp, isCmp := ifi.Cond.(*ssa.BinOp); isCmp && cmp.Op == token.LSS && cmp.X == ssa.Value(ph) && cmp.Y == ssa.Value(markPos) {
					ok = true
				}
			}
		}
		if ok {
			r.OK("markadvance", key, w.Pos(pos), "offset accumulates the advances over a loop from the base to the mark")
		} else {
			r.Fail("markadvance", key, w.Pos(pos), "the XOffset of the attached mark does not depend on the advances of all glyphs between the base and the mark (no Advance load indexed by a loop counter feeds it): with several marks, or marks that carry an advance, the mark is misplaced", nil)
		}
	}
	r.Floor("markadvance", 2)
}
