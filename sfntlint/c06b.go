package main

// Further structural clauses of C06 (lookup application semantics), taken
// from the OpenType specification's lookup-flag and contextual-lookup rules.

import (
	"fmt"
	"sort"
	"os"
	"go/ast"
	"go/token"
	"go/types"
	"strings"

	"golang.org/x/tools/go/ssa"
)

// RunFlagPrecedence: OpenType chapter 2, lookupFlag: "If the IGNORE_MARKS
// bit is set, this supersedes any mark filtering set or mark attachment
// type indications.  If a mark filtering set is specified, this supersedes
// any mark attachment type indication."  In the glyph filter the attachment
// type test may therefore only be evaluated when UseMarkFilteringSet is
// clear, and the filtering-set test only when IgnoreMarks is clear.
func RunFlagPrecedence(w *World, r *Report) {
	r.Rule("flagprecedence: in the glyph filter (*keepFunc).Keep the test of the mark attachment type (flags & 0xFF00) is reached only through the false branch of the UseMarkFilteringSet test (flags & 0x0010), which is reached only through the false branch of the IgnoreMarks test (flags & 0x0008) — the precedence the OpenType specification gives the three mark filters")
	fn := w.Func("(*opentype/gtab.keepFunc).Keep")
	if fn == nil {
		r.Fatal("(*gtab.keepFunc).Keep does not resolve")
		return
	}
	// the If instructions testing flags&C != 0
	test := map[int64]*ssa.If{}
	for _, b := range fn.Blocks {
		if len(b.Instrs) == 0 {
			continue
		}
		ifi, ok := b.Instrs[len(b.Instrs)-1].(*ssa.If)
		if !ok {
			continue
		}
		cmp, ok := ifi.Cond.(*ssa.BinOp)
		if !ok || cmp.Op != token.NEQ {
			continue
		}
		and, ok := cmp.X.(*ssa.BinOp)
		if !ok || and.Op != token.AND {
			continue
		}
		if c, ok := bconstInt(and.Y); ok {
			test[c] = ifi
		}
	}
	check := func(later, earlier int64, what string) {
		key := r.MkKey("flagprecedence", fnName(fn), what)
		l, e := test[later], test[earlier]
		if l == nil || e == nil {
			r.Fail("flagprecedence", key, w.Pos(fn.Pos()), fmt.Sprintf("the tests of lookup flags %#x and %#x were not both found", later, earlier), nil)
			return
		}
		for _, g := range guardsOf(l.Block()) {
			if g.cond == e.Cond && !g.then {
				r.OK("flagprecedence", key, w.Pos(l.Cond.Pos()), "evaluated only when the superseding flag is clear")
				return
			}
		}
		r.Fail("flagprecedence", key, w.Pos(l.Cond.Pos()), fmt.Sprintf("the test of lookup flag %#x is not confined to the branch where flag %#x is clear: the specification lets %s", later, earlier, what), nil)
	}
	check(0x0010, 0x0008, "IgnoreMarks supersede the mark filtering set")
	check(0xFF00, 0x0010, "the mark filtering set supersede the mark attachment type")
	r.Floor("flagprecedence", 2)
}

// RunLookaheadBound: lookahead (and backtrack) context is matched against
// the whole glyph string, not against the window [a, b) that limits the
// input sequence of a nested lookup.
func RunLookaheadBound(w *World, r *Report) {
	r.Rule("lookaheadbound: in the apply methods of the chained context subtables the loops that match the Lookahead and Backtrack sequences do not mention the window parameters a/b (OpenType: backtrack and lookahead glyphs may lie outside the input sequence of the enclosing rule); the Input loop is the one limited by b")
	pkg := w.All[modPath+"/opentype/gtab"]
	if pkg == nil {
		r.Fatal("package gtab not loaded")
		return
	}
	info := pkg.TypesInfo
	for _, f := range pkg.Syntax {
		for _, d := range f.Decls {
			fd, ok := d.(*ast.FuncDecl)
			if !ok || fd.Name.Name != "apply" || fd.Recv == nil || fd.Body == nil {
				continue
			}
			recv := types.ExprString(fd.Recv.List[0].Type)
			if !strings.Contains(recv, "ChainedSeqContext") {
				continue
			}
			params := fd.Type.Params.List
			var window []types.Object
			for _, p := range params {
				for _, n := range p.Names {
					if t, ok := info.TypeOf(p.Type).(*types.Basic); ok && t.Kind() == types.Int {
						window = append(window, info.ObjectOf(n))
					}
				}
			}
			ast.Inspect(fd.Body, func(n ast.Node) bool {
				rs, ok := n.(*ast.RangeStmt)
				if !ok {
					return true
				}
				se, ok := rs.X.(*ast.SelectorExpr)
				if !ok || (se.Sel.Name != "Lookahead" && se.Sel.Name != "Backtrack") {
					return true
				}
				key := r.MkKey("lookaheadbound", recv+".apply", "range "+types.ExprString(rs.X))
				bad := ""
				ast.Inspect(rs.Body, func(m ast.Node) bool {
					if id, ok := m.(*ast.Ident); ok {
						for _, wo := range window {
							if info.ObjectOf(id) == wo {
								bad = id.Name
							}
						}
					}
					return true
				})
				if bad == "" {
					r.OK("lookaheadbound", key, w.Pos(rs.Pos()), "matched against the whole glyph string")
				} else {
					r.Fail("lookaheadbound", key, w.Pos(rs.Pos()), "the "+se.Sel.Name+" sequence is matched within the window parameter "+bad+": context glyphs outside the input window of an enclosing rule are not seen, so nested chained lookups fail to match", nil)
				}
				return true
			})
		}
	}
	r.Floor("lookaheadbound", 6)
}

// RunMarkAdvance: when a mark is attached to a base (or mark) that precedes
// it, the x offset subtracts the advance of every glyph from the base up to
// the mark.
func RunMarkAdvance(w *World, r *Report) {
	r.Rule("markadvance: in the mark attachment subtables (GPOS 4.1, 6.1) the value added to the mark's XOffset depends on the Advance of seq[i] for a loop counter i that runs from the base position to the mark position (not on a single glyph's advance)")
	for _, name := range []string{"(*opentype/gtab.Gpos4_1).apply", "(*opentype/gtab.Gpos6_1).apply"} {
		fn := w.Func(name)
		if fn == nil {
			r.Fatal("%s does not resolve", name)
			continue
		}
		key := r.MkKey("markadvance", fnName(fn), "XOffset update")
		// stores to field XOffset
		var stored ssa.Value
		var pos token.Pos
		for _, b := range fn.Blocks {
			for _, in := range b.Instrs {
				st, ok := in.(*ssa.Store)
				if !ok {
					continue
				}
				if fa, ok := st.Addr.(*ssa.FieldAddr); ok && fieldName(fa) == "XOffset" {
					stored, pos = st.Val, st.Pos()
				}
			}
		}
		if stored == nil {
			r.Fail("markadvance", key, w.Pos(fn.Pos()), "no store to XOffset found", nil)
			continue
		}
		ok := false
		for v := range backSlice(stored) {
			ld, isLoad := v.(*ssa.UnOp)
			if !isLoad || ld.Op != token.MUL {
				continue
			}
			fa, isF := ld.X.(*ssa.FieldAddr)
			if !isF || fieldName(fa) != "Advance" {
				continue
			}
			ia, isI := fa.X.(*ssa.IndexAddr)
			if !isI {
				continue
			}
			ph, isPhi := ia.Index.(*ssa.Phi)
			if !isPhi || !isLoopPhi(ph) {
				continue
			}
			// an up-counter ...
			up := false
			for _, e := range ph.Edges {
				if add, isAdd := e.(*ssa.BinOp); isAdd && add.Op == token.ADD && add.X == ssa.Value(ph) {
					if c, isC := bconstInt(add.Y); isC && c > 0 {
						up = true
					}
				}
			}
			// ... that stops at the position of the mark (first int parameter)
			var markPos *ssa.Parameter
			for _, par := range fn.Params {
				if isIntType(par.Type()) {
					markPos = par
					break
				}
			}
			hb := ph.Block()
			if ifi, isIf := hb.Instrs[len(hb.Instrs)-1].(*ssa.If); isIf && up && markPos != nil {
				if cmp, isCmp := ifi.Cond.(*ssa.BinOp); isCmp && cmp.Op == token.LSS && cmp.X == ssa.Value(ph) && cmp.Y == ssa.Value(markPos) {
					ok = true
				}
			}
		}
		if ok {
			r.OK("markadvance", key, w.Pos(pos), "offset accumulates the advances over a loop from the base to the mark")
		} else {
			r.Fail("markadvance", key, w.Pos(pos), "the XOffset of the attached mark does not depend on the advances of all glyphs between the base and the mark (no Advance load indexed by a loop counter feeds it): with several marks, or marks that carry an advance, the mark is misplaced", nil)
		}
	}
	r.Floor("markadvance", 2)
}

// RunIterFresh: a slice that is only used inside a loop (filled by append
// and read in the same iteration, nothing of it is used after the loop)
// must not carry elements from one iteration into the next: no append may
// have the loop-carried value itself as its base (it must be re-sliced to
// length 0 or replaced first).
func RunIterFresh(w *World, r *Report, fns []*ssa.Function) {
	r.Rule("iterfresh: a local slice that a loop body fills with append and reads in the same iteration, and that is not used after the loop, is reset at the start of every iteration: no append uses the value carried over from the previous iteration as its base")
	for _, fn := range fns {
		for _, l := range naturalLoops(fn) {
			stmt := loopStmtOf(w, fn, l)
			if stmt == nil {
				continue
			}
			type cand struct {
				ph    *ssa.Phi
				stale token.Pos
				reset bool
			}
			var cands []cand
			for _, in := range l.head.Instrs {
				ph, ok := in.(*ssa.Phi)
				if !ok {
					break
				}
				if _, isSl := ph.Type().Underlying().(*types.Slice); !isSl {
					continue
				}
				// web: the header phi and phis inside the loop that may equal it
				web := map[ssa.Value]bool{ph: true}
				for changed := true; changed; {
					changed = false
					for b := range l.body {
						for _, ii := range b.Instrs {
							q, ok := ii.(*ssa.Phi)
							if !ok {
								break
							}
							if web[q] {
								continue
							}
							for _, e := range q.Edges {
								if web[e] {
									web[q] = true
									changed = true
								}
							}
						}
					}
				}
				// all values derived from the web inside the loop by append / reslicing
				derived := map[ssa.Value]bool{}
				for v := range web {
					derived[v] = true
				}
				for changed := true; changed; {
					changed = false
					for b := range l.body {
						for _, ii := range b.Instrs {
							v, ok := ii.(ssa.Value)
							if !ok || derived[v] {
								continue
							}
							switch x := ii.(type) {
							case *ssa.Call:
								if bi, ok := x.Call.Value.(*ssa.Builtin); ok && bi.Name() == "append" && derived[x.Call.Args[0]] {
									derived[v] = true
									changed = true
								}
							case *ssa.Slice:
								if derived[x.X] {
									derived[v] = true
									changed = true
								}
							case *ssa.Phi:
								for _, e := range x.Edges {
									if derived[e] {
										derived[v] = true
										changed = true
									}
								}
							}
						}
					}
				}
				// blocks reached through the loop's own exit (condition false /
				// range exhausted), as opposed to return paths out of the body
				after := map[*ssa.BasicBlock]bool{}
				var stack []*ssa.BasicBlock
				for _, s := range l.head.Succs {
					if !l.body[s] {
						stack = append(stack, s)
					}
				}
				for len(stack) > 0 {
					b := stack[len(stack)-1]
					stack = stack[:len(stack)-1]
					if after[b] || l.body[b] {
						continue
					}
					after[b] = true
					stack = append(stack, b.Succs...)
				}
				usedAfter, readInside, staleAppend := false, false, false
				var stalePos token.Pos
				for v := range derived {
					refs := v.Referrers()
					if refs == nil {
						continue
					}
					for _, ref := range *refs {
						if ref.Block() == nil {
							continue
						}
						if _, isPhi := ref.(*ssa.Phi); isPhi {
							if !l.body[ref.Block()] {
								usedAfter = true
							}
							continue
						}
						if rp := ref.Pos(); rp.IsValid() {
							if rp < stmt.Pos() || rp > stmt.End() {
								usedAfter = true
								continue
							}
						} else if after[ref.Block()] {
							if _, isPhi := ref.(*ssa.Phi); !isPhi {
								usedAfter = true
							}
							continue
						}
						switch x := ref.(type) {
						case *ssa.Call:
							if bi, ok := x.Call.Value.(*ssa.Builtin); ok {
								switch bi.Name() {
								case "append":
									if len(x.Call.Args) > 0 && x.Call.Args[0] == v && web[v] {
										staleAppend = true
										stalePos = x.Pos()
									}
									if len(x.Call.Args) > 1 && x.Call.Args[1] == v {
										readInside = true
									}
								case "len":
									readInside = true
								default:
									readInside = true
								}
							} else {
								readInside = true
							}
						case *ssa.IndexAddr, *ssa.Range:
							readInside = true
						case *ssa.Slice:
							if x.High != nil || x.Low != nil {
								if c, ok := bconstInt(x.High); !(ok && c == 0 && x.Low == nil) {
									readInside = true
								}
							}
						case *ssa.Phi, *ssa.DebugRef:
						case *ssa.Store, *ssa.Return, *ssa.MakeInterface, *ssa.MakeClosure:
							if l.body[ref.Block()] {
								usedAfter = true // kept beyond the iteration
							} else {
								readInside = true
							}
						}
					}
				}
				if os.Getenv("SFNT_IFDEBUG") != "" {
					fmt.Fprintln(os.Stderr, "iterfresh", fnName(fn), ph.Comment, "read", readInside, "after", usedAfter, "stale", staleAppend)
				}
				if !readInside || usedAfter {
					continue
				}
				reset := false
				for v := range web {
					if refs := v.Referrers(); refs != nil {
						for _, ref := range *refs {
							if sl, ok := ref.(*ssa.Slice); ok && sl.X == v && sl.Low == nil && sl.High != nil && l.body[sl.Block()] {
								// cut back to the empty slice, or to a prefix whose length does not
								// change from iteration to iteration (a constant, a value computed
								// before the loop): what earlier iterations appended is dropped
								if _, isC := bconstInt(sl.High); isC {
									reset = true
								} else if hi, ok := sl.High.(ssa.Instruction); ok && !l.body[hi.Block()] {
									reset = true
								} else if _, isParam := sl.High.(*ssa.Parameter); isParam {
									reset = true
								}
							}
						}
					}
				}
				c := cand{ph: ph, reset: reset && !staleAppend}
				if staleAppend {
					c.stale = stalePos
				}
				cands = append(cands, c)
			}
			anyReset := false
			for _, c := range cands {
				anyReset = anyReset || c.reset
			}
			if !anyReset && cellResetIn(l) {
				// the scratch slice lives in a cell (captured by a closure)
				checkScalarSiblings(w, r, fn, l, stmt)
			}
			if !anyReset {
				continue // no sibling shows that the loop's slices are per-iteration
			}
			checkScalarSiblings(w, r, fn, l, stmt)
			for _, c := range cands {
				key := r.MkKey("iterfresh", fnName(fn), "loop-local slice "+c.ph.Comment)
				if c.stale.IsValid() {
					r.Fail("iterfresh", key, w.Pos(c.stale), "the slice "+c.ph.Comment+" is filled and read inside the loop only and its siblings are reset at the start of every iteration, but an append extends the value left over from the previous iteration: elements collected for an earlier candidate leak into the next one", nil)
				} else {
					r.OK("iterfresh", key, w.Pos(c.ph.Pos()), "reset before it is filled in every iteration")
				}
			}
		}
	}
}

// loopStmtOf: the innermost for/range statement whose source range contains
// every positioned instruction of the loop body.
func loopStmtOf(w *World, fn *ssa.Function, l *natLoop) ast.Stmt {
	lo, hi := token.NoPos, token.NoPos
	for b := range l.body {
		for _, in := range b.Instrs {
			if _, isPhi := in.(*ssa.Phi); isPhi {
				continue
			}
			p := in.Pos()
			if !p.IsValid() {
				continue
			}
			if !lo.IsValid() || p < lo {
				lo = p
			}
			if p > hi {
				hi = p
			}
		}
	}
	if !lo.IsValid() {
		return nil
	}
	pkg := w.PkgOf(fn)
	if pkg == nil {
		return nil
	}
	for _, f := range pkg.Syntax {
		if f.Pos() <= lo && hi <= f.End() {
			path := pathEnclosing(f, lo, hi)
			for _, n := range path {
				switch x := n.(type) {
				case *ast.ForStmt:
					return x
				case *ast.RangeStmt:
					return x
				case *ast.FuncDecl, *ast.FuncLit:
					return nil
				}
			}
		}
	}
	return nil
}

// RunActionProgress: the nested-action loop of applyAtRecursively works off a
// stack of records, each with a list of pending actions.  Every iteration
// must either pop a record or remove the action it looked at; a path back to
// the loop head that does neither looks at the same action again and again
// until the action budget is used up, and the budget handler then discards
// all remaining actions, including valid ones.
func RunActionProgress(w *World, r *Report) {
	r.Rule("actionprogress: in (*Context).applyAtRecursively every path around the nested-action loop passes a store that shortens ctx.stack (a record is popped) or a store that shortens the Actions list of the top record (the action is consumed): an action that is skipped — sequence index or lookup index out of range — is consumed all the same")
	fn := w.Func("(*opentype/gtab.Context).applyAtRecursively")
	if fn == nil {
		r.Fatal("(*gtab.Context).applyAtRecursively does not resolve")
		return
	}
	// progress stores
	progress := map[*ssa.BasicBlock]bool{}
	for _, b := range fn.Blocks {
		for _, in := range b.Instrs {
			st, ok := in.(*ssa.Store)
			if !ok {
				continue
			}
			fa, ok := st.Addr.(*ssa.FieldAddr)
			if !ok {
				continue
			}
			if sl, ok := st.Val.(*ssa.Slice); ok {
				switch fieldName(fa) {
				case "stack":
					if sl.High != nil && sl.Low == nil {
						progress[b] = true
					}
				case "Actions":
					if sl.Low != nil {
						progress[b] = true
					}
				}
			}
		}
	}
	n := 0
	for _, l := range naturalLoops(fn) {
		// the action loop: its condition reads len(ctx.stack)
		isAction := false
		for _, in := range l.head.Instrs {
			if u, ok := in.(*ssa.UnOp); ok {
				if fa, ok := u.X.(*ssa.FieldAddr); ok && fieldName(fa) == "stack" {
					isAction = true
				}
			}
		}
		if !isAction {
			continue
		}
		n++
		key := r.MkKey("actionprogress", fnName(fn), "nested-action loop")
		// is there a path head -> latch that avoids all progress blocks?
		var badLatch *ssa.BasicBlock
		for _, latch := range l.latches {
			seen := map[*ssa.BasicBlock]bool{}
			var stack []*ssa.BasicBlock
			for _, s := range l.head.Succs {
				if l.body[s] {
					stack = append(stack, s)
				}
			}
			for len(stack) > 0 {
				b := stack[len(stack)-1]
				stack = stack[:len(stack)-1]
				if seen[b] || !l.body[b] || progress[b] || b == l.head {
					continue
				}
				seen[b] = true
				if b == latch {
					badLatch = latch
					break
				}
				stack = append(stack, b.Succs...)
			}
		}
		if badLatch == nil {
			r.OK("actionprogress", key, w.Pos(l.head.Instrs[0].Pos()), "every iteration pops a record or consumes an action")
		} else {
			pos := token.NoPos
			for _, in := range badLatch.Instrs {
				if in.Pos().IsValid() {
					pos = in.Pos()
				}
			}
			r.Fail("actionprogress", key, w.Pos(pos), "an iteration can return to the loop head without popping a record or consuming the action it inspected (a `continue` before the action is removed): the same action is inspected until the budget of 64 is used up and all remaining actions are discarded", nil)
		}
	}
	if n == 0 {
		r.Fail("actionprogress", r.MkKey("actionprogress", fnName(fn), "nested-action loop"), w.Pos(fn.Pos()), "the loop over ctx.stack was not found", nil)
	}
	r.Floor("actionprogress", 1)
}

// RunMergeTails: a two-pointer loop `for i < len(A) && j < len(B)` stops as
// soon as one sequence is exhausted.  If advancing through a sequence has an
// effect that outlives the loop (a counter is updated, elements are
// rewritten), the rest of that sequence must be worked off after the loop;
// handling the tail of one sequence and not of the other is the classic slip.
func RunMergeTails(w *World, r *Report, fns []*ssa.Function) {
	r.Rule("mergetails: after a loop whose condition is i < len(A) && j < len(B), each of the two indices whose advance inside the loop is accompanied by a write (to a loop-carried variable other than the indices, or to memory) is continued by a following loop over the rest of its sequence — in fixStackMerge both the remaining merged positions (they still shorten EndPos) and the remaining input positions (they still shift)")
	for _, fn := range fns {
		if fn.Blocks == nil {
			continue
		}
		loops := naturalLoops(fn)
		for _, l := range loops {
			// header chain: head: if i < len(A) -> b1 else exit; b1: if j < len(B) -> body else exit
			idx := twoPointerIndices(l)
			if len(idx) != 2 {
				continue
			}
			for _, ph := range idx {
				key := r.MkKey("mergetails", fnName(fn), "index "+ph.Comment)
				// does the advance of this index come with an effect?
				effect := false
				for i, e := range ph.Edges {
					pred := l.head.Preds[i]
					if !l.body[pred] || e == ssa.Value(ph) {
						continue
					}
					// blocks where this index is incremented: the definition block of e (through phis)
					incs := map[*ssa.BasicBlock]bool{}
					for _, db := range incBlocks(e, ph, l, map[ssa.Value]bool{}) {
						incs[db] = true
					}
					// region: blocks of the body from which the loop head cannot be reached again without passing an increment of this index
					escape := map[*ssa.BasicBlock]bool{}
					var stack []*ssa.BasicBlock
					for _, lt := range l.latches {
						if !incs[lt] {
							stack = append(stack, lt)
						}
					}
					for len(stack) > 0 {
						bb := stack[len(stack)-1]
						stack = stack[:len(stack)-1]
						if escape[bb] || !l.body[bb] || incs[bb] {
							continue
						}
						escape[bb] = true
						for _, pr := range bb.Preds {
							stack = append(stack, pr)
						}
					}
					for bb := range l.body {
						if bb != l.head && !escape[bb] && blockHasEffect(bb, l, idx) {
							effect = true
						}
					}
				}
				if !effect {
					r.OK("mergetails", key, w.Pos(ph.Pos()), "advancing this index has no lasting effect")
					continue
				}
				// a later loop whose head phi continues from this one
				drained := false
				for _, l2 := range loops {
					if l2 == l || !l.head.Dominates(l2.head) || l.body[l2.head] {
						continue
					}
					for _, in := range l2.head.Instrs {
						p2, ok := in.(*ssa.Phi)
						if !ok {
							break
						}
						for _, e := range p2.Edges {
							if e == ssa.Value(ph) {
								drained = true
							}
						}
					}
				}
				if drained {
					r.OK("mergetails", key, w.Pos(ph.Pos()), "the rest of the sequence is worked off by a following loop")
				} else {
					r.Fail("mergetails", key, w.Pos(ph.Pos()), "the two-pointer loop can stop with elements of the sequence indexed by "+ph.Comment+" left over, and no following loop continues from "+ph.Comment+": their effect (counted or rewritten inside the loop) is lost for the tail", nil)
				}
			}
		}
	}
}

func twoPointerIndices(l *natLoop) []*ssa.Phi {
	var out []*ssa.Phi
	b := l.head
	for depth := 0; depth < 2; depth++ {
		if len(b.Instrs) == 0 {
			return nil
		}
		ifi, ok := b.Instrs[len(b.Instrs)-1].(*ssa.If)
		if !ok {
			return nil
		}
		cmp, ok := ifi.Cond.(*ssa.BinOp)
		if !ok || cmp.Op != token.LSS {
			return nil
		}
		ph, ok := cmp.X.(*ssa.Phi)
		if !ok || ph.Block() != l.head {
			return nil
		}
		call, ok := cmp.Y.(*ssa.Call)
		if !ok {
			return nil
		}
		if bi, ok := call.Call.Value.(*ssa.Builtin); !ok || bi.Name() != "len" {
			return nil
		}
		out = append(out, ph)
		next := b.Succs[0]
		if !l.body[next] {
			return nil
		}
		b = next
	}
	return out
}

// incBlocks: the blocks where the value flowing back into ph is computed as ph + c.
func incBlocks(v ssa.Value, ph *ssa.Phi, l *natLoop, seen map[ssa.Value]bool) []*ssa.BasicBlock {
	if seen[v] {
		return nil
	}
	seen[v] = true
	switch x := v.(type) {
	case *ssa.BinOp:
		if x.Op == token.ADD && x.X == ssa.Value(ph) {
			return []*ssa.BasicBlock{x.Block()}
		}
	case *ssa.Phi:
		var out []*ssa.BasicBlock
		for _, e := range x.Edges {
			out = append(out, incBlocks(e, ph, l, seen)...)
		}
		return out
	}
	return nil
}

// blockHasEffect: the block, or a block of the loop that it dominates or that
// dominates it within the same branch, writes memory or feeds a loop-carried
// variable other than the indices.
func blockHasEffect(b *ssa.BasicBlock, l *natLoop, idx []*ssa.Phi) bool {
	isIdx := func(v ssa.Value) bool {
		for _, p := range idx {
			if v == ssa.Value(p) {
				return true
			}
		}
		return false
	}
	branch := map[*ssa.BasicBlock]bool{b: true}
	for bb := range branch {
		for _, in := range bb.Instrs {
			switch x := in.(type) {
			case *ssa.Store, *ssa.MapUpdate:
				return true
			case *ssa.BinOp:
				// x feeds a head phi that is not one of the indices
				if x.Referrers() != nil {
					for _, ref := range *x.Referrers() {
						if p, ok := ref.(*ssa.Phi); ok && !isIdx(p) {
							for hp := p; hp != nil; {
								if hp.Block() == l.head {
									return true
								}
								next := (*ssa.Phi)(nil)
								if hp.Referrers() != nil {
									for _, r2 := range *hp.Referrers() {
										if q, ok := r2.(*ssa.Phi); ok && q != hp {
											next = q
										}
									}
								}
								if next == nil || next == p {
									break
								}
								hp = next
							}
						}
					}
				}
			}
		}
	}
	return false
}

// RunInputPosLen: a contextual subtable hands the positions of the matched
// input glyphs to the nested lookups; sequence index k of an action means
// "the k-th glyph of the input sequence", so the list must hold exactly one
// position per input glyph: len(rule.Input)+1 for formats 1 and 2 (whose
// Input omits the first glyph), len(l.Input) for format 3.
func RunInputPosLen(w *World, r *Report, br *boundsRun, fns []*ssa.Function) {
	r.Rule("inputposlen: where an apply method pushes a nested-action record, the length of its InputPos list equals the number of glyphs of the input sequence of the rule whose Actions it stores — len(Input)+1 where Input lists the glyphs after the first (glyph ids or classes), len(Input) where it lists one coverage table per glyph — shown by the linear prover (lock-step induction of the list length with the loop over Input)")
	for _, fn := range fns {
		if fn.Blocks == nil || fn.Name() != "apply" {
			continue
		}
		for _, b := range fn.Blocks {
			for _, in := range b.Instrs {
				st, ok := in.(*ssa.Store)
				if !ok {
					continue
				}
				fa, ok := st.Addr.(*ssa.FieldAddr)
				if !ok || fieldName(fa) != "InputPos" {
					continue
				}
				al, ok := fa.X.(*ssa.Alloc)
				if !ok {
					continue
				}
				// the Actions stored into the same record
				var actions ssa.Value
				for _, ref := range *al.Referrers() {
					if fa2, ok := ref.(*ssa.FieldAddr); ok && fieldName(fa2) == "Actions" {
						for _, r2 := range *fa2.Referrers() {
							if s2, ok := r2.(*ssa.Store); ok {
								actions = s2.Val
							}
						}
					}
				}
				key := r.MkKey("inputposlen", fnName(fn), "nested-action record")
				ld, ok := actions.(*ssa.UnOp)
				if !ok {
					r.Fail("inputposlen", key, w.Pos(st.Pos()), "the Actions of the record are not loaded from a rule", nil)
					continue
				}
				afa, ok := ld.X.(*ssa.FieldAddr)
				if !ok {
					r.Fail("inputposlen", key, w.Pos(st.Pos()), "the Actions of the record are not a field of a rule", nil)
					continue
				}
				base := afa.X
				// a load of base.Input
				var input ssa.Value
				for _, bb := range fn.Blocks {
					for _, ii := range bb.Instrs {
						if u, ok := ii.(*ssa.UnOp); ok && u.Op == token.MUL {
							if ifa, ok := u.X.(*ssa.FieldAddr); ok && fieldName(ifa) == "Input" && sameObject(ifa.X, base) {
								input = u
							}
						}
					}
				}
				if input == nil {
					r.Fail("inputposlen", key, w.Pos(st.Pos()), "the rule's Input list is not read in this function", nil)
					continue
				}
				extra := int64(1)
				if sl, ok := input.Type().Underlying().(*types.Slice); ok {
					es := sl.Elem().String()
					if strings.Contains(es, "coverage.") {
						extra = 0
					}
				}
				p := br.prover(fn)
				d, ok := p.lenOf(st.Val).sub(p.lenOf(input))
				if !ok {
					r.Fail("inputposlen", key, w.Pos(st.Pos()), "lengths not comparable", nil)
					continue
				}
				d = d.addc(-extra)
				dn, _ := d.scale(-1)
				if os.Getenv("SFNT_BDEBUG") == "inputposlen" {
					fmt.Println("inputposlen", fnName(fn), p.linStr(d))
					p.trace = true
					p.proveAt(b, d)
					p.trace = false
				}
				if p.proveAt(b, d) && p.proveAt(b, dn) {
					r.OK("inputposlen", key, w.Pos(st.Pos()), fmt.Sprintf("len(InputPos) = len(Input)+%d", extra))
				} else {
					r.Fail("inputposlen", key, w.Pos(st.Pos()), fmt.Sprintf("the position list handed to the nested lookups is not shown to have len(Input)+%d entries (one per glyph of the input sequence): a sequence index then addresses the wrong glyph", extra), nil)
				}
			}
		}
	}
}

// checkScalarSiblings: in a loop that resets its scratch slices at the start
// of every iteration (so the loop's locals are per-iteration by the code's own
// testimony), a pointer / interface / boolean / numeric variable that enters
// the loop with its zero value, is assigned on some paths of the body only,
// is read inside the body and is not used after the loop carries the value
// of an earlier iteration into a later one.
func checkScalarSiblings(w *World, r *Report, fn *ssa.Function, l *natLoop, stmt ast.Stmt) {
	for _, in := range l.head.Instrs {
		ph, ok := in.(*ssa.Phi)
		if !ok {
			break
		}
		switch ph.Type().Underlying().(type) {
		case *types.Pointer, *types.Interface, *types.Basic:
		default:
			continue
		}
		// enters with the zero value, and some back edge hands the old value on
		zeroEntry, carries := false, false
		for i, e := range ph.Edges {
			pred := l.head.Preds[i]
			if !l.body[pred] {
				if k, ok := e.(*ssa.Const); ok && (k.Value == nil || k.Value.String() == "0" || k.Value.String() == "false") {
					zeroEntry = true
				}
				continue
			}
			if mayBe(e, ph, l, map[ssa.Value]bool{}) {
				carries = true
			}
		}
		if !zeroEntry || !carries {
			continue
		}
		// assigned somewhere in the body at all (otherwise it is a constant)
		assigned := false
		for i, e := range ph.Edges {
			if l.body[l.head.Preds[i]] && e != ssa.Value(ph) {
				assigned = true
			}
		}
		if !assigned {
			continue
		}
		// reads: inside the loop statement only
		web := map[ssa.Value]bool{ph: true}
		for changed := true; changed; {
			changed = false
			for b := range l.body {
				for _, ii := range b.Instrs {
					q, ok := ii.(*ssa.Phi)
					if !ok {
						break
					}
					if web[q] {
						continue
					}
					for _, e := range q.Edges {
						if web[e] {
							web[q] = true
							changed = true
						}
					}
				}
			}
		}
		readInside, usedAfter := false, false
		for v := range web {
			if v.Referrers() == nil {
				continue
			}
			for _, ref := range *v.Referrers() {
				if _, isPhi := ref.(*ssa.Phi); isPhi {
					if ref.Block() != nil && !l.body[ref.Block()] {
						usedAfter = true
					}
					continue
				}
				if _, isDbg := ref.(*ssa.DebugRef); isDbg {
					continue
				}
				if rp := ref.Pos(); rp.IsValid() && (rp < stmt.Pos() || rp > stmt.End()) {
					usedAfter = true
					continue
				}
				if ref.Block() != nil && !l.body[ref.Block()] {
					usedAfter = true
					continue
				}
				readInside = true
			}
		}
		if !readInside || usedAfter {
			continue
		}
		// counters and accumulators are meant to be carried: x = x op y
		if isAccumulator(ph, l) {
			continue
		}
		key := r.MkKey("iterfresh", fnName(fn), "loop-local variable "+ph.Comment)
		r.Fail("iterfresh", key, w.Pos(ph.Pos()), "the variable "+ph.Comment+" is assigned on some paths of the loop body only, read inside the loop only and not reset at the start of an iteration, while the loop's scratch slices are: an iteration that does not assign it sees the value of an earlier iteration", nil)
	}
}

// mayBe: v may be the value of ph itself (through phis inside the loop).
func mayBe(v ssa.Value, ph *ssa.Phi, l *natLoop, seen map[ssa.Value]bool) bool {
	if v == ssa.Value(ph) {
		return true
	}
	if seen[v] {
		return false
	}
	seen[v] = true
	if q, ok := v.(*ssa.Phi); ok && l.body[q.Block()] {
		for _, e := range q.Edges {
			if mayBe(e, ph, l, seen) {
				return true
			}
		}
	}
	return false
}

// isAccumulator: some value assigned to ph in the loop is computed from ph.
func isAccumulator(ph *ssa.Phi, l *natLoop) bool {
	var dep func(v ssa.Value, d int) bool
	dep = func(v ssa.Value, d int) bool {
		if d > 6 {
			return false
		}
		switch x := v.(type) {
		case *ssa.BinOp:
			return x.X == ssa.Value(ph) || x.Y == ssa.Value(ph) || dep(x.X, d+1) || dep(x.Y, d+1)
		case *ssa.Convert:
			return dep(x.X, d+1)
		case *ssa.Phi:
			if x == ph {
				return false
			}
			for _, e := range x.Edges {
				if dep(e, d+1) {
					return true
				}
			}
		}
		return false
	}
	for i, e := range ph.Edges {
		if l.body[l.head.Preds[i]] && dep(e, 0) {
			return true
		}
	}
	return false
}

// cellResetIn: the loop body stores x[:0] back into a variable cell x that
// was allocated outside the loop (a scratch slice shared with a closure).
func cellResetIn(l *natLoop) bool {
	for b := range l.body {
		for _, in := range b.Instrs {
			st, ok := in.(*ssa.Store)
			if !ok {
				continue
			}
			cell, ok := st.Addr.(*ssa.Alloc)
			if !ok || l.body[cell.Block()] {
				continue
			}
			sl, ok := st.Val.(*ssa.Slice)
			if !ok || sl.Low != nil || sl.High == nil {
				continue
			}
			if c, ok := bconstInt(sl.High); !ok || c != 0 {
				continue
			}
			if ld, ok := sl.X.(*ssa.UnOp); ok && ld.X == ssa.Value(cell) {
				return true
			}
		}
	}
	return false
}

// RunIterFreshControl: the scalar-sibling example is reported, its twin is not.
func RunIterFreshControl(r *Report) {
	RunControl(r, "iterfresh", "ctlIterScalar|", func(cw *World, rr *Report, fns []*ssa.Function) {
		RunIterFresh(cw, rr, fns)
		for _, o := range rr.Obls {
			if o.Rule == "iterfresh" && o.Status == StViolation && containsFunc(o.Key, "ctlIterScalarOK") {
				r.Fail("control", r.MkKey("control", "iterfresh", "safe twin "+o.Key), o.Pos, "rule iterfresh reports a safe example: "+o.Detail, nil)
			}
		}
	})
}

// RunFlagClass: OpenType chapter 2, lookupFlag bit enumeration, transcribed:
// IGNORE_BASE_GLYPHS (0x0002) skips glyphs of GDEF class 1, IGNORE_LIGATURES
// (0x0004) class 2, IGNORE_MARKS (0x0008) class 3; USE_MARK_FILTERING_SET
// (0x0010) and the mark attachment type (0xFF00) filter class 3 only.  In
// (*keepFunc).Keep every `return false` is reached under one glyph class and
// one flag test; the set of (class, flag) pairs found must be exactly this
// table: a missing pair means the flag has no effect, a foreign pair means a
// flag skips glyphs of the wrong class.
func RunFlagClass(w *World, r *Report) {
	r.Rule("flagclass: the (GDEF glyph class, lookup flag mask) pairs under which (*keepFunc).Keep returns false are exactly (1,0x0002) (2,0x0004) (3,0x0008) (3,0x0010) (3,0xFF00) — the lookupFlag table of the OpenType specification")
	fn := w.Func("(*opentype/gtab.keepFunc).Keep")
	if fn == nil {
		r.Fatal("(*gtab.keepFunc).Keep does not resolve")
		return
	}
	want := map[[2]int64]bool{{1, 0x2}: true, {2, 0x4}: true, {3, 0x8}: true, {3, 0x10}: true, {3, 0xFF00}: true}
	got := map[[2]int64]token.Pos{}
	for _, b := range fn.Blocks {
		rt, ok := b.Instrs[len(b.Instrs)-1].(*ssa.Return)
		if !ok || len(rt.Results) != 1 {
			continue
		}
		k, ok := rt.Results[0].(*ssa.Const)
		if !ok || k.Value == nil || k.Value.String() != "false" {
			continue
		}
		class, mask := int64(-1), int64(-1)
		for _, g := range guardsOf(b) {
			bo, ok := g.cond.(*ssa.BinOp)
			if !ok {
				continue
			}
			// class test: value loaded from a field GlyphClass == constant, taken
			if bo.Op == token.EQL && g.then {
				if c, isC := bconstInt(bo.Y); isC {
					for v := range backSlice(bo.X) {
						if fa, ok := v.(*ssa.FieldAddr); ok && fieldName(fa) == "GlyphClass" {
							class = c
						}
					}
				}
			}
			// flag test: flags & M != 0, taken; the innermost one decides
			if bo.Op == token.NEQ && g.then && mask < 0 {
				if and, ok := bo.X.(*ssa.BinOp); ok && and.Op == token.AND {
					if c, isC := bconstInt(and.Y); isC {
						mask = c
					}
				} else if ph, ok := bo.X.(*ssa.Phi); ok {
					_ = ph
				}
				// m := flags & MASK; m != 0
				if mask < 0 {
					for v := range backSlice(bo.X) {
						if and, ok := v.(*ssa.BinOp); ok && and.Op == token.AND {
							if c, isC := bconstInt(and.Y); isC {
								mask = c
							}
						}
					}
				}
			}
		}
		if class >= 0 && mask >= 0 {
			got[[2]int64{class, mask}] = rt.Pos()
		} else {
			key := r.MkKey("flagclass", fnName(fn), "return false")
			r.Fail("flagclass", key, w.Pos(rt.Pos()), "a glyph is skipped on a path that is not decided by one glyph class test and one lookup-flag test", nil)
		}
	}
	var pairs [][2]int64
	for p := range want {
		pairs = append(pairs, p)
	}
	for p := range got {
		if !want[p] {
			pairs = append(pairs, p)
		}
	}
	sort.Slice(pairs, func(i, j int) bool {
		if pairs[i][0] != pairs[j][0] {
			return pairs[i][0] < pairs[j][0]
		}
		return pairs[i][1] < pairs[j][1]
	})
	for _, p := range pairs {
		key := r.MkKey("flagclass", fnName(fn), fmt.Sprintf("class %d, flag %#x", p[0], p[1]))
		pos, have := got[p]
		switch {
		case want[p] && have:
			r.OK("flagclass", key, w.Pos(pos), "skipped as the specification says")
		case want[p]:
			r.Fail("flagclass", key, w.Pos(fn.Pos()), fmt.Sprintf("no path skips glyphs of GDEF class %d under lookup flag %#x: the flag has no effect", p[0], p[1]), nil)
		default:
			r.Fail("flagclass", key, w.Pos(pos), fmt.Sprintf("glyphs of GDEF class %d are skipped under lookup flag %#x, which the specification assigns to another class", p[0], p[1]), nil)
		}
	}
	r.Floor("flagclass", 5)
}

// RunMapMiss: the lookup tables of the shaping engine are Go maps keyed by
// glyph (pairs); "no rule for this glyph" is a missing key, and the value of a
// missing key is nil.  Every pointer-like value taken out of a map is
// dereferenced only where the presence flag of the two-value lookup has been
// tested (true edge dominates the use) or the value itself has been compared
// with nil.  This is the one source of nil that adversarial *input* controls
// (which glyphs occur in the text); the non-nil-ness of what the tables
// contain is the reader's business (C02 nilderef).
func RunMapMiss(w *World, r *Report, fns []*ssa.Function) {
	r.Rule("mapmiss: in the functions reachable from Context.Apply / Layouter.Layout every pointer, interface, map or function value obtained from a map lookup is dereferenced (field access, method call, call) only where the lookup's presence flag has been tested (the use is dominated by the true edge of `ok`) or the value has been compared with nil: a glyph without an entry yields the zero value")
	n := 0
	for _, fn := range fns {
		for _, b := range fn.Blocks {
			for _, in := range b.Instrs {
				lk, ok := in.(*ssa.Lookup)
				if !ok {
					continue
				}
				if _, isMap := lk.X.Type().Underlying().(*types.Map); !isMap {
					continue
				}
				var val ssa.Value = lk
				var okv ssa.Value
				if lk.CommaOk {
					val = nil
					if lk.Referrers() != nil {
						for _, ref := range *lk.Referrers() {
							if ex, isEx := ref.(*ssa.Extract); isEx {
								if ex.Index == 0 {
									val = ex
								} else {
									okv = ex
								}
							}
						}
					}
				}
				if val == nil {
					continue
				}
				var uses []ssa.Instruction
				if pointerLike(val.Type()) {
					uses = derefUses(val)
				} else if okv != nil && val.Referrers() != nil {
					// v, ok := m[k] with a plain value (a coverage index): the zero
					// value of a missing key is a valid-looking index, so every use
					// of v belongs behind the test of ok
					for _, ref := range *val.Referrers() {
						if _, isDbg := ref.(*ssa.DebugRef); isDbg {
							continue
						}
						if _, isPhi := ref.(*ssa.Phi); isPhi {
							// merely carried to a join (a search loop that leaves
							// with break when ok): what happens behind the join is
							// decided by other tests and is not followed here
							continue
						}
						uses = append(uses, ref)
					}
				}
				if len(uses) == 0 {
					continue
				}
				n++
				key := r.MkKey("mapmiss", fnName(fn), "value of a map lookup")
				var bad ssa.Instruction
				for _, u := range uses {
					if !guardedByPresence(u.Block(), val, okv) {
						bad = u
						break
					}
				}
				if bad != nil {
					r.Fail("mapmiss", key, w.Pos(bad.Pos()), "the value of the map lookup at "+w.Pos(lk.Pos())+" is used here although neither the presence flag nor the value has been tested on this path: for a key without an entry (a glyph no rule mentions) this is the zero value: a nil dereference, or coverage index 0 — the rule of another glyph", nil)
				} else {
					r.OK("mapmiss", key, w.Pos(lk.Pos()), "every dereference follows the presence test")
				}
			}
		}
	}
	r.Scope["mapmiss_lookups"] = n
}

func pointerLike(t types.Type) bool {
	switch t.Underlying().(type) {
	case *types.Pointer, *types.Interface, *types.Signature:
		return true
	}
	return false
}

// derefUses: instructions that panic when v is nil (through phis of v only
// when v is the sole non-nil source is not attempted: direct uses).
func derefUses(v ssa.Value) []ssa.Instruction {
	var res []ssa.Instruction
	if v.Referrers() == nil {
		return nil
	}
	for _, ref := range *v.Referrers() {
		switch x := ref.(type) {
		case *ssa.FieldAddr:
			if x.X == v {
				res = append(res, x)
			}
		case *ssa.UnOp:
			if x.Op == token.MUL && x.X == v {
				res = append(res, x)
			}
		case *ssa.Store:
			if x.Addr == v {
				res = append(res, x)
			}
		case ssa.CallInstruction:
			c := x.Common()
			if c.Value == v { // invoke on an interface / call of a function value
				res = append(res, x)
			} else if c.StaticCallee() != nil && len(c.Args) > 0 && c.Args[0] == v && c.StaticCallee().Signature.Recv() != nil {
				// method with pointer receiver: the callee dereferences it unless it tests for nil first
				if !calleeTestsReceiver(c.StaticCallee()) {
					res = append(res, x)
				}
			}
		}
	}
	return res
}

// calleeTestsReceiver: the method compares its receiver with nil before using it.
func calleeTestsReceiver(f *ssa.Function) bool {
	if len(f.Params) == 0 || len(f.Blocks) == 0 {
		return false
	}
	recv := f.Params[0]
	if recv.Referrers() == nil {
		return false
	}
	for _, ref := range *recv.Referrers() {
		if bo, ok := ref.(*ssa.BinOp); ok && (bo.Op == token.EQL || bo.Op == token.NEQ) && (isNilConst(bo.X) || isNilConst(bo.Y)) && bo.Block() == f.Blocks[0] {
			return true
		}
	}
	return false
}

func guardedByPresence(b *ssa.BasicBlock, val, okv ssa.Value) bool {
	for _, g := range guardsOf(b) {
		if okv != nil {
			// ok, !ok, ok == true, ok == false, ok != false ...
			if v, pos := boolCore(g.cond); v == okv && pos == g.then {
				return true
			}
		}
		if bo, isBO := g.cond.(*ssa.BinOp); isBO && (bo.X == val || bo.Y == val) && (isNilConst(bo.X) || isNilConst(bo.Y)) {
			if (bo.Op == token.NEQ && g.then) || (bo.Op == token.EQL && !g.then) {
				return true
			}
		}
	}
	return false
}

// boolCore strips negations and comparisons with boolean constants:
// !x, x == false, x != true  ->  (x, false);  x, x == true, x != false -> (x, true).
func boolCore(c ssa.Value) (ssa.Value, bool) {
	pos := true
	for i := 0; i < 4; i++ {
		switch x := c.(type) {
		case *ssa.UnOp:
			if x.Op == token.NOT {
				c, pos = x.X, !pos
				continue
			}
		case *ssa.BinOp:
			if x.Op == token.EQL || x.Op == token.NEQ {
				for _, pr := range [][2]ssa.Value{{x.X, x.Y}, {x.Y, x.X}} {
					if k, ok := pr[1].(*ssa.Const); ok && k.Value != nil && (k.Value.String() == "true" || k.Value.String() == "false") {
						want := k.Value.String() == "true"
						if x.Op == token.NEQ {
							want = !want
						}
						if !want {
							pos = !pos
						}
						c = pr[0]
						goto next
					}
				}
			}
		}
		return c, pos
	next:
	}
	return c, pos
}

// RunCovGate: "each lookup ... applies the first subtable that matches at a
// position": a subtable with a Coverage table matches only glyphs its coverage
// lists.  For every subtable type whose apply method reads a coverage field
// (a field of type coverage.Table, coverage.Set or a slice of sets), every
// return of apply that reports a match (a value other than the constant -1)
// lies behind a lookup in each such field — no path reaches a match without
// having consulted the coverage.
func RunCovGate(w *World, r *Report, fns []*ssa.Function) {
	r.Rule("covgate: in the apply method of every subtable type with coverage fields, each return that reports a match is reachable only through a lookup in every coverage field of the receiver (the glyph at the current position must be covered; class tables or rule sets are no substitute)")
	isCov := func(t types.Type) bool {
		// (lists of coverage sets — the format 3 contexts — are looked up once
		// per context glyph and not at all when the list is empty: not a gate)
		nt, ok := t.(*types.Named)
		return ok && nt.Obj().Pkg() != nil && strings.HasSuffix(nt.Obj().Pkg().Path(), "/opentype/coverage")
	}
	n := 0
	for _, fn := range fns {
		if fn.Name() != "apply" || fn.Signature.Recv() == nil || fn.Blocks == nil {
			continue
		}
		rt := fn.Signature.Recv().Type()
		if p, ok := rt.(*types.Pointer); ok {
			rt = p.Elem()
		}
		st, ok := rt.Underlying().(*types.Struct)
		if !ok {
			continue
		}
		var covFields []int
		for i := 0; i < st.NumFields(); i++ {
			if isCov(st.Field(i).Type()) {
				covFields = append(covFields, i)
			}
		}
		if len(covFields) == 0 {
			continue
		}
		recv := fn.Params[0]
		for _, fi := range covFields {
			n++
			key := r.MkKey("covgate", fnName(fn), "coverage field "+st.Field(fi).Name())
			// blocks that look the field up: Lookup whose map derives from FieldAddr/Field(recv, fi)
			gate := map[*ssa.BasicBlock]bool{}
			for _, b := range fn.Blocks {
				for _, in := range b.Instrs {
					lk, ok := in.(*ssa.Lookup)
					if !ok {
						continue
					}
					for v := range backSlice(lk.X) {
						switch x := v.(type) {
						case *ssa.FieldAddr:
							if x.Field == fi && x.X == ssa.Value(recv) {
								gate[b] = true
							}
						case *ssa.Field:
							if x.Field == fi {
								if ld, ok := x.X.(*ssa.UnOp); ok && ld.X == ssa.Value(recv) {
									gate[b] = true
								}
								if x.X == ssa.Value(recv) {
									gate[b] = true
								}
							}
						}
					}
				}
			}
			// ... and blocks that use the index such a lookup produced (a search
			// loop that leaves with the coverage index, which then selects the record)
			derived := map[ssa.Value]bool{}
			for _, b := range fn.Blocks {
				if !gate[b] {
					continue
				}
				for _, in := range b.Instrs {
					if lk, ok := in.(*ssa.Lookup); ok {
						derived[lk] = true
					}
				}
			}
			for changed := true; changed; {
				changed = false
				for _, b := range fn.Blocks {
					for _, in := range b.Instrs {
						v, ok := in.(ssa.Value)
						if !ok || derived[v] {
							continue
						}
						switch x := in.(type) {
						case *ssa.Extract:
							if derived[x.Tuple] && x.Index == 0 {
								derived[v] = true
								changed = true
							}
						case *ssa.Phi:
							for _, e := range x.Edges {
								if derived[e] {
									derived[v] = true
									changed = true
								}
							}
						}
					}
				}
			}
			for _, b := range fn.Blocks {
				for _, in := range b.Instrs {
					if ia, ok := in.(*ssa.IndexAddr); ok && derived[ia.Index] {
						if _, isLk := ia.Index.(*ssa.Lookup); !isLk {
							gate[b] = true
						}
					}
				}
			}
			hasMatch := false
			for _, b := range fn.Blocks {
				if ret, ok := b.Instrs[len(b.Instrs)-1].(*ssa.Return); ok && len(ret.Results) == 1 {
					if c, isC := bconstInt(ret.Results[0]); !isC || c != -1 {
						hasMatch = true
					}
				}
			}
			if !hasMatch {
				n--
				continue // the method never reports a match (not implemented)
			}
			if len(gate) == 0 {
				r.Fail("covgate", key, w.Pos(fn.Pos()), "the apply method never looks a glyph up in the coverage field "+st.Field(fi).Name()+": glyphs the subtable does not cover are matched", nil)
				continue
			}
			seen := map[*ssa.BasicBlock]bool{}
			var bad *ssa.Return
			var walk func(b *ssa.BasicBlock)
			walk = func(b *ssa.BasicBlock) {
				if seen[b] || gate[b] || bad != nil {
					return
				}
				seen[b] = true
				if ret, ok := b.Instrs[len(b.Instrs)-1].(*ssa.Return); ok && len(ret.Results) == 1 {
					if c, isC := bconstInt(ret.Results[0]); !isC || c != -1 {
						bad = ret
						return
					}
				}
				for _, s := range b.Succs {
					walk(s)
				}
			}
			walk(fn.Blocks[0])
			if bad != nil {
				r.Fail("covgate", key, w.Pos(bad.Pos()), "a match is reported on a path that never looks the glyph up in the coverage field "+st.Field(fi).Name()+": glyphs outside the subtable's coverage can be matched (a class table or a rule set says nothing about coverage)", nil)
			} else {
				r.OK("covgate", key, w.Pos(fn.Pos()), "every match lies behind a lookup in the coverage")
			}
		}
	}
	r.Scope["covgate_fields"] = n
}

// RunEmptyRecord: "each lookup applies the first subtable that matches": a
// positioning subtable matches when its coverage (and classes) select a
// record — also when that record adjusts nothing.  An all-zero or empty record
// is how a font says "no kerning for this pair, and do not look further"; an
// apply method that reports no match because the value records are empty lets
// a later subtable position the pair.  No `return -1` of an apply method may
// depend on a value-record field of the selected record.
func RunEmptyRecord(w *World, r *Report, fns []*ssa.Function) {
	r.Rule("emptyrecord: in the apply methods of the positioning subtables no return of -1 (no match) is control-dependent on a value-record field (a *GposValueRecord) of the record that coverage and classes selected: an empty adjustment is still a match and ends the search through the subtables")
	n := 0
	for _, fn := range fns {
		if fn.Name() != "apply" || fn.Signature.Recv() == nil || fn.Blocks == nil {
			continue
		}
		usesRecords := false
		var cc map[*ssa.BasicBlock][]ssa.Value
		isVR := func(t types.Type) bool {
			p, ok := t.Underlying().(*types.Pointer)
			if !ok {
				return false
			}
			nt, ok := p.Elem().(*types.Named)
			return ok && nt.Obj().Name() == "GposValueRecord"
		}
		for _, b := range fn.Blocks {
			for _, in := range b.Instrs {
				if fa, ok := in.(*ssa.FieldAddr); ok {
					if pt, ok := fa.Type().Underlying().(*types.Pointer); ok && isVR(pt.Elem()) {
						usesRecords = true
					}
				}
			}
		}
		if !usesRecords {
			continue
		}
		n++
		key := r.MkKey("emptyrecord", fnName(fn), "no-match returns")
		cc = controlConds(fn)
		var bad token.Pos
		for _, b := range fn.Blocks {
			ret, ok := b.Instrs[len(b.Instrs)-1].(*ssa.Return)
			if !ok || len(ret.Results) != 1 {
				continue
			}
			if c, isC := bconstInt(ret.Results[0]); !isC || c != -1 {
				continue
			}
			for _, cnd := range cc[b] {
				for v := range backSlice(cnd) {
					if ld, ok := v.(*ssa.UnOp); ok && ld.Op == token.MUL && isVR(ld.Type()) {
						bad = ret.Pos()
					}
				}
			}
		}
		if bad.IsValid() {
			r.Fail("emptyrecord", key, w.Pos(bad), "no match is reported depending on whether the selected record carries value records: a record that adjusts nothing (the font's way to exempt a pair) no longer ends the search, and a later subtable positions the pair", nil)
		} else {
			r.OK("emptyrecord", key, w.Pos(fn.Pos()), "no-match returns do not look at the value records")
		}
	}
	r.Scope["emptyrecord_methods"] = n
}
