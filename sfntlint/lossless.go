package main

import (
	"fmt"
	"go/token"
	"regexp"
	"sort"
	"strings"

	"golang.org/x/tools/go/ssa"
)

// Writer-side scopes of the lossless rule (narrowconv.go): the functions
// reachable from the encoders of a property's tables, restricted to the
// packages that produce those tables, without the reading side.
type losslessScope struct {
	entries []string
	pkgs    []string // package paths relative to the module ("" = root)
}

var losslessScopes = map[string]losslessScope{
	"C01": {entries: []string{"(kern.Info).Encode"}, pkgs: []string{"kern"}},
	"C03": {entries: []string{"header.Write"}, pkgs: []string{"header"}},
	"C08": {entries: []string{"(*opentype/gtab.Info).Encode", "(*opentype/gdef.Table).Encode", "(opentype/coverage.Table).Encode", "(opentype/classdef.Table).Append"},
		pkgs: []string{"opentype/gtab", "opentype/gdef", "opentype/coverage", "opentype/classdef", "opentype/anchor", "opentype/markarray"}},
	"C09": {entries: []string{"(cmap.Table).Encode", "(*cmap.Format0).Encode", "(cmap.Format4).Encode", "(cmap.Format12).Encode"}, pkgs: []string{"cmap"}},
	"C11": {entries: []string{"(glyf.Glyphs).Encode"}, pkgs: []string{"glyf"}},
	"C12": {entries: []string{"(*head.Info).Encode", "(*hmtx.Info).Encode", "(*maxp.Info).Encode", "(*os2.Info).Encode", "(*post.Info).Encode",
		"(*sfnt.Font).makeOS2", "(*sfnt.Font).makeHead", "(*sfnt.Font).makeHmtx", "(*sfnt.Font).makePost"},
		pkgs: []string{"head", "hmtx", "maxp", "os2", "post", ""}},
	"C13": {entries: []string{"(*cff.Font).Write"}, pkgs: []string{"cff"}},
	"C14": {entries: []string{"(*name.Info).Encode", "mac.Encode", "(*post.Info).Encode"}, pkgs: []string{"name", "mac", "post"}},
}

// readerSide: functions of the decoding half that writers reach through
// queries (GetBest, CodeRange, Lookup ...); their narrowing is covered by
// the decoder rules of C02.
var readerSide = regexp.MustCompile(`(^|[.)])(decode|Decode|read|Read|Get|GetBest|Lookup|CodeRange|unicode|FontBBox|FontBBoxPDF|GlyphBBox|Extent|StandardEncoding|expertEncoding)[A-Za-z0-9_]*(\$[0-9]+)?$`)

func losslessFuncs(w *World, r *Report, prop string) []*ssa.Function {
	sc, ok := losslessScopes[prop]
	if !ok {
		return nil
	}
	if prop == "C01" {
		// the whole-font round trip depends on every table writer
		var names []string
		for p := range losslessScopes {
			names = append(names, p)
		}
		sort.Strings(names)
		seenE, seenP := map[string]bool{}, map[string]bool{}
		sc = losslessScope{}
		for _, p := range names {
			for _, e := range losslessScopes[p].entries {
				if !seenE[e] {
					seenE[e] = true
					sc.entries = append(sc.entries, e)
				}
			}
			for _, q := range losslessScopes[p].pkgs {
				if !seenP[q] {
					seenP[q] = true
					sc.pkgs = append(sc.pkgs, q)
				}
			}
		}
	}
	var entries []*ssa.Function
	for _, n := range sc.entries {
		if fn := w.Func(n); fn != nil {
			entries = append(entries, fn)
		} else {
			r.Fatal("lossless: entry %s does not resolve", n)
		}
	}
	inPkg := func(p string) bool {
		for _, q := range sc.pkgs {
			full := modPath
			if q != "" {
				full += "/" + q
			}
			if p == full {
				return true
			}
		}
		return false
	}
	var fns []*ssa.Function
	for fn := range w.libReach(entries) {
		if !inPkg(fnPkgPath(fn)) || readerSide.MatchString(fnName(fn)) {
			continue
		}
		fns = append(fns, fn)
	}
	sort.Slice(fns, func(i, j int) bool { return fnName(fns[i]) < fnName(fns[j]) })
	return fns
}

// RunLosslessFor runs the rule for a property's scope.
func RunLosslessFor(w *World, r *Report, prop string, br *boundsRun) {
	r.Rule("lossless: on the writing side every narrowing integer conversion (to the width of a file field) is shown not to lose anything — the prover derives min(T) <= x <= max(T) from dominating checks, clamps, type ranges, helper contracts and accumulator induction; or the value is written out piecewise (byte(x>>8), byte(x)) and the pieces cover the whole source type or the top piece fits; or the value is a growing accumulator that is tested against the limit before the function returns (panic otherwise); otherwise the site is a violation unless a reviewed entry with a re-checked side condition covers it")
	fns := losslessFuncs(w, r, prop)
	var names []string
	for _, f := range fns {
		names = append(names, fnName(f))
	}
	r.Note("lossless scope: %d functions: %s", len(fns), strings.Join(names, ", "))
	registerGuardConds(w, r, br, fns)
	r.Conds["loca-short-limit"] = condLocaShort(w)
	RunLossless(w, r, "lossless", br, fns)
	r.Floor("lossless", losslessFloor[prop])
}

// hand-confirmed instance counts (a little below today's numbers)
var losslessFloor = map[string]int{"C01": 700, "C03": 6, "C08": 450, "C09": 45, "C11": 20, "C12": 85, "C13": 75, "C14": 25}

// registerGuardConds registers, for every function in scope, the side
// condition "total-guard:<function>": the function accumulates a running
// total (a loop-carried variable that only grows) and cannot return normally
// unless a test has shown that total to be at most 0xFFFF (the failing branch
// panics).  Reviewed entries for counts and partial offsets that are
// summands of that total refer to it, so that removing or weakening the
// test invalidates them.
func registerGuardConds(w *World, r *Report, br *boundsRun, fns []*ssa.Function) {
	for _, fn := range fns {
		fn := fn
		r.Conds["total-guard:"+fnName(fn)] = func() (bool, string) {
			if fn.Blocks == nil {
				return false, "no body"
			}
			p := br.prover(fn)
			var accs []*ssa.Phi
			for _, b := range fn.Blocks {
				for _, in := range b.Instrs {
					ph, ok := in.(*ssa.Phi)
					if !ok {
						break
					}
					if !isIntType(ph.Type()) || !isLoopPhi(ph) {
						continue
					}
					if _, up, _, ok := p.monotoneLeaf(ph); ok && up {
						accs = append(accs, ph)
					}
				}
			}
			if len(accs) == 0 {
				return false, "no growing accumulator in " + fnName(fn)
			}
			for _, g := range fn.Blocks {
				if len(g.Instrs) == 0 || len(g.Succs) != 2 {
					continue
				}
				if _, ok := g.Instrs[len(g.Instrs)-1].(*ssa.If); !ok {
					continue
				}
				for side := 0; side < 2; side++ {
					pass, fail := g.Succs[side], g.Succs[1-side]
					if !endsInPanic(fail) {
						continue
					}
					facts := p.edgeFacts(g, pass)
					for _, a := range accs {
						if !a.Block().Dominates(g) || returnsAvoiding(a.Block(), g, pass) {
							continue
						}
						// a variable that records the accumulator's value of the last iteration
						for _, in := range a.Block().Instrs {
							rec, ok := in.(*ssa.Phi)
							if !ok {
								break
							}
							if rec == a || !isIntType(rec.Type()) {
								continue
							}
							copies, n := true, 0
							for i, e := range rec.Edges {
								if a.Block().Dominates(a.Block().Preds[i]) {
									n++
									if e != ssa.Value(a) {
										copies = false
									}
								}
							}
							if copies && n > 0 {
								nr, _ := blatom(atom{aVal, rec}).scale(-1)
								if p.prove(facts, nr.addc(0xFFFF), g, 2) {
									return true, ""
								}
							}
						}
						neg, _ := blatom(atom{aVal, a}).scale(-1)
						if p.prove(facts, neg.addc(0xFFFF), g, 2) {
							return true, ""
						}
						// total - base <= 0xFFFF for a base offset that is tested as well
						for _, f := range facts {
							for b := range f.e.t {
								if b.k != aVal || b.v == ssa.Value(a) {
									continue
								}
								if d, ok := neg.add(blatom(b)); ok && p.prove(facts, d.addc(0xFFFF), g, 2) {
									nb, _ := blatom(b).scale(-1)
									if p.prove(facts, nb.addc(0xFFFF), g, 2) {
										return true, ""
									}
								}
							}
						}
					}
				}
			}
			return false, "no test in " + fnName(fn) + " bounds a running total by 0xFFFF before every normal return"
		}
	}
}

// condLocaShort: in glyf.encodeLoca the short format (offset/2 in 16 bits)
// is chosen by comparing the last offset with a constant K; K/2 must be
// representable in 16 bits.
func condLocaShort(w *World) func() (bool, string) {
	return func() (bool, string) {
		fn := w.Func("glyf.encodeLoca")
		if fn == nil {
			return false, "glyf.encodeLoca does not resolve"
		}
		for _, b := range fn.Blocks {
			if len(b.Instrs) == 0 {
				continue
			}
			ifi, ok := b.Instrs[len(b.Instrs)-1].(*ssa.If)
			if !ok {
				continue
			}
			cmp, ok := ifi.Cond.(*ssa.BinOp)
			if !ok {
				continue
			}
			k, isC := bconstInt(cmp.Y)
			if !isC {
				continue
			}
			// the left operand is offs[len(offs)-1]
			ld, ok := cmp.X.(*ssa.UnOp)
			if !ok {
				continue
			}
			ia, ok := ld.X.(*ssa.IndexAddr)
			if !ok {
				continue
			}
			if _, isParam := ia.X.(*ssa.Parameter); !isParam {
				continue
			}
			// which successor halves the offsets (the short format)?
			halves := func(start *ssa.BasicBlock, other *ssa.BasicBlock) bool {
				seen := map[*ssa.BasicBlock]bool{}
				var visit func(x *ssa.BasicBlock) bool
				visit = func(x *ssa.BasicBlock) bool {
					if seen[x] || x == other || x.Dominates(other) {
						return false
					}
					seen[x] = true
					if !start.Dominates(x) {
						return false
					}
					for _, in := range x.Instrs {
						if bo, ok := in.(*ssa.BinOp); ok {
							if c, isC := bconstInt(bo.Y); isC && (bo.Op == token.QUO && c == 2 || bo.Op == token.SHR && c == 1) {
								return true
							}
						}
					}
					for _, s2 := range x.Succs {
						if visit(s2) {
							return true
						}
					}
					return false
				}
				return visit(start)
			}
			thenShort := halves(b.Succs[0], b.Succs[1])
			elseShort := halves(b.Succs[1], b.Succs[0])
			limit := k
			switch {
			case cmp.Op == token.LEQ && thenShort && !elseShort:
			case cmp.Op == token.LSS && thenShort && !elseShort:
				limit = k - 1
			case cmp.Op == token.GTR && elseShort && !thenShort:
			case cmp.Op == token.GEQ && elseShort && !thenShort:
				limit = k - 1
			default:
				continue
			}
			if limit/2 <= 0xFFFF {
				return true, ""
			}
			return false, fmt.Sprintf("the short loca format is chosen for a last offset up to %d, but half of that does not fit into 16 bits", limit)
		}
		return false, "no comparison of the last offset with a constant found in glyf.encodeLoca"
	}
}
