package main

// Object invariant of parser.Parser:  0 <= pos <= used <= len(buf).
// Assumed on entry of every method (entry facts), proven at every return of
// every method of the type and before every call of another method on the
// same receiver.  With it the two slice expressions of ReadBytes are in
// bounds (rule bounds), and the window bookkeeping of C17 is decided rather
// than argued.

import (
	"fmt"
	"os"
	"strings"

	"golang.org/x/tools/go/ssa"
)

func isParserMethod(fn *ssa.Function) bool {
	if fn == nil || fn.Signature.Recv() == nil || len(fn.Params) == 0 {
		return false
	}
	return strings.HasSuffix(fnPkgPath(fn), "/parser") && strings.Contains(fn.Params[0].Type().String(), "parser.Parser")
}

// parserInvariant: the three facts on the values of the fields at ins (nil = entry).
func (p *bprover) parserInvariant(ins ssa.Instruction, recv ssa.Value) ([]blin, []string, bool) {
	if p.memAt == nil {
		return nil, nil, false
	}
	pos := p.memAt(ins, recv, "pos")
	used := p.memAt(ins, recv, "used")
	buf := p.memAt(ins, recv, "buf")
	if pos == nil || used == nil || buf == nil {
		return nil, nil, false
	}
	pl, ul, bl := p.linOf(pos), p.linOf(used), p.lenOf(buf)
	d1, ok1 := ul.sub(pl)
	d2, ok2 := bl.sub(ul)
	if !ok1 || !ok2 {
		return nil, nil, false
	}
	return []blin{pl, d1, d2}, []string{"pos >= 0", "pos <= used", "used <= len(buf)"}, true
}

func (p *bprover) parserEntryFacts() []bfact {
	if !isParserMethod(p.fn) {
		return nil
	}
	gs, _, ok := p.parserInvariant(nil, p.fn.Params[0])
	if !ok {
		return nil
	}
	var res []bfact
	for _, g := range gs {
		res = append(res, bfact{e: g, why: "object invariant of parser.Parser"})
	}
	return res
}

// RunParserInvariant proves the invariant at the exits of all methods.
func RunParserInvariant(w *World, r *Report, br *boundsRun) {
	r.Rule("parserinv: every method of parser.Parser re-establishes 0 <= pos <= used <= len(buf) at each of its returns and before each call of another Parser method on the same receiver, given that it holds on entry (and New establishes it); the underlying reader is assumed to honour the io.Reader contract 0 <= n <= len(buf)")
	n := 0
	for _, fn := range w.LibFuncs() {
		if fn.Blocks == nil || !strings.HasSuffix(fnPkgPath(fn), "/parser") {
			continue
		}
		isMeth := isParserMethod(fn)
		isNew := fn.Name() == "New" && fn.Signature.Recv() == nil
		if !isMeth && !isNew {
			continue
		}
		p := br.prover(fn)
		for _, b := range fn.Blocks {
			for _, in := range b.Instrs {
				var recv ssa.Value
				what := ""
				switch x := in.(type) {
				case *ssa.Return:
					if isMeth {
						recv, what = fn.Params[0], "return"
					} else if len(x.Results) == 1 {
						recv, what = x.Results[0], "return of the new parser"
					}
				case *ssa.Call:
					if cal := x.Call.StaticCallee(); cal != nil && isParserMethod(cal) && len(x.Call.Args) > 0 {
						recv, what = x.Call.Args[0], "call of "+cal.Name()
					}
				}
				if recv == nil {
					continue
				}
				n++
				key := r.MkKey("parserinv", fnName(fn), what)
				gs, texts, ok := p.parserInvariant(in, recv)
				if !ok {
					r.Fail("parserinv", key, w.Pos(in.Pos()), "the window fields at this point cannot be identified", nil)
					continue
				}
				failed := ""
				for i, g := range gs {
					if d := os.Getenv("SFNT_PINV"); d != "" && strings.Contains(key, d) {
						fmt.Println("== parserinv", key, texts[i], ":", p.linStr(g))
						for a := range g.t {
							fmt.Printf("   atom %s = %s\n", p.atomStr(a), a.v.Name())
						}
						p.trace = true
						p.proveAt(b, g)
						p.trace = false
					}
					if !p.proveAt(b, g) {
						failed = texts[i]
						break
					}
				}
				if failed == "" {
					r.OK("parserinv", key, w.Pos(in.Pos()), "0 <= pos <= used <= len(buf)")
				} else {
					r.Fail("parserinv", key, w.Pos(in.Pos()), "the window invariant is not re-established here: "+failed+" is not shown", nil)
				}
			}
		}
	}
	r.Floor("parserinv", 12)
}


// parserPostFacts: the values the window fields have right after a call of
// a Parser method (or of parser.New) satisfy the invariant, because that
// method re-establishes it at every return (rule parserinv).
func (p *bprover) parserPostFacts(mv *memVal) []bfact {
	if p.memAt == nil || !strings.Contains(mv.cat, "parser.Parser.") || len(mv.siteIns) == 0 {
		return nil
	}
	// the latest write site must be a call of a Parser method / New
	var call *ssa.Call
	for _, si := range mv.siteIns {
		latest := true
		for _, o := range mv.siteIns {
			if o != si && !instrBefore(o, si) {
				latest = false
			}
		}
		if c, ok := si.(*ssa.Call); ok && latest {
			call = c
		}
	}
	if call == nil || len(mv.sites) != len(mv.siteIns) {
		return nil
	}
	cal := call.Call.StaticCallee()
	var recv ssa.Value
	switch {
	case cal != nil && isParserMethod(cal) && len(call.Call.Args) > 0:
		recv = call.Call.Args[0]
	case cal != nil && cal.Name() == "New" && strings.HasSuffix(fnPkgPath(cal), "/parser"):
		recv = call
	default:
		return nil
	}
	pos := p.memAt(call, recv, "pos#after")
	used := p.memAt(call, recv, "used#after")
	buf := p.memAt(call, recv, "buf#after")
	if pos == nil || used == nil || buf == nil {
		return nil
	}
	if ssa.Value(mv) != pos && ssa.Value(mv) != used && ssa.Value(mv) != buf {
		return nil
	}
	pl, ul, bl := p.linOf(pos), p.linOf(used), p.lenOf(buf)
	var res []bfact
	why := "invariant of parser.Parser after " + call.Call.Value.Name()
	res = append(res, bfact{e: pl, why: why})
	if d, ok := ul.sub(pl); ok {
		res = append(res, bfact{e: d, why: why})
	}
	if d, ok := bl.sub(ul); ok {
		res = append(res, bfact{e: d, why: why})
	}
	return res
}


// parserInvAtJoin: the invariant for the values the window fields have on
// entry to the join block d, when it can be proven there (by case split or
// loop induction); cached.
func (p *bprover) parserInvAtJoin(d *ssa.BasicBlock) []bfact {
	if p.invCache == nil {
		p.invCache = map[*ssa.BasicBlock][]bfact{}
	}
	if f, ok := p.invCache[d]; ok {
		return f
	}
	p.invCache[d] = nil
	gs, _, ok := p.parserInvariant(&blockEntry{b: d}, p.fn.Params[0])
	if !ok {
		return nil
	}
	base := append([]bfact{}, p.entryFacts...)
	for _, g := range guardsOf(d) {
		p.condFacts(g.cond, g.then, &base)
	}
	var res []bfact
	for _, g := range gs {
		if p.prove(base, g, d, 3) {
			res = append(res, bfact{e: g, why: "invariant of parser.Parser at this join"})
			base = append(base, bfact{e: g, why: "invariant of parser.Parser at this join"})
		}
	}
	p.invCache[d] = res
	return res
}
