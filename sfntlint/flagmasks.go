package main

// Rules about flag bytes read from font data: which bits a decoder looks at.

import (
	"fmt"
	"go/token"
	"sort"

	"golang.org/x/tools/go/ssa"
)

// maskUses collects, for an 8-bit value v (and values copied from it), the
// constant masks it is ANDed with.
func maskUses(v ssa.Value) []int64 {
	seen := map[int64]bool{}
	var visit func(x ssa.Value, depth int)
	visit = func(x ssa.Value, depth int) {
		if depth > 4 || x.Referrers() == nil {
			return
		}
		for _, ref := range *x.Referrers() {
			switch y := ref.(type) {
			case *ssa.BinOp:
				if y.Op == token.AND {
					other := y.Y
					if other == x {
						other = y.X
					}
					if c, ok := bconstInt(other); ok {
						seen[c] = true
					}
				}
			case *ssa.Convert:
				visit(y, depth+1)
			case *ssa.Phi:
				visit(y, depth+1)
			}
		}
	}
	visit(v, 0)
	var res []int64
	for c := range seen {
		res = append(res, c)
	}
	sort.Slice(res, func(i, j int) bool { return res[i] < res[j] })
	return res
}

// RunKernFlags: every bit of the coverage byte of a format-0 kern subtable
// is looked at by kern.Read — either as part of the "supported subtable"
// test or as a bit that changes how the values are combined (minimum,
// override).  A bit that is read from the font and then ignored means that
// subtables which differ in it are treated alike.
func RunKernFlags(w *World, r *Report) {
	r.Rule("kernflags: the union of the constant masks kern.Read applies to the coverage byte of a subtable is 0xFF: each of the bits horizontal, minimum, cross-stream, override and the reserved bits is either required to have a fixed value or interpreted")
	fn := w.Func("kern.Read")
	if fn == nil {
		r.Fatal("kern.Read does not resolve")
		return
	}
	key := r.MkKey("kernflags", fnName(fn), "coverage byte")
	// the coverage byte: a uint8 element load that is ANDed with at least two different masks
	var best []int64
	var pos token.Pos
	for _, b := range fn.Blocks {
		for _, in := range b.Instrs {
			ld, ok := in.(*ssa.UnOp)
			if !ok || ld.Op != token.MUL {
				continue
			}
			if _, ok := ld.X.(*ssa.IndexAddr); !ok {
				continue
			}
			if m := maskUses(ld); len(m) > len(best) {
				best, pos = m, ld.Pos()
			}
		}
	}
	if len(best) == 0 {
		r.Fail("kernflags", key, w.Pos(fn.Pos()), "no byte of the subtable header is tested with bit masks", nil)
		return
	}
	var union int64
	for _, m := range best {
		union |= m
	}
	if union&0xFF == 0xFF {
		r.OK("kernflags", key, w.Pos(pos), fmt.Sprintf("masks %v cover all eight bits", hexList(best)))
	} else {
		r.Fail("kernflags", key, w.Pos(pos), fmt.Sprintf("the masks %v applied to the coverage byte leave bits %#x unexamined: subtables that differ only in those bits (e.g. override vs. accumulate) are combined in the same way", hexList(best), 0xFF&^union), nil)
	}
	r.Floor("kernflags", 1)
}

func hexList(xs []int64) []string {
	var res []string
	for _, x := range xs {
		res = append(res, fmt.Sprintf("%#x", x))
	}
	return res
}

// RunGlyfFlagSiblings: the two parsers of the simple-glyph flag stream
// (SimpleGlyph.Decode and removePadding, which decides where the glyph data
// ends when the font is read) look at the same flag bits for structure, and
// neither rejects a glyph because of bits the other does not examine.
func RunGlyfFlagSiblings(w *World, r *Report) {
	r.Rule("flagsiblings: (*glyf.SimpleGlyph).Decode and (*glyf.SimpleGlyph).removePadding apply the same set of structural masks to a flag byte (repeat, x/y short, x/y same) — bits that only one of them tests make the two disagree on where a glyph ends or whether it is valid")
	a, b := w.Func("(*glyf.SimpleGlyph).Decode"), w.Func("(*glyf.SimpleGlyph).removePadding")
	key := r.MkKey("flagsiblings", "glyf.SimpleGlyph", "Decode vs removePadding")
	if a == nil || b == nil {
		r.Fatal("SimpleGlyph.Decode / removePadding do not resolve")
		return
	}
	structural := func(fn *ssa.Function) map[int64]bool {
		res := map[int64]bool{}
		for _, blk := range fn.Blocks {
			for _, in := range blk.Instrs {
				and, ok := in.(*ssa.BinOp)
				if !ok || and.Op != token.AND {
					continue
				}
				c, ok := bconstInt(and.Y)
				if !ok || c <= 0 || c > 0xFF {
					continue
				}
				if b, ok := and.X.Type().Underlying().(interface{ Kind() int }); ok {
					_ = b
				}
				if typeBitsOf(and.X) != 8 {
					continue
				}
				// structural use: the masked value decides a branch
				for _, ref := range *and.Referrers() {
					if cmp, ok := ref.(*ssa.BinOp); ok && (cmp.Op == token.NEQ || cmp.Op == token.EQL) {
						for _, r2 := range *cmp.Referrers() {
							if _, isIf := r2.(*ssa.If); isIf {
								res[c] = true
							}
						}
					}
				}
			}
		}
		return res
	}
	ma, mb := structural(a), structural(b)
	// the on-curve bit (0x01) carries point data, not structure: Decode stores it without branching on it
	var onlyA, onlyB []int64
	for c := range ma {
		if !mb[c] {
			onlyA = append(onlyA, c)
		}
	}
	for c := range mb {
		if !ma[c] {
			onlyB = append(onlyB, c)
		}
	}
	sort.Slice(onlyA, func(i, j int) bool { return onlyA[i] < onlyA[j] })
	sort.Slice(onlyB, func(i, j int) bool { return onlyB[i] < onlyB[j] })
	if len(ma) < 3 {
		r.Fail("flagsiblings", key, w.Pos(a.Pos()), "fewer than three structural flag masks found in SimpleGlyph.Decode", nil)
		return
	}
	if len(onlyA)+len(onlyB) == 0 {
		r.OK("flagsiblings", key, w.Pos(a.Pos()), fmt.Sprintf("both branch on the masks %v", hexList(int64Keys(ma))))
	} else {
		r.Fail("flagsiblings", key, w.Pos(a.Pos()), fmt.Sprintf("Decode branches on flag masks %v that removePadding does not test, removePadding on %v that Decode does not: a glyph accepted when the font is read can be rejected (or cut differently) when it is decoded", hexList(onlyA), hexList(onlyB)), nil)
	}
	r.Floor("flagsiblings", 1)
}

func typeBitsOf(v ssa.Value) int { return btypeBits(v.Type()) }
