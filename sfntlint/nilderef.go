package main

// nilderef: every operation that panics on a nil operand — a field or
// element access through a pointer, a load or store through a pointer, an
// update of a map, a method call on an interface value, a call of a function
// value — is an obligation of the linear prover: the operand is shown to be
// non-nil (the 0/1 atom aNonNil of the prover, fed by nil checks, fresh
// allocations, the case splits over phis and memory merges, and the result
// contracts below).
//
// Assumption A5: pointer, map, function and interface parameters (including
// receivers) of exported functions and methods are non-nil — a caller that
// hands nil to the API is outside "untrusted bytes".  Parameters of
// unexported functions are lifted to the call sites like any other
// precondition.

import (
	"fmt"
	"os"
	"go/ast"
	"go/token"
	"go/types"
	"sort"
	"strings"

	"golang.org/x/tools/go/ssa"
)

func nilable(t types.Type) bool {
	switch t.Underlying().(type) {
	case *types.Pointer, *types.Map, *types.Signature, *types.Interface, *types.Chan:
		return true
	}
	return false
}

// derivedAddr: an address computed from another one (its base is the
// operand that has to be non-nil, and that is a site of its own).
func derivedAddr(v ssa.Value) bool {
	switch v.(type) {
	case *ssa.FieldAddr, *ssa.IndexAddr, *ssa.Alloc, *ssa.Global, *ssa.FreeVar:
		return true
	}
	return false
}

func (p *bprover) nilSitesOf() []boundSite {
	var res []boundSite
	fn := p.fn
	add := func(in ssa.Instruction, ptr ssa.Value, what string) {
		g := p.nonNilOf(ptr)
		if g.isConst() && g.k >= 1 {
			return
		}
		res = append(res, boundSite{fn: fn, ins: in, kind: "nilderef", descr: what + " " + p.srcOf(p.canonVal(ptr)),
			goals: []blin{g.addc(-1)}, gtext: []string{"operand != nil"}})
	}
	for _, b := range fn.Blocks {
		for _, in := range b.Instrs {
			switch x := in.(type) {
			case *ssa.FieldAddr:
				add(x, x.X, "field access through")
			case *ssa.IndexAddr:
				if _, isPtr := x.X.Type().Underlying().(*types.Pointer); isPtr {
					add(x, x.X, "element access through")
				}
			case *ssa.Slice:
				if _, isPtr := x.X.Type().Underlying().(*types.Pointer); isPtr {
					add(x, x.X, "slicing of the array behind")
				}
			case *ssa.UnOp:
				if x.Op == token.MUL && !derivedAddr(x.X) {
					add(x, x.X, "load through")
				}
			case *ssa.Store:
				if !derivedAddr(x.Addr) {
					add(x, x.Addr, "store through")
				}
			case *ssa.MapUpdate:
				add(x, x.Map, "update of the map")
			case ssa.CallInstruction:
				c := x.Common()
				if c.IsInvoke() {
					add(in, c.Value, "method call on the interface value")
				} else if _, isB := c.Value.(*ssa.Builtin); !isB && c.StaticCallee() == nil {
					if _, isMC := c.Value.(*ssa.MakeClosure); !isMC && !fromMapLookup(c.Value) {
						add(in, c.Value, "call of the function value")
					}
				}
			}
		}
	}
	return res
}

// exportedAPI: the function can be called from outside the module with
// arguments the module does not control.
func exportedAPI(fn *ssa.Function) bool {
	if fn.Parent() != nil || fn.Synthetic != "" {
		return false
	}
	if !ast.IsExported(fn.Name()) {
		return false
	}
	if recv := fn.Signature.Recv(); recv != nil {
		t := recv.Type()
		if pt, ok := t.(*types.Pointer); ok {
			t = pt.Elem()
		}
		if nt, ok := t.(*types.Named); ok && !nt.Obj().Exported() {
			return false
		}
	}
	return true
}

// nilEntryFacts: assumption A5.
func (p *bprover) nilEntryFacts() []bfact {
	var out []bfact
	if !exportedAPI(p.fn) {
		return nil
	}
	for _, par := range p.fn.Params {
		if !nilable(par.Type()) {
			continue
		}
		out = append(out, bfact{e: blatom(atom{aNonNil, par}).addc(-1), why: "A5: arguments of the exported API are not nil"})
	}
	return out
}

// nonNilResult: result idx of a library function is non-nil at every return
// (whenOK: at every return whose error result can be nil).
type nnrKey struct {
	f      *ssa.Function
	idx    int
	whenOK bool
}

func (br *boundsRun) nonNilResult(f *ssa.Function, idx int, whenOK bool) bool {
	if br.nnrMemo == nil {
		br.nnrMemo = map[nnrKey]int{}
	}
	k := nnrKey{f, idx, whenOK}
	switch br.nnrMemo[k] {
	case 1:
		return true
	case 2, 3:
		return false
	}
	br.nnrMemo[k] = 3
	ok := func() bool {
		if f.Blocks == nil || !(isLibPkg(fnPkgPath(f)) || isDepPkg(fnPkgPath(f))) {
			return false
		}
		res := f.Signature.Results()
		if idx >= res.Len() || !nilable(res.At(idx).Type()) {
			return false
		}
		ei := errIndex(f.Signature)
		p := br.prover(f)
		n := 0
		for _, b := range f.Blocks {
			if len(b.Instrs) == 0 {
				continue
			}
			ret, isRet := b.Instrs[len(b.Instrs)-1].(*ssa.Return)
			if !isRet || idx >= len(ret.Results) {
				continue
			}
			n++
			if whenOK && ei >= 0 && ei < len(ret.Results) {
				// a return that certainly carries an error does not count
				switch e := ret.Results[ei].(type) {
				case *ssa.MakeInterface:
					continue
				case *ssa.Call:
					if cal := e.Call.StaticCallee(); cal != nil && cal.Pkg != nil {
						pp := cal.Pkg.Pkg.Path()
						if (pp == "errors" && cal.Name() == "New") || (pp == "fmt" && cal.Name() == "Errorf") {
							continue
						}
					}
				}
				if call, ok := ret.Results[ei].(*ssa.Call); ok && br.nonNilCall(call, 0, false) {
					continue
				}
				if br.sentinelError(ret.Results[ei]) {
					continue
				}
				// the error is known to be set on this path
				if br.errKnownSet(p, b, ret.Results[ei]) {
					continue
				}
			}
			if !p.proveAt(b, p.nonNilOf(ret.Results[idx]).addc(-1)) {
				if os.Getenv("SFNT_NILDEBUG") != "" {
					fmt.Printf("nonNilResult %s #%d whenOK=%v: return at %s not shown non-nil (%T)\n", fnName(f), idx, whenOK, br.w.Pos(ret.Pos()), ret.Results[idx])
				}
				return false
			}
		}
		return n > 0
	}()
	if ok {
		br.nnrMemo[k] = 1
	} else {
		br.nnrMemo[k] = 2
	}
	return ok
}

// errKnownSet: the block is dominated by the non-nil side of a test of the
// returned error value.
func (br *boundsRun) errKnownSet(p *bprover, b *ssa.BasicBlock, e ssa.Value) bool {
	for _, g := range guardsOf(b) {
		c, ok := g.cond.(*ssa.BinOp)
		if !ok || (c.Op != token.NEQ && c.Op != token.EQL) {
			continue
		}
		var other ssa.Value
		if k, ok := c.Y.(*ssa.Const); ok && k.Value == nil {
			other = c.X
		} else if k, ok := c.X.(*ssa.Const); ok && k.Value == nil {
			other = c.Y
		}
		if other == nil || (other != e && p.canonVal(other) != p.canonVal(e)) {
			continue
		}
		if (c.Op == token.NEQ) == g.then {
			return true
		}
	}
	return false
}

func (br *boundsRun) nonNilCall(call *ssa.Call, idx int, whenOK bool) bool {
	if c := call.Call.StaticCallee(); c != nil {
		if externalNonNil(c, idx) {
			return true
		}
		return br.nonNilResult(c, idx, whenOK)
	}
	if !call.Call.IsInvoke() {
		return false
	}
	callees := br.w.Callees(call)
	if len(callees) == 0 {
		return false
	}
	for _, c := range callees {
		if !externalNonNil(c, idx) && !br.nonNilResult(c, idx, whenOK) {
			return false
		}
	}
	return true
}

// externalNonNil: functions outside the module whose documented result is
// never nil (when their error is nil).
func externalNonNil(c *ssa.Function, idx int) bool {
	if c.Pkg == nil || idx != 0 {
		return false
	}
	switch c.Pkg.Pkg.Path() + "." + c.Name() {
	case "bytes.NewReader", "bytes.NewBuffer", "bytes.NewBufferString", "strings.NewReader", "strings.NewReplacer",
		"io.NewSectionReader", "io.LimitReader", "io.MultiReader", "io.TeeReader", "bufio.NewReader", "bufio.NewWriter", "bufio.NewScanner",
		"errors.New", "fmt.Errorf", "regexp.MustCompile", "os.Open", "os.Create", "math/big.NewInt", "math/big.NewRat",
		"golang.org/x/text/language.NewMatcher", "sync.NewCond", "time.NewTimer":
		return true
	}
	return false
}

// nilAtomFacts: facts about the non-nil atom of a call result.
func (p *bprover) nilAtomFacts(a atom) []bfact {
	if p.br == nil {
		return nil
	}
	me := blatom(a)
	if os.Getenv("SFNT_NILDEBUG") != "" {
		extra := ""
		if mv, ok := a.v.(*memVal); ok {
			extra = fmt.Sprintf(" key=%s addr=%T base=%T blk=%v", mv.key, mv.addr, mv.base, mv.blk != nil)
		}
		fmt.Printf("nilAtomFacts %s: %T%s\n", fnName(p.fn), a.v, extra)
	}
	switch x := a.v.(type) {
	case *ssa.Call:
		if _, isB := x.Call.Value.(*ssa.Builtin); isB {
			return nil
		}
		if p.br.nonNilCall(x, 0, false) {
			return []bfact{{e: me.addc(-1), why: "the callee never returns nil"}}
		}
	case *ssa.Extract:
		if call, ok := x.Tuple.(*ssa.Call); ok {
			if p.br.nonNilCall(call, x.Index, false) {
				return []bfact{{e: me.addc(-1), why: "the callee never returns nil"}}
			}
		}
		// the value of a map entry visited by range: some key was stored with it
		if nx, ok := x.Tuple.(*ssa.Next); ok && !nx.IsString && x.Index == 2 {
			if rg, ok := nx.Iter.(*ssa.Range); ok && p.br.mapValuesNonNil(rg.X.Type()) {
				return []bfact{{e: me.addc(-1), why: "every value stored into a map of this type is non-nil"}}
			}
		}
	case *ssa.TypeAssert:
		if !x.CommaOk && nilable(x.Type()) {
			// x.(T) to a concrete pointer type can still be a nil pointer
			return nil
		}
	case *ssa.MakeInterface:
		return []bfact{{e: me.addc(-1), why: "interface holding a value"}}
	case *ssa.UnOp:
		// a captured variable that is only ever assigned non-nil values
		if fv, ok := x.X.(*ssa.FreeVar); ok && x.Op == token.MUL && p.br.capturedNonNil(p.fn, fv) {
			return []bfact{{e: me.addc(-1), why: "captured variable that is only assigned non-nil values"}}
		}
		if ia, ok := x.X.(*ssa.IndexAddr); ok && x.Op == token.MUL && p.elemsNonNil(ia.X, 0) {
			return []bfact{{e: me.addc(-1), why: "element of a slice that is built from non-nil elements only"}}
		}
		if fa, ok := x.X.(*ssa.FieldAddr); ok && x.Op == token.MUL && p.br.fieldAlwaysSet(fa) {
			return []bfact{{e: me.addc(-1), why: "field that every constructor of the type sets to a non-nil value and nothing else assigns"}}
		}
	case *ssa.FreeVar:
		if p.br.capturedNonNil(p.fn, x) {
			return []bfact{{e: me.addc(-1), why: "captured variable that is only assigned non-nil values"}}
		}
	case *memVal:
		// the value of a captured variable that this closure does not assign
		if fv, ok := x.addr.(*ssa.FreeVar); ok && p.br.capturedNonNil(p.fn, fv) {
			return []bfact{{e: me.addc(-1), why: "captured variable that is only assigned non-nil values"}}
		}
		// a local variable shared with closures: every store to it, here or in a closure
		if al := p.cellOfKey(x); al != nil && al.Heap && p.br.cellNonNil(p.fn, al) {
			return []bfact{{e: me.addc(-1), why: "variable that is only assigned non-nil values, also by the closures that capture it"}}
		}
		// an element of a local slice that only ever receives non-nil elements
		if ia, ok := x.addr.(*ssa.IndexAddr); ok && p.elemsNonNil(ia.X, 0) {
			return []bfact{{e: me.addc(-1), why: "element of a slice that is built from non-nil elements only"}}
		}
		// a field that is non-nil in every object of its type
		if fa := p.fieldAddrOfKey(x); fa != nil && p.br.fieldAlwaysSet(fa) {
			return []bfact{{e: me.addc(-1), why: "field that every constructor of the type sets to a non-nil value and nothing else assigns"}}
		}
	case *ssa.Slice, *ssa.MakeSlice:
		return nil
	}
	return nil
}

// RunNilDeref reports one obligation per dereference site.
func RunNilDeref(w *World, r *Report, br *boundsRun, fns []*ssa.Function) {
	r.Rule("nilderef: in the functions reachable from the decoder entry points every field or element access, load or store through a pointer, map update, interface method call and call of a function value has an operand the prover shows to be non-nil (nil checks, fresh allocations, case splits over joins, memory-load identification, results of callees that never return nil — or never when their error is nil —, preconditions lifted to every call site); assumption A5: arguments of the exported API are not nil")
	r.Assumes("A5: pointer, map, function and interface arguments (including receivers) of exported functions and methods are not nil; such a call is an error of the caller, not of the input bytes")
	sort.Slice(fns, func(i, j int) bool { return fnName(fns[i]) < fnName(fns[j]) })
	br.nilMode = true
	br.scope = map[*ssa.Function]bool{}
	for _, f := range fns {
		br.scope[f] = true
	}
	results := map[*ssa.Function][]siteResult{}
	decideAll := func(fn *ssa.Function) {
		p := br.prover(fn)
		sites := p.nilSitesOf()
		sort.SliceStable(sites, func(i, j int) bool { return siteLess(br.w, sites[i], sites[j]) })
		var rs []siteResult
		for _, s := range sites {
			ok, why := p.decide(s)
			rs = append(rs, siteResult{site: s, ok: ok, failed: why})
		}
		results[fn] = rs
	}
	for _, fn := range fns {
		decideAll(fn)
	}
	for round := 0; round < 4; round++ {
		progress := false
		for _, fn := range fns {
			if !br.liftable(fn) {
				continue
			}
			p := br.prover(fn)
			newFacts := 0
			seen := map[string]bool{}
			for _, res := range results[fn] {
				if res.ok {
					continue
				}
				for _, g := range res.site.goals {
					if !br.paramOnly(fn, g) || seen[p.linStr(g)] {
						continue
					}
					seen[p.linStr(g)] = true
					if br.provenAtCallers(fn, g) {
						p.entryFacts = append(p.entryFacts, bfact{e: g, why: "precondition established at every call site"})
						newFacts++
					}
				}
			}
			if newFacts > 0 {
				p.gcache = map[*ssa.BasicBlock][]bfact{}
				p.linMemo = map[ssa.Value]blin{}
				p.lenMemo = map[ssa.Value]blin{}
				p.rngMemo = map[atom]irange{}
				p.afMemo = map[atom][]bfact{}
				decideAll(fn)
				progress = true
			}
		}
		if !progress {
			break
		}
	}
	// one obligation per function and operand: all uses of that operand must be safe
	for _, fn := range fns {
		type group struct {
			name   string
			n      int
			first  *boundSite
			failed *boundSite
		}
		var order []string
		groups := map[string]*group{}
		for i := range results[fn] {
			res := results[fn][i]
			s := res.site
			name := s.descr[strings.LastIndex(s.descr, " ")+1:]
			g := groups[name]
			if g == nil {
				g = &group{name: name}
				groups[name] = g
				order = append(order, name)
			}
			g.n++
			if g.first == nil {
				g.first = &results[fn][i].site
			}
			if !res.ok && g.failed == nil {
				g.failed = &results[fn][i].site
			}
		}
		for _, name := range order {
			g := groups[name]
			label := tempName.ReplaceAllString(g.name, "_")
			if strings.Contains(label, "_") || strings.Contains(label, "*") {
				// name the operand by the source text of its first use
				t := br.siteText(*g.first)
				t = strings.TrimSuffix(t, "(…)")
				if i := strings.LastIndex(t, "."); i > 0 {
					t = t[:i]
				}
				label = t
			}
			key := r.MkKey("nilderef", fnName(fn), "uses of "+label)
			if g.failed == nil {
				r.OK("nilderef", key, w.Pos(g.first.ins.Pos()), fmt.Sprintf("not nil at all %d uses", g.n))
				continue
			}
			s := g.failed
			r.Fail("nilderef", key, w.Pos(s.ins.Pos()), fmt.Sprintf("%s (%s): the operand is not shown to be non-nil (no dominating nil check, fresh allocation, non-nil result contract or call-site precondition): a nil value here is a run-time panic", s.descr, nilSiteText(br, *s)), nil)
		}
	}
}

func nilSiteText(br *boundsRun, s boundSite) string {
	t := s.descr
	if i := strings.LastIndex(t, " "); i >= 0 {
		return br.siteText(s) + " via " + t[i+1:]
	}
	return br.siteText(s)
}

// nilContractFacts: on the edge where the error of a call is nil, the
// results that the callee never leaves nil together with a nil error.
func (p *bprover) nilContractFacts(call *ssa.Call, out *[]bfact) {
	if p.br == nil || call.Referrers() == nil {
		return
	}
	for _, ref := range *call.Referrers() {
		ex, ok := ref.(*ssa.Extract)
		if !ok || !nilable(ex.Type()) || isErrorType(ex.Type()) {
			continue
		}
		if p.br.nonNilCall(call, ex.Index, true) {
			*out = append(*out, bfact{e: blatom(atom{aNonNil, p.canonVal(ex)}).addc(-1), why: "the callee returns a value with a nil error"})
		}
	}
}

// capturedNonNil: the free variable fv of closure fn is bound to a cell of
// the enclosing function, and every value ever stored into that cell (in the
// enclosing function or in any of its closures) is shown non-nil where it is
// stored.
func (br *boundsRun) capturedNonNil(fn *ssa.Function, fv *ssa.FreeVar) bool {
	parent := fn.Parent()
	if parent == nil {
		return false
	}
	if br.capMemo == nil {
		br.capMemo = map[*ssa.FreeVar]int{}
	}
	switch br.capMemo[fv] {
	case 1:
		return true
	case 2, 3:
		return false
	}
	br.capMemo[fv] = 3
	ok := func() bool {
		idx := -1
		for i, f := range fn.FreeVars {
			if f == fv {
				idx = i
			}
		}
		if idx < 0 {
			return false
		}
		// the binding at the (unique) closure creation
		var cell ssa.Value
		for _, b := range parent.Blocks {
			for _, in := range b.Instrs {
				mc, ok := in.(*ssa.MakeClosure)
				if !ok || mc.Fn != ssa.Value(fn) || idx >= len(mc.Bindings) {
					continue
				}
				if cell != nil && cell != mc.Bindings[idx] {
					return false
				}
				cell = mc.Bindings[idx]
			}
		}
		switch c := cell.(type) {
		case *ssa.Alloc:
			// every store to the cell, anywhere in the closure family
			fam := append([]*ssa.Function{parent}, parent.AnonFuncs...)
			stores := 0
			for _, f := range fam {
				pf := br.prover(f)
				for _, b := range f.Blocks {
					for _, in := range b.Instrs {
						st, ok := in.(*ssa.Store)
						if !ok {
							continue
						}
						target := st.Addr
						if f != parent {
							// the same cell seen from a sibling closure
							ffv, ok := target.(*ssa.FreeVar)
							if !ok || !br.sameCell(parent, f, ffv, c) {
								continue
							}
						} else if target != ssa.Value(c) {
							continue
						}
						stores++
						if !br.nonNilAt(pf, b, st.Val) {
							return false
						}
					}
				}
			}
			return stores > 0
		case *ssa.FreeVar:
			// captured from a grandparent: same question one level up
			return br.capturedNonNil(parent, c)
		}
		return false
	}()
	if ok {
		br.capMemo[fv] = 1
	} else {
		br.capMemo[fv] = 2
	}
	return ok
}

// sameCell: free variable ffv of closure f (a child of parent) is bound to cell.
func (br *boundsRun) sameCell(parent, f *ssa.Function, ffv *ssa.FreeVar, cell *ssa.Alloc) bool {
	idx := -1
	for i, x := range f.FreeVars {
		if x == ffv {
			idx = i
		}
	}
	if idx < 0 {
		return false
	}
	for _, b := range parent.Blocks {
		for _, in := range b.Instrs {
			if mc, ok := in.(*ssa.MakeClosure); ok && mc.Fn == ssa.Value(f) && idx < len(mc.Bindings) && mc.Bindings[idx] == ssa.Value(cell) {
				return true
			}
		}
	}
	return false
}

// nonNilAt: v is non-nil at the entry of block b of p's function; a
// parameter of a function all of whose callers are known may be shown
// non-nil at every call site instead.
func (br *boundsRun) nonNilAt(p *bprover, b *ssa.BasicBlock, v ssa.Value) bool {
	g := p.nonNilOf(v).addc(-1)
	if p.proveAt(b, g) {
		return true
	}
	if br.liftable(p.fn) && br.paramOnly(p.fn, g) && br.provenAtCallers(p.fn, g) {
		p.entryFacts = append(p.entryFacts, bfact{e: g, why: "precondition established at every call site"})
		p.gcache = map[*ssa.BasicBlock][]bfact{}
		p.afMemo = map[atom][]bfact{}
		return true
	}
	return false
}

// elemsNonNil: every element the slice value can contain was put there by an
// append (or a slice literal) of a value shown non-nil where it is stored.
func (p *bprover) elemsNonNil(v ssa.Value, depth int) bool {
	if depth > 12 {
		return false
	}
	if p.elemBusy == nil {
		p.elemBusy = map[ssa.Value]bool{}
	}
	if p.elemBusy[v] {
		return true // a cycle through a loop phi adds nothing new
	}
	p.elemBusy[v] = true
	defer delete(p.elemBusy, v)
	switch x := v.(type) {
	case *ssa.Const:
		return x.Value == nil
	case *ssa.Phi:
		for _, e := range x.Edges {
			if !p.elemsNonNil(e, depth+1) {
				return false
			}
		}
		return true
	case *ssa.ChangeType:
		return p.elemsNonNil(x.X, depth+1)
	case *ssa.MakeSlice:
		c, ok := bconstInt(x.Len)
		return ok && c == 0
	case *ssa.Call:
		bi, ok := x.Call.Value.(*ssa.Builtin)
		if !ok || bi.Name() != "append" || len(x.Call.Args) != 2 {
			return false
		}
		return p.elemsNonNil(x.Call.Args[0], depth+1) && p.elemsNonNil(x.Call.Args[1], depth+1)
	case *ssa.Slice:
		switch base := x.X.(type) {
		case *ssa.Alloc:
			// a literal or the argument array of a variadic call: all stores into it
			if _, isArr := base.Type().Underlying().(*types.Pointer).Elem().Underlying().(*types.Array); !isArr {
				return false
			}
			n := 0
			for _, b := range p.fn.Blocks {
				for _, in := range b.Instrs {
					st, ok := in.(*ssa.Store)
					if !ok {
						continue
					}
					ia, ok := st.Addr.(*ssa.IndexAddr)
					if !ok || ia.X != ssa.Value(base) {
						continue
					}
					n++
					if !p.proveAt(b, p.nonNilOf(st.Val).addc(-1)) {
						return false
					}
				}
			}
			al, _ := arrayLen(base.Type())
			return int64(n) >= al
		default:
			return p.elemsNonNil(x.X, depth+1)
		}
	case *ssa.UnOp:
		// a local slice variable (cell): every store into the cell
		if x.Op != token.MUL {
			return false
		}
		if al, ok := x.X.(*ssa.Alloc); ok {
			n := 0
			for _, b := range p.fn.Blocks {
				for _, in := range b.Instrs {
					if st, ok := in.(*ssa.Store); ok && st.Addr == ssa.Value(al) {
						n++
						if !p.elemsNonNil(st.Val, depth+1) {
							return false
						}
					}
				}
			}
			return n > 0 && len(p.fn.AnonFuncs) == 0
		}
	case *memVal:
		if al, ok := x.addr.(*ssa.Alloc); ok {
			return p.elemsNonNil(&ssa.UnOp{Op: token.MUL, X: al}, depth+1)
		}
	}
	return false
}

// fieldAlwaysSet: the field is unexported (or of an unexported type), every
// store to it anywhere in the module stores a value shown non-nil there, and
// every object of the struct type is created by a composite literal that
// initialises the field.
func (br *boundsRun) fieldAlwaysSet(fa *ssa.FieldAddr) bool {
	pt, ok := fa.X.Type().Underlying().(*types.Pointer)
	if !ok {
		return false
	}
	named, ok := pt.Elem().(*types.Named)
	if !ok {
		return false
	}
	st, ok := named.Underlying().(*types.Struct)
	if !ok {
		return false
	}
	fld := st.Field(fa.Field)
	if fld.Exported() && named.Obj().Exported() {
		return false // code outside the module can build such an object
	}
	key := typeKey(named) + "." + fld.Name()
	if br.fieldMemo == nil {
		br.fieldMemo = map[string]int{}
	}
	switch br.fieldMemo[key] {
	case 1:
		return true
	case 2, 3:
		return false
	}
	br.fieldMemo[key] = 3
	dbg := func(f string, a ...interface{}) {
		if os.Getenv("SFNT_NILDEBUG") != "" {
			fmt.Printf("fieldAlwaysSet %s: "+f+"\n", append([]interface{}{key}, a...)...)
		}
	}
	ok = func() bool {
		stores := 0
		for _, f := range br.w.LibFuncs() {
			all := append([]*ssa.Function{f}, f.AnonFuncs...)
			for _, g := range all {
				var pg *bprover
				for _, b := range g.Blocks {
					for _, in := range b.Instrs {
						switch x := in.(type) {
						case *ssa.Store:
							fa2, ok := x.Addr.(*ssa.FieldAddr)
							if !ok || fa2.Field != fa.Field || !types.Identical(fa2.X.Type(), fa.X.Type()) {
								// a whole-struct store overwrites the field with something unknown
								if pt2, ok := x.Addr.Type().Underlying().(*types.Pointer); ok && types.Identical(pt2.Elem(), named) {
									if _, isAlloc := x.Addr.(*ssa.Alloc); !isAlloc {
										dbg("whole-struct store at %s", br.w.Pos(x.Pos()))
										return false
									}
								}
								continue
							}
							stores++
							if pg == nil {
								pg = br.prover(g)
							}
							if !br.nonNilAt(pg, b, x.Val) {
								dbg("store of a possibly nil value at %s", br.w.Pos(x.Pos()))
								return false
							}
						case *ssa.Alloc:
							// an object of the type: the field must be initialised in the same block
							if !types.Identical(x.Type().Underlying().(*types.Pointer).Elem(), named) {
								// the type embedded in another aggregate: give up
								if containsType(x.Type().Underlying().(*types.Pointer).Elem(), named, 0) {
									dbg("embedded in %s at %s", x.Type(), br.w.Pos(x.Pos()))
									return false
								}
								continue
							}
							init := false
							for _, in2 := range b.Instrs {
								if st2, ok := in2.(*ssa.Store); ok {
									if fa3, ok := st2.Addr.(*ssa.FieldAddr); ok && fa3.X == ssa.Value(x) && fa3.Field == fa.Field {
										init = true
									}
								}
							}
							if !init {
								dbg("object created without the field at %s", br.w.Pos(x.Pos()))
								return false
							}
						case *ssa.MakeSlice:
							if containsType(x.Type(), named, 0) {
								return false
							}
						}
					}
				}
			}
		}
		dbg("stores %d", stores)
		return stores > 0
	}()
	if ok {
		br.fieldMemo[key] = 1
	} else {
		br.fieldMemo[key] = 2
	}
	return ok
}

func containsType(t types.Type, named *types.Named, depth int) bool {
	if depth > 4 {
		return false
	}
	if types.Identical(t, named) {
		return true
	}
	switch u := t.Underlying().(type) {
	case *types.Struct:
		if t == types.Type(named) {
			return true
		}
		for i := 0; i < u.NumFields(); i++ {
			if containsType(u.Field(i).Type(), named, depth+1) {
				return true
			}
		}
	case *types.Array:
		return containsType(u.Elem(), named, depth+1)
	case *types.Slice:
		return containsType(u.Elem(), named, depth+1)
	}
	return false
}

// fieldAddrOfKey: a FieldAddr instruction of this function for the field a
// memory value stands for (key "F:<type>.<field>@...").
func (p *bprover) fieldAddrOfKey(mv *memVal) *ssa.FieldAddr {
	if fa, ok := mv.addr.(*ssa.FieldAddr); ok {
		return fa
	}
	if !strings.HasPrefix(mv.key, "F:") {
		return nil
	}
	k := mv.key[2:]
	if i := strings.Index(k, "@"); i >= 0 {
		k = k[:i]
	}
	for _, b := range p.fn.Blocks {
		for _, in := range b.Instrs {
			fa, ok := in.(*ssa.FieldAddr)
			if !ok {
				continue
			}
			pt := fa.X.Type().Underlying().(*types.Pointer).Elem()
			st, ok := pt.Underlying().(*types.Struct)
			if !ok {
				continue
			}
			if typeKey(pt)+"."+st.Field(fa.Field).Name() == k {
				return fa
			}
		}
	}
	return nil
}

// fromMapLookup: the function value is the result of a map lookup (rule
// panicreach owns those calls).
func fromMapLookup(v ssa.Value) bool {
	for d := 0; d < 4; d++ {
		switch x := v.(type) {
		case *ssa.Lookup:
			return true
		case *ssa.Extract:
			v = x.Tuple
		case *ssa.Phi:
			if len(x.Edges) == 0 {
				return false
			}
			v = x.Edges[0]
		default:
			return false
		}
	}
	return false
}

// mapValuesNonNil: the map type is a named type of the module and every
// update of a map of that type anywhere in the library stores a value shown
// non-nil where it is stored.
func (br *boundsRun) mapValuesNonNil(t types.Type) bool {
	named, ok := t.(*types.Named)
	if !ok {
		return false
	}
	mt, ok := named.Underlying().(*types.Map)
	if !ok || !nilable(mt.Elem()) {
		return false
	}
	key := "mapval:" + typeKey(named)
	if br.fieldMemo == nil {
		br.fieldMemo = map[string]int{}
	}
	switch br.fieldMemo[key] {
	case 1:
		return true
	case 2, 3:
		return false
	}
	br.fieldMemo[key] = 3
	ok = func() bool {
		n := 0
		for _, f := range br.w.LibFuncs() {
			var pf *bprover
			for _, b := range f.Blocks {
				for _, in := range b.Instrs {
					mu, ok := in.(*ssa.MapUpdate)
					if !ok {
						continue
					}
					// maps of the underlying type may be converted to the named type later
					if !types.Identical(mu.Map.Type().Underlying(), named.Underlying()) {
						continue
					}
					n++
					if pf == nil {
						pf = br.prover(f)
					}
					if !br.nonNilAt(pf, b, mu.Value) {
						return false
					}
				}
			}
		}
		return n > 0
	}()
	if ok {
		br.fieldMemo[key] = 1
	} else {
		br.fieldMemo[key] = 2
	}
	return ok
}

// cellNonNil: every store to the local cell, in the function that declares
// it and in the closures that capture it, stores a non-nil value.
func (br *boundsRun) cellNonNil(fn *ssa.Function, cell *ssa.Alloc) bool {
	key := "cell:" + fnName(fn) + ":" + instrID(cell)
	if br.fieldMemo == nil {
		br.fieldMemo = map[string]int{}
	}
	switch br.fieldMemo[key] {
	case 1:
		return true
	case 2, 3:
		return false
	}
	br.fieldMemo[key] = 3
	ok := func() bool {
		fam := append([]*ssa.Function{fn}, fn.AnonFuncs...)
		stores := 0
		for _, f := range fam {
			pf := br.prover(f)
			for _, b := range f.Blocks {
				for _, in := range b.Instrs {
					st, ok := in.(*ssa.Store)
					if !ok {
						continue
					}
					if f == fn {
						if st.Addr != ssa.Value(cell) {
							continue
						}
					} else {
						ffv, ok := st.Addr.(*ssa.FreeVar)
						if !ok || !br.sameCell(fn, f, ffv, cell) {
							continue
						}
					}
					stores++
					if !br.nonNilAt(pf, b, st.Val) {
						return false
					}
				}
			}
		}
		return stores > 0
	}()
	if ok {
		br.fieldMemo[key] = 1
	} else {
		br.fieldMemo[key] = 2
	}
	return ok
}

// cellOfKey: the local variable a memory value stands for (key "C@<alloc>#...").
func (p *bprover) cellOfKey(mv *memVal) *ssa.Alloc {
	if al, ok := mv.addr.(*ssa.Alloc); ok {
		return al
	}
	if !strings.HasPrefix(mv.key, "C@") {
		return nil
	}
	k := mv.key[2:]
	if i := strings.Index(k, "#"); i >= 0 {
		k = k[:i]
	}
	for _, b := range p.fn.Blocks {
		for _, in := range b.Instrs {
			if al, ok := in.(*ssa.Alloc); ok && valID(al) == k {
				return al
			}
		}
	}
	return nil
}

// sentinelError: the value is loaded from a package-level error variable
// that is assigned exactly once, in the package initialiser, with a freshly
// made error.
func (br *boundsRun) sentinelError(v ssa.Value) bool {
	for d := 0; d < 3; d++ {
		switch x := v.(type) {
		case *ssa.MakeInterface:
			v = x.X
			continue
		case *ssa.ChangeInterface:
			v = x.X
			continue
		case *memVal:
			if g, ok := x.addr.(*ssa.Global); ok {
				return br.globalSetOnce(g)
			}
			return false
		case *ssa.UnOp:
			if g, ok := x.X.(*ssa.Global); ok && x.Op == token.MUL {
				return br.globalSetOnce(g)
			}
			return false
		}
		break
	}
	return false
}

func (br *boundsRun) globalSetOnce(g *ssa.Global) bool {
	key := "global:" + g.String()
	if br.fieldMemo == nil {
		br.fieldMemo = map[string]int{}
	}
	switch br.fieldMemo[key] {
	case 1:
		return true
	case 2:
		return false
	}
	ok := func() bool {
		if g.Pkg == nil {
			return false
		}
		stores := 0
		for _, m := range g.Pkg.Members {
			f, ok := m.(*ssa.Function)
			if !ok {
				continue
			}
			all := append([]*ssa.Function{f}, f.AnonFuncs...)
			for _, h := range all {
				for _, b := range h.Blocks {
					for _, in := range b.Instrs {
						st, ok := in.(*ssa.Store)
						if !ok || st.Addr != ssa.Value(g) {
							continue
						}
						if f.Name() != "init" {
							return false
						}
						stores++
						switch val := st.Val.(type) {
						case *ssa.MakeInterface, *ssa.Alloc:
						case *ssa.Call:
							cal := val.Call.StaticCallee()
							if cal == nil || cal.Pkg == nil {
								return false
							}
							pp := cal.Pkg.Pkg.Path() + "." + cal.Name()
							if pp != "errors.New" && pp != "fmt.Errorf" && !br.nonNilCall(val, 0, false) {
								return false
							}
						default:
							return false
						}
					}
				}
			}
		}
		// methods of the package's types may also store to it
		for _, f := range br.w.LibFuncs() {
			if f.Pkg != g.Pkg || f.Signature.Recv() == nil {
				continue
			}
			for _, b := range f.Blocks {
				for _, in := range b.Instrs {
					if st, ok := in.(*ssa.Store); ok && st.Addr == ssa.Value(g) {
						return false
					}
				}
			}
		}
		return stores == 1
	}()
	if ok {
		br.fieldMemo[key] = 1
	} else {
		br.fieldMemo[key] = 2
	}
	return ok
}

// condReadOutlines: sfnt.Read puts a non-nil outlines object into the font
// it returns: the value stored into the Outlines field of the Font literal
// wraps either a freshly allocated object or the Outlines field of cff.Read's
// result, and cff.Read stores a freshly allocated object into that field of
// the font it returns.
func condReadOutlines(w *World) func() (bool, string) {
	return func() (bool, string) {
		rd := w.Func("sfnt.Read")
		cr := w.Func("cff.Read")
		if rd == nil || cr == nil {
			return false, "sfnt.Read / cff.Read not found"
		}
		// (2) cff.Read
		okCFF := false
		for _, b := range cr.Blocks {
			for _, in := range b.Instrs {
				st, ok := in.(*ssa.Store)
				if !ok {
					continue
				}
				fa, ok := st.Addr.(*ssa.FieldAddr)
				if !ok || fieldName(fa) != "Outlines" {
					continue
				}
				if _, isAlloc := fa.X.(*ssa.Alloc); !isAlloc {
					continue
				}
				if _, isAlloc := st.Val.(*ssa.Alloc); isAlloc && (b.Index == 0 || b.Dominates(cr.Blocks[len(cr.Blocks)-1])) {
					okCFF = true
				}
			}
		}
		if !okCFF {
			return false, "cff.Read does not initialise the Outlines field of the font it builds with a fresh object in its entry block"
		}
		// (1) sfnt.Read
		var okVal func(v ssa.Value, d int) bool
		okVal = func(v ssa.Value, d int) bool {
			if d > 6 {
				return false
			}
			switch x := v.(type) {
			case *ssa.Phi:
				for _, e := range x.Edges {
					if c, isC := e.(*ssa.Const); isC && c.Value == nil {
						continue // the declaration's zero value on paths that return an error or assign later
					}
					if !okVal(e, d+1) {
						return false
					}
				}
				return true
			case *ssa.MakeInterface:
				return okVal(x.X, d+1)
			case *ssa.Alloc:
				return true
			case *ssa.UnOp:
				if fa, ok := x.X.(*ssa.FieldAddr); ok && x.Op == token.MUL && fieldName(fa) == "Outlines" {
					if ex, ok := fa.X.(*ssa.Extract); ok {
						if c, ok := ex.Tuple.(*ssa.Call); ok && c.Call.StaticCallee() == cr {
							return true
						}
					}
				}
			}
			return false
		}
		n := 0
		for _, b := range rd.Blocks {
			for _, in := range b.Instrs {
				st, ok := in.(*ssa.Store)
				if !ok {
					continue
				}
				fa, ok := st.Addr.(*ssa.FieldAddr)
				if !ok || fieldName(fa) != "Outlines" || !strings.HasSuffix(fa.X.Type().String(), "sfnt.Font") {
					continue
				}
				n++
				if !okVal(st.Val, 0) {
					return false, "sfnt.Read stores a value into Font.Outlines that is not a fresh outlines object or cff.Read's Outlines at " + w.Pos(st.Pos())
				}
			}
		}
		if n == 0 {
			return false, "no store to Font.Outlines found in sfnt.Read"
		}
		return true, "sfnt.Read stores a fresh glyf.Outlines or cff.Read's freshly allocated Outlines"
	}
}

// condReadersMeta: the subtable readers readGsubSubtable / readGposSubtable
// are only used as the reader argument of readLookupList, which calls its
// reader with a freshly allocated LookupMetaInfo.
func condReadersMeta(w *World) func() (bool, string) {
	return func() (bool, string) {
		rl := w.Func("opentype/gtab.readLookupList")
		if rl == nil {
			return false, "readLookupList not found"
		}
		var sr *ssa.Parameter
		for _, p := range rl.Params {
			if _, ok := p.Type().Underlying().(*types.Signature); ok {
				sr = p
			}
		}
		if sr == nil {
			return false, "readLookupList has no reader parameter"
		}
		calls := 0
		for _, b := range rl.Blocks {
			for _, in := range b.Instrs {
				c, ok := in.(*ssa.Call)
				if !ok || c.Call.Value != ssa.Value(sr) {
					continue
				}
				calls++
				if len(c.Call.Args) < 3 {
					return false, "reader called with fewer than three arguments"
				}
				if _, isAlloc := c.Call.Args[2].(*ssa.Alloc); !isAlloc {
					return false, "the reader is called with a meta argument that is not a fresh allocation at " + w.Pos(c.Pos())
				}
			}
		}
		if calls == 0 {
			return false, "readLookupList never calls its reader"
		}
		// the readers are referenced only as values handed to readLookupList (or called directly with checked arguments)
		for _, name := range []string{"opentype/gtab.readGsubSubtable", "opentype/gtab.readGposSubtable"} {
			f := w.Func(name)
			if f == nil {
				return false, name + " not found"
			}
			if f.Referrers() != nil {
				for _, ref := range *f.Referrers() {
					switch x := ref.(type) {
					case *ssa.Call:
						if x.Call.Value == ssa.Value(f) {
							return false, name + " is called directly at " + w.Pos(x.Pos())
						}
						if cal := x.Call.StaticCallee(); cal != rl {
							return false, name + " is handed to " + fnName(cal)
						}
					case *ssa.Phi:
						// sr = readGsubSubtable / readGposSubtable chosen by table type, then handed on
						if x.Referrers() != nil {
							for _, r2 := range *x.Referrers() {
								c2, ok := r2.(*ssa.Call)
								if !ok || c2.Call.StaticCallee() != rl {
									return false, name + " flows somewhere other than readLookupList at " + w.Pos(r2.Pos())
								}
							}
						}
					default:
						return false, fmt.Sprintf("%s is used by a %T at %s", name, ref, w.Pos(ref.Pos()))
					}
				}
			}
		}
		return true, "readers only run inside readLookupList, which hands them a fresh LookupMetaInfo"
	}
}
