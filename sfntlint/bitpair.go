package main

// E9-BITS: flag bits. Encoder side: `if info.B { v |= C }`; decoder side:
// `info.B = x&C != 0`, `B: x&M == V`, or disjunctions of such tests. For every
// boolean application field the set of bits the encoder sets must equal the
// set of bits the decoder expects to be 1.

import (
	"fmt"
	"go/ast"
	"go/token"
	"go/types"
	"sort"
	"strings"
)

func RunBitPairs(w *World, r *Report, pkgRel, decName, encName string) {
	path := modPath + "/" + pkgRel
	p := w.All[path]
	if p == nil {
		r.Fatal("package %s not loaded", pkgRel)
		return
	}
	info := p.TypesInfo
	var dfd, efd *ast.FuncDecl
	for _, f := range p.Syntax {
		for _, d := range f.Decls {
			if fd, ok := d.(*ast.FuncDecl); ok && fd.Body != nil {
				if fd.Name.Name == decName {
					dfd = fd
				}
				if fd.Name.Name == encName {
					efd = fd
				}
			}
		}
	}
	if dfd == nil || efd == nil {
		r.Fatal("%s: %s / %s not found", pkgRel, decName, encName)
		return
	}
	fieldOf := func(e ast.Expr) string {
		// info.B  -> "B" when B is a bool field of a struct in this package
		sel, ok := e.(*ast.SelectorExpr)
		if !ok {
			return ""
		}
		if s, ok := info.Selections[sel]; ok && s.Kind() == types.FieldVal {
			if b, ok := s.Type().Underlying().(*types.Basic); ok && b.Kind() == types.Bool {
				if n, ok := derefType(info.TypeOf(sel.X)).(*types.Named); ok && n.Obj().Pkg() == p.Types {
					return n.Obj().Name() + "." + sel.Sel.Name
				}
			}
		}
		return ""
	}
	// encoder: walk ifs whose condition is a single bool field (or its negation is the else branch)
	encBits := map[string]map[int64]bool{} // field -> set of masks OR-ed in when true
	// a flag bit that is only written when another flag is false (else-if
	// chains): the two are independent bits of the format, so the second is
	// lost whenever both are set
	encUnder := map[string]string{}
	var encAlways int64 // bits the encoder sets unconditionally
	var otherConds []ast.Expr       // enclosing conditions that are not flag fields
	encOnlyIf := map[string]string{} // flag -> condition (other than a flag) its bits are written under
	var negs []string
	var walk func(n ast.Node, fields []string)
	walk = func(n ast.Node, fields []string) {
		switch x := n.(type) {
		case nil:
		case *ast.BlockStmt:
			for _, s := range x.List {
				walk(s, fields)
			}
		case *ast.IfStmt:
			// `if info.B {T} else {E}` and its inverted twin `if !info.B {E} else {T}`
			cond, negated := x.Cond, false
			for {
				if pe, ok := cond.(*ast.ParenExpr); ok {
					cond = pe.X
					continue
				}
				if ue, ok := cond.(*ast.UnaryExpr); ok && ue.Op == token.NOT {
					cond, negated = ue.X, !negated
					continue
				}
				break
			}
			f := fieldOf(cond)
			var whenTrue, whenFalse ast.Node = x.Body, x.Else
			if negated {
				whenTrue, whenFalse = x.Else, x.Body
			}
			if whenTrue == ast.Node((*ast.BlockStmt)(nil)) {
				whenTrue = nil
			}
			if f != "" {
				walk(whenTrue, append(append([]string{}, fields...), f))
				// the other branch is under !f: bits set there do not belong to f
				negs = append(negs, f)
				walk(whenFalse, fields)
				negs = negs[:len(negs)-1]
			} else {
				otherConds = append(otherConds, x.Cond)
				walk(x.Body, fields)
				walk(x.Else, fields)
				otherConds = otherConds[:len(otherConds)-1]
			}
		case *ast.AssignStmt:
			if x.Tok == token.OR_ASSIGN && len(x.Rhs) == 1 && len(fields) == 0 && len(negs) == 0 {
				if c, ok := constInt(info, x.Rhs[0]); ok {
					encAlways |= c
				}
			}
			if x.Tok == token.OR_ASSIGN && len(x.Rhs) == 1 && len(fields) > 0 {
				if c, ok := constInt(info, x.Rhs[0]); ok {
					f := fields[len(fields)-1]
					if encBits[f] == nil {
						encBits[f] = map[int64]bool{}
					}
					encBits[f][c] = true
					if len(otherConds) > 0 {
						encOnlyIf[f] = types.ExprString(otherConds[len(otherConds)-1])
					}
					for _, ng := range negs {
						if ng != f {
							encUnder[f] = ng
						}
					}
					if len(fields) > 1 {
						// nested under another flag: written only when that one is set
						encUnder[f] = "!" + fields[len(fields)-2]
					}
				}
			}
			// header.IsFixedPitch = 1 under if info.IsFixedPitch: handled by fieldpair (control)
		case *ast.SwitchStmt:
			for _, cc := range x.Body.List {
				for _, s := range cc.(*ast.CaseClause).Body {
					walk(s, fields)
				}
			}
		}
	}
	walk(efd.Body, nil)
	// decoder: expressions assigned to bool fields
	decBits := map[string]map[int64]bool{}
	decMask := map[string]int64{} // all bits the decoder looks at for the field
	var curMask int64
	var masksOf func(e ast.Expr) (map[int64]bool, bool)
	masksOf = func(e ast.Expr) (map[int64]bool, bool) {
		switch x := e.(type) {
		case *ast.ParenExpr:
			return masksOf(x.X)
		case *ast.BinaryExpr:
			switch x.Op {
			case token.LOR:
				a, ok1 := masksOf(x.X)
				b, ok2 := masksOf(x.Y)
				if ok1 && ok2 {
					for k := range b {
						a[k] = true
					}
					return a, true
				}
				return nil, false
			case token.NEQ, token.EQL:
				// v&C != 0   or   v&M == V
				and, ok := x.X.(*ast.BinaryExpr)
				if p2, isP := x.X.(*ast.ParenExpr); isP {
					and, ok = p2.X.(*ast.BinaryExpr)
				}
				if !ok || and.Op != token.AND {
					return nil, false
				}
				m, ok := constInt(info, and.Y)
				if !ok {
					return nil, false
				}
				v, ok := constInt(info, x.Y)
				if !ok {
					return nil, false
				}
				if x.Op == token.NEQ && v == 0 {
					curMask |= m
					return map[int64]bool{m: true}, true
				}
				if x.Op == token.EQL && v != 0 && v&^m == 0 {
					curMask |= m
					return map[int64]bool{v: true}, true
				}
			}
		}
		return nil, false
	}
	record := func(field string, e ast.Expr) {
		curMask = 0
		if ms, ok := masksOf(e); ok {
			decMask[field] |= curMask
			if decBits[field] == nil {
				decBits[field] = map[int64]bool{}
			}
			for k := range ms {
				decBits[field][k] = true
			}
		}
	}
	ast.Inspect(dfd.Body, func(n ast.Node) bool {
		switch x := n.(type) {
		case *ast.AssignStmt:
			for i, l := range x.Lhs {
				if f := fieldOf(l); f != "" && i < len(x.Rhs) {
					record(f, x.Rhs[i])
				}
			}
		case *ast.CompositeLit:
			if n, ok := derefType(info.TypeOf(x)).(*types.Named); ok && n.Obj().Pkg() == p.Types {
				for _, el := range x.Elts {
					if kv, ok := el.(*ast.KeyValueExpr); ok {
						if id, ok := kv.Key.(*ast.Ident); ok {
							if fo, ok := info.ObjectOf(id).(*types.Var); ok {
								if b, ok := fo.Type().Underlying().(*types.Basic); ok && b.Kind() == types.Bool {
									record(n.Obj().Name()+"."+id.Name, kv.Value)
								}
							}
						}
					}
				}
			}
		}
		return true
	})
	names := map[string]bool{}
	for f := range encBits {
		names[f] = true
	}
	for f := range decBits {
		names[f] = true
	}
	var fs []string
	for f := range names {
		fs = append(fs, f)
	}
	sort.Strings(fs)
	show := func(m map[int64]bool) string {
		var xs []int64
		for x := range m {
			xs = append(xs, x)
		}
		sort.Slice(xs, func(i, j int) bool { return xs[i] < xs[j] })
		var parts []string
		for _, x := range xs {
			parts = append(parts, fmt.Sprintf("%#x", x))
		}
		return "{" + strings.Join(parts, ",") + "}"
	}
	fname := shortName(path) + "." + decName + "/" + encName
	for _, f := range fs {
		key := r.MkKey("bitpair", fname, "flag "+f)
		e, d := encBits[f], decBits[f]
		switch {
		case len(e) == 0:
			r.FailC("bitpair", key, []string{"read-only"}, w.Pos(dfd.Pos()), fmt.Sprintf("flag %s is decoded from bits %s but the encoder sets no bit for it", f, show(d)), nil)
		case len(d) == 0:
			r.FailC("bitpair", key, []string{"write-only"}, w.Pos(efd.Pos()), fmt.Sprintf("flag %s sets bits %s when encoded but is not decoded from a bit test", f, show(e)), nil)
		case encUnder[f] != "" && show(e) == show(d) && !decoderAlsoTests(decMask[f], encBits[strings.TrimPrefix(encUnder[f], "!")]):
			other := encUnder[f]
			when := "false"
			if strings.HasPrefix(other, "!") {
				other, when = other[1:], "true"
			}
			r.FailC("bitpair", key, []string{"dependent"}, w.Pos(efd.Pos()), fmt.Sprintf("flag %s: the encoder writes bits %s only when flag %s is %s, but the decoder reads the two flags from independent bits: the combination is not preserved", f, show(e), other, when), nil)
		case encOnlyIf[f] != "":
			r.FailC("bitpair", key, []string{"conditional"}, w.Pos(efd.Pos()), fmt.Sprintf("flag %s: the encoder writes bits %s only when %s holds, the decoder reads them unconditionally: where the condition fails the flag does not come back", f, show(e), encOnlyIf[f]), nil)
		case overConstrained(f, decMask[f], d, encBits, encUnder, encAlways) != "":
			r.FailC("bitpair", key, []string{"overconstrained"}, w.Pos(dfd.Pos()), fmt.Sprintf("flag %s: the decoder expects bits %s and also requires %s, which the encoder sets independently of this flag: the combination does not come back", f, show(d), overConstrained(f, decMask[f], d, encBits, encUnder, encAlways)), nil)
		case show(e) != show(d):
			r.FailC("bitpair", key, []string{"mismatch"}, w.Pos(efd.Pos()), fmt.Sprintf("flag %s: the encoder sets bits %s but the decoder tests bits %s", f, show(e), show(d)), nil)
		default:
			r.OK("bitpair", key, w.Pos(efd.Pos()), "encoder sets and decoder expects "+show(e))
		}
	}
}

// RunFieldCover: every field of the package's Info struct takes part in a
// field or flag pairing (so a newly added or forgotten field is noticed).
func RunFieldCover(w *World, r *Report, pkgRel string) {
	p := w.All[modPath+"/"+pkgRel]
	if p == nil {
		return
	}
	tn, _ := p.Types.Scope().Lookup("Info").(*types.TypeName)
	if tn == nil {
		r.Fatal("%s: no type Info", pkgRel)
		return
	}
	st, ok := tn.Type().Underlying().(*types.Struct)
	if !ok {
		return
	}
	have := map[string]bool{}
	for _, o := range r.Obls {
		if (o.Rule == "fieldpair" || o.Rule == "bitpair") && strings.Contains(o.Key, "|"+pkgRel+".") {
			parts := strings.Split(o.Key, "|")
			if len(parts) >= 3 {
				f := strings.TrimPrefix(strings.TrimPrefix(parts[2], "field "), "flag ")
				have[f] = true
				// nested paths cover their prefix
				for i := range f {
					if f[i] == '.' {
						have[f[:i]] = true
					}
				}
			}
		}
	}
	for i := 0; i < st.NumFields(); i++ {
		f := st.Field(i)
		name := "Info." + f.Name()
		key := r.MkKey("fieldcover", pkgRel+".Info", "field "+f.Name())
		if have[name] {
			r.OK("fieldcover", key, w.Pos(f.Pos()), "takes part in a reader/writer pairing")
		} else {
			r.FailC("fieldcover", key, []string{"unpaired"}, w.Pos(f.Pos()), fmt.Sprintf("field %s.Info.%s is not paired between reader and writer (not encoded, not decoded, or carried by a variable-length part the pairing does not follow)", pkgRel, f.Name()), nil)
		}
	}
}

// decoderAlsoTests: the decoder's test of a flag looks at all bits of the
// other flag too (sel&0x60 == 0x20: bold only when the regular bit is clear),
// so writing the flag only in that case loses nothing.
func decoderAlsoTests(mask int64, otherBits map[int64]bool) bool {
	if len(otherBits) == 0 {
		return false
	}
	for b := range otherBits {
		if mask&b != b {
			return false
		}
	}
	return true
}

// overConstrained: the decoder's test of flag f requires some bits to be
// clear (sel&0x0240 == 0x0200 requires 0x0040 clear). That is faithful only
// if the encoder never sets those bits together with the flag's own bits:
// they belong to a flag under whose false branch f is written. Returns a
// description of the offending bits, or "".
func overConstrained(f string, mask int64, expect map[int64]bool, encBits map[string]map[int64]bool, encUnder map[string]string, encAlways int64) string {
	var ones int64
	for b := range expect {
		ones |= b
	}
	clear := mask &^ ones
	if clear == 0 {
		return ""
	}
	if clear&encAlways != 0 {
		return fmt.Sprintf("bits %#x to be clear, which the encoder always sets", clear&encAlways)
	}
	var names []string
	for g, bits := range encBits {
		if g == f {
			continue
		}
		for b := range bits {
			if b&clear != 0 && encUnder[f] != g {
				names = append(names, fmt.Sprintf("bits %#x (flag %s) to be clear", b&clear, g))
			}
		}
	}
	sort.Strings(names)
	return strings.Join(names, ", ")
}
