package main

import (
	"fmt"
	"os"
	"sort"

	"golang.org/x/tools/go/ssa"
)

type ssaFn = ssa.Function

func debugDump(w *World, what string, args []string) {
	switch what {
	case "nilderef":
		r := NewReport("C02", "quick", "/tmp/dbg")
		r.W = w
		var entries []*ssa.Function
		for _, n := range c02Entries {
			if fn := w.Func(n); fn != nil {
				entries = append(entries, fn)
			}
		}
		var fns []*ssa.Function
		for fn := range w.libReach(entries) {
			fns = append(fns, fn)
		}
		RunNilDeref(w, r, newBoundsRun(w), fns)
		ok, bad := 0, 0
		for _, o := range r.Obls {
			if o.Status == StOK {
				ok++
			} else {
				bad++
				fmt.Println(o.Pos, o.Key)
			}
		}
		fmt.Println("proved", ok, "unproven", bad)
	case "errprop":
		r := NewReport("C18", "quick", "/tmp/dbg")
		r.W = w
		entries := mustFuncs(w, r, "sfnt.Read", "header.Read", "cff.Read", "opentype/gtab.Read", "opentype/gdef.Read", "head.Read", "maxp.Read", "os2.Read", "post.Read", "kern.Read", "cmap.Decode", "glyf.Decode", "name.Decode", "hmtx.Decode")
		var mod []*ssaFn
		for _, f := range srcFuncsReachable(w, entries) {
			if isLibPkg(fnPkgPath(f)) {
				mod = append(mod, f)
			}
		}
		ef := &errflow{w: w, r: r, anyErr: "errprop"}
		ef.computeIOErr()
		ef.RunErrDrop(mod)
		nok := 0
		for _, o := range r.Obls {
			if o.Status == StOK {
				nok++
				continue
			}
			fmt.Println(o.Status, o.Pos, o.Key, "::", o.Detail)
		}
		fmt.Println("ok", nok)
	case "builderbounds":
		r := NewReport("C19", "quick", "/tmp/dbg")
		r.W = w
		var fns []*ssa.Function
		for _, fn := range srcFuncsReachable(w, mustFuncs(w, r, "opentype/gtab/builder.Parse")) {
			if fnPkgPath(fn) == builderPkg {
				fns = append(fns, fn)
			}
		}
		sort.Slice(fns, func(i, j int) bool { return fnName(fns[i]) < fnName(fns[j]) })
		RunBounds(w, r, "bounds", newBoundsRun(w), fns)
		nok := 0
		for _, o := range r.Obls {
			if o.Status == StOK {
				nok++
				continue
			}
			fmt.Println(o.Status, o.Pos, o.Key, "::", o.Detail)
		}
		fmt.Println("ok", nok)
	case "extremumlocal":
		r := NewReport("C12", "quick", "/tmp/dbg")
		r.W = w
		RunExtremumLocal(w, r, w.LibFuncs())
		for _, o := range r.Obls {
			fmt.Println(o.Status, o.Pos, o.Key, o.How)
		}
	case "narrowarith":
		r := NewReport("C11", "quick", "/tmp/dbg")
		r.W = w
		RunNarrowBound(w, r, w.LibFuncs(), newBoundsRun(w))
		for _, o := range r.Obls {
			fmt.Println(o.Status, o.Pos, o.Key, o.Detail)
		}
	case "writeloops":
		r := NewReport("C18", "quick", "/tmp/dbg")
		r.W = w
		var entries []*ssa.Function
		names := []string{"(*sfnt.Font).Write", "(*sfnt.Font).WriteTrueTypePDF", "(*sfnt.Font).WriteOpenTypeCFFPDF", "(*cff.Font).Write", "header.Write"}
		if len(args) > 0 {
			names = args
		}
		for _, n := range names {
			if fn := w.Func(n); fn != nil {
				entries = append(entries, fn)
			}
		}
		var fns []*ssa.Function
		for fn := range w.libReach(entries) {
			fns = append(fns, fn)
		}
		sort.Slice(fns, func(i, j int) bool { return fnName(fns[i]) < fnName(fns[j]) })
		runLoopTerm(w, r, newBoundsRun(w), fns, false)
		ok, bad := 0, 0
		for _, o := range r.Obls {
			if o.Status == StOK {
				ok++
			} else {
				bad++
				fmt.Println(o.Pos, o.Key, "::", o.Detail)
			}
		}
		fmt.Println("functions", len(fns), "recognised", ok, "unrecognised", bad)
	case "prevsentinel":
		r := NewReport("C09", "quick", "/tmp/dbg")
		r.W = w
		RunPrevSentinel(w, r, w.LibFuncs())
		for _, o := range r.Obls {
			fmt.Println(o.Status, o.Pos, o.Key, o.Detail)
		}
	case "flagreduce":
		r := NewReport("C10", "quick", "/tmp/dbg")
		r.W = w
		RunFlagReduce(w, r, w.LibFuncs(), "all")
		for _, o := range r.Obls {
			if o.Status != StOK {
				fmt.Println(o.Pos, o.Key)
			}
		}
		fmt.Println(len(r.Obls), "boolean loop variables")
	case "ctlbounds":
		cw, err := controlWorld("/verif")
		if err != nil {
			fmt.Println(err)
			return
		}
		debugBounds(cw, args)
	case "memokey":
		r := NewReport("C06", "quick", "/tmp/dbg")
		r.W = w
		RunMemoKey(w, r, w.LibFuncs())
		for _, o := range r.Obls {
			fmt.Println(o.Rule, o.Key, o.Status, o.Detail)
		}
	case "lossless":
		r := NewReport("C12", "quick", "/tmp/dbg")
		r.W = w
		var fns []*ssa.Function
		if len(args) > 0 && args[0] == "reach" {
			var entries []*ssa.Function
			for _, n := range args[1:] {
				if fn := w.Func(n); fn != nil {
					entries = append(entries, fn)
				} else {
					fmt.Println("unresolved entry", n)
				}
			}
			for fn := range w.libReach(entries) {
				fns = append(fns, fn)
			}
		} else {
			fns = append(fns, w.LibFuncs()...)
		}
		total, proved := RunLossless(w, r, "lossless", newBoundsRun(w), fns)
		for _, o := range r.Obls {
			if o.Status != StOK || os.Getenv("SFNT_LLALL") != "" {
				fmt.Println(o.Pos, o.Key, o.Status, o.Detail)
			}
		}
		fmt.Println("total", total, "proved", proved)
	case "callkills":
		debugCallKills(w, args)
	case "writes":
		debugWrites(w, args)
	case "panics":
		debugPanics(w, args)
	case "loops":
		debugLoops(w, args)
	case "contracts":
		debugContracts(w, args)
	case "bounds":
		debugBounds(w, args)
	case "c02inv":
		debugC02Inventory(w)
	case "funcs":
		var names []string
		for n := range w.funcs {
			names = append(names, n)
		}
		sort.Strings(names)
		for _, n := range names {
			fmt.Println(n)
		}
	case "effects":
		e := NewEffects(w)
		var ext []string
		for n, p := range e.unknownExt {
			ext = append(ext, n+" @ "+w.Pos(p))
		}
		sort.Strings(ext)
		fmt.Println("unknown externals:", len(ext))
		for _, x := range ext {
			fmt.Println("  ", x)
		}
		for _, n := range args {
			fn := w.Func(n)
			if fn == nil {
				fmt.Println("unresolved", n)
				continue
			}
			s := e.sums[fn]
			fmt.Println("==", n)
			for _, l := range e.sortedWrites(fn) {
				fmt.Println("  writes", e.locStr(fn, l))
				for _, x := range e.Explain(fn, l) {
					fmt.Println("      ", x)
				}
				if ex := s.storesInto[l]; ex != nil {
					fmt.Print("      stores:")
					for _, x := range ex.roots {
						fmt.Print(" ", e.locStr(fn, x), ";")
					}
					fmt.Print(" cont:")
					for _, x := range ex.cont {
						fmt.Print(" ", e.locStr(fn, x), ";")
					}
					fmt.Println()
				}
			}
			for i, ex := range s.ret {
				fmt.Print("  ret", i, ":")
				for _, x := range ex.roots {
					fmt.Print(" ", e.locStr(fn, x), ";")
				}
				fmt.Print(" cont:")
				for _, x := range ex.cont {
					fmt.Print(" ", e.locStr(fn, x), ";")
				}
				fmt.Println()
			}
		}
	}
}
