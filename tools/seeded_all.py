#!/usr/bin/env python3
"""Regression over all stored seeded defects: each /verif/seeded/<Cxx>-<name>/patch.diff is
applied to a private scratch copy of /repo and the check of its own property is run.
Prints one line per seed (DETECTED/missed) and a summary; checker self-test only.
usage: seeded_all.py [--workers 8] [--only Cxx]"""
import os, sys, glob, subprocess, shutil, threading, queue, argparse, re
sys.path.insert(0, os.path.dirname(os.path.abspath(__file__)))
import mutants as M

def main():
    ap = argparse.ArgumentParser()
    ap.add_argument("--workers", type=int, default=8)
    ap.add_argument("--only", default="")
    a = ap.parse_args()
    q = queue.Queue()
    for d in sorted(glob.glob(os.path.join(M.VERIF, "seeded", "*", "patch.diff"))):
        name = os.path.basename(os.path.dirname(d))
        m = re.match(r"(C\d\d)", name)
        if not m or (a.only and m.group(1) != a.only):
            continue
        q.put((name, m.group(1), d))
    res = {}
    lock = threading.Lock()
    def work():
        while True:
            try:
                name, prop, d = q.get_nowait()
            except queue.Empty:
                return
            sc = M.scratch_copy()
            try:
                p = subprocess.run(["git", "apply", "--whitespace=nowarn", d], cwd=os.path.join(sc, "repo"), capture_output=True, text=True)
                if p.returncode != 0:
                    p = subprocess.run(["patch", "-p1", "-s", "-i", d], cwd=os.path.join(sc, "repo"), capture_output=True, text=True)
                if p.returncode != 0:
                    out = "noapply"
                else:
                    r = subprocess.run([M.BIN, "-property", prop, "-tier", "quick", "-repo", os.path.join(sc, "repo"), "-verif", os.path.join(sc, "verif")],
                                       env=M.ENV, capture_output=True, text=True)
                    rule = ""
                    for l in r.stdout.splitlines():
                        mm = re.search(r": rule (\S+):", l)
                        if mm:
                            rule = mm.group(1); break
                        if "undecided" in l and not rule:
                            rule = "undecided"
                    out = ("DETECTED " + rule) if r.returncode == 1 else ("missed" if r.returncode == 0 else "error rc=%d" % r.returncode)
                with lock:
                    res[name] = out
                    print(name, out, flush=True)
            finally:
                shutil.rmtree(sc, ignore_errors=True)
    ts = [threading.Thread(target=work) for _ in range(a.workers)]
    for t in ts: t.start()
    for t in ts: t.join()
    det = sum(1 for v in res.values() if v.startswith("DETECTED"))
    print("SUMMARY: %d seeds, %d detected under their own property, %d missed, %d other" % (
        len(res), det, sum(1 for v in res.values() if v == "missed"), len(res) - det - sum(1 for v in res.values() if v == "missed")))
    for k in sorted(res):
        if not res[k].startswith("DETECTED"):
            print("  not detected:", k, res[k])
main()
