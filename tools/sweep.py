#!/usr/bin/env python3
"""Mutation sweep: sensitivity audit of the checks (checker self-test only).

Applies each mutant listed by bin/mutgen to a private scratch copy of /repo
(never to /repo), runs `sfntlint -property all` on the copy (one load, all 20
properties) and records which properties report it.  Mutants that no property
reports are the material for triage: either the edit does not break any
property (a redundant guard, an equivalent boundary) or it shows a blind spot.

usage: sweep.py --muts muts.jsonl --out result.jsonl [--workers 12] [--ops guard,bound] [--files prefix,...]
"""
import argparse, json, os, re, shutil, subprocess, sys, threading, queue, time
sys.path.insert(0, os.path.dirname(os.path.abspath(__file__)))
import mutants as M

def worker(wid, q, outfh, lock, binpath):
    sc = M.scratch_copy()
    repo = os.path.join(sc, "repo")
    verif = os.path.join(sc, "verif")
    try:
        while True:
            try:
                m = q.get_nowait()
            except queue.Empty:
                return
            path = os.path.join(repo, m["file"])
            orig = open(path, "rb").read()
            if m["op"] == "rename":
                newname, spans = m["repl"].split("\x00")
                edits = sorted((tuple(int(x) for x in sp.split(":")) for sp in spans.split(",")), reverse=True)
                mutated = orig
                for (a, b) in edits:
                    mutated = mutated[:a] + newname.encode() + mutated[b:]
            else:
                mutated = orig[:m["start"]] + m["repl"].encode() + orig[m["end"]:]
            open(path, "wb").write(mutated)
            t0 = time.time()
            try:
                r = subprocess.run([binpath, "-property", "all", "-tier", "quick", "-repo", repo, "-verif", verif],
                                   env=M.ENV, capture_output=True, text=True, timeout=900)
                out = r.stdout + r.stderr
                rc = r.returncode
            except subprocess.TimeoutExpired:
                out, rc = "TIMEOUT", 124
            finally:
                open(path, "wb").write(orig)
            res = dict(m)
            res["secs"] = round(time.time() - t0, 1)
            if "SWEEP load-failed" in out or rc == 3:
                res["status"] = "nocompile"
                res["detail"] = out[-300:]
            else:
                hits = {}
                cur = []
                for line in out.splitlines():
                    mm = re.match(r"\s+(\S+): rule (\S+): (.*)", line)
                    if mm:
                        cur.append((mm.group(2), mm.group(1), mm.group(3)[:160]))
                    mu = re.match(r"\s+undecided: (.*)", line)
                    if mu:
                        cur.append(("undecided", "-", mu.group(1)[:160]))
                    ms = re.match(r"SWEEP (\S+) exit=(\d+)", line)
                    if ms:
                        if ms.group(2) != "0":
                            hits[ms.group(1)] = cur[:3]
                        cur = []
                res["status"] = "detected" if hits else "missed"
                res["hits"] = hits
                if rc == 124:
                    res["status"] = "timeout"
            with lock:
                outfh.write(json.dumps(res) + "\n")
                outfh.flush()
    finally:
        shutil.rmtree(sc, ignore_errors=True)

def main():
    ap = argparse.ArgumentParser()
    ap.add_argument("--muts", required=True)
    ap.add_argument("--out", required=True)
    ap.add_argument("--workers", type=int, default=12)
    ap.add_argument("--ops", default="")
    ap.add_argument("--files", default="")
    ap.add_argument("--bin", default=M.BIN, help="analyser binary to copy (default bin/sfntlint)")
    a = ap.parse_args()
    done = set()
    if os.path.exists(a.out):
        for l in open(a.out):
            try:
                done.add(json.loads(l)["id"])
            except Exception:
                pass
    ops = set(a.ops.split(",")) if a.ops else None
    files = a.files.split(",") if a.files else None
    q = queue.Queue()
    n = 0
    for l in open(a.muts):
        m = json.loads(l)
        if m["id"] in done or (ops and m["op"] not in ops):
            continue
        if files and not any(m["file"].startswith(f) for f in files):
            continue
        q.put(m)
        n += 1
    print("mutants to run:", n, flush=True)
    # private copy of the analyser so that rebuilding /verif/bin does not disturb the sweep
    binpath = os.path.join(os.environ.get("TMPDIR", "/tmp"), "sfntlint-sweep-%d" % os.getpid())
    shutil.copy2(a.bin, binpath)
    lock = threading.Lock()
    with open(a.out, "a") as outfh:
        ts = [threading.Thread(target=worker, args=(i, q, outfh, lock, binpath)) for i in range(a.workers)]
        for t in ts:
            t.start()
        for t in ts:
            t.join()
    os.remove(binpath)

if __name__ == "__main__":
    main()
