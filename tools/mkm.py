#!/usr/bin/env python3
"""Create a mutant patch from one textual replacement.
usage: mkm.py <name> <property> <expect-rule|silent> <file> <old> <new> [count]
The replacement is made in a scratch worktree of /repo (removed afterwards)."""
import sys, subprocess, tempfile, os
def mk(name, prop, expect, file, old, new, nth=0):
  wt = tempfile.mkdtemp(prefix="mkm-", dir="/tmp"); os.rmdir(wt)
  subprocess.run(["git", "-C", "/repo", "worktree", "add", "-q", "--detach", wt, "HEAD"], check=True)
  try:
      p = os.path.join(wt, file)
      s = open(p).read()
      if s.count(old) == 0:
          raise SystemExit("old text not found")
      parts = s.split(old)
      if nth >= len(parts) - 1:
          raise SystemExit("occurrence out of range")
      s = old.join(parts[:nth + 1]) + new + old.join(parts[nth + 1:])
      open(p, "w").write(s)
      subprocess.run(["gofmt", "-l", p], check=True)
      d = subprocess.run(["git", "-C", wt, "diff"], capture_output=True, text=True).stdout
      env = dict(os.environ, GOFLAGS="-mod=mod", GOPROXY="off", GOSUMDB="off", GOTOOLCHAIN="local", GOWORK="off")
      r = subprocess.run(["go", "build", "./..."], cwd=wt, env=env, capture_output=True, text=True)
      if r.returncode != 0:
          raise SystemExit("does not build:\n" + r.stderr)
      out = os.path.join(os.path.dirname(os.path.dirname(os.path.abspath(__file__))), "mutants", name + ".patch")
      open(out, "w").write(f"# property: {prop}\n# expect: {expect}\n" + d)
      print("wrote", out)
  finally:
      subprocess.run(["git", "-C", "/repo", "worktree", "remove", "--force", wt])

if __name__ == "__main__":
    a = sys.argv[1:]
    mk(a[0], a[1], a[2], a[3], a[4], a[5], int(a[6]) if len(a) > 6 else 0)
