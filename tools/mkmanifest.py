#!/usr/bin/env python3
"""Regenerates /verif/MANIFEST.json from the table below (kept in one place so the
manifest stays valid while checks are added)."""
import json, os
V = os.path.dirname(os.path.dirname(os.path.abspath(__file__)))

BASE_OFF = "cd /repo && go build ./... && go test -vet=off -count=1 -timeout 25m ./..."

claimed = {
 "C16": dict(
  technique="static interprocedural write-effect (ownership/region) analysis over go/ssa + VTA call graph; static lockset for the lazy-init idiom",
  engine="sharedwrite",
  text="Decides the structural clause 'no read-only operation can write memory reachable from the shared font, shared lookup lists or an unsynchronised package variable' for every operation in the quantifier (all non-mutating methods of *sfnt.Font, cff.Font.Write, gtab.NewContext, all gtab.Context and sfnt.Layouter methods, builder.ExplainGsub/Gpos) by a flow- and field-sensitive effect analysis with interprocedural summaries. Absence of such writes is the standard sufficient condition for race-freedom of read-only sharing; it is a static over-approximation of all schedules, which no finite set of test interleavings gives. Level 'other': exact decision of a structural clause, not a proof of the behavioural statement.",
  note="Trusted: go/types, go/ssa, VTA call graph soundness for this code base (no reflection/unsafe/cgo in library packages), the hand-written effect table for stdlib/x-text callees (externals.go; unknown callee receiving tracked memory = undecided = fail). Not covered: that each call's *result* equals its sequential result beyond what follows from absence of shared writes; races inside the Go runtime/stdlib.",
  ref="DESIGN.md §3 E6, §4 C16"),
 "C01": dict(
  technique="static order-sensitivity analysis (map iteration / clock / schedule) over the type-checked syntax with an SSA purity oracle",
  engine="mapdet",
  text="Decides the clause 'writing the same font twice always gives the same bytes, and reading is a function of the bytes': every range over a map, maps.Keys/Values result, clock read, random source, go statement or select reachable from (*Font).Write, WriteTrueTypePDF, WriteOpenTypeCFFPDF and sfnt.Read is shown order-insensitive by a recognised pattern (keyed store injective in the key, commutative reduction, filtered min/max, collect-then-unconditional-sort with a comparator total on the keys, per-cell collection with order-insensitive consumers) with no side-effecting call inside; anything else is a violation naming the loop and the first order-dependent statement. This is a necessary condition of the byte fixed point that holds for every font value, which sampling cannot show (a nondeterministic encoder passes most runs). Level 'other': exact decision of this structural clause only.",
  note="Trusted: go/types, go/ssa, VTA reachability, the purity oracle (effects engine + external table), reviewed table entries in tables/reviewed.json (7 today, each keyed to one construct and one failure class; the name.Encode entries carry a side condition re-checked on every run). Not covered: losslessness of Read∘Write, precedence rules in Read, numeric precision — value-level, no static argument in reach.",
  ref="DESIGN.md §3 E5, §4 C01"),
 "C15": dict(
  technique="static control-dependence / CFG-ordering / value-provenance rules on go/ssa for feature selection and the layout pipeline, plus order-sensitivity analysis (mapdet)",
  engine="c15rules",
  text="Decides structural clauses of the end-to-end layout statement: (required) FindLookups includes the lookups of the language system's required feature on a path that is not control-dependent (post-dominator based) on the caller's feature-switch map, while optional features are; (rangefilter) every lookup index appended to the result is compared with len(LookupList); (mapdet) feature selection, kern conversion and layout contain no order-dependent map iteration (sorted, duplicate-free result; 'the same on every call'); (pipeline) Layout runs cmap lookup, GSUB, advance widths, GPOS in this order on the CFG; (bufreset) the Layouter's reusable buffer is re-used only as buf[:0] and extended only by append/Context.Apply, so nothing of an earlier result can leak into a later one. Each is a line of the statement whose truth is visible in the code's shape for all fonts, strings and switch maps. Level 'other'.",
  note="Trusted: go/types, go/ssa, VTA reachability, purity oracle, 3 reviewed table entries (comparators / coverage invariant). Not covered: kerning values (e.g. how kern subtables are merged), ligature choice, language-matcher semantics, correctness of widths — value-level.",
  ref="DESIGN.md §4 C15"),
 "C18": dict(
  technique="static error-flow and byte-count dataflow on go/ssa (errdrop value-flow, must-accumulate analysis, sort-before-index typestate)",
  engine="errflow",
  text="Decides the error-discipline clauses for every fault position at once: (errdrop) for each of the ~340 calls of a fallible I/O primitive or of a module function that can return an I/O error on the write paths (header.Write, Font.Write*, cff.Font.Write) and read paths (sfnt.Read, header.Read, table readers, parser), the error value flows to a return (possibly wrapped) or panic of the caller — deferred or discarded calls are violations; (bytecount) in header.Write a forward must-analysis shows that at every return the count includes the result of every Write executed so far, including padding writes, and each Write's error is tested with an immediate return; pass-through functions return the callee's count and error together; (sortfirst) no element of a locally sorted slice is read before the sort (header.Read's end-of-file probe uses the sorted table list). A dropped error or unaccumulated n is exactly a fault position at which the call succeeds or mis-reports. Level 'other'.",
  note="Trusted: go/types, go/ssa, VTA reachability, the list of I/O primitives and in-memory sinks (*bytes.Buffer, *strings.Builder, hash), 1 reviewed entry (deferred Close of a read-only file). Not covered: that truncated *content* is detected by each table decoder (overlaps C02), behaviour of short writes inside the destination.",
  ref="DESIGN.md §3 E7, §4 C18"),
 "C20": dict(
  technique="static typestate/discipline rules on go/ssa for name slots and the used-set (control dependence + value identity), regexp-literal evaluation, order-sensitivity analysis (mapdet)",
  engine="nameslots",
  text="Decides structural clauses of the glyph-name statement in MakeGlyphNames, cff.makeNames, makeVariant and PostScriptName: (once) every store of a name into a slot after the used-set exists is control-dependent on an emptiness test of the same slot (existing unique names are kept); (used) every stored name comes from the variant helper or is stored under !used[name] and recorded on the same path, and (variant) the helper records every name it returns (pairwise distinct); (notdef) slot 0 is named .notdef before the used-set is built; (fallback) numbered placeholders fill remaining slots; (mapdet) no name is handed out in map-iteration order ('asking again returns the same names'); (psname) the returned PostScript name is directly ReplaceAllString(family+subfamily, "") with a character class whose complement, computed from the parsed literal, lies inside the PostScript-name alphabet. These hold for every font and every pattern of missing/duplicate names, which tests only sample. Level 'other'.",
  note="Trusted: go/types, go/ssa, regexp/syntax (used only to parse the literal; no library code is executed). Not covered: that inferred names are the right AGL names; installing names (EnsureGlyphNames) beyond determinism. A re-implementation of the sanitiser by other means than a regexp replacement is reported as undecided.",
  ref="DESIGN.md §3 E12, §4 C20"),
 "C05": dict(
  technique="specification-table agreement on the syntax tree and go/ssa: operator coverage, linear normal forms of operand decoders, bias/table pairing, ceil-division obligation via the linear prover, constant folding of the width predicate at the operand counts the specification allows, declaration-scope rule; plus the C02 safety rules on the interpreter",
  engine="t2spec",
  text="Decides structural conformance clauses of the Type 2 interpreter against TN5177 (tables encoded in the checker): (opcoverage) all 47 operators of Appendix A have a case; (numenc) the three integer operand encodings equal b0-139, (b0-247)*256+b1+108, -(b0-251)*256-b1-108 as linear forms of the SSA values, proven not to wrap; (subrbias) the INDEX that is indexed is the one whose length selects the bias 107/1131/32768 at thresholds 1240/33900; (maskbytes) the mask length k satisfies 8k >= nStems and 8k <= nStems+7 (prover, any equivalent formula is accepted); (widthrule) at each of the 10 operators that can come first, the predicate handed to the width setter agrees with the specification at every operand count a valid program can have; (storagescope) the transient array is declared outside the interpreter loops; (bounds/loopterm/loopwork) 265 index/slice sites and 13 loops of the interpreter are safe and terminate (step budget). Level 'other'.",
  note="Trusted: go/types, go/ssa, the TN5177 tables as transcribed in c05.go, assumptions A1-A3. Not covered: the path semantics of each operator (which operands become which curve points, flex1's direction rule, hvcurveto's trailing operand, roll/index/ifelse arithmetic), stack-clearing behaviour, agreement with an independent interpreter on generated programs — value-level.",
  ref="DESIGN.md §4 C05"),
 "C06": dict(
  technique="static aliasing / typestate / shape rules on the type-checked syntax and go/ssa of the shaping engine",
  engine="shaperules",
  text="Decides only structural necessary conditions of the reference-semantics statement (a narrow claim): (slicealias) no re-slice x[:k] is assigned to a different slice variable with both slices subsequently grown by append, in any library function — the matcher's matched-position and skipped-position lists never share a backing array; (firstmatch) applyAt has the shape 'for each subtable in order: next := apply(); if next >= 0 return next; return -1'; (lookuporder) Apply ranges over ctx.lookups in slice order; (scratchclaim/scratchreuse) a slice derived from ctx.scratch escapes into a pushed nested-action record only after ctx.scratch = nil, and the scratch buffer's old contents are never read; (textappend) no append onto an input glyph's Text slice; (flagprecedence) in the glyph filter the mark-attachment-type test is confined to the branch where UseMarkFilteringSet is clear, and that test to the branch where IgnoreMarks is clear (precedence of OpenType chapter 2); (lookaheadbound) the loops matching Lookahead/Backtrack sequences of the three chained-context subtables do not mention the window parameters a/b; (markadvance) in GPOS 4.1/6.1 the value added to the mark's XOffset depends on Advance loads indexed by an up-counter that stops at the mark position; (memokey) no result that keeps a pointer argument is cached under a key computed from only part of what the argument points to (zero instances today; positive controls in /verif/controls for memokey and slicealias). Breaking any of them corrupts ligature bookkeeping, subtable priority, lookup order, nested positions, mark filtering, nested chained contexts, mark placement or attached text for some lookup list. Level 'other'; equality with a reference shaper is value-level and not decided.",
  note="Trusted: go/types, go/ssa. Not covered: everything value-level — that each apply method implements the OpenType rule for its lookup type, the remaining lookup-flag semantics, position fix-ups after insertions/merges, anchor arithmetic.",
  ref="DESIGN.md §3 E13, §4 C06"),
 "C07": dict(
  technique="static typestate and discipline rules on go/ssa (nested-action stack empty on exit, push implies match, scratch claim/release, buffer reset), panic-reachability inventory with closed-set discharge, order-sensitivity analysis",
  engine="shaperules",
  text="Decides structural clauses of 'safe, terminating, text-conserving, history-independent': (stackempty) at every return of applyAtRecursively the nested-action stack is empty — unreachable from pushing calls, guarded by the pushing call reporting no match, or dominated by a reset / the loop test — and (pushimplies) no apply method can return -1 after storing to ctx.stack, so a later Apply on the same Context never sees stale actions; (scratchclaim/scratchreuse, bufreset) reusable buffers of Context and Layouter are claimed before they escape and re-used only as buf[:0]; (textappend) text is accumulated in private buffers; (panicreach) every explicit panic / unchecked assertion / map-function call reachable from Apply or Layout is the default of a type switch over a closed set or a reviewed entry with a re-checked side condition (extension subtables resolved by the reader); (mapdet) no dependence on map iteration order. Level 'other'.",
  note="Trusted: go/types, go/ssa, VTA reachability, effect summaries (to find pushing calls), 2 reviewed entries. Not yet covered here (planned: taintidx/loopterm engines): range guards on lookup/sequence/class/mark-set indices before indexing rule tables, and termination of the scan loop's progress guard; text conservation and output-length bounds beyond the no-append-to-input rule are value-level.",
  ref="DESIGN.md §4 C07"),
 "C08": dict(
  technique="static size-algebra symbolic execution of paired length/encode functions over the type-checked syntax (sizeagree), sibling-formula agreement, dead-overflow-guard detection, order-sensitivity analysis",
  engine="sizeagree",
  text="Decides the clause 'every declared size equals the emitted size': for each of the 24 pairs (encodeLen, encode), (EncodeLen, Encode), (AppendLen, Append) in opentype/{gtab,coverage,classdef,anchor,markarray} a symbolic executor evaluates both functions, per path condition, to canonical polynomials over atoms len(path), paired-size calls, guarded sums over loops, folds and align(); returned length, final buffer length and requested capacity must be identical (19 pairs proven; 5 pairs that need an arithmetic fact outside the algebra are reviewed entries bound to the exact canonical forms they were reviewed for, so any change re-opens them). Also: (twinformula) duplicated size formulas in methods of one type agree (lookup header length in LookupList.encode vs tryReorder, a hand-confirmed required instance); (deadguard) an overflow check guarding a panic/error can fire, i.e. is not applied to an already truncated unsigned value ('refused loudly'); (mapdet) encoders and readers do not depend on map iteration order (sorted before emit). Offsets are laid out from these sizes, so a disagreement shifts every later table for some input; tests only sample shapes. Level 'other'.",
  note="Trusted: go/types; the size algebra's treatment of unknown helper calls as opaque atoms compared textually; reviewed entries (5 sizeagree + 3 mapdet). Not covered: that decode(encode(x)) == x for contents; classdef.Table Append/AppendLen (loop form outside the algebra — explicitly undecided); extension-record arithmetic in tryReorder beyond the header formula; that every uint16 truncation of an offset has an overflow guard.",
  ref="DESIGN.md §3 E8, §4 C08"),
 "C11": dict(
  technique="static size-algebra symbolic execution (sizeagree), writer/reader literal agreement for loca, effect analysis for read-only accessors",
  engine="sizeagree",
  text="Decides structural clauses of the glyf/loca statement: (sizeagree) (*Glyph).encodeLen equals the number of bytes (*Glyph).append emits on every path (nil glyph, simple, composite with/without instructions, alignment padding); (prefixsum) Glyphs.Encode builds loca offsets as prefix sums of encodeLen() of the glyphs it then appends in the same order; (locapair) encodeLoca picks the short format only under a bound T with T/2 <= 0xFFFF, stores offset/2 in the branch announcing format 0 and plain offsets in the branch announcing format 1, and decodeLoca multiplies by 2 exactly in case 0 and handles exactly these formats; (readonly) Components/FixComponents/encodeLen/append/Encode never write memory reachable from the glyphs they are called on. Level 'other'.",
  note="Trusted: go/types, go/ssa, effect summaries. Not covered yet: checked-before-use of loca/glyph/flag data (planned with the taint engine), flag-mask agreement between removePadding and SimpleGlyph.Decode, agreement with an independent decoder.",
  ref="DESIGN.md §3 E8, §4 C11"),
 "C12": dict(
  technique="static reader/writer layout agreement: field-pairing relations extracted from decoder and encoder syntax (wire struct layouts from go/types), flag-bit pairing, big-endian shift rule, field coverage",
  engine="codecpair",
  text="Decides the layout clauses of 'header and metrics tables survive encoding and decoding exactly' for head, OS/2, post, maxp and hhea/hmtx headers: (fieldpair) the reader's relation 'application field <- stream bytes' equals the writer's relation 'stream bytes <- application field' for each of 80 fields, stream offsets being computed from the wire structs' layout (encoding/binary rules evaluated on go/types) or from byte-window positions; (bitpair) for each of 14 boolean fields the bits the writer sets are exactly the bits the reader expects; (fieldcover) every field of each Info struct takes part in a pairing; (bigendian) every multi-byte read/write in these packages uses shifts 8·(n-1-k) with operands wide enough for their shift (the two-halves layout of the code page range is a reviewed entry whose reader/writer byte-lane agreement is re-checked); (wiresize) announced table lengths equal wire struct sizes. A swapped, dropped or mis-sized field falsifies the round trip for every value of that field. Level 'other'.",
  note="Trusted: go/types, the syntactic dependency extraction (flow-insensitive within a function; loops, i.e. variable-length parts, are not followed), 5 reviewed entries. Not covered: derived-field definitions and query methods, numberOfHMetrics compression, caret-slope rational approximation, clamping of derived values — value-level.",
  ref="DESIGN.md §3 E9, §4 C12"),
 "C02": dict(
  technique="linear-fact bounds prover over go/ssa (dominating guards, type ranges, no-wrap arithmetic, loop induction, helper contracts, memory-SSA load identification, join case splits, Fourier-Motzkin with integer tightening); structure-invariant obligations; call-site precondition refutation; loop termination-argument recognition; allocation and expansion-loop bounds; panic-reachability inventory",
  engine="boundsprove",
  text="Decides the structural part of 'value or error, never panic or hang' for the library functions reachable from the 22 decoder entry points and lazy accessors (164 functions): (bounds) each of ~1350 index/slice/division/make sites is proven in range from the code's own checks, or is a reviewed entry with its argument (62, several bound to re-checked side conditions); (fieldinv/continv/outlinesinv) the invariants the prover assumes about decoded structures hold at every store in scope; (precond) parameter conditions under which a helper panics (ReadBytes n > 1024, Discard n < 0) are refuted at all 39 call sites; (covmono) coverage.Read inserts glyph ids in strictly increasing order, which encInfo's panic relies on; (panicreach) 9 explicit panics are closed type switches, refuted preconditions or reviewed; (loopterm) each of 182 loops has a recognised termination argument (bounded counter incl. wrap check for narrow types, shrinking or growing slice, range) or a reviewed one; (loopwork) loops that consume no input have a constant or memory-proportional trip bound and, when nested, a cumulative budget; (allocbound) every make is bounded by 2^20 elements or by data already in memory. Level 'other'.",
  note="Trusted: go/types, go/ssa, VTA call graph, assumptions A1-A3 printed in the evidence (64-bit arithmetic does not wrap upwards, code outside the module writes module memory only through pointers it is given, type-based alias classes), the reviewed arguments. Not covered: nil dereferences and nil-map writes, type assertions without ok (none in scope), total time/allocation summed over loop iterations (only per-allocation and per-loop bounds), stack depth, goroutines; GOARCH other than amd64 for the arithmetic (int is 64-bit).",
  ref="DESIGN.md §3 E1-E4, §4 C02"),
 "C03": dict(
  technique="static count/emit agreement, CFG ordering (must-precede), guard and natural-loop rules on go/ssa for header.Write / header.Read; wire struct sizes from go/types",
  engine="containerrules",
  text="Decides structural lines of the container statement on header.Write/Read: (countemit) the record array, NumTables and first offset derive from the length of the filtered name list actually written; (order) clearChecksum precedes every checksum computation, the directory is sorted by tag before it is serialised, patchChecksum follows all checksums and precedes the first write; (align) offsets advance by lengths rounded to 4 and padding uses modulus 4; (patchguard) the in-place patch touches head[8:12] only and is guarded by len(head) >= 12; (wiresize) offsets = 12 and rawRecord = 16 bytes; (readback) every directory record header.Read validates is stored — no path through the directory loop skips the store; plus mapdet/sortfirst/bigendian on the same functions. Level 'other'.",
  note="Trusted: go/types, go/ssa. Not covered: arithmetic of the checksum and of searchRange/entrySelector/rangeShift, agreement with an independent parser — value-level.",
  ref="DESIGN.md §4 C03"),
 "C17": dict(
  technique="static who-may-write, must-pass-through (atomic state update), dominance and error-flow rules on go/ssa for parser.Parser",
  engine="parserrules",
  text="Decides structural clauses of 'the buffered reader behaves like a plain random-access byte view' for every history at once: (whomaywrite) only New, SeekPos and ReadBytes assign the window state (buf, from, pos, used) and only SeekPos/ReadBytes/Size touch the underlying reader; (viareadbytes) every fixed-size and bulk read obtains its bytes through ReadBytes; (seekfirst) every store that abandons the window is dominated by the Seek of the underlying reader; (atomicrefill) once the window has been compacted, from, pos and used are all updated on every path to every return; (sizeguard) requests larger than the buffer are rejected before any state changes; (errnodata) a possibly non-nil error is never accompanied by data; (eofmap) an error becomes nil only under err == io.EOF && l > 0; (posformula) Pos is from + pos; (narrowarith) no count is multiplied in uint8/uint16 before it is used as a size; bigendian on ReadUint16/32; errdrop on all methods. Level 'other'.",
  note="Trusted: go/types, go/ssa. Not covered: the cache-window invariant itself (that buf[pos:used] mirrors input[from+pos:from+used] after every call sequence) — an inductive argument over runtime values that these necessary conditions do not replace.",
  ref="DESIGN.md §4 C17"),
 "C19": dict(
  technique="static table agreement between parser and printer (literal evaluation), goroutine/channel discipline, typestate and loop-shape rules on syntax and go/ssa",
  engine="dslagree",
  text="Decides structural clauses of 'faithful, total notation': (flagnames) the flag names the printer writes are exactly those the parser accepts for the same constants; (headers) each header GSUBn/GPOSn the parser dispatches on leads to a reader building lookup type n and the printer derives headers from the lookup type with the same prefixes; (exhaustive) all 17 subtable types the parser can build have a case in the printer's type switches; (goroutine) every goroutine closes the channel it feeds on its single exit, no range over such a channel can be left early (return/break/goto/never-returning call), and Parse's deferred recovery drains the token channel the parser reads, converts only *parseError and re-panics the rest — so no schedule leaves a goroutine blocked; (lineinfo) every lexer item carries its line; (unsignedcountdown) no unsigned down-counting loop with a >= test; (dupassign) no repeated reset statement in a reset block; (stablesort) the printer's sort by a key projection is stable. Level 'other'.",
  note="Trusted: go/types, go/ssa, 1 reviewed entry (right-to-left flag has no syntax; outside the quantifier). Not covered: equality Parse(Explain(L)) == L of contents, meaning of the documented syntax — value-level.",
  ref="DESIGN.md §3 E11, §4 C19"),
 "C09": dict(
  technique="static literal-table agreement (accepted formats vs decoder table; subtable preference order), panic-reachability inventory, order-sensitivity analysis, big-endian rule",
  engine="cmaprules",
  text="Decides structural clauses of the cmap statement: (tabformats) every subtable format cmap.Decode lets through has an entry in cmap.decoders, which is never modified, so Get/GetNoLang/GetBest never call a nil function for decoded tables (the two map-call sites are reviewed entries bound to this re-checked condition); (bestorder) GetBest's candidate list, evaluated from the literal, tries full-Unicode (3,10),(0,4) before BMP (3,1),(0,3) before legacy (1,0) and returns the first that decodes; (mapdet) Format4/Format12/Table.Encode, GetNoLang and InstallCMap do not depend on map iteration order (keys sorted with total comparators before emitting); (bigendian) all 34 multi-byte reads/writes in package cmap are big-endian; (sortfirst, narrowarith). Level 'other'.",
  note="Trusted: go/types, go/ssa, the classification of (platform, encoding) pairs into full/BMP/legacy (spec knowledge encoded in the checker). Not covered: correctness of the format-4 segmentation and idRangeOffset arithmetic, format-12 run detection, agreement with an independent decoder — value-level (the independent seeds that change such arithmetic are not detected).",
  ref="DESIGN.md §4 C09"),
 "C10": dict(
  technique="static sort (old/new glyph-id numbering) dataflow on go/ssa over the subsetter, closure-pairing rule, who-may-write effect analysis for the source font, paired-append rule",
  engine="gidsort",
  text="Decides structural clauses of the Subset statement: (gidsort) in the subsetter every glyph id stored into a rebuilt table (map keys, slice elements, struct fields of glyf/gtab/cmap values) carries the NEW numbering — values are sorted old/new by provenance (s.newGid lookups, loop indices over the retained list = new; loop values, source-table keys = old) and cmap lookups are made on the source font; (closurepair) a component appended to the retained list is recorded under its own old id; (dropped) every rebuilt subtable is appended to the result; (pairedappend) CFF Private and FontMatrices are extended in step; (encodingpos) the CFF subset encoding is filled code by code from the original; (readonly) Font.Subset/Outlines.Subset/FixComponents do not write memory reachable from the source font (effects engine); (covorder) coverage indices of rebuilt subtables are not assigned in map order — two genuine violations listed as known findings. Level 'other'.",
  note="Trusted: go/types, go/ssa, the provenance table (which expressions introduce old/new ids). Not covered: that the closure is complete for GSUB-reachable glyphs, value-level correctness of loca/hmtx re-indexing, CID charset arithmetic — value-level.",
  ref="DESIGN.md §3 E10, §4 C10"),
 "C13": dict(
  technique="static writer/reader type agreement for CFF DICT operators on go/ssa (stored Go type vs typed getter, omitted-default vs reader default), order-sensitivity analysis, big-endian rule",
  engine="dictpair",
  text="Decides structural clauses of the CFF round trip: (dicttypes) for each of 33 operator writes the Go type stored (int32 from an integer, int32 cut from a float, float64, string) can carry what the reader's getter (getInt/getFloat/getString/…) extracts — a real operand truncated to int32 but read as a real, or a real read with getInt, is a violation for every font with such a value; (dictdefaults) for 16 operators the constant the writer compares with before omitting the operator equals the default the reader substitutes (by constant evaluation); (mapdet) DICT keys are sorted before encoding; (bigendian) in package cff. Level 'other'.",
  note="Trusted: go/types, go/ssa. Not covered: numeric boundaries (INDEX offset size, real-number digits, encoding/charset/FDSelect format choice), the offset fixed-point loop, width selection — value-level; the independent seeds that move such boundaries are not detected.",
  ref="DESIGN.md §3 E9-DICT, §4 C13"),
 "C14": dict(
  technique="static literal evaluation (inverse / injective tables), effect-based purity, control-dependence and shape rules on go/ssa and syntax",
  engine="namerules",
  text="Decides structural clauses of 'names and tags survive their encodings': (tabinverse) mac.dec and mac.enc are mutually inverse literals that are never modified; (tabinjective) name.appleBCP and name.msBCP are value-injective, as required by Encode's inverse scan (msBCP's es-ES duplicate is a listed known finding); (pure) otfToBCP47, bcp47ToOtf and the codecs keep no state between calls; (xext) otfToBCP47 adds the -x-<script>[-<lang>] extension on every successful return and bcp47ToOtf searches the non-injective tables only when a tag has no such extension; (utf16) surrogate handling is delegated to unicode/utf16 and the unit loop covers every complete unit; (macroman1) post format 1.0 is chosen only for a list of exactly the standard length; (nameids) keys() enumerates every id 0..maxID without exceptions plus Extra; bigendian in name/post/mac. Level 'other'.",
  note="Trusted: go/types, go/ssa, effect summaries. Not covered: string-level round trips, Tables.Choose, representability of strings in Mac Roman. A hand-written UTF-16 decoder would be reported as undecided (the rule vouches only for the delegation to the standard library).",
  ref="DESIGN.md §4 C14"),
}

pending_reason = "not claimed yet: the engines this property needs are still being built (DESIGN.md §9 build order); no check is registered until it runs exact on the unchanged tree"
not_applicable = {
 "C04": "glyph -> Type 2 charstring compilation is a relation between runtime coordinate values and emitted operand bytes (shortest-path optimiser); no structural clause whose violation would be visible in the shape of the code; needs an independent interpreter (dynamic technique), see DESIGN.md §5",
}

props = [json.loads(l)["id"] for l in open(os.path.join(V, "properties.jsonl"))]
checks = []
for pid in props:
    if pid in claimed:
        c = claimed[pid]
        checks.append({
            "property_id": pid,
            "quick_cmd": f"./check {pid} quick",
            "thorough_cmd": f"./check {pid} thorough",
            "evidence_file": f"evidence/{pid}.json",
            "replay_cmd_template": f"./check {pid} --explain {{path}}",
            "engine": c["engine"],
            "level_claimed": {"category": "other", "text": c["text"], "design_ref": c["ref"]},
            "level_note": c["note"],
            "technique": c["technique"],
        })
na = []
for pid in props:
    if pid not in claimed:
        na.append({"property_id": pid, "reason": not_applicable.get(pid, pending_reason)})

engines = [
 {"name": "sharedwrite", "path": "sfntlint/effects.go, sfntlint/c16.go, sfntlint/externals.go", "serves_properties": ["C16"], "kind_free_text": "interprocedural write-effect / ownership analysis on go/ssa (E6)"},
 {"name": "errflow", "path": "sfntlint/errflow.go, sfntlint/c18.go", "serves_properties": ["C18", "C17"], "kind_free_text": "error value-flow and byte-count must-analysis (E7)"},
 {"name": "c15rules", "path": "sfntlint/c15.go, sfntlint/ssahelp.go", "serves_properties": ["C15", "C07"], "kind_free_text": "control-dependence, CFG ordering and buffer-provenance rules"},
 {"name": "nameslots", "path": "sfntlint/c20.go", "serves_properties": ["C20"], "kind_free_text": "write-once / used-set discipline, .notdef ordering, PostScript-name regexp evaluation (E12)"},
 {"name": "shaperules", "path": "sfntlint/c07.go, sfntlint/c06.go, sfntlint/panicreach.go", "serves_properties": ["C06", "C07"], "kind_free_text": "slice-alias, scratch claim/release, nested-stack typestate, first-match shape, panic reachability (E13, E4, typestate)"},
 {"name": "sizeagree", "path": "sfntlint/sizeagree.go, sfntlint/twins.go, sfntlint/c08.go, sfntlint/c11.go", "serves_properties": ["C08", "C11", "C01"], "kind_free_text": "symbolic size algebra for paired length/encode functions, twin formulas, dead overflow guards, loca writer/reader agreement (E8)"},
 {"name": "codecpair", "path": "sfntlint/codecpair.go, sfntlint/fieldpair.go, sfntlint/bitpair.go, sfntlint/c12.go", "serves_properties": ["C12", "C03"], "kind_free_text": "big-endian rule, field/flag pairing between decoder and encoder, field coverage, wire sizes (E9)"},
 {"name": "containerrules", "path": "sfntlint/c03.go", "serves_properties": ["C03"], "kind_free_text": "count/emit, ordering, alignment, patch guard, read-back rules for the sfnt container"},
 {"name": "parserrules", "path": "sfntlint/c17.go, sfntlint/narrow.go", "serves_properties": ["C17"], "kind_free_text": "who-may-write, atomic refill, seek-first, error/no-data rules for parser.Parser"},
 {"name": "dslagree", "path": "sfntlint/c19.go", "serves_properties": ["C19"], "kind_free_text": "parser/printer table agreement, goroutine and channel discipline, loop-shape rules (E11)"},
 {"name": "boundsprove", "path": "sfntlint/bounds.go, sfntlint/mem.go, sfntlint/intervals.go, sfntlint/boundsites.go, sfntlint/boundsrun.go, sfntlint/loopterm.go, sfntlint/allocbound.go, sfntlint/c02.go", "serves_properties": ["C02", "C05"], "kind_free_text": "linear integer prover over SSA with memory-load identification; bounds, invariants, preconditions, loop termination, allocation bounds (E1-E3)"},
 {"name": "t2spec", "path": "sfntlint/c05.go", "serves_properties": ["C05"], "kind_free_text": "TN5177 table agreement for the Type 2 interpreter"},
 {"name": "cmaprules", "path": "sfntlint/c09.go", "serves_properties": ["C09"], "kind_free_text": "format table agreement, subtable preference order"},
 {"name": "gidsort", "path": "sfntlint/c10.go", "serves_properties": ["C10"], "kind_free_text": "old/new glyph-id sort dataflow, closure pairing, paired append, source-font read-only (E10)"},
 {"name": "dictpair", "path": "sfntlint/c13.go", "serves_properties": ["C13"], "kind_free_text": "CFF DICT operator type/default agreement (E9-DICT)"},
 {"name": "namerules", "path": "sfntlint/c14.go", "serves_properties": ["C14"], "kind_free_text": "inverse/injective literal tables, purity, x-extension, UTF-16 delegation, post/name rules (E9-TAB)"},
 {"name": "mapdet", "path": "sfntlint/mapdet.go, sfntlint/props_det.go", "serves_properties": ["C01", "C07", "C08", "C09", "C13", "C15", "C20"], "kind_free_text": "order-sensitivity analysis of map iteration, clock and scheduling sources (E5)"},
]
for e in engines:
    e["serves_properties"] = [p for p in e["serves_properties"] if p in claimed]

m = {
 "version": 1,
 "setup_cmd": "cd /verif/sfntlint && GOFLAGS=-mod=mod GOPROXY=off GOSUMDB=off GOTOOLCHAIN=local GOWORK=off go build -o /verif/bin/sfntlint .",
 "hooks": {"guard": "verif", "enable": "none needed: the analyser reads /repo's sources; no instrumentation is compiled into the library", "baseline_off_cmd": BASE_OFF, "source_commits": [], "add_only": True},
 "engines": engines,
 "checks": checks,
 "not_applicable": na,
 "notes": "Technique family: static analysis only. Every check re-loads /repo's working tree with go/packages, type-checks it, builds go/ssa + call graph and decides structural obligations; nothing in /repo is executed. Known genuine defects are listed in known_findings.json; fixed ones are recorded there as 'fixed'. See DESIGN.md.",
}
json.dump(m, open(os.path.join(V, "MANIFEST.json"), "w"), indent=1)
print("claimed:", [c["property_id"] for c in checks])
