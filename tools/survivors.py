#!/usr/bin/env python3
"""Of the mutants a sweep left unreported, which survive the library's own test suite?
(Only those are 'realistic changes that pass the existing tests'; checker self-test aid.)
usage: survivors.py --res sweep_result.jsonl --out survivors.jsonl [--workers 4]"""
import argparse, json, os, subprocess, shutil, threading, queue, sys
sys.path.insert(0, os.path.dirname(os.path.abspath(__file__)))
import mutants as M

def main():
    ap = argparse.ArgumentParser()
    ap.add_argument("--res", required=True)
    ap.add_argument("--out", required=True)
    ap.add_argument("--workers", type=int, default=4)
    a = ap.parse_args()
    done = set()
    if os.path.exists(a.out):
        for l in open(a.out):
            done.add(json.loads(l)["id"])
    q = queue.Queue()
    for l in open(a.res):
        r = json.loads(l)
        if r["status"] == "missed" and r["id"] not in done:
            q.put(r)
    lock = threading.Lock()
    outfh = open(a.out, "a")
    def work():
        sc = M.scratch_copy()
        repo = os.path.join(sc, "repo")
        try:
            while True:
                try:
                    m = q.get_nowait()
                except queue.Empty:
                    return
                path = os.path.join(repo, m["file"])
                orig = open(path, "rb").read()
                open(path, "wb").write(orig[:m["start"]] + m["repl"].encode() + orig[m["end"]:])
                try:
                    r = subprocess.run("go build ./... && go test -vet=off -count=1 ./...", shell=True, cwd=repo, env=M.ENV, capture_output=True, text=True, timeout=900)
                    rc = r.returncode
                    tail = (r.stdout + r.stderr)[-300:]
                except subprocess.TimeoutExpired:
                    rc, tail = 124, "timeout"
                finally:
                    open(path, "wb").write(orig)
                res = {k: m[k] for k in ("id", "file", "line", "func", "text", "op")}
                res["suite"] = "pass" if rc == 0 else ("timeout" if rc == 124 else "fail")
                if rc != 0:
                    res["tail"] = tail
                with lock:
                    outfh.write(json.dumps(res) + "\n")
                    outfh.flush()
        finally:
            shutil.rmtree(sc, ignore_errors=True)
    ts = [threading.Thread(target=work) for _ in range(a.workers)]
    for t in ts: t.start()
    for t in ts: t.join()
main()
