#!/usr/bin/env python3
"""Self-test of the checker: apply each seeded mutant to a scratch copy of /repo,
run the property's check against the copy and require a violation that names the
mutated construct. Meta-evidence about the checker only; never touches /repo.

usage: mutants.py [--property Cxx] [--only name] [--json out]
Patch header lines (before the diff):
  # property: C16
  # expect: <substring that must appear in the violation output>
  # expect: silent      (a behaviour-preserving rewrite: the check must NOT fire)
"""
import json, os, re, shutil, subprocess, sys, tempfile, glob, argparse

VERIF = os.path.dirname(os.path.dirname(os.path.abspath(__file__)))
REPO = os.environ.get("SFNT_REPO", "/repo")
BIN = os.path.join(VERIF, "bin", "sfntlint")
ENV = dict(os.environ, GOFLAGS="-mod=mod", GOPROXY="off", GOSUMDB="off", GOTOOLCHAIN="local")
ENV.pop("GOWORK", None)

def scratch_copy():
    base = os.environ.get("TMPDIR", "/tmp")
    d = tempfile.mkdtemp(prefix="sfntmut-", dir=base)
    files = subprocess.run(["git", "-C", REPO, "ls-files", "-z"], capture_output=True, check=True).stdout.split(b"\0")
    # copy the working tree version of tracked files (plus untracked go files)
    others = subprocess.run(["git", "-C", REPO, "ls-files", "-z", "--others", "--exclude-standard"], capture_output=True, check=True).stdout.split(b"\0")
    for f in files + others:
        if not f:
            continue
        f = f.decode()
        src = os.path.join(REPO, f)
        if not os.path.isfile(src):
            continue
        dst = os.path.join(d, "repo", f)
        os.makedirs(os.path.dirname(dst), exist_ok=True)
        shutil.copy2(src, dst)
    v = os.path.join(d, "verif")
    os.makedirs(v)
    for n in ("known_findings.json",):
        if os.path.exists(os.path.join(VERIF, n)):
            shutil.copy2(os.path.join(VERIF, n), v)
    for sub in ("tables", "controls"):
        if os.path.isdir(os.path.join(VERIF, sub)):
            shutil.copytree(os.path.join(VERIF, sub), os.path.join(v, sub))
    return d

def run_one(patch, only_prop=None):
    head = open(patch).read().split("\n--- ", 1)[0]
    props = re.findall(r"^# property:\s*(\S+)", head, re.M)
    expect = re.findall(r"^# expect:\s*(.+)$", head, re.M)
    silent = any(e.strip() == "silent" for e in expect)
    res = {"mutant": os.path.basename(patch), "properties": props, "results": []}
    d = scratch_copy()
    try:
        p = subprocess.run(["patch", "-p1", "-s", "-d", os.path.join(d, "repo"), "-i", patch], capture_output=True, text=True)
        if p.returncode != 0:
            res["status"] = "skipped (patch does not apply to the current tree)"
            return res
        b = subprocess.run(["go", "build", "./..."], cwd=os.path.join(d, "repo"), env=ENV, capture_output=True, text=True)
        if b.returncode != 0:
            res["status"] = "skipped (mutant does not compile): " + b.stderr[:300]
            return res
        ok = True
        for prop in props:
            if only_prop and prop != only_prop:
                continue
            r = subprocess.run([BIN, "-property", prop, "-tier", "quick", "-repo", os.path.join(d, "repo"), "-verif", os.path.join(d, "verif")],
                               env=ENV, capture_output=True, text=True)
            out = r.stdout + r.stderr
            viol = [l for l in out.splitlines() if "rule " in l or "undecided" in l]
            hit = r.returncode == 1 and "VIOLATION property=" + prop in out
            if silent:
                # a behaviour-preserving rewrite: the check must stay quiet
                quiet = r.returncode == 0 and "VIOLATION" not in out
                res["results"].append({"property": prop, "exit": r.returncode, "detected": hit, "silent": quiet, "report": viol[:3] if not quiet else []})
                if not quiet:
                    ok = False
                continue
            named = all(e.strip() in out for e in expect) if expect else True
            res["results"].append({"property": prop, "exit": r.returncode, "detected": hit, "names_construct": named, "report": viol[:3]})
            if not (hit and named):
                ok = False
        if silent:
            res["status"] = "silent" if ok else "FALSE-ALARM"
        else:
            res["status"] = "detected" if ok else "MISSED"
        return res
    finally:
        shutil.rmtree(d, ignore_errors=True)

def main():
    ap = argparse.ArgumentParser()
    ap.add_argument("--property")
    ap.add_argument("--only")
    ap.add_argument("--json")
    a = ap.parse_args()
    patches = sorted(glob.glob(os.path.join(VERIF, "mutants", "*.patch")))
    out = []
    for p in patches:
        if a.only and a.only not in os.path.basename(p):
            continue
        head = open(p).read().split("\n--- ", 1)[0]
        if a.property and ("# property: " + a.property) not in head:
            continue
        r = run_one(p, a.property)
        out.append(r)
        print(f"{r['status']:10s} {r['mutant']}")
        for x in r.get("results", []):
            for l in x["report"][:1]:
                print("      ", l.strip()[:220])
    if a.json:
        json.dump(out, open(a.json, "w"), indent=1)
    missed = [r for r in out if r["status"] in ("MISSED", "FALSE-ALARM")]
    sys.exit(1 if missed else 0)

if __name__ == "__main__":
    main()
