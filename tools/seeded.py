#!/usr/bin/env python3
"""Run the checks against sub-agent seeded defects.
usage: seeded.py <dir-with-m*/patch.diff> <property> [more properties]"""
import os, sys, subprocess, tempfile, shutil, glob
sys.path.insert(0, os.path.dirname(os.path.abspath(__file__)))
import mutants as M

def main():
    base, props = sys.argv[1], sys.argv[2:]
    for d in sorted(glob.glob(os.path.join(base, "*", "patch.diff")) + glob.glob(os.path.join(base, "patch.diff"))):
        name = os.path.basename(os.path.dirname(d))
        sc = M.scratch_copy()
        try:
            p = subprocess.run(["git", "apply", "--whitespace=nowarn", d], cwd=os.path.join(sc, "repo"), capture_output=True, text=True)
            if p.returncode != 0:
                p = subprocess.run(["patch", "-p1", "-s", "-i", d], cwd=os.path.join(sc, "repo"), capture_output=True, text=True)
                if p.returncode != 0:
                    print(f"{name}: patch does not apply: {p.stdout[:200]}{p.stderr[:200]}")
                    continue
            for prop in props:
                r = subprocess.run([M.BIN, "-property", prop, "-tier", "quick", "-repo", os.path.join(sc, "repo"), "-verif", os.path.join(sc, "verif")],
                                   env=M.ENV, capture_output=True, text=True)
                lines = [l.strip() for l in r.stdout.splitlines() if ": rule " in l or "undecided" in l]
                print(f"{name} {prop}: exit={r.returncode} {'DETECTED' if r.returncode==1 else 'missed'}")
                for l in lines[:2]:
                    print("     ", l[:260])
        finally:
            shutil.rmtree(sc, ignore_errors=True)
main()
