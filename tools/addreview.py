#!/usr/bin/env python3
"""Append reviewed-table entries: addreview.py <key> <reason> [cond]   (or read TSV lines key<TAB>reason<TAB>cond from stdin with -)"""
import json, sys
p='/verif/tables/reviewed.json'
t=json.load(open(p))
keys={e['key'] for e in t}
def add(key, reason, cond=None):
    if key in keys:
        print("exists:", key); return
    e={"key":key}
    if cond: e["cond"]=cond
    e["reason"]=reason
    t.append(e); keys.add(key)
if sys.argv[1]=='-':
    for line in sys.stdin:
        line=line.rstrip('\n')
        if not line.strip(): continue
        parts=line.split('\t')
        add(parts[0], parts[1], parts[2] if len(parts)>2 and parts[2] else None)
else:
    add(sys.argv[1], sys.argv[2], sys.argv[3] if len(sys.argv)>3 else None)
json.dump(t, open(p,'w'), indent=1, ensure_ascii=False)
print(len(t), "entries")
