#!/usr/bin/env python3
"""Confirm a sub-agent's seeded defect in a scratch worktree of /repo and keep it
under /verif/seeded/<prop>-<name>/ when everything checks out.
usage: verify_seed.py <property> <seed-dir> [<seed-dir>...]"""
import os, re, sys, json, subprocess, shutil, glob, tempfile
VERIF = os.path.dirname(os.path.dirname(os.path.abspath(__file__)))
ENV = dict(os.environ, GOFLAGS="-mod=mod", GOPROXY="off", GOSUMDB="off", GOTOOLCHAIN="local")

def sh(cmd, cwd, timeout=900):
    try:
        r = subprocess.run(cmd, cwd=cwd, env=ENV, shell=True, capture_output=True, text=True, timeout=timeout)
        return r.returncode, (r.stdout + r.stderr)
    except subprocess.TimeoutExpired as e:
        return 124, "TIMEOUT " + str(e)

def pkgdir(wt, pkg):
    pkg = re.sub(r"_test$", "", pkg)
    if pkg == "sfnt":
        return "."
    for d, _, files in os.walk(wt):
        if "/.git" in d or "/examples" in d:
            continue
        for f in files:
            if f.endswith(".go") and not f.endswith("_test.go"):
                m = re.search(r"^package (\w+)", open(os.path.join(d, f)).read(), re.M)
                if m and m.group(1) == pkg:
                    return os.path.relpath(d, wt)
                break
    return None

def verify(prop, sd):
    name = os.path.basename(os.path.normpath(sd))
    out = {"property": prop, "seed": name}
    wt = tempfile.mkdtemp(prefix="seedwt-", dir="/tmp")
    os.rmdir(wt)
    subprocess.run(["git", "-C", "/repo", "worktree", "add", "-q", "--detach", wt, "HEAD"], check=True)
    try:
        demo = os.path.join(sd, "demo_test.go")
        src = open(demo).read()
        pkg = re.search(r"^package (\w+)", src, re.M).group(1)
        pd = pkgdir(wt, pkg)
        if pd is None:
            out["status"] = "rejected: cannot place demo package " + pkg
            return out
        tests = re.findall(r"^func (Test\w+)\(", src, re.M)
        notes = open(os.path.join(sd, "notes.md")).read() if os.path.exists(os.path.join(sd, "notes.md")) else ""
        race = "-race " if "-race" in notes and prop == "C16" else ""
        run = f"go test {race}-vet=off -count=1 -timeout 120s -run '^({'|'.join(tests)})$' ./{pd}"
        dst = os.path.join(wt, pd, "zz_seed_demo_test.go")
        shutil.copy(demo, dst)
        rc0, o0 = sh(run, wt)
        out["demo_without_patch"] = "pass" if rc0 == 0 else "FAIL"
        os.remove(dst)
        rc, o = sh(f"git apply --whitespace=nowarn {os.path.join(sd, 'patch.diff')}", wt)
        if rc != 0:
            out["status"] = "rejected: patch does not apply to current /repo HEAD: " + o[:200]
            return out
        rcb, ob = sh("go build ./... && go test -vet=off -count=1 ./...", wt)
        out["suite_with_patch"] = "pass" if rcb == 0 else "FAIL"
        shutil.copy(demo, dst)
        rc1, o1 = sh(run, wt)
        out["demo_with_patch"] = "fail" if rc1 != 0 else "PASS"
        out["demo_cmd"] = run
        out["demo_failure_excerpt"] = "\n".join([l for l in o1.splitlines() if l.strip()][:8])[:800]
        ok = rc0 == 0 and rcb == 0 and rc1 != 0
        out["status"] = "confirmed" if ok else "rejected"
        if ok:
            tgt = os.path.join(VERIF, "seeded", f"{prop}-{name}")
            os.makedirs(tgt, exist_ok=True)
            shutil.copy(os.path.join(sd, "patch.diff"), tgt)
            shutil.copy(demo, tgt)
            if notes:
                open(os.path.join(tgt, "notes.md"), "w").write(notes)
            meta = {"property": prop, "origin": "independent sub-agent given only the property text and a scratch worktree",
                    "needs_to_manifest": (re.search(r"(?is)(needs?|trigger|manifest)[^\n]*\n(.{0,600})", notes) or [None, None, ""])[2].strip()[:600],
                    "demo_package_dir": pd, "ran": {"demo_without_patch": run + " -> pass", "suite_with_patch": "go build ./... && go test -vet=off -count=1 ./... -> pass",
                    "demo_with_patch": run + " -> fail"}, "base": subprocess.run(["git","-C","/repo","rev-parse","--short","HEAD"],capture_output=True,text=True).stdout.strip()}
            json.dump(meta, open(os.path.join(tgt, "meta.json"), "w"), indent=1)
        return out
    finally:
        subprocess.run(["git", "-C", "/repo", "worktree", "remove", "--force", wt])
        shutil.rmtree(wt, ignore_errors=True)

if __name__ == "__main__":
    prop = sys.argv[1]
    for sd in sys.argv[2:]:
        r = verify(prop, sd)
        print(json.dumps(r)[:600])
