module mutgen

go 1.23
