// mutgen lists small syntactic mutants of the library sources (checker
// self-test only: the mutants are applied to scratch copies by tools/sweep.py,
// never to /repo).  Output: one JSON object per line
// {id, file, start, end, repl, op, func, line, text}.
package main

import (
	"encoding/json"
	"flag"
	"fmt"
	"go/ast"
	"go/parser"
	"go/token"
	"os"
	"path/filepath"
	"strings"
)

type mut struct {
	ID    string `json:"id"`
	File  string `json:"file"`
	Start int    `json:"start"`
	End   int    `json:"end"`
	Repl  string `json:"repl"`
	Op    string `json:"op"`
	Func  string `json:"func"`
	Line  int    `json:"line"`
	Text  string `json:"text"`
}

func terminating(b *ast.BlockStmt) bool {
	if len(b.List) == 0 {
		return false
	}
	switch s := b.List[len(b.List)-1].(type) {
	case *ast.ReturnStmt:
		return true
	case *ast.BranchStmt:
		return s.Tok == token.CONTINUE || s.Tok == token.BREAK || s.Tok == token.GOTO
	case *ast.ExprStmt:
		if c, ok := s.X.(*ast.CallExpr); ok {
			if id, ok := c.Fun.(*ast.Ident); ok && id.Name == "panic" {
				return true
			}
			if se, ok := c.Fun.(*ast.SelectorExpr); ok && (se.Sel.Name == "fatal" || se.Sel.Name == "Fatal") {
				return true
			}
		}
	}
	return false
}

func main() {
	root := flag.String("repo", "/repo", "")
	ops := flag.String("ops", "guard,bound,delstmt", "")
	flag.Parse()
	want := map[string]bool{}
	for _, o := range strings.Split(*ops, ",") {
		want[o] = true
	}
	enc := json.NewEncoder(os.Stdout)
	n := 0
	filepath.Walk(*root, func(p string, fi os.FileInfo, err error) error {
		if err != nil {
			return nil
		}
		rel, _ := filepath.Rel(*root, p)
		if fi.IsDir() {
			if strings.HasPrefix(fi.Name(), ".") && rel != "." || rel == "examples" || rel == "internal" || strings.HasSuffix(rel, "testcases") || fi.Name() == "testdata" {
				return filepath.SkipDir
			}
			return nil
		}
		if !strings.HasSuffix(p, ".go") || strings.HasSuffix(p, "_test.go") {
			return nil
		}
		src, _ := os.ReadFile(p)
		fset := token.NewFileSet()
		f, err := parser.ParseFile(fset, p, src, parser.ParseComments)
		if err != nil {
			return nil
		}
		for _, cg := range f.Comments {
			if strings.Contains(cg.Text(), "go:build") && cg.Pos() < f.Package {
				return nil
			}
		}
		off := func(ps token.Pos) int { return fset.Position(ps).Offset }
		emit := func(fn string, op string, s, e token.Pos, repl string) {
			n++
			txt := string(src[off(s):off(e)])
			if len(txt) > 160 {
				txt = txt[:160]
			}
			enc.Encode(mut{ID: fmt.Sprintf("%s-%05d", op, n), File: rel, Start: off(s), End: off(e), Repl: repl, Op: op,
				Func: fn, Line: fset.Position(s).Line, Text: strings.Join(strings.Fields(txt), " ")})
		}
		for _, d := range f.Decls {
			fd, ok := d.(*ast.FuncDecl)
			if !ok || fd.Body == nil {
				continue
			}
			fn := fd.Name.Name
			if fd.Recv != nil && len(fd.Recv.List) > 0 {
				t := fd.Recv.List[0].Type
				if st, ok := t.(*ast.StarExpr); ok {
					t = st.X
				}
				if id, ok := t.(*ast.Ident); ok {
					fn = id.Name + "." + fn
				}
			}
			if want["rename"] {
				// rename each local variable declared with := (all its uses in this file share the ast.Object)
				byObj := map[*ast.Object][]*ast.Ident{}
				ast.Inspect(fd.Body, func(nd ast.Node) bool {
					if id, ok := nd.(*ast.Ident); ok && id.Obj != nil && id.Obj.Kind == ast.Var {
						byObj[id.Obj] = append(byObj[id.Obj], id)
					}
					return true
				})
				for obj, ids := range byObj {
					as, ok := obj.Decl.(*ast.AssignStmt)
					if !ok || as.Tok != token.DEFINE || obj.Name == "_" || as.Pos() < fd.Body.Pos() {
						continue
					}
					// one mutant: all occurrences renamed (encoded as several edits joined with \x00)
					var parts []string
					for _, id := range ids {
						parts = append(parts, fmt.Sprintf("%d:%d", off(id.Pos()), off(id.End())))
					}
					n++
					enc.Encode(mut{ID: fmt.Sprintf("rename-%05d", n), File: rel, Start: -1, End: -1, Repl: obj.Name + "Renamed\x00" + strings.Join(parts, ","), Op: "rename",
						Func: fn, Line: fset.Position(as.Pos()).Line, Text: obj.Name})
				}
			}
			var condStack []ast.Expr
			_ = condStack
			ast.Inspect(fd.Body, func(nd ast.Node) bool {
				switch s := nd.(type) {
				case *ast.IfStmt:
					if want["guard"] && s.Else == nil && terminating(s.Body) {
						// guard removed: the test stays (variables remain used), the reaction goes
						emit(fn, "guard", s.Body.Lbrace, s.Body.Rbrace+1, "{}")
					}
					if want["bound"] {
						boundMuts(s.Cond, func(b *ast.BinaryExpr, repl string) {
							emit(fn, "bound", b.OpPos, b.OpPos+token.Pos(len(b.Op.String())), repl)
						})
					}
					txt := func(a, b token.Pos) string { return string(src[off(a):off(b)]) }
					if want["ifinvert"] && s.Init == nil {
						// if c {A} else {B}  ->  if !(c) {B} else {A}
						if eb, ok := s.Else.(*ast.BlockStmt); ok {
							emit(fn, "ifinvert", s.Cond.Pos(), eb.End(), "!("+txt(s.Cond.Pos(), s.Cond.End())+") "+txt(eb.Pos(), eb.End())+" else "+txt(s.Body.Pos(), s.Body.End()))
						}
					}
					if want["andsplit"] && s.Init == nil && s.Else == nil {
						// if a && b {A}  ->  if a { if b {A} }
						if be, ok := s.Cond.(*ast.BinaryExpr); ok && be.Op == token.LAND {
							emit(fn, "andsplit", s.Cond.Pos(), s.Body.End(), txt(be.X.Pos(), be.X.End())+" { if "+txt(be.Y.Pos(), be.Y.End())+" "+txt(s.Body.Pos(), s.Body.End())+" }")
						}
					}
					if want["demorgan"] {
						// a || b  ->  !(!(a) && !(b)) ; a && b -> !(!(a) || !(b))
						if be, ok := s.Cond.(*ast.BinaryExpr); ok && (be.Op == token.LOR || be.Op == token.LAND) {
							other := "&&"
							if be.Op == token.LAND {
								other = "||"
							}
							emit(fn, "demorgan", s.Cond.Pos(), s.Cond.End(), "!(!("+txt(be.X.Pos(), be.X.End())+") "+other+" !("+txt(be.Y.Pos(), be.Y.End())+"))")
						}
					}
				case *ast.RangeStmt:
					if want["rangetoindex"] && s.Tok == token.DEFINE && s.Key != nil {
						// for k, v := range xs {…}  ->  for k := 0; k < len(xs); k++ { v := xs[k]; … }
						// (only when xs is a plain name or field path that the body does not assign)
						kid, ok := s.Key.(*ast.Ident)
						pure := true
						var chk func(e ast.Expr)
						chk = func(e ast.Expr) {
							switch x := e.(type) {
							case *ast.Ident:
							case *ast.SelectorExpr:
								chk(x.X)
							default:
								pure = false
							}
						}
						chk(s.X)
						if ok && kid.Name != "_" && pure {
							xs := string(src[off(s.X.Pos()):off(s.X.End())])
							assigned := false
							ast.Inspect(s.Body, func(m ast.Node) bool {
								switch a := m.(type) {
								case *ast.AssignStmt:
									for _, l := range a.Lhs {
										t := string(src[off(l.Pos()):off(l.End())])
										if t == xs || t == kid.Name || strings.HasPrefix(xs, t+".") {
											assigned = true
										}
									}
								case *ast.IncDecStmt:
									if t := string(src[off(a.X.Pos()):off(a.X.End())]); t == kid.Name {
										assigned = true
									}
								case *ast.BranchStmt:
									// `continue` would skip nothing here (the post statement still runs), fine
								}
								return true
							})
							if !assigned {
								hdr := "for " + kid.Name + " := 0; " + kid.Name + " < len(" + xs + "); " + kid.Name + "++ {"
								if vid, ok := s.Value.(*ast.Ident); ok && vid.Name != "_" {
									hdr += " " + vid.Name + " := " + xs + "[" + kid.Name + "];"
								} else if s.Value != nil {
									if _, isBlank := s.Value.(*ast.Ident); !isBlank {
										hdr = ""
									}
								}
								if hdr != "" {
									emit(fn, "rangetoindex", s.For, s.Body.Lbrace+1, hdr)
								}
							}
						}
					}
				case *ast.ForStmt:
					if want["bound"] && s.Cond != nil {
						boundMuts(s.Cond, func(b *ast.BinaryExpr, repl string) {
							emit(fn, "bound", b.OpPos, b.OpPos+token.Pos(len(b.Op.String())), repl)
						})
					}
				case *ast.BinaryExpr:
					if want["flipcmp"] {
						var op string
						switch s.Op {
						case token.LSS:
							op = ">"
						case token.LEQ:
							op = ">="
						case token.GTR:
							op = "<"
						case token.GEQ:
							op = "<="
						case token.EQL:
							op = "=="
						case token.NEQ:
							op = "!="
						}
						if op != "" {
							xs := string(src[off(s.X.Pos()):off(s.X.End())])
							ys := string(src[off(s.Y.Pos()):off(s.Y.End())])
							// an untyped constant on the left of == / != is fine; nil == x too
							emit(fn, "flipcmp", s.X.Pos(), s.Y.End(), ys+" "+op+" "+xs)
						}
					}
				case *ast.BlockStmt:
					if want["delstmt"] {
						for _, st := range s.List {
							switch a := st.(type) {
							case *ast.AssignStmt:
								if a.Tok == token.DEFINE {
									continue
								}
								emit(fn, "delstmt", a.Pos(), a.End(), "")
							case *ast.IncDecStmt:
								emit(fn, "delstmt", a.Pos(), a.End(), "")
							case *ast.ExprStmt:
								if c, ok := a.X.(*ast.CallExpr); ok {
									if id, ok := c.Fun.(*ast.Ident); ok && id.Name == "panic" {
										continue
									}
									emit(fn, "delstmt", a.Pos(), a.End(), "")
								}
							}
						}
					}
				case *ast.CaseClause:
					if want["delstmt"] {
						for _, st := range s.Body {
							switch a := st.(type) {
							case *ast.AssignStmt:
								if a.Tok == token.DEFINE {
									continue
								}
								emit(fn, "delstmt", a.Pos(), a.End(), "")
							case *ast.IncDecStmt:
								emit(fn, "delstmt", a.Pos(), a.End(), "")
							case *ast.ExprStmt:
								if c, ok := a.X.(*ast.CallExpr); ok {
									if id, ok := c.Fun.(*ast.Ident); ok && id.Name == "panic" {
										continue
									}
									emit(fn, "delstmt", a.Pos(), a.End(), "")
								}
							}
						}
					}
				}
				return true
			})
		}
		return nil
	})
}

func boundMuts(e ast.Expr, f func(*ast.BinaryExpr, string)) {
	ast.Inspect(e, func(n ast.Node) bool {
		if _, ok := n.(*ast.FuncLit); ok {
			return false
		}
		if b, ok := n.(*ast.BinaryExpr); ok {
			switch b.Op {
			case token.LSS:
				f(b, "<=")
			case token.LEQ:
				f(b, "<")
			case token.GTR:
				f(b, ">=")
			case token.GEQ:
				f(b, ">")
			}
		}
		return true
	})
}
