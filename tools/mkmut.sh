#!/bin/sh
# usage: mkmut.sh <name> : diff /tmp/mut/repo against /repo into /verif/mutants/<name>.patch, then reset scratch
set -e
name="$1"
cd /tmp/mut
diff -ruN --exclude=.git /repo repo | sed 's|^--- /repo/|--- a/|; s|^+++ repo/|+++ b/|' > /verif/mutants/$name.patch || true
test -s /verif/mutants/$name.patch || { echo "empty patch"; exit 1; }
rm -rf /tmp/mut/repo && mkdir -p /tmp/mut/repo && cd /repo && git ls-files -z | xargs -0 -I{} cp --parents {} /tmp/mut/repo/
echo "wrote /verif/mutants/$name.patch"
