module seehuhn.de/go/sfnt/verifcontrols

go 1.22
