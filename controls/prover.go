package verifcontrols

// Controls for the linear prover (rule bounds).  Every ctlBoundsBad*
// function contains exactly one index or make that CAN fail at run time for
// some input; the prover must leave at least one site of it unproven.  Every
// ctlBoundsGood* function is safe for all inputs and must be proven
// completely.  The Bad examples are the classical ways in which a
// linear-facts prover over SSA becomes unsound (values of different loop
// iterations identified, modular arithmetic taken for integer arithmetic,
// facts about memory kept across writes and calls, a check on one path taken
// for a check on all); the Good ones keep the prover from being made blind to
// pass them.  Nothing here is executed.

type ctlBuf struct {
	data []byte
	n    int
}

func (b *ctlBuf) shrink() { b.data = b.data[:len(b.data)/2] }

// the current element is compared with the *previous* iteration's element
func ctlBoundsBadPrevElem(ends []uint16, n int) [][]int {
	var res [][]int
	start := 0
	for i := range ends {
		end := int(ends[i]) + 1
		if end > n {
			return nil
		}
		res = append(res, make([]int, end-start)) // end < start possible
		start = end
	}
	return res
}

// the same with the order checked: safe
func ctlBoundsGoodPrevElem(ends []uint16, n int) [][]int {
	var res [][]int
	start := 0
	for i := range ends {
		end := int(ends[i]) + 1
		if end < start || end > n {
			return nil
		}
		res = append(res, make([]int, end-start))
		start = end
	}
	return res
}

// unsigned subtraction wraps
func ctlBoundsBadWrapSub(s []byte, a, b uint16) byte {
	if int(a) < len(s) {
		return s[a-b]
	}
	return 0
}

func ctlBoundsGoodWrapSub(s []byte, a, b uint16) byte {
	if int(a) < len(s) && b <= a {
		return s[a-b]
	}
	return 0
}

// 16-bit sum wraps below the checked value, 16-bit product is not the int product
func ctlBoundsBadWrapMul(s []byte, n uint16) byte {
	if len(s) >= 65536 {
		return 0
	}
	k := n * 2 // wraps
	if int(k) < len(s) {
		return s[int(n)*2] // checked the wrapped value
	}
	return 0
}

// a call between check and use may change the field
func ctlBoundsBadStaleField(b *ctlBuf, i int) byte {
	if i >= 0 && i < len(b.data) {
		b.shrink()
		return b.data[i]
	}
	return 0
}

func ctlBoundsGoodField(b *ctlBuf, i int) byte {
	if i >= 0 && i < len(b.data) {
		return b.data[i]
	}
	return 0
}

// a store through a possible alias between check and use
func ctlBoundsBadAlias(a, c *ctlBuf, s []byte) byte {
	if a.n >= 0 && a.n < len(s) {
		c.n = len(s) + 5 // c may be a
		return s[a.n]
	}
	return 0
}

// <= for < in a counting loop
func ctlBoundsBadOffByOne(s []byte) int {
	t := 0
	for i := 0; i <= len(s); i++ {
		t += int(s[i])
	}
	return t
}

func ctlBoundsGoodCount(s []byte) int {
	t := 0
	for i := 0; i < len(s); i++ {
		t += int(s[i])
	}
	return t
}

// sign extension: a negative index passes an upper-bound check
func ctlBoundsBadNegative(s []byte, b byte) byte {
	i := int(int8(b))
	if i < len(s) {
		return s[i]
	}
	return 0
}

// the check is only one arm of a disjunction
func ctlBoundsBadOr(s []byte, i int, force bool) byte {
	if i >= 0 && (i < len(s) || force) {
		return s[i]
	}
	return 0
}

// checked on one path into a join only
func ctlBoundsBadJoin(s []byte, i int, trusted bool) byte {
	if !trusted {
		if i < 0 || i >= len(s) {
			return 0
		}
	}
	return s[i]
}

// an accumulator over data is not bounded by the loop bound
func ctlBoundsBadAccumulate(s []byte, lens []byte) byte {
	pos := 0
	for _, l := range lens {
		pos += int(l)
	}
	if len(s) > len(lens) {
		return s[pos]
	}
	return 0
}

// a running maximum over elements, then used as an index
func ctlBoundsBadMaxElem(s []byte, idx []uint16) byte {
	m := 0
	for _, x := range idx {
		if int(x) > m {
			m = int(x)
		}
	}
	if len(s) > len(idx) {
		return s[m]
	}
	return 0
}

// the loop-carried field is advanced inside the loop after the check
func ctlBoundsBadCarried(b *ctlBuf, steps []byte) byte {
	var last byte
	for _, st := range steps {
		if b.n < 0 || b.n >= len(b.data) {
			return 0
		}
		b.n += int(st)
		last = b.data[b.n]
	}
	return last
}

func ctlBoundsGoodCarried(b *ctlBuf, steps []byte) byte {
	var last byte
	for _, st := range steps {
		b.n += int(st)
		if b.n < 0 || b.n >= len(b.data) {
			return 0
		}
		last = b.data[b.n]
	}
	return last
}

// division rounds down: n/2 < len does not bound n
func ctlBoundsBadHalf(s []byte, n int) byte {
	if n >= 0 && n/2 < len(s) {
		return s[n]
	}
	return 0
}

func ctlBoundsGoodHalf(s []byte, n int) byte {
	if n >= 0 && n < len(s) {
		return s[n/2]
	}
	return 0
}

// a shift of a signed value
func ctlBoundsBadShift(s []byte, v int32) byte {
	i := int(v >> 4)
	if i < len(s) {
		return s[i]
	}
	return 0
}

// re-slicing moves the origin: the check was made against the old slice
func ctlBoundsBadReslice(s []byte, i, k int) byte {
	if i < 0 || k < 0 || k > len(s) || i >= len(s) {
		return 0
	}
	s = s[k:]
	return s[i]
}

func ctlBoundsGoodReslice(s []byte, i, k int) byte {
	if i < 0 || k < 0 || k > len(s) || i+k >= len(s) {
		return 0
	}
	s = s[k:]
	return s[i]
}

// two different elements of one slice: a check on a[0] says nothing about a[1]
func ctlBoundsBadOtherElem(s []byte, a []int) byte {
	if len(a) < 2 || a[0] < 0 || a[0] >= len(s) {
		return 0
	}
	return s[a[1]]
}

// map lookups with different keys
func ctlBoundsBadOtherKey(s []byte, m map[string]int) byte {
	if v := m["a"]; v < 0 || v >= len(s) {
		return 0
	}
	return s[m["b"]]
}

// nested loops: the inner bound is re-read after the outer index moved
func ctlBoundsBadNested(rows [][]byte) int {
	t := 0
	for i := 0; i+1 < len(rows); i++ {
		for j := 0; j < len(rows[i]); j++ {
			t += int(rows[i+1][j]) // bound belongs to rows[i]
		}
	}
	return t
}

func ctlBoundsGoodNested(rows [][]byte) int {
	t := 0
	for i := 0; i < len(rows); i++ {
		for j := 0; j < len(rows[i]); j++ {
			t += int(rows[i][j])
		}
	}
	return t
}

// CtlBoundsUse keeps the examples reachable.
func CtlBoundsUse(s []byte, u []uint16, b *ctlBuf, m map[string]int, rows [][]byte) int {
	_ = ctlBoundsBadPrevElem(u, 3)
	_ = ctlBoundsGoodPrevElem(u, 3)
	t := int(ctlBoundsBadWrapSub(s, 1, 2)) + int(ctlBoundsGoodWrapSub(s, 1, 2)) + int(ctlBoundsBadWrapMul(s, 3))
	t += int(ctlBoundsBadStaleField(b, 1)) + int(ctlBoundsGoodField(b, 1)) + int(ctlBoundsBadAlias(b, b, s))
	t += ctlBoundsBadOffByOne(s) + ctlBoundsGoodCount(s) + int(ctlBoundsBadNegative(s, 200))
	t += int(ctlBoundsBadOr(s, 1, true)) + int(ctlBoundsBadJoin(s, 1, true)) + int(ctlBoundsBadAccumulate(s, s))
	t += int(ctlBoundsBadMaxElem(s, u)) + int(ctlBoundsBadCarried(b, s)) + int(ctlBoundsGoodCarried(b, s))
	t += int(ctlBoundsBadHalf(s, 1)) + int(ctlBoundsGoodHalf(s, 1)) + int(ctlBoundsBadShift(s, 1))
	t += int(ctlBoundsBadReslice(s, 1, 1)) + int(ctlBoundsGoodReslice(s, 1, 1))
	t += int(ctlBoundsBadOtherElem(s, []int{1, 2})) + int(ctlBoundsBadOtherKey(s, m))
	t += ctlBoundsBadNested(rows) + ctlBoundsGoodNested(rows)
	return t
}

// ---- second batch

type ctlReader interface{ Next() int }

type ctlCounter struct{ n int }

func (c *ctlCounter) Next() int { c.n += 7; return c.n }

var ctlGlobalIdx int

func ctlBump() { ctlGlobalIdx += 100 }

func ctlRead(src []byte, n int) ([]byte, error) {
	if n < 0 || n > len(src) {
		return nil, errCtl
	}
	return src[:n], nil
}

type ctlErr struct{}

func (ctlErr) Error() string { return "ctl" }

var errCtl error = ctlErr{}

func ctlFill(idx []int) {
	for i := range idx {
		idx[i] = 1 << 20
	}
}

// the helper's length contract holds only when its error is nil
func ctlBoundsBadIgnoredErr(src []byte, n int) byte {
	if n < 1 {
		return 0
	}
	b, _ := ctlRead(src, n)
	return b[n-1]
}

func ctlBoundsGoodContract(src []byte, n int) byte {
	if n < 1 {
		return 0
	}
	b, err := ctlRead(src, n)
	if err != nil {
		return 0
	}
	return b[n-1]
}

// remainder of a negative dividend is negative
func ctlBoundsBadRem(s []byte, i int) byte {
	if len(s) == 0 {
		return 0
	}
	return s[i%len(s)]
}

func ctlBoundsGoodRem(s []byte, i int) byte {
	if len(s) == 0 || i < 0 {
		return 0
	}
	return s[i%len(s)]
}

// a store through an overlapping slice changes the checked element
func ctlBoundsBadOverlap(s []byte, t []byte) byte {
	if len(s) < 2 || int(s[0]) >= len(t) {
		return 0
	}
	a := s[:1]
	a[0] = 255
	return t[s[0]]
}

// a map entry is updated between check and use
func ctlBoundsBadMapUpdate(s []byte, m map[string]int) byte {
	if v := m["a"]; v < 0 || v >= len(s) {
		return 0
	}
	m["a"] = len(s)
	return s[m["a"]]
}

// a captured variable is changed by the closure
func ctlBoundsBadCaptured(s []byte, i int) byte {
	bump := func() { i += 100 }
	if i >= 0 && i < len(s) {
		bump()
		return s[i]
	}
	return 0
}

// a package variable is changed by a callee
func ctlBoundsBadGlobal(s []byte) byte {
	if ctlGlobalIdx >= 0 && ctlGlobalIdx < len(s) {
		ctlBump()
		return s[ctlGlobalIdx]
	}
	return 0
}

// conversion of a negative value to an unsigned type
func ctlBoundsBadUnsignedConv(s []byte, x int) byte {
	if x < len(s) {
		return s[uint32(x)]
	}
	return 0
}

// narrowing to a signed 16-bit value can make it negative
func ctlBoundsBadNarrow16(s []byte, n int) byte {
	if n >= 0 && n < len(s) {
		return s[int(int16(n))]
	}
	return 0
}

func ctlBoundsGoodNarrow16(s []byte, n int) byte {
	if n >= 0 && n < len(s) && n < 1000 {
		return s[int(int16(n))]
	}
	return 0
}

// the step of a counting loop may be zero or negative
func ctlBoundsBadStep(s []byte, step int) int {
	t := 0
	for i := 0; i < len(s); i += step {
		t += int(s[i])
		if t > 1000 {
			break
		}
	}
	return t
}

func ctlBoundsGoodStep(s []byte, step int) int {
	t := 0
	if step < 1 {
		return 0
	}
	for i := 0; i < len(s); i += step {
		t += int(s[i])
	}
	return t
}

// counting down from len, not len-1
func ctlBoundsBadDown(s []byte) int {
	t := 0
	for i := len(s); i >= 0; i-- {
		t += int(s[i])
	}
	return t
}

func ctlBoundsGoodDown(s []byte) int {
	t := 0
	for i := len(s) - 1; i >= 0; i-- {
		t += int(s[i])
	}
	return t
}

// a second index advances faster than the loop counter
func ctlBoundsBadTwoIndex(s []byte) int {
	t, j := 0, 0
	for i := 0; i < len(s); i++ {
		t += int(s[j])
		j += 2
	}
	return t
}

func ctlBoundsGoodTwoIndex(s []byte) int {
	t, j := 0, 0
	for i := 0; i+1 < len(s); i += 2 {
		t += int(s[j]) + int(s[j+1])
		j += 2
	}
	return t
}

// the slice shrinks inside the loop
func ctlBoundsBadShrinking(s []byte) int {
	t := 0
	n := len(s)
	for i := 0; i < n; i++ {
		t += int(s[i])
		s = s[:len(s)/2]
	}
	return t
}

// copy returns the shorter length
func ctlBoundsBadCopy(dst, src []byte) byte {
	if len(src) == 0 {
		return 0
	}
	n := copy(dst, src)
	return dst[n-1]
}

func ctlBoundsGoodAppend(s, x []byte) byte {
	if len(x) == 0 {
		return 0
	}
	t := append(s, x...)
	return t[len(s)+len(x)-1]
}

// the callee overwrites the checked element
func ctlBoundsBadCalleeWrites(s []byte, idx []int) byte {
	if len(idx) == 0 || idx[0] < 0 || idx[0] >= len(s) {
		return 0
	}
	ctlFill(idx)
	return s[idx[0]]
}

// a dynamic call changes the receiver's state
func ctlBoundsBadDynamic(s []byte, c *ctlCounter, r ctlReader) byte {
	if c.n >= 0 && c.n < len(s) {
		r.Next() // may be c
		return s[c.n]
	}
	return 0
}

// a pointer to a local
func ctlBoundsBadLocalPtr(s []byte, i int) byte {
	p := &i
	if i >= 0 && i < len(s) {
		*p = len(s)
		return s[i]
	}
	return 0
}

// reset on one path around the loop
func ctlBoundsBadReset(s []byte, marks []bool) int {
	t := 0
	pos := 0
	for _, m := range marks {
		if pos >= len(s) {
			return t
		}
		t += int(s[pos])
		if m {
			pos = -1
		}
		pos++
		if !m {
			pos -= 2
		}
	}
	return t
}

// an array indexed by a byte-sized value fits, by a 16-bit value does not
func ctlBoundsGoodArray(tbl *[256]int, b byte) int { return tbl[b] }

func ctlBoundsBadArray(tbl *[256]int, v uint16) int { return tbl[v] }

// slicing up to the capacity is legal, indexing beyond the length is not
func ctlBoundsBadCapLen(s []byte, n int) byte {
	if n < 1 || n > cap(s) {
		return 0
	}
	return s[n-1]
}

// parity: pairs of bytes; without the test of the length's parity the last
// pair reads one byte beyond the end
func ctlBoundsBadParity(in []byte) int {
	t := 0
	for i := 4; i < len(in); i += 2 {
		t += int(in[i])<<8 | int(in[i+1])
	}
	return t
}

func ctlBoundsGoodParity(in []byte) int {
	if len(in)%2 != 0 {
		return 0
	}
	t := 0
	for i := 4; i < len(in); i += 2 {
		t += int(in[i])<<8 | int(in[i+1])
	}
	return t
}

// an odd start with an even length is as bad as an odd length
func ctlBoundsBadParityStart(in []byte) int {
	if len(in)%2 != 0 {
		return 0
	}
	t := 0
	for i := 3; i < len(in); i += 2 {
		t += int(in[i])<<8 | int(in[i+1])
	}
	return t
}

// words collected from byte pairs: their number is half the bytes consumed
func ctlBoundsGoodStride(in []byte, n int) []uint16 {
	if len(in)%2 != 0 || n < 0 || 2*n+6 > len(in) {
		return nil
	}
	var words []uint16
	for i := 6; i < len(in); i += 2 {
		words = append(words, uint16(in[i])<<8|uint16(in[i+1]))
	}
	return words[:n]
}

func ctlBoundsBadStride(in []byte, n int) []uint16 {
	if len(in)%2 != 0 || n < 0 || n+6 > len(in) {
		return nil
	}
	var words []uint16
	for i := 6; i < len(in); i += 2 {
		words = append(words, uint16(in[i])<<8|uint16(in[i+1]))
	}
	return words[:n]
}

// CtlBoundsUse3 keeps the third batch reachable.
func CtlBoundsUse3(in []byte) int {
	return ctlBoundsBadParity(in) + ctlBoundsGoodParity(in) + ctlBoundsBadParityStart(in) + len(ctlBoundsGoodStride(in, 1)) + len(ctlBoundsBadStride(in, 1))
}

// CtlBoundsUse2 keeps the second batch reachable.
func CtlBoundsUse2(s []byte, m map[string]int, c *ctlCounter, tbl *[256]int, marks []bool) int {
	t := int(ctlBoundsBadIgnoredErr(s, 2)) + int(ctlBoundsGoodContract(s, 2)) + int(ctlBoundsBadRem(s, -1)) + int(ctlBoundsGoodRem(s, 1))
	t += int(ctlBoundsBadOverlap(s, s)) + int(ctlBoundsBadMapUpdate(s, m)) + int(ctlBoundsBadCaptured(s, 1)) + int(ctlBoundsBadGlobal(s))
	t += int(ctlBoundsBadUnsignedConv(s, -1)) + int(ctlBoundsBadNarrow16(s, 40000)) + int(ctlBoundsGoodNarrow16(s, 4))
	t += ctlBoundsBadStep(s, 0) + ctlBoundsGoodStep(s, 1) + ctlBoundsBadDown(s) + ctlBoundsGoodDown(s)
	t += ctlBoundsBadTwoIndex(s) + ctlBoundsGoodTwoIndex(s) + ctlBoundsBadShrinking(s) + int(ctlBoundsBadCopy(nil, s)) + int(ctlBoundsGoodAppend(s, s))
	t += int(ctlBoundsBadCalleeWrites(s, []int{1})) + int(ctlBoundsBadDynamic(s, c, c)) + int(ctlBoundsBadLocalPtr(s, 1)) + ctlBoundsBadReset(s, marks)
	t += ctlBoundsGoodArray(tbl, 3) + ctlBoundsBadArray(tbl, 300) + int(ctlBoundsBadCapLen(s, 2))
	return t
}
