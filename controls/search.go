package verifcontrols

import (
	"math"
	"sort"
)

// ---- searchmonotone: a binary search whose predicate is an equality test

// must fire: "equal to the last element" is not a monotone predicate
func ctlSearchEqBad(ws []int) int {
	last := ws[len(ws)-1]
	return sort.Search(len(ws)-1, func(i int) bool { return ws[i] == last })
}

// must stay silent: an order comparison (also with a tie-break on equality)
func ctlSearchGood(ws [][2]int, a, b int) int {
	return sort.Search(len(ws), func(i int) bool {
		return ws[i][0] > a || ws[i][0] == a && ws[i][1] >= b
	})
}

// ---- filterref: the reference element bypasses the loop's filter

// must fire: ws[0] may be one of the skipped zeros
func ctlFilterRefBad(ws []float64) bool {
	ref := ws[0]
	for _, w := range ws[1:] {
		if w == 0 {
			continue
		}
		if w-ref >= 0.5 || ref-w >= 0.5 {
			return false
		}
	}
	return true
}

// must stay silent: the reference is the first element that passes the filter
func ctlFilterRefGood(ws []float64) bool {
	var ref float64
	for _, w := range ws {
		if w == 0 {
			continue
		}
		if ref == 0 {
			ref = w
		} else if w-ref >= 0.5 || ref-w >= 0.5 {
			return false
		}
	}
	return true
}

// ---- cacheparam: a cache in a map parameter keyed by part of the inputs

func ctlLoad(base, rel int) []byte { return make([]byte, base+rel) }

// must fire: the value depends on base, the key does not
func ctlCacheParamBad(base, rel int, seen map[int][]byte) []byte {
	v, ok := seen[rel]
	if !ok {
		v = ctlLoad(base, rel)
		seen[rel] = v
	}
	return v
}

// must stay silent: the key is the absolute position
func ctlCacheParamGood(base, rel int, seen map[int][]byte) []byte {
	pos := base + rel
	v, ok := seen[pos]
	if !ok {
		v = ctlLoad(pos, 0)
		seen[pos] = v
	}
	return v
}

// ---- nohistory: a package-level "last result"

var ctlLast struct {
	key, val int
	ok       bool
}

// must fire: the answer depends on the previous call
func ctlNoHistoryBad(x int) int {
	if !ctlLast.ok || x-ctlLast.key > 1 || ctlLast.key-x > 1 {
		ctlLast.key, ctlLast.val, ctlLast.ok = x, x*x, true
	}
	return ctlLast.val
}

// ---- omittolerance: a DICT entry is left out when it is "near" the default

type ctlDict map[int][]interface{}

// must fire: values within 1e-5 of the default are replaced by the default
func ctlOmitNearBad(x float64) ctlDict {
	d := ctlDict{}
	if math.Abs(x-0.001) > 1e-5 {
		d[2] = []interface{}{x}
	}
	return d
}

// must stay silent: exact comparison
func ctlOmitExactGood(x float64) ctlDict {
	d := ctlDict{}
	if x != 0.001 {
		d[1] = []interface{}{x}
	}
	return d
}
