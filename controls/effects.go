package verifcontrols

import (
	"bytes"
	"sort"
)

// Controls for the write-effect analysis (rules readonly / sharedwrite).
// Every ctlROBad* method writes memory reachable from its receiver through a
// different route and must be reported; every ctlROGood* method only reads
// it (or writes private copies) and must pass.  Nothing here is executed.

type ctlHead struct{ n int }

func (h *ctlHead) bump()     { h.n++ }
func (h *ctlHead) Set(v int) { h.n = v }
func (h *ctlHead) Get() int  { return h.n }

type ctlSetter interface{ Set(int) }
type ctlGetter interface{ Get() int }

type ctlGlyph struct {
	n    int
	name string
}

type ctlFont struct {
	n      int
	head   *ctlHead
	widths []int
	names  map[string]int
	glyphs []ctlGlyph
	ptrs   [4]*ctlHead
	cache  []int
	buf    bytes.Buffer
}

type ctlHolder struct{ w []int }

func ctlSetFirst(w []int) {
	if len(w) > 0 {
		w[0] = 1
	}
}

func ctlSum(w []int) int {
	t := 0
	for _, x := range w {
		t += x
	}
	return t
}

func (f *ctlFont) getWidths() []int { return f.widths }

func ctlDeep(h *ctlHead, d int) {
	if d > 0 {
		ctlDeep(h, d-1)
		return
	}
	h.n = 0
}

func (f *ctlFont) ctlROBadField()               { f.n = 1 }
func (f *ctlFont) ctlROBadNested()              { f.head.n = 1 }
func (f *ctlFont) ctlROBadElem()                { f.widths[0] = 1 }
func (f *ctlFont) ctlROBadLocalAlias()          { w := f.widths; w[0] = 1 }
func (f *ctlFont) ctlROBadHelper()              { ctlSetFirst(f.widths) }
func (f *ctlFont) ctlROBadSubMethod()           { f.head.bump() }
func (f *ctlFont) ctlROBadInterface()           { var s ctlSetter = f.head; s.Set(1) }
func (f *ctlFont) ctlROBadClosure()             { func() { f.n++ }() }
func (f *ctlFont) ctlROBadMethodValue()         { g := f.head.bump; g() }
func (f *ctlFont) ctlROBadAppendInPlace() []int { return append(f.widths[:0], 1) }
func (f *ctlFont) ctlROBadSort()                { sort.Ints(f.widths) }
func (f *ctlFont) ctlROBadCopy(o []int)         { copy(f.widths, o) }
func (f *ctlFont) ctlROBadMapWrite()            { f.names["a"] = 1 }
func (f *ctlFont) ctlROBadMapDelete()           { delete(f.names, "a") }
func (f *ctlFont) ctlROBadHolder()              { t := &ctlHolder{w: f.widths}; t.w[0] = 1 }
func (f *ctlFont) ctlROBadReturnedAlias()       { w := f.getWidths(); w[0] = 1 }
func (f *ctlFont) ctlROBadRangePtr() {
	for i := range f.glyphs {
		g := &f.glyphs[i]
		g.n = 1
	}
}
func (f *ctlFont) ctlROBadGo()    { go func() { f.n = 1 }() }
func (f *ctlFont) ctlROBadDefer() { defer f.head.bump() }
func (f *ctlFont) ctlROBadLazyInit() []int {
	if f.cache == nil {
		f.cache = make([]int, 4)
	}
	return f.cache
}
func (f *ctlFont) ctlROBadSortSlice() {
	sort.Slice(f.glyphs, func(i, j int) bool { return f.glyphs[i].n < f.glyphs[j].n })
}
func (f *ctlFont) ctlROBadStructCopy() { c := *f; c.head.n = 1 }
func (f *ctlFont) ctlROBadPhi(cond bool) {
	p := &ctlHead{}
	if cond {
		p = f.head
	}
	p.n = 1
}
func (f *ctlFont) ctlROBadArrayPtr(i int) { f.ptrs[i&3].n = 1 }
func (f *ctlFont) ctlROBadBuffer()        { f.buf.WriteByte(1) }
func (f *ctlFont) ctlROBadSwap()          { f.widths[0], f.widths[1] = f.widths[1], f.widths[0] }
func (f *ctlFont) ctlROBadRecursive()     { ctlDeep(f.head, 3) }
func (f *ctlFont) ctlROBadReslice()       { f.widths = f.widths[:1] }
func (f *ctlFont) ctlROBadStringField()   { f.glyphs[0].name = "x" }

func (f *ctlFont) ctlROGoodSum() int { return ctlSum(f.widths) + f.n + f.head.n }
func (f *ctlFont) ctlROGoodClone() []int {
	w := append([]int(nil), f.widths...)
	w[0] = 1
	sort.Ints(w)
	return w
}
func (f *ctlFont) ctlROGoodValueCopy() int { h := *f.head; h.n = 1; return h.n }
func (f *ctlFont) ctlROGoodNew() *ctlHead  { return &ctlHead{n: f.head.n + 1} }
func (f *ctlFont) ctlROGoodLocalMap() map[int]string {
	m := map[int]string{}
	for _, g := range f.glyphs {
		m[g.n] = g.name
	}
	return m
}
func (f *ctlFont) ctlROGoodClosure() int {
	get := func() int { return f.n }
	return get()
}
func (f *ctlFont) ctlROGoodInterface() int { var g ctlGetter = f.head; return g.Get() }
func (f *ctlFont) ctlROGoodFresh() []ctlGlyph {
	var out []ctlGlyph
	for _, g := range f.glyphs {
		g.n++
		out = append(out, g)
	}
	return out
}

// CtlROUse keeps the examples reachable.
func CtlROUse(f *ctlFont, o []int) int {
	f.ctlROBadField()
	f.ctlROBadNested()
	f.ctlROBadElem()
	f.ctlROBadLocalAlias()
	f.ctlROBadHelper()
	f.ctlROBadSubMethod()
	f.ctlROBadInterface()
	f.ctlROBadClosure()
	f.ctlROBadMethodValue()
	_ = f.ctlROBadAppendInPlace()
	f.ctlROBadSort()
	f.ctlROBadCopy(o)
	f.ctlROBadMapWrite()
	f.ctlROBadMapDelete()
	f.ctlROBadHolder()
	f.ctlROBadReturnedAlias()
	f.ctlROBadRangePtr()
	f.ctlROBadGo()
	f.ctlROBadDefer()
	_ = f.ctlROBadLazyInit()
	f.ctlROBadSortSlice()
	f.ctlROBadStructCopy()
	f.ctlROBadPhi(true)
	f.ctlROBadArrayPtr(1)
	f.ctlROBadBuffer()
	f.ctlROBadSwap()
	f.ctlROBadRecursive()
	f.ctlROBadReslice()
	f.ctlROBadStringField()
	t := f.ctlROGoodSum() + len(f.ctlROGoodClone()) + f.ctlROGoodValueCopy() + f.ctlROGoodNew().n
	t += len(f.ctlROGoodLocalMap()) + f.ctlROGoodClosure() + f.ctlROGoodInterface() + len(f.ctlROGoodFresh())
	return t
}
