package verifcontrols

// Controls for the allocation-bound rule (allocbound).  Every ctlAllocBad*
// function allocates an amount that the input can make arbitrarily large
// relative to its own size; every ctlAllocGood* function allocates a
// bounded amount or one proportional to data already in memory.

func ctlAllocBadCount32(data []byte) []uint16 {
	if len(data) < 4 {
		return nil
	}
	n := int(data[0])<<24 | int(data[1])<<16 | int(data[2])<<8 | int(data[3])
	return make([]uint16, n)
}

func ctlAllocBadProduct(data []byte) []byte {
	if len(data) < 4 {
		return nil
	}
	rows := int(data[0])<<8 | int(data[1])
	cols := int(data[2])<<8 | int(data[3])
	return make([]byte, rows*cols) // up to 2^32
}

func ctlAllocBadMap(data []byte) map[int]int {
	if len(data) < 4 {
		return nil
	}
	n := int(data[0])<<24 | int(data[1])<<16 | int(data[2])<<8 | int(data[3])
	return make(map[int]int, n)
}

func ctlAllocBadWrongGuard(data []byte) []uint16 {
	if len(data) < 4 {
		return nil
	}
	n := int(data[0])<<24 | int(data[1])<<16 | int(data[2])<<8 | int(data[3])
	m := int(data[0])
	if m > len(data) { // tests another value
		return nil
	}
	return make([]uint16, n)
}

func ctlAllocGoodCount16(data []byte) []uint16 {
	if len(data) < 2 {
		return nil
	}
	n := int(data[0])<<8 | int(data[1])
	return make([]uint16, n)
}

func ctlAllocGoodProportional(data []byte) []uint16 {
	if len(data) < 4 {
		return nil
	}
	n := int(data[0])<<24 | int(data[1])<<16 | int(data[2])<<8 | int(data[3])
	if n < 0 || 2*n > len(data)-4 {
		return nil
	}
	return make([]uint16, n)
}

func ctlAllocGoodLen(data []byte) []byte { return make([]byte, len(data)) }

// CtlAllocUse keeps the examples reachable.
func CtlAllocUse(data []byte) int {
	return len(ctlAllocBadCount32(data)) + len(ctlAllocBadProduct(data)) + len(ctlAllocBadMap(data)) + len(ctlAllocBadWrongGuard(data)) +
		len(ctlAllocGoodCount16(data)) + len(ctlAllocGoodProportional(data)) + len(ctlAllocGoodLen(data))
}
