package verifcontrols

// Controls for the narrowing-conversion rule (lossless).  Every
// ctlNarrowBad* function contains a narrowing conversion that can change the
// value for some input although the code around it resembles an accepted
// idiom; every ctlNarrowGood* function cannot lose anything.  Nothing here is
// executed.

// the guard tests a different variable
func ctlNarrowBadOtherVar(buf []byte, n, m int) []byte {
	if m > 0xFFFF {
		panic("too large")
	}
	return append(buf, byte(n>>8), byte(n))
}

func ctlNarrowGoodGuard(buf []byte, n int) []byte {
	if n < 0 || n > 0xFFFF {
		panic("too large")
	}
	return append(buf, byte(n>>8), byte(n))
}

// the guard comes after the bytes are written but does not stop the function
func ctlNarrowBadLateNoStop(buf []byte, n int) ([]byte, bool) {
	buf = append(buf, byte(n>>8), byte(n))
	ok := n <= 0xFFFF
	return buf, ok
}

// off by one: 0x10000 passes
func ctlNarrowBadOffByOne(buf []byte, n int) []byte {
	if n < 0 || n > 0x10000 {
		panic("too large")
	}
	return append(buf, byte(n>>8), byte(n))
}

// pieces do not cover the source: the top 16 bits of a uint32 are dropped
func ctlNarrowBadMissingPieces(buf []byte, v uint32) []byte {
	return append(buf, byte(v>>8), byte(v))
}

func ctlNarrowGoodAllPieces(buf []byte, v uint32) []byte {
	return append(buf, byte(v>>24), byte(v>>16), byte(v>>8), byte(v))
}

// a sum of two 16-bit values needs 17 bits
func ctlNarrowBadSum(a, b uint16) uint16 {
	return uint16(int(a) + int(b))
}

func ctlNarrowGoodHalfSum(a, b uint16) uint16 {
	return uint16((int(a) + int(b)) / 2)
}

// negative values: only the upper bound is tested
func ctlNarrowBadNegative(n int) uint16 {
	if n > 0xFFFF {
		return 0xFFFF
	}
	return uint16(n)
}

func ctlNarrowGoodClamp(n int) uint16 {
	if n > 0xFFFF {
		return 0xFFFF
	}
	if n < 0 {
		return 0
	}
	return uint16(n)
}

// a length: non-negative but unbounded
func ctlNarrowBadLen(s []byte) uint16 { return uint16(len(s)) }

func ctlNarrowGoodLen(s []byte) uint16 {
	if len(s) > 65535 {
		panic("too long")
	}
	return uint16(len(s))
}

// the accumulator is tested before the last addition
func ctlNarrowBadEarlyTest(parts [][]byte) uint16 {
	total := 0
	for _, p := range parts {
		if total > 0xFFFF {
			panic("too large")
		}
		total += len(p)
	}
	return uint16(total)
}

func ctlNarrowGoodLateTest(parts [][]byte) uint16 {
	total := 0
	for _, p := range parts {
		total += len(p)
	}
	if total > 0xFFFF {
		panic("too large")
	}
	return uint16(total)
}

// signed target: 0x8000..0xFFFF do not fit int16
func ctlNarrowBadSigned(n int) int16 {
	if n < 0 || n > 0xFFFF {
		panic("range")
	}
	return int16(n)
}

func ctlNarrowGoodSigned(n int) int16 {
	if n < -0x8000 || n > 0x7FFF {
		panic("range")
	}
	return int16(n)
}

// masking makes the low piece fit, the high piece is simply dropped
func ctlNarrowBadMaskOnly(n int) byte { return byte(n & 0x1FF) }

func ctlNarrowGoodMask(n int) byte { return byte(n & 0xFF) }

// the guard is on one path into the join only
func ctlNarrowBadJoin(n int, trusted bool) uint16 {
	if !trusted {
		if n < 0 || n > 0xFFFF {
			panic("range")
		}
	}
	return uint16(n)
}

// a product of two bounded values is not bounded by either
func ctlNarrowBadProduct(a, b uint8) uint8 { return uint8(int(a) * int(b)) }

// CtlNarrowUse keeps the examples reachable.
func CtlNarrowUse(buf []byte, n int, parts [][]byte) int {
	buf = ctlNarrowBadOtherVar(buf, n, n)
	buf = ctlNarrowGoodGuard(buf, n)
	buf, _ = ctlNarrowBadLateNoStop(buf, n)
	buf = ctlNarrowBadOffByOne(buf, n)
	buf = ctlNarrowBadMissingPieces(buf, 7)
	buf = ctlNarrowGoodAllPieces(buf, 7)
	t := int(ctlNarrowBadSum(1, 2)) + int(ctlNarrowGoodHalfSum(1, 2)) + int(ctlNarrowBadNegative(n)) + int(ctlNarrowGoodClamp(n))
	t += int(ctlNarrowBadLen(buf)) + int(ctlNarrowGoodLen(buf)) + int(ctlNarrowBadEarlyTest(parts)) + int(ctlNarrowGoodLateTest(parts))
	t += int(ctlNarrowBadSigned(n)) + int(ctlNarrowGoodSigned(n)) + int(ctlNarrowBadMaskOnly(n)) + int(ctlNarrowGoodMask(n))
	t += int(ctlNarrowBadJoin(n, true)) + int(ctlNarrowBadProduct(3, 4))
	return t + len(buf)
}
