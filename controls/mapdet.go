package verifcontrols

import (
	"fmt"
	"io"
	"sort"
	"strings"
)

// Controls for the order-sensitivity analysis (rule mapdet).  The result of
// every ctlMapBad* function can depend on map iteration order and must be
// reported; every ctlMapGood* function is order-insensitive and must pass.
// Nothing here is executed.

type ctlPair struct {
	a, b int
}

func ctlMapBadCollect(m map[string]int) []string {
	var out []string
	for k := range m {
		out = append(out, k)
	}
	return out
}

func ctlMapBadFirst(m map[string]int) string {
	for k := range m {
		return k
	}
	return ""
}

func ctlMapBadLastWriter(m map[string]int) int {
	res := 0
	for _, v := range m {
		res = v
	}
	return res
}

func ctlMapBadConcat(m map[string]int) string {
	s := ""
	for k := range m {
		s += k
	}
	return s
}

func ctlMapBadFloatSum(m map[string]float64) float64 {
	t := 0.0
	for _, v := range m {
		t += v
	}
	return t
}

func ctlMapBadPartialOrder(m map[ctlPair]int) []ctlPair {
	var out []ctlPair
	for k := range m {
		out = append(out, k)
	}
	sort.Slice(out, func(i, j int) bool { return out[i].a < out[j].a })
	return out
}

func ctlMapBadConditionalSort(m map[string]int) []string {
	var out []string
	for k := range m {
		out = append(out, k)
	}
	if len(out) > 10 {
		sort.Strings(out)
	}
	return out
}

func ctlMapBadWrite(w io.Writer, m map[string]int) {
	for k, v := range m {
		fmt.Fprintf(w, "%s=%d\n", k, v)
	}
}

func ctlMapBadCollide(m map[string]int) [4]string {
	var out [4]string
	for k, v := range m {
		out[v&3] = k
	}
	return out
}

func ctlMapBadBreak(m map[string]int) string {
	found := ""
	for k, v := range m {
		if v > 10 {
			found = k
			break
		}
	}
	return found
}

func ctlMapBadArgMin(m map[string]int) string {
	best, bestK := 1<<30, ""
	for k, v := range m {
		if v < best {
			best = v
			bestK = k
		}
	}
	return bestK
}

func ctlMapBadNumbering(m map[string]int) map[string]int {
	id := map[string]int{}
	next := 0
	for k := range m {
		id[k] = next
		next++
	}
	return id
}

func ctlMapBadBuilder(m map[string]int) string {
	var sb strings.Builder
	for k := range m {
		sb.WriteString(k)
	}
	return sb.String()
}

func ctlMapBadSortValues(m map[string]int) []string {
	// sorted by value only: keys with equal values stay in map order
	type kv struct {
		k string
		v int
	}
	var out []kv
	for k, v := range m {
		out = append(out, kv{k, v})
	}
	sort.Slice(out, func(i, j int) bool { return out[i].v < out[j].v })
	var res []string
	for _, e := range out {
		res = append(res, e.k)
	}
	return res
}

func ctlMapGoodSum(m map[string]int) int {
	t := 0
	for _, v := range m {
		t += v
	}
	return t
}

func ctlMapGoodKeyed(m map[string]int) map[string]int {
	out := map[string]int{}
	for k, v := range m {
		out[k] = v * 2
	}
	return out
}

func ctlMapGoodSorted(m map[string]int) []string {
	var out []string
	for k := range m {
		out = append(out, k)
	}
	sort.Strings(out)
	return out
}

func ctlMapGoodMax(m map[string]int) int {
	best := 0
	for _, v := range m {
		if v > best {
			best = v
		}
	}
	return best
}

func ctlMapGoodCount(m map[string]int) int {
	n := 0
	for _, v := range m {
		if v > 3 {
			n++
		}
	}
	return n
}

func ctlMapGoodSet(m map[string]int) map[int]bool {
	seen := map[int]bool{}
	for _, v := range m {
		seen[v] = true
	}
	return seen
}

func ctlMapGoodFullOrder(m map[ctlPair]int) []ctlPair {
	var out []ctlPair
	for k := range m {
		out = append(out, k)
	}
	sort.Slice(out, func(i, j int) bool {
		if out[i].a != out[j].a {
			return out[i].a < out[j].a
		}
		return out[i].b < out[j].b
	})
	return out
}

func ctlMapGoodAny(m map[string]int) bool {
	found := false
	for _, v := range m {
		if v > 10 {
			found = true
		}
	}
	return found
}

func ctlMapBadNestedFlatten(m map[string]map[string]int) []string {
	var outer []string
	for k := range m {
		outer = append(outer, k)
	}
	sort.Strings(outer)
	var out []string
	for _, k := range outer {
		for k2 := range m[k] { // inner order unspecified
			out = append(out, k+k2)
		}
	}
	return out
}

func ctlMapBadChannel(m map[string]int, ch chan<- string) {
	for k := range m {
		ch <- k
	}
}

func ctlMapBadDeleteSome(m map[string]int) int {
	for k := range m {
		delete(m, k)
		if len(m) < 3 {
			break
		}
	}
	t := 0
	for _, v := range m {
		t += v
	}
	return t
}

func ctlMapGoodDeleteAll(m map[string]int) {
	for k := range m {
		delete(m, k)
	}
}

// CtlMapUse keeps the examples reachable.
func CtlMapUse(w io.Writer, m map[string]int, f map[string]float64, p map[ctlPair]int) int {
	t := len(ctlMapBadCollect(m)) + len(ctlMapBadFirst(m)) + ctlMapBadLastWriter(m) + len(ctlMapBadConcat(m)) + int(ctlMapBadFloatSum(f))
	t += len(ctlMapBadPartialOrder(p)) + len(ctlMapBadConditionalSort(m)) + len(ctlMapBadCollide(m)) + len(ctlMapBadBreak(m)) + len(ctlMapBadArgMin(m))
	t += len(ctlMapBadNumbering(m)) + len(ctlMapBadBuilder(m)) + len(ctlMapBadSortValues(m))
	ctlMapBadWrite(w, m)
	t += len(ctlMapBadNestedFlatten(nil)) + ctlMapBadDeleteSome(m)
	ctlMapBadChannel(m, nil)
	ctlMapGoodDeleteAll(m)
	t += ctlMapGoodSum(m) + len(ctlMapGoodKeyed(m)) + len(ctlMapGoodSorted(m)) + ctlMapGoodMax(m) + ctlMapGoodCount(m) + len(ctlMapGoodSet(m)) + len(ctlMapGoodFullOrder(p))
	if ctlMapGoodAny(m) {
		t++
	}
	return t
}
