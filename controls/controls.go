// Package verifcontrols holds tiny must-fire examples for rules of the
// static checker whose expected number of findings on the library is zero.
// Each function violates exactly one rule; the checker analyses this
// package on every run and fails if a rule stays silent here.  Nothing in
// this package is ever executed.
package verifcontrols

// ---- slicealias: two live slices share a backing array and both grow.
func ctlSliceAlias(xs []int, n int) ([]int, []int) {
	a := make([]int, 0, 16)
	a = append(a, xs...)
	b := a[:0]
	for i := 0; i < n; i++ {
		a = append(a, i)
		b = append(b, -i)
	}
	return a, b
}

// ---- narrowarith: a count is multiplied in uint16 before it is widened.
func ctlNarrowArith(count, size uint16, data []byte) []byte {
	n := count * size
	return data[:int(n)]
}

// ---- memokey: a cache keyed by one field of the argument holds a value
// that keeps the whole argument.
type ctlMeta struct {
	Flags uint16
	Set   uint16
}

type ctlFilter struct {
	meta *ctlMeta
}

func newCtlFilter(m *ctlMeta) *ctlFilter { return &ctlFilter{meta: m} }

type ctlContext struct {
	cache map[uint16]*ctlFilter
}

func (c *ctlContext) filter(m *ctlMeta) *ctlFilter {
	if f, ok := c.cache[m.Flags]; ok {
		return f
	}
	f := newCtlFilter(m)
	if c.cache == nil {
		c.cache = make(map[uint16]*ctlFilter)
	}
	c.cache[m.Flags] = f
	return f
}

// ---- reusekey: an existing filter is reused when one field of the two
// descriptions agrees, although the filter keeps the whole description.
func (c *ctlContext) reuse(prev *ctlFilter, prevMeta, m *ctlMeta) *ctlFilter {
	f := prev
	if m.Flags != prevMeta.Flags {
		f = newCtlFilter(m)
	}
	return f
}

// ---- loopalias: one map for all elements.
func ctlLoopAlias(n int) []map[string]int {
	out := make([]map[string]int, n)
	m := map[string]int{}
	for i := range out {
		m["i"] = i
		out[i] = m
	}
	return out
}

// ---- cacheinputs: a per-loop cache keyed by the storage location although
// the value also depends on the record's kind.
func ctlCacheInputs(data []byte, n int) []string {
	type loc struct{ off, length int }
	seen := make(map[loc]string)
	var out []string
	for i := 0; i < n; i++ {
		kind := data[4*i]
		off := int(data[4*i+1])
		length := int(data[4*i+2])
		k := loc{off, length}
		val, ok := seen[k]
		if !ok {
			if kind == 1 {
				val = string(data[off : off+length])
			} else {
				val = "?"
			}
			seen[k] = val
		}
		out = append(out, val)
	}
	return out
}

// ---- worklist: a range loop appends to the slice it ranges over.
type ctlClosure struct {
	items []int
}

func (c *ctlClosure) close(next func(int) []int) {
	for _, x := range c.items {
		c.items = append(c.items, next(x)...)
	}
}

// CtlUse keeps the unexported examples reachable for the analyser.
func CtlUse(m *ctlMeta, xs []int, data []byte) (*ctlFilter, []int, []byte) {
	c := &ctlContext{}
	a, _ := ctlSliceAlias(xs, 3)
	_ = ctlCacheInputs(data, 1)
	_ = ctlLoopAlias(2)
	_ = c.reuse(nil, m, m)
	(&ctlClosure{}).close(func(int) []int { return nil })
	return c.filter(m), a, ctlNarrowArith(2, 3, data)
}

// ---- flagreduce: the last element alone decides.
func ctlFlagReduce(xs []int) bool {
	needs := false
	for _, x := range xs {
		needs = x > 3
	}
	return needs
}

// ---- narrowsucc: run detection with a 16-bit successor; the start sentinel
// 0xFFFF makes glyph 0 look like a continuation.
func ctlSuccTest(gids []uint16) int {
	runs := 0
	prev := uint16(0xFFFF)
	for _, g := range gids {
		if g != prev+1 {
			runs++
		}
		prev = g
	}
	return runs
}

// the safe twins: widened before the addition; guarded below the maximum
func ctlSuccTestWide(gids []uint16) int {
	runs := 0
	prev := 0xFFFF
	for _, g := range gids {
		if int(g) != prev+1 {
			runs++
		}
		prev = int(g)
	}
	return runs
}

func ctlSuccTestGuard(a, b uint16) bool {
	if a == 0xFFFF {
		return false
	}
	return b == a+1
}

// ---- narrowbound: a count computed in 16 bits (65536 becomes 0) and used
// as a loop bound.
func ctlWrapBound(lo, hi uint16, out []byte) []byte {
	count := hi - lo + 1
	for i := 0; i < int(count); i++ {
		out = append(out, 0)
	}
	return out
}

// the safe twin: the sum is shown to fit
func ctlWrapBoundOK(first, n uint8, out []byte) []byte {
	if int(first)+int(n) > 255 {
		return out
	}
	for j := int(first); j <= int(first+n); j++ {
		out = append(out, 0)
	}
	return out
}

// ---- iterfresh (scalar sibling): the scratch slice is reset per group, the
// "default" pointer that belongs to the same group is not.
type ctlIterRec struct{ tag string }

func ctlIterScalar(groups [][]string) int {
	n := 0
	var def *ctlIterRec
	var recs []*ctlIterRec
	for _, g := range groups {
		recs = recs[:0]
		for _, t := range g {
			if t == "" {
				def = &ctlIterRec{}
				continue
			}
			recs = append(recs, &ctlIterRec{tag: t})
		}
		if def != nil {
			n++
		}
		n += len(recs)
	}
	return n
}

// the safe twin: both are reset
func ctlIterScalarOK(groups [][]string) int {
	n := 0
	var def *ctlIterRec
	var recs []*ctlIterRec
	for _, g := range groups {
		recs = recs[:0]
		def = nil
		for _, t := range g {
			if t == "" {
				def = &ctlIterRec{}
				continue
			}
			recs = append(recs, &ctlIterRec{tag: t})
		}
		if def != nil {
			n++
		}
		n += len(recs)
	}
	return n
}

// ---- stalecopy: the range copy is read after the element was updated
type ctlRule struct {
	missing int
	glyphs  []int
}

func ctlStaleCopy(rules []ctlRule, have map[int]bool) bool {
	again := false
	for i, r := range rules {
		for _, g := range r.glyphs {
			if have[g] {
				rules[i].missing--
			}
		}
		if r.missing == 0 {
			again = true
		}
	}
	return again
}

func ctlStaleCopyOK(rules []ctlRule, have map[int]bool) bool {
	again := false
	for i, r := range rules {
		for _, g := range r.glyphs {
			if have[g] {
				rules[i].missing--
			}
		}
		if rules[i].missing == 0 {
			again = true
		}
	}
	return again
}

// CtlUse2 keeps further examples reachable.
func CtlUse2(xs []int) bool {
	_ = ctlSuccTest(nil) + ctlSuccTestWide(nil)
	_ = ctlSuccTestGuard(1, 2)
	_ = ctlStaleCopy(nil, nil) || ctlStaleCopyOK(nil, nil)
	_ = ctlIterScalar(nil) + ctlIterScalarOK(nil)
	_ = ctlWrapBoundOK(1, 2, ctlWrapBound(1, 2, nil))
	return ctlFlagReduce(xs)
}

// ---- rangecopy: an update made to the per-iteration copy of a struct element

// must fire: the decrement lands on the copy
func ctlRangeCopyBad(rules []ctlRule, added map[int]bool) bool {
	run := false
	for _, r := range rules {
		for _, in := range r.glyphs {
			if added[in] {
				r.missing--
			}
		}
		if r.missing == 0 {
			run = true
		}
	}
	return run
}

// must stay silent: the copy is stored back
func ctlRangeCopyGood(rules []ctlRule, added map[int]bool) {
	for i, r := range rules {
		for _, in := range r.glyphs {
			if added[in] {
				r.missing--
			}
		}
		rules[i] = r
	}
}

// ---- extremumlocal: a running maximum that starts at zero

// must fire: right stays 0 when every x is negative
func ctlExtremumLocalBad(xs []float64) (float64, float64) {
	var left, right float64
	first := true
	for _, x := range xs {
		if first {
			left = x
			first = false
		}
		left, right = min(left, x), max(right, x)
	}
	return left, right
}

// must stay silent
func ctlExtremumLocalGood(xs []float64) (float64, float64) {
	var left, right float64
	first := true
	for _, x := range xs {
		if first || x < left {
			left = x
		}
		if first || x > right {
			right = x
		}
		first = false
	}
	return left, right
}
