package verifcontrols

// Controls for the size-agreement rule (sizeagree).  For every ctlSzBad*
// type encodeLen and encode disagree for some value; for every ctlSzGood*
// type they agree for all values.  Nothing here is executed.

type ctlSzGoodFlat struct {
	items []uint16
	tail  []byte
}

func (t *ctlSzGoodFlat) encodeLen() int { return 4 + 2*len(t.items) + len(t.tail) }
func (t *ctlSzGoodFlat) encode() []byte {
	var buf []byte
	buf = append(buf, 0, 1, byte(len(t.items)>>8), byte(len(t.items)))
	for _, x := range t.items {
		buf = append(buf, byte(x>>8), byte(x))
	}
	buf = append(buf, t.tail...)
	return buf
}

type ctlSzBadHeader struct{ items []uint16 }

func (t *ctlSzBadHeader) encodeLen() int { return 4 + 2*len(t.items) }
func (t *ctlSzBadHeader) encode() []byte {
	var buf []byte
	buf = append(buf, 0, byte(len(t.items)>>8), byte(len(t.items))) // 3 bytes
	for _, x := range t.items {
		buf = append(buf, byte(x>>8), byte(x))
	}
	return buf
}

type ctlSzBadStride struct{ items []uint16 }

func (t *ctlSzBadStride) encodeLen() int { return 2 + 4*len(t.items) }
func (t *ctlSzBadStride) encode() []byte {
	var buf []byte
	buf = append(buf, byte(len(t.items)>>8), byte(len(t.items)))
	for _, x := range t.items {
		buf = append(buf, byte(x>>8), byte(x))
	}
	return buf
}

type ctlSzBadOptional struct {
	items []uint16
	flag  bool
	extra uint16
}

func (t *ctlSzBadOptional) encodeLen() int { return 2 + 2*len(t.items) }
func (t *ctlSzBadOptional) encode() []byte {
	var buf []byte
	buf = append(buf, byte(len(t.items)>>8), byte(len(t.items)))
	for _, x := range t.items {
		buf = append(buf, byte(x>>8), byte(x))
	}
	if t.flag {
		buf = append(buf, byte(t.extra>>8), byte(t.extra))
	}
	return buf
}

type ctlSzGoodOptional struct {
	items []uint16
	flag  bool
	extra uint16
}

func (t *ctlSzGoodOptional) encodeLen() int {
	n := 2 + 2*len(t.items)
	if t.flag {
		n += 2
	}
	return n
}
func (t *ctlSzGoodOptional) encode() []byte {
	var buf []byte
	buf = append(buf, byte(len(t.items)>>8), byte(len(t.items)))
	for _, x := range t.items {
		buf = append(buf, byte(x>>8), byte(x))
	}
	if t.flag {
		buf = append(buf, byte(t.extra>>8), byte(t.extra))
	}
	return buf
}

type ctlSzBadOtherSlice struct {
	a, b []uint16
}

func (t *ctlSzBadOtherSlice) encodeLen() int { return 2 * len(t.a) }
func (t *ctlSzBadOtherSlice) encode() []byte {
	var buf []byte
	for _, x := range t.b {
		buf = append(buf, byte(x>>8), byte(x))
	}
	return buf
}

type ctlSzBadPadding struct{ data []byte }

func (t *ctlSzBadPadding) encodeLen() int { return 2 + len(t.data) }
func (t *ctlSzBadPadding) encode() []byte {
	var buf []byte
	buf = append(buf, byte(len(t.data)>>8), byte(len(t.data)))
	buf = append(buf, t.data...)
	if len(t.data)%2 != 0 {
		buf = append(buf, 0)
	}
	return buf
}

type ctlSzBadNested struct{ kids []*ctlSzGoodFlat }

func (t *ctlSzBadNested) encodeLen() int {
	n := 2
	for _, k := range t.kids {
		n += k.encodeLen()
	}
	return n
}
func (t *ctlSzBadNested) encode() []byte {
	var buf []byte
	buf = append(buf, byte(len(t.kids)>>8), byte(len(t.kids)))
	for i, k := range t.kids {
		if i == 0 {
			continue // the first child is left out
		}
		buf = append(buf, k.encode()...)
	}
	return buf
}

type ctlSzGoodNested struct{ kids []*ctlSzGoodFlat }

func (t *ctlSzGoodNested) encodeLen() int {
	n := 2
	for _, k := range t.kids {
		n += k.encodeLen()
	}
	return n
}
func (t *ctlSzGoodNested) encode() []byte {
	var buf []byte
	buf = append(buf, byte(len(t.kids)>>8), byte(len(t.kids)))
	for _, k := range t.kids {
		buf = append(buf, k.encode()...)
	}
	return buf
}

// CtlSzUse keeps the examples reachable.
func CtlSzUse() int {
	n := len((&ctlSzGoodFlat{}).encode()) + len((&ctlSzBadHeader{}).encode()) + len((&ctlSzBadStride{}).encode())
	n += len((&ctlSzBadOptional{}).encode()) + len((&ctlSzGoodOptional{}).encode()) + len((&ctlSzBadOtherSlice{}).encode())
	n += len((&ctlSzBadPadding{}).encode()) + len((&ctlSzBadNested{}).encode()) + len((&ctlSzGoodNested{}).encode())
	return n
}
