package verifcontrols

// Controls for the termination rule (loopterm).  Every ctlLoopBad* function
// contains a loop that does not terminate for some input (or whose
// termination depends on the shape of heap data); every ctlLoopGood* function
// terminates for all inputs.  Nothing here is executed.

type ctlNode struct {
	next     *ctlNode
	children []*ctlNode
}

func ctlLoopBadStep(n, step int) int {
	t := 0
	for i := 0; i < n; i += step { // step may be 0 or negative
		t++
	}
	return t
}

func ctlLoopBadContinue(s []byte) int {
	t := 0
	for len(s) > 0 {
		if s[0] == 0 {
			continue // no progress
		}
		s = s[1:]
		t++
	}
	return t
}

func ctlLoopBadNotEqual(n int) int {
	t := 0
	for i := 0; i != n; i += 2 { // odd or negative n
		t++
	}
	return t
}

func ctlLoopBadWrap16(n int) int {
	t := 0
	for i := uint16(0); int(i) < n; i++ { // n > 65535: i wraps
		t++
	}
	return t
}

func ctlLoopBadWrapLE() int {
	t := 0
	for i := uint16(0); i <= 0xFFFF; i++ { // always true
		t++
	}
	return t
}

func ctlLoopBadStepBack(s []byte) int {
	t := 0
	for i := 0; i < len(s); i++ {
		if s[i] == 0 {
			i-- // undoes the increment
		}
		t++
	}
	return t
}

func ctlLoopBadMovingBound(n int) int {
	t := 0
	for i := 0; i < n; i++ {
		n++
		t++
	}
	return t
}

func ctlLoopBadList(p *ctlNode) int {
	t := 0
	for p != nil { // a cyclic list never ends
		p = p.next
		t++
	}
	return t
}

func ctlLoopBadWorklist(root *ctlNode) int {
	t := 0
	work := []*ctlNode{root}
	for len(work) > 0 {
		w := work[0]
		work = work[1:]
		work = append(work, w.children...) // a cyclic graph refills the list for ever
		t++
	}
	return t
}

func ctlLoopBadEither(n int, flags []bool) int {
	i, j := 0, 0
	for i < n {
		if j < len(flags) && flags[j] {
			i++
		} else {
			j++
		}
	}
	return j
}

func ctlLoopBadUnsignedDown(n uint) int {
	t := 0
	for i := n; i >= 0; i-- { // always true
		t++
		if t < 0 {
			return t
		}
	}
	return t
}

func ctlLoopBadGrowing(s []byte) int {
	for i := 0; i < len(s); i++ {
		s = append(s, s[i])
	}
	return len(s)
}

func ctlLoopGoodCount(n int) int {
	t := 0
	for i := 0; i < n; i++ {
		t++
	}
	return t
}

func ctlLoopGoodRange(s []byte) int {
	t := 0
	for _, b := range s {
		t += int(b)
	}
	return t
}

func ctlLoopGoodShrink(s []byte) int {
	t := 0
	for len(s) > 0 {
		s = s[1:]
		t++
	}
	return t
}

func ctlLoopGoodDown(n int) int {
	t := 0
	for i := n; i > 0; i-- {
		t++
	}
	return t
}

func ctlLoopGoodStep2(n int) int {
	t := 0
	for i := 0; i < n; i += 2 {
		t++
	}
	return t
}

func (b *ctlBuf) grow() { b.n++ }

func ctlLoopBadShrinkZero(s []byte) int {
	t := 0
	for len(s) > 0 {
		n := int(s[0]) // may be 0
		if n > len(s) {
			return t
		}
		s = s[n:]
		t++
	}
	return t
}

func ctlLoopBadShrinkMaybe(s []byte) int {
	t := 0
	for len(s) > 0 {
		if s[0] > 3 {
			s = s[1:]
		}
		t++
	}
	return t
}

func ctlLoopGoodShrinkAtLeastOne(s []byte) int {
	t := 0
	for len(s) > 0 {
		n := int(s[0])
		if n+1 > len(s) {
			return t
		}
		s = s[n+1:]
		t++
	}
	return t
}

func ctlLoopBadReset(n int, again []bool) int {
	t := 0
	for i := 0; i < n; i++ {
		if t < len(again) && again[t] {
			i = 0
		}
		t++
	}
	return t
}

func ctlLoopBadCallStep(n int, next func(int) int) int {
	t := 0
	for i := 0; i < n; i = next(i) {
		t++
	}
	return t
}

func ctlLoopBadFieldBound(b *ctlBuf) int {
	t := 0
	for i := 0; i < b.n; i++ {
		b.grow()
		t++
	}
	return t
}

func ctlLoopBadInnerMovesOuter(n int) int {
	t := 0
	for i := 0; i < n; i++ {
		for j := 0; j < 3; j++ {
			i-- // the inner loop pushes the outer counter back
			t++
		}
	}
	return t
}

// CtlLoopUse keeps the examples reachable.
func CtlLoopUse(s []byte, p *ctlNode, flags []bool) int {
	t := ctlLoopBadStep(3, 0) + ctlLoopBadContinue(s) + ctlLoopBadNotEqual(3) + ctlLoopBadWrap16(70000) + ctlLoopBadWrapLE()
	t += ctlLoopBadStepBack(s) + ctlLoopBadMovingBound(3) + ctlLoopBadList(p) + ctlLoopBadWorklist(p) + ctlLoopBadEither(3, flags)
	t += ctlLoopBadUnsignedDown(3) + ctlLoopBadGrowing(s)
	t += ctlLoopBadShrinkZero(s) + ctlLoopBadShrinkMaybe(s) + ctlLoopGoodShrinkAtLeastOne(s) + ctlLoopBadReset(3, flags) + ctlLoopBadCallStep(3, nil) + ctlLoopBadFieldBound(nil) + ctlLoopBadInnerMovesOuter(3)
	t += ctlLoopGoodCount(3) + ctlLoopGoodRange(s) + ctlLoopGoodShrink(s) + ctlLoopGoodDown(3) + ctlLoopGoodStep2(5)
	return t
}
