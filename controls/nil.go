package verifcontrols

import "errors"

// Controls for rule nilderef.  Every CtlNilBad* function dereferences a
// value that can be nil for some input; every CtlNilGood* function cannot.
// They are exported so that assumption A5 (arguments of the exported API are
// not nil) applies to their parameters, as it does in the library.

type ctlRec struct {
	n    int
	next *ctlRec
}

var errCtlNil = errors.New("ctl")

func ctlFind(m map[string]*ctlRec, k string) *ctlRec { return m[k] } // nil for a missing key

func ctlMake(n int) (*ctlRec, error) {
	if n < 0 {
		return nil, errCtlNil
	}
	return &ctlRec{n: n}, nil
}

func ctlMaybe(n int) (*ctlRec, error) {
	if n < 0 {
		return nil, errCtlNil
	}
	if n == 0 {
		return nil, nil // no error and no value
	}
	return &ctlRec{n: n}, nil
}

func CtlNilBadMapMiss(m map[string]*ctlRec) int { return m["a"].n }

func CtlNilBadHelperMiss(m map[string]*ctlRec) int { return ctlFind(m, "a").n }

func CtlNilBadIgnoredErr(n int) int {
	r, _ := ctlMake(n)
	return r.n
}

func CtlNilBadNilWithNilErr(n int) int {
	r, err := ctlMaybe(n)
	if err != nil {
		return 0
	}
	return r.n
}

func CtlNilBadChain(r *ctlRec) int { return r.next.n }

func CtlNilBadOnePath(r *ctlRec, ok bool) int {
	var p *ctlRec
	if ok {
		p = r
	}
	return p.n
}

func CtlNilBadNilMapWrite(k string) map[string]int {
	var m map[string]int
	m[k] = 1
	return m
}

func CtlNilBadNilFunc(n int) int {
	var f func(int) int
	if n > 3 {
		f = func(x int) int { return x + 1 }
	}
	return f(n)
}

func CtlNilBadAfterReset(r *ctlRec) int {
	p := r
	if p.n > 3 {
		p = nil
	}
	return p.n
}

func CtlNilBadTypedNilAssert(v interface{}) int {
	r, ok := v.(*ctlRec)
	if !ok {
		return 0
	}
	return r.n // a nil *ctlRec inside the interface passes the assertion
}

func CtlNilGoodChecked(m map[string]*ctlRec) int {
	if r := m["a"]; r != nil {
		return r.n
	}
	return 0
}

func CtlNilGoodErrChecked(n int) int {
	r, err := ctlMake(n)
	if err != nil {
		return 0
	}
	return r.n
}

func CtlNilGoodFresh(n int) int {
	r := &ctlRec{n: n}
	r.next = &ctlRec{}
	return r.next.n
}

func CtlNilGoodChainChecked(r *ctlRec) int {
	if r.next == nil {
		return 0
	}
	return r.next.n
}

func CtlNilGoodBothPaths(r *ctlRec, ok bool) int {
	p := &ctlRec{}
	if ok {
		p = r
	}
	return p.n
}

func CtlNilGoodMap(k string) map[string]int {
	m := map[string]int{}
	m[k] = 1
	return m
}
