package verifcontrols

import (
	"bytes"
	"encoding/binary"
	"fmt"
	"io"
)

// Controls for the error-flow rule (errdrop).  Every ctlErrBad* function
// loses the error of an I/O call on some path; every ctlErrGood* function
// reports it (or writes to memory only).  Nothing here is executed.

func ctlErrHelper(w io.Writer, b []byte) error {
	_, err := w.Write(b)
	return err
}

func ctlErrBadDiscard(w io.Writer, b []byte) {
	_, _ = w.Write(b)
}

func ctlErrBadTestedOnly(w io.Writer, b []byte) int {
	n := 0
	if _, err := w.Write(b); err != nil {
		n++
	}
	return n
}

func ctlErrBadOverwritten(w io.Writer, a, b []byte) error {
	_, err := w.Write(a)
	_, err = w.Write(b)
	return err
}

func ctlErrBadHelperIgnored(w io.Writer, b []byte) {
	ctlErrHelper(w, b)
}

func ctlErrBadGo(w io.Writer, b []byte) {
	go ctlErrHelper(w, b)
}

func ctlErrBadDefer(w io.Writer, b []byte) {
	defer ctlErrHelper(w, b)
}

func ctlErrBadBinary(w io.Writer, v uint32) {
	binary.Write(w, binary.BigEndian, v)
}

func ctlErrBadRead(r io.Reader, b []byte) int {
	n, _ := r.Read(b)
	return n
}

func ctlErrBadOnePath(w io.Writer, b []byte, quiet bool) error {
	_, err := w.Write(b)
	if quiet {
		return nil
	}
	return err
}

func ctlErrGoodReturn(w io.Writer, b []byte) error {
	_, err := w.Write(b)
	return err
}

func ctlErrGoodWrap(w io.Writer, b []byte) error {
	if _, err := w.Write(b); err != nil {
		return fmt.Errorf("write: %w", err)
	}
	return nil
}

func ctlErrGoodPanic(w io.Writer, b []byte) {
	if _, err := w.Write(b); err != nil {
		panic(err)
	}
}

func ctlErrGoodMemory(b []byte) []byte {
	var buf bytes.Buffer
	buf.Write(b)
	binary.Write(&buf, binary.BigEndian, uint32(1))
	return buf.Bytes()
}

func ctlErrGoodHelper(w io.Writer, b []byte) error {
	return ctlErrHelper(w, b)
}

// CtlErrUse keeps the examples reachable.
func CtlErrUse(w io.Writer, r io.Reader, b []byte) error {
	ctlErrBadDiscard(w, b)
	_ = ctlErrBadTestedOnly(w, b)
	_ = ctlErrBadOverwritten(w, b, b)
	ctlErrBadHelperIgnored(w, b)
	ctlErrBadGo(w, b)
	ctlErrBadDefer(w, b)
	ctlErrBadBinary(w, 1)
	_ = ctlErrBadRead(r, b)
	_ = ctlErrBadOnePath(w, b, true)
	_ = ctlErrGoodReturn(w, b)
	_ = ctlErrGoodWrap(w, b)
	ctlErrGoodPanic(w, b)
	_ = ctlErrGoodMemory(b)
	return ctlErrGoodHelper(w, b)
}
